/-
  T17 — TRANSLATOR TIE, cachelito-macros/src/lib.rs: the wrapper `#[cache]` generates (C01, C03, C09, C10, C11, C19)

  `checklib/rust2lean.py` EVALUATES the macro's small generator functions (`generate_insert_call`,
  `generate_cache_condition`, `generate_invalidation_check`) for each of the 16 configurations (max_memory present x Result
  return type x invalidate_on present x cache_if present), splices their token streams into the tail of the branch template
  of `generate_thread_local_branch` / `generate_global_branch`, and translates the resulting Rust block
  (`Generated/PureWrap.lean`, 32 definitions, regenerated from /repo's CURRENT source on every check).

  Part (a) below: in EVERY configuration and both scopes the generated wrapper is the one generic wrapper `wrapGen` —
  look the key up; on a hit return the cached value, unless `invalidate_on` is configured and calls it stale; on a miss or a
  stale hit take the body's value, hand it to the store variant that (max_memory, Result) select — only if `cache_if` is
  absent or accepts it — and return it.  Part (b): consequences for the properties (C09: with a Result return type an
  `Err` is never stored; C10: a rejected result is not stored, `cache_if` is consulted exactly on executions; C11: a
  stale hit is recomputed and refreshed).
-/
import Cachelito.Generated.PureWrap
import Cachelito.Props.T13
import Cachelito.Props.T12
import Cachelito.Props.T09
import Cachelito.Wrapper

set_option linter.unusedSimpArgs false
set_option linter.unusedVariables false
set_option linter.unusedSectionVars false

namespace Cachelito.T17
open Cachelito Cachelito.RustLite Cachelito.Generated Cachelito.Generated.Wrap

variable {K V F E T C : Type} [DecidableEq K]

/-- what the wrapper needs of an engine: the lookup and the store variant the configuration selects -/
structure EngineOps (C K V : Type) where
  get : C → K → Option V × C
  store : C → K → V → C

/-- THE generic wrapper -/
def wrapGen (ops : EngineOps C K V) (hasInv hasCi : Bool) (io ci : K → V → Bool) (c : C) (key : K) (body : V) : V × C :=
  let r := ops.get c key
  let miss (c : C) : V × C :=
    (body, if hasCi then (if ci key body then ops.store c key body else c) else ops.store c key body)
  match r.1 with
  | some cached => if hasInv then (if !(io key cached) then (cached, r.2) else miss r.2) else (cached, r.2)
  | none => miss r.2

/-! ## (a) every configuration is `wrapGen` -/

theorem wrapThread_0000_eq (A : F64 F) (clock : Clock) (size : V → Nat) (fuel : Nat) (rs : List Nat) (io ci : K → V → Bool)
    (c : ThreadCache K V F) (key : K) (body : V) :
    wrapThread_0000 A clock size fuel rs io ci c key body =
      wrapGen ⟨fun c k => Thread.get clock c k, fun c k v => Thread.insert A clock (headRand rs) c k v⟩ false false io ci c key body := by
  unfold wrapThread_0000 wrapGen
  cases h : (Thread.get clock c key).1 <;> simp [h]

theorem wrapThread_0001_eq (A : F64 F) (clock : Clock) (size : V → Nat) (fuel : Nat) (rs : List Nat) (io ci : K → V → Bool)
    (c : ThreadCache K V F) (key : K) (body : V) :
    wrapThread_0001 A clock size fuel rs io ci c key body =
      wrapGen ⟨fun c k => Thread.get clock c k, fun c k v => Thread.insert A clock (headRand rs) c k v⟩ false true io ci c key body := by
  unfold wrapThread_0001 wrapGen
  cases h : (Thread.get clock c key).1 <;> simp [h]

theorem wrapThread_0010_eq (A : F64 F) (clock : Clock) (size : V → Nat) (fuel : Nat) (rs : List Nat) (io ci : K → V → Bool)
    (c : ThreadCache K V F) (key : K) (body : V) :
    wrapThread_0010 A clock size fuel rs io ci c key body =
      wrapGen ⟨fun c k => Thread.get clock c k, fun c k v => Thread.insert A clock (headRand rs) c k v⟩ true false io ci c key body := by
  unfold wrapThread_0010 wrapGen
  cases h : (Thread.get clock c key).1 <;> simp [h]

theorem wrapThread_0011_eq (A : F64 F) (clock : Clock) (size : V → Nat) (fuel : Nat) (rs : List Nat) (io ci : K → V → Bool)
    (c : ThreadCache K V F) (key : K) (body : V) :
    wrapThread_0011 A clock size fuel rs io ci c key body =
      wrapGen ⟨fun c k => Thread.get clock c k, fun c k v => Thread.insert A clock (headRand rs) c k v⟩ true true io ci c key body := by
  unfold wrapThread_0011 wrapGen
  cases h : (Thread.get clock c key).1 <;> simp [h]

theorem wrapThread_0100_eq (A : F64 F) (clock : Clock) (size : (Except E T) → Nat) (fuel : Nat) (rs : List Nat) (io ci : K → (Except E T) → Bool)
    (c : ThreadCache K (Except E T) F) (key : K) (body : (Except E T)) :
    wrapThread_0100 A clock size fuel rs io ci c key body =
      wrapGen ⟨fun c k => Thread.get clock c k, fun c k v => Thread.insert_result A clock (headRand rs) c k v⟩ false false io ci c key body := by
  unfold wrapThread_0100 wrapGen
  cases h : (Thread.get clock c key).1 <;> simp [h]

theorem wrapThread_0101_eq (A : F64 F) (clock : Clock) (size : (Except E T) → Nat) (fuel : Nat) (rs : List Nat) (io ci : K → (Except E T) → Bool)
    (c : ThreadCache K (Except E T) F) (key : K) (body : (Except E T)) :
    wrapThread_0101 A clock size fuel rs io ci c key body =
      wrapGen ⟨fun c k => Thread.get clock c k, fun c k v => Thread.insert_result A clock (headRand rs) c k v⟩ false true io ci c key body := by
  unfold wrapThread_0101 wrapGen
  cases h : (Thread.get clock c key).1 <;> simp [h]

theorem wrapThread_0110_eq (A : F64 F) (clock : Clock) (size : (Except E T) → Nat) (fuel : Nat) (rs : List Nat) (io ci : K → (Except E T) → Bool)
    (c : ThreadCache K (Except E T) F) (key : K) (body : (Except E T)) :
    wrapThread_0110 A clock size fuel rs io ci c key body =
      wrapGen ⟨fun c k => Thread.get clock c k, fun c k v => Thread.insert_result A clock (headRand rs) c k v⟩ true false io ci c key body := by
  unfold wrapThread_0110 wrapGen
  cases h : (Thread.get clock c key).1 <;> simp [h]

theorem wrapThread_0111_eq (A : F64 F) (clock : Clock) (size : (Except E T) → Nat) (fuel : Nat) (rs : List Nat) (io ci : K → (Except E T) → Bool)
    (c : ThreadCache K (Except E T) F) (key : K) (body : (Except E T)) :
    wrapThread_0111 A clock size fuel rs io ci c key body =
      wrapGen ⟨fun c k => Thread.get clock c k, fun c k v => Thread.insert_result A clock (headRand rs) c k v⟩ true true io ci c key body := by
  unfold wrapThread_0111 wrapGen
  cases h : (Thread.get clock c key).1 <;> simp [h]

theorem wrapThread_1000_eq (A : F64 F) (clock : Clock) (size : V → Nat) (fuel : Nat) (rs : List Nat) (io ci : K → V → Bool)
    (c : ThreadCache K V F) (key : K) (body : V) :
    wrapThread_1000 A clock size fuel rs io ci c key body =
      wrapGen ⟨fun c k => Thread.get clock c k, fun c k v => Thread.insert_with_memory A clock size fuel rs c k v⟩ false false io ci c key body := by
  unfold wrapThread_1000 wrapGen
  cases h : (Thread.get clock c key).1 <;> simp [h]

theorem wrapThread_1001_eq (A : F64 F) (clock : Clock) (size : V → Nat) (fuel : Nat) (rs : List Nat) (io ci : K → V → Bool)
    (c : ThreadCache K V F) (key : K) (body : V) :
    wrapThread_1001 A clock size fuel rs io ci c key body =
      wrapGen ⟨fun c k => Thread.get clock c k, fun c k v => Thread.insert_with_memory A clock size fuel rs c k v⟩ false true io ci c key body := by
  unfold wrapThread_1001 wrapGen
  cases h : (Thread.get clock c key).1 <;> simp [h]

theorem wrapThread_1010_eq (A : F64 F) (clock : Clock) (size : V → Nat) (fuel : Nat) (rs : List Nat) (io ci : K → V → Bool)
    (c : ThreadCache K V F) (key : K) (body : V) :
    wrapThread_1010 A clock size fuel rs io ci c key body =
      wrapGen ⟨fun c k => Thread.get clock c k, fun c k v => Thread.insert_with_memory A clock size fuel rs c k v⟩ true false io ci c key body := by
  unfold wrapThread_1010 wrapGen
  cases h : (Thread.get clock c key).1 <;> simp [h]

theorem wrapThread_1011_eq (A : F64 F) (clock : Clock) (size : V → Nat) (fuel : Nat) (rs : List Nat) (io ci : K → V → Bool)
    (c : ThreadCache K V F) (key : K) (body : V) :
    wrapThread_1011 A clock size fuel rs io ci c key body =
      wrapGen ⟨fun c k => Thread.get clock c k, fun c k v => Thread.insert_with_memory A clock size fuel rs c k v⟩ true true io ci c key body := by
  unfold wrapThread_1011 wrapGen
  cases h : (Thread.get clock c key).1 <;> simp [h]

theorem wrapThread_1100_eq (A : F64 F) (clock : Clock) (size : (Except E T) → Nat) (fuel : Nat) (rs : List Nat) (io ci : K → (Except E T) → Bool)
    (c : ThreadCache K (Except E T) F) (key : K) (body : (Except E T)) :
    wrapThread_1100 A clock size fuel rs io ci c key body =
      wrapGen ⟨fun c k => Thread.get clock c k, fun c k v => Thread.insert_result_with_memory A clock size fuel rs c k v⟩ false false io ci c key body := by
  unfold wrapThread_1100 wrapGen
  cases h : (Thread.get clock c key).1 <;> simp [h]

theorem wrapThread_1101_eq (A : F64 F) (clock : Clock) (size : (Except E T) → Nat) (fuel : Nat) (rs : List Nat) (io ci : K → (Except E T) → Bool)
    (c : ThreadCache K (Except E T) F) (key : K) (body : (Except E T)) :
    wrapThread_1101 A clock size fuel rs io ci c key body =
      wrapGen ⟨fun c k => Thread.get clock c k, fun c k v => Thread.insert_result_with_memory A clock size fuel rs c k v⟩ false true io ci c key body := by
  unfold wrapThread_1101 wrapGen
  cases h : (Thread.get clock c key).1 <;> simp [h]

theorem wrapThread_1110_eq (A : F64 F) (clock : Clock) (size : (Except E T) → Nat) (fuel : Nat) (rs : List Nat) (io ci : K → (Except E T) → Bool)
    (c : ThreadCache K (Except E T) F) (key : K) (body : (Except E T)) :
    wrapThread_1110 A clock size fuel rs io ci c key body =
      wrapGen ⟨fun c k => Thread.get clock c k, fun c k v => Thread.insert_result_with_memory A clock size fuel rs c k v⟩ true false io ci c key body := by
  unfold wrapThread_1110 wrapGen
  cases h : (Thread.get clock c key).1 <;> simp [h]

theorem wrapThread_1111_eq (A : F64 F) (clock : Clock) (size : (Except E T) → Nat) (fuel : Nat) (rs : List Nat) (io ci : K → (Except E T) → Bool)
    (c : ThreadCache K (Except E T) F) (key : K) (body : (Except E T)) :
    wrapThread_1111 A clock size fuel rs io ci c key body =
      wrapGen ⟨fun c k => Thread.get clock c k, fun c k v => Thread.insert_result_with_memory A clock size fuel rs c k v⟩ true true io ci c key body := by
  unfold wrapThread_1111 wrapGen
  cases h : (Thread.get clock c key).1 <;> simp [h]

theorem wrapGlobal_0000_eq (A : F64 F) (clock : Clock) (size : V → Nat) (fuel : Nat) (rs : List Nat) (io ci : K → V → Bool)
    (c : GlobalCache K V F) (key : K) (body : V) :
    wrapGlobal_0000 A clock size fuel rs io ci c key body =
      wrapGen ⟨fun c k => Global.get clock c k, fun c k v => Global.insert A clock (headRand rs) c k v⟩ false false io ci c key body := by
  unfold wrapGlobal_0000 wrapGen
  cases h : (Global.get clock c key).1 <;> simp [h]

theorem wrapGlobal_0001_eq (A : F64 F) (clock : Clock) (size : V → Nat) (fuel : Nat) (rs : List Nat) (io ci : K → V → Bool)
    (c : GlobalCache K V F) (key : K) (body : V) :
    wrapGlobal_0001 A clock size fuel rs io ci c key body =
      wrapGen ⟨fun c k => Global.get clock c k, fun c k v => Global.insert A clock (headRand rs) c k v⟩ false true io ci c key body := by
  unfold wrapGlobal_0001 wrapGen
  cases h : (Global.get clock c key).1 <;> simp [h]

theorem wrapGlobal_0010_eq (A : F64 F) (clock : Clock) (size : V → Nat) (fuel : Nat) (rs : List Nat) (io ci : K → V → Bool)
    (c : GlobalCache K V F) (key : K) (body : V) :
    wrapGlobal_0010 A clock size fuel rs io ci c key body =
      wrapGen ⟨fun c k => Global.get clock c k, fun c k v => Global.insert A clock (headRand rs) c k v⟩ true false io ci c key body := by
  unfold wrapGlobal_0010 wrapGen
  cases h : (Global.get clock c key).1 <;> simp [h]

theorem wrapGlobal_0011_eq (A : F64 F) (clock : Clock) (size : V → Nat) (fuel : Nat) (rs : List Nat) (io ci : K → V → Bool)
    (c : GlobalCache K V F) (key : K) (body : V) :
    wrapGlobal_0011 A clock size fuel rs io ci c key body =
      wrapGen ⟨fun c k => Global.get clock c k, fun c k v => Global.insert A clock (headRand rs) c k v⟩ true true io ci c key body := by
  unfold wrapGlobal_0011 wrapGen
  cases h : (Global.get clock c key).1 <;> simp [h]

theorem wrapGlobal_0100_eq (A : F64 F) (clock : Clock) (size : (Except E T) → Nat) (fuel : Nat) (rs : List Nat) (io ci : K → (Except E T) → Bool)
    (c : GlobalCache K (Except E T) F) (key : K) (body : (Except E T)) :
    wrapGlobal_0100 A clock size fuel rs io ci c key body =
      wrapGen ⟨fun c k => Global.get clock c k, fun c k v => Global.insert_result A clock (headRand rs) c k v⟩ false false io ci c key body := by
  unfold wrapGlobal_0100 wrapGen
  cases h : (Global.get clock c key).1 <;> simp [h]

theorem wrapGlobal_0101_eq (A : F64 F) (clock : Clock) (size : (Except E T) → Nat) (fuel : Nat) (rs : List Nat) (io ci : K → (Except E T) → Bool)
    (c : GlobalCache K (Except E T) F) (key : K) (body : (Except E T)) :
    wrapGlobal_0101 A clock size fuel rs io ci c key body =
      wrapGen ⟨fun c k => Global.get clock c k, fun c k v => Global.insert_result A clock (headRand rs) c k v⟩ false true io ci c key body := by
  unfold wrapGlobal_0101 wrapGen
  cases h : (Global.get clock c key).1 <;> simp [h]

theorem wrapGlobal_0110_eq (A : F64 F) (clock : Clock) (size : (Except E T) → Nat) (fuel : Nat) (rs : List Nat) (io ci : K → (Except E T) → Bool)
    (c : GlobalCache K (Except E T) F) (key : K) (body : (Except E T)) :
    wrapGlobal_0110 A clock size fuel rs io ci c key body =
      wrapGen ⟨fun c k => Global.get clock c k, fun c k v => Global.insert_result A clock (headRand rs) c k v⟩ true false io ci c key body := by
  unfold wrapGlobal_0110 wrapGen
  cases h : (Global.get clock c key).1 <;> simp [h]

theorem wrapGlobal_0111_eq (A : F64 F) (clock : Clock) (size : (Except E T) → Nat) (fuel : Nat) (rs : List Nat) (io ci : K → (Except E T) → Bool)
    (c : GlobalCache K (Except E T) F) (key : K) (body : (Except E T)) :
    wrapGlobal_0111 A clock size fuel rs io ci c key body =
      wrapGen ⟨fun c k => Global.get clock c k, fun c k v => Global.insert_result A clock (headRand rs) c k v⟩ true true io ci c key body := by
  unfold wrapGlobal_0111 wrapGen
  cases h : (Global.get clock c key).1 <;> simp [h]

theorem wrapGlobal_1000_eq (A : F64 F) (clock : Clock) (size : V → Nat) (fuel : Nat) (rs : List Nat) (io ci : K → V → Bool)
    (c : GlobalCache K V F) (key : K) (body : V) :
    wrapGlobal_1000 A clock size fuel rs io ci c key body =
      wrapGen ⟨fun c k => Global.get clock c k, fun c k v => Global.insert_with_memory A clock size fuel rs c k v⟩ false false io ci c key body := by
  unfold wrapGlobal_1000 wrapGen
  cases h : (Global.get clock c key).1 <;> simp [h]

theorem wrapGlobal_1001_eq (A : F64 F) (clock : Clock) (size : V → Nat) (fuel : Nat) (rs : List Nat) (io ci : K → V → Bool)
    (c : GlobalCache K V F) (key : K) (body : V) :
    wrapGlobal_1001 A clock size fuel rs io ci c key body =
      wrapGen ⟨fun c k => Global.get clock c k, fun c k v => Global.insert_with_memory A clock size fuel rs c k v⟩ false true io ci c key body := by
  unfold wrapGlobal_1001 wrapGen
  cases h : (Global.get clock c key).1 <;> simp [h]

theorem wrapGlobal_1010_eq (A : F64 F) (clock : Clock) (size : V → Nat) (fuel : Nat) (rs : List Nat) (io ci : K → V → Bool)
    (c : GlobalCache K V F) (key : K) (body : V) :
    wrapGlobal_1010 A clock size fuel rs io ci c key body =
      wrapGen ⟨fun c k => Global.get clock c k, fun c k v => Global.insert_with_memory A clock size fuel rs c k v⟩ true false io ci c key body := by
  unfold wrapGlobal_1010 wrapGen
  cases h : (Global.get clock c key).1 <;> simp [h]

theorem wrapGlobal_1011_eq (A : F64 F) (clock : Clock) (size : V → Nat) (fuel : Nat) (rs : List Nat) (io ci : K → V → Bool)
    (c : GlobalCache K V F) (key : K) (body : V) :
    wrapGlobal_1011 A clock size fuel rs io ci c key body =
      wrapGen ⟨fun c k => Global.get clock c k, fun c k v => Global.insert_with_memory A clock size fuel rs c k v⟩ true true io ci c key body := by
  unfold wrapGlobal_1011 wrapGen
  cases h : (Global.get clock c key).1 <;> simp [h]

theorem wrapGlobal_1100_eq (A : F64 F) (clock : Clock) (size : (Except E T) → Nat) (fuel : Nat) (rs : List Nat) (io ci : K → (Except E T) → Bool)
    (c : GlobalCache K (Except E T) F) (key : K) (body : (Except E T)) :
    wrapGlobal_1100 A clock size fuel rs io ci c key body =
      wrapGen ⟨fun c k => Global.get clock c k, fun c k v => Global.insert_result_with_memory A clock size fuel rs c k v⟩ false false io ci c key body := by
  unfold wrapGlobal_1100 wrapGen
  cases h : (Global.get clock c key).1 <;> simp [h]

theorem wrapGlobal_1101_eq (A : F64 F) (clock : Clock) (size : (Except E T) → Nat) (fuel : Nat) (rs : List Nat) (io ci : K → (Except E T) → Bool)
    (c : GlobalCache K (Except E T) F) (key : K) (body : (Except E T)) :
    wrapGlobal_1101 A clock size fuel rs io ci c key body =
      wrapGen ⟨fun c k => Global.get clock c k, fun c k v => Global.insert_result_with_memory A clock size fuel rs c k v⟩ false true io ci c key body := by
  unfold wrapGlobal_1101 wrapGen
  cases h : (Global.get clock c key).1 <;> simp [h]

theorem wrapGlobal_1110_eq (A : F64 F) (clock : Clock) (size : (Except E T) → Nat) (fuel : Nat) (rs : List Nat) (io ci : K → (Except E T) → Bool)
    (c : GlobalCache K (Except E T) F) (key : K) (body : (Except E T)) :
    wrapGlobal_1110 A clock size fuel rs io ci c key body =
      wrapGen ⟨fun c k => Global.get clock c k, fun c k v => Global.insert_result_with_memory A clock size fuel rs c k v⟩ true false io ci c key body := by
  unfold wrapGlobal_1110 wrapGen
  cases h : (Global.get clock c key).1 <;> simp [h]

theorem wrapGlobal_1111_eq (A : F64 F) (clock : Clock) (size : (Except E T) → Nat) (fuel : Nat) (rs : List Nat) (io ci : K → (Except E T) → Bool)
    (c : GlobalCache K (Except E T) F) (key : K) (body : (Except E T)) :
    wrapGlobal_1111 A clock size fuel rs io ci c key body =
      wrapGen ⟨fun c k => Global.get clock c k, fun c k v => Global.insert_result_with_memory A clock size fuel rs c k v⟩ true true io ci c key body := by
  unfold wrapGlobal_1111 wrapGen
  cases h : (Global.get clock c key).1 <;> simp [h]

/-! ## (b) what the generic wrapper does -/

section Generic
variable {S : Type}

/-- a hit that is not called stale is served: the cached value is returned, the body's value is not used, nothing is
    stored (C01 / C03) -/
theorem wrapGen_hit (ops : EngineOps C K V) (hasInv hasCi : Bool) (io ci : K → V → Bool) (c : C) (key : K) (body cached : V)
    (hget : (ops.get c key).1 = some cached) (hfresh : hasInv = false ∨ io key cached = false) :
    wrapGen ops hasInv hasCi io ci c key body = (cached, (ops.get c key).2) := by
  unfold wrapGen
  rcases hfresh with h | h <;> simp [hget, h]

/-- a miss, or a hit that `invalidate_on` calls stale (C11), takes the body's value and returns it -/
theorem wrapGen_runs_body (ops : EngineOps C K V) (hasInv hasCi : Bool) (io ci : K → V → Bool) (c : C) (key : K) (body : V)
    (h : (ops.get c key).1 = none ∨ ∃ cached, (ops.get c key).1 = some cached ∧ hasInv = true ∧ io key cached = true) :
    (wrapGen ops hasInv hasCi io ci c key body).1 = body := by
  unfold wrapGen
  rcases h with h | ⟨cached, h1, h2, h3⟩ <;> simp_all

/-- … and stores it through the selected variant exactly when `cache_if` is absent or accepts it (C10) -/
theorem wrapGen_store_iff (ops : EngineOps C K V) (hasInv hasCi : Bool) (io ci : K → V → Bool) (c : C) (key : K) (body : V)
    (h : (ops.get c key).1 = none ∨ ∃ cached, (ops.get c key).1 = some cached ∧ hasInv = true ∧ io key cached = true) :
    (wrapGen ops hasInv hasCi io ci c key body).2 =
      (if hasCi = false ∨ ci key body = true then ops.store (ops.get c key).2 key body else (ops.get c key).2) := by
  unfold wrapGen
  rcases h with h | ⟨cached, h1, h2, h3⟩ <;> cases hasCi <;> cases hci : ci key body <;> simp_all

/-- a store variant that does nothing for this value (the `insert_result*` variants on an `Err`, C09) leaves the cache
    exactly as the lookup left it, whatever the predicates say -/
theorem wrapGen_no_store (ops : EngineOps C K V) (hasInv hasCi : Bool) (io ci : K → V → Bool) (c : C) (key : K) (body : V)
    (hno : ∀ c', ops.store c' key body = c') :
    (wrapGen ops hasInv hasCi io ci c key body).2 = (ops.get c key).2 := by
  unfold wrapGen
  cases h : (ops.get c key).1 <;> cases hasInv <;> cases hasCi <;> simp [h, hno]
  all_goals (first | (split <;> simp [hno]) | skip)
  all_goals (first | (split <;> simp [hno]) | skip)

/-- simulation: if lookup and store of two engines correspond (relation `R1` before the lookup, `R2` after it, `R3` at the
    end), so do the wrappers built on them -/
theorem wrapGen_sim (R1 R2 R3 : C → S → Prop) (ops : EngineOps C K V) (mops : EngineOps S K V)
    (hasInv hasCi : Bool) (io ci : K → V → Bool) (key : K) (body : V)
    (hget : ∀ c s, R1 c s → (ops.get c key).1 = (mops.get s key).1 ∧ R2 (ops.get c key).2 (mops.get s key).2)
    (hstore : ∀ c s, R2 c s → R3 (ops.store c key body) (mops.store s key body))
    (hweak : ∀ c s, R2 c s → R3 c s) (c : C) (s : S) (h : R1 c s) :
    (wrapGen ops hasInv hasCi io ci c key body).1 = (wrapGen mops hasInv hasCi io ci s key body).1 ∧
    R3 (wrapGen ops hasInv hasCi io ci c key body).2 (wrapGen mops hasInv hasCi io ci s key body).2 := by
  obtain ⟨hv, hr⟩ := hget c s h
  unfold wrapGen
  simp only [hv]
  cases hm : (mops.get s key).1 <;> cases hasInv <;> cases hasCi <;> simp <;> (repeat' split) <;>
    (first
      | exact hstore _ _ hr
      | exact hweak _ _ hr
      | exact ⟨rfl, hstore _ _ hr⟩
      | exact ⟨rfl, hweak _ _ hr⟩
      | exact ⟨trivial, hstore _ _ hr⟩
      | exact ⟨trivial, hweak _ _ hr⟩)

end Generic

/-! ## (c) down to the model: `callFn` -/

/-- the model's engine operations for a SYNC function specification: `Cachelito.get`, and the store the wrapper's variant
    performs (`insert` / `insertMem`; the `insert_result*` variants store only an `Ok`) -/
def modelOps (spec : FnSpec) (tl : Tlru F) (size : V → Nat) (isOk : V → Bool) (rs : List Nat) :
    EngineOps (State K V) K V where
  get s k := ((Cachelito.get spec.cfg s k).2, (Cachelito.get spec.cfg s k).1)
  store s k v :=
    if (if spec.isResult then isOk v else true) then
      (if spec.useMem then insertMem spec.cfg tl size rs s k v else insert spec.cfg tl (rs.headD 0) s k v)
    else s

/-- **the model's `callFn` (sync functions) is the generic wrapper over the model's engine**: same returned value, same
    final state, for every specification, state, key, body value and pair of predicates -/
theorem callFn_eq_wrapGen (spec : FnSpec) (hs : spec.isAsync = false) (tl : Tlru F) (size : V → Nat) (isOk : V → Bool)
    (rs : List Nat) (s : State K V) (c : CallIn K V) :
    ((callFn spec tl size isOk rs s c).2.1, (callFn spec tl size isOk rs s c).1) =
      wrapGen (modelOps spec tl size isOk rs) spec.hasInvalidateOn spec.hasCacheIf c.invalidateOn c.cacheIf s c.key c.bodyVal := by
  unfold callFn wrapGen modelOps shouldStore
  simp only [hs]
  cases hg : (Cachelito.get spec.cfg s c.key).2 <;> cases hinv : spec.hasInvalidateOn <;> cases hci : spec.hasCacheIf <;>
    cases hres : spec.isResult <;> cases hci2 : c.cacheIf c.key c.bodyVal <;> cases hok : isOk c.bodyVal <;>
    simp [hg, hinv, hci, hres, hci2, hok] <;>
    (first | done | (split <;> simp_all))

/-! ## (d) the generated wrapper of a thread-scope function IS `callFn` (no `max_memory`) -/

theorem mem_bumpHits (k : K) : ∀ (m : Store K V) (p : K × Entry V), p ∈ bumpHits k m →
    ∃ p0, p0 ∈ m ∧ p.2.hits ≤ p0.2.hits + 1
  | [], p, h => by simp [bumpHits, modify] at h
  | (k', e) :: m, p, h => by
      unfold bumpHits at h
      simp only [modify] at h
      by_cases hk : k' = k
      · simp [hk] at h
        rcases h with rfl | h
        · exact ⟨(k', e), by simp, by simp⟩
        · exact ⟨p, by simp [h], by omega⟩
      · simp [hk] at h
        rcases h with rfl | h
        · exact ⟨(k', e), by simp, by omega⟩
        · obtain ⟨p0, hp0, hle⟩ := mem_bumpHits k m p (by unfold bumpHits; exact h)
          exact ⟨p0, by simp [hp0], hle⟩

/-- a lookup raises no hit counter by more than one -/
theorem get_hits_le (cfg : Cfg) (hf : cfg.flavour ≠ .async) (s : State K V) (k : K) (p : K × Entry V)
    (h : p ∈ (Cachelito.get cfg s k).1.store) : ∃ p0, p0 ∈ s.store ∧ p.2.hits ≤ p0.2.hits + 1 := by
  unfold Cachelito.get at h
  cases hl : lookup k s.store with
  | none => simp [hl] at h; exact ⟨p, h, by omega⟩
  | some e =>
    simp only [hl] at h
    by_cases hx : expired cfg s.now e = true
    · simp only [hx, if_true] at h
      have hsub : p ∈ s.store := by
        cases hfl : cfg.flavour <;> simp [removeBoth, hfl, eraseKey] at h <;> first | exact h.1 | exact absurd hfl hf
      exact ⟨p, hsub, by omega⟩
    · simp only [hx] at h
      have h' : p ∈ (if cfg.policy.bumps then bumpHits k s.store else s.store) := by
        cases hfl : cfg.flavour <;> simp [hitUpdate, hfl] at h <;> first | exact h | exact absurd hfl hf
      by_cases hb : cfg.policy.bumps = true
      · simp [hb] at h'; exact mem_bumpHits k _ p h'
      · simp [hb] at h'; exact ⟨p, h', by omega⟩

/-- what relates a `ThreadLocalCache` of the calling thread to a model state -/
def RelT (cfg : Cfg) (fw : Option F) (now : Nat) (c : ThreadCache K V F) (s : State K V) : Prop :=
  T11.cfgOf c = cfg ∧ c.frequency_weight = fw ∧ c.cache = s.store ∧ c.order = s.queue ∧ s.now = now ∧
  c.stats.hits = s.hitStat ∧ c.stats.misses = s.missStat

/-- the thread-local `get` simulates the model's `get` -/
theorem thread_get_sim (cfg : Cfg) (fw : Option F) (now : Nat) (k : K) (c : ThreadCache K V F) (s : State K V)
    (hr : RelT cfg fw now c s) (hh : ∀ p, p ∈ c.cache → p.2.hits + 1 < u64Max) :
    (Thread.get ⟨fun b => now - b, now⟩ c k).1 = (Cachelito.get cfg s k).2 ∧
    RelT cfg fw now (Thread.get ⟨fun b => now - b, now⟩ c k).2 (Cachelito.get cfg s k).1 ∧
    ∀ p, p ∈ (Thread.get ⟨fun b => now - b, now⟩ c k).2.cache → p.2.hits < u64Max := by
  obtain ⟨h1, h2, h3, h4, h5, h6, h7⟩ := hr
  have hs : s = ⟨c.cache, c.order, now, c.stats.hits, c.stats.misses⟩ := by
    cases s; simp_all
  have hg := T12.get_eq c now k (fun p hp => by have := hh p hp; omega)
  rw [h1, ← hs] at hg
  rw [hg]
  refine ⟨rfl, ⟨by simpa [T11.cfgOf] using h1, h2, rfl, rfl, ?_, rfl, rfl⟩, ?_⟩
  · unfold Cachelito.get
    cases lookup k s.store <;> simp [h5]
    split <;> simp [h5]
  · intro p hp
    have hf : cfg.flavour ≠ .async := by rw [← h1]; simp [T11.cfgOf]
    obtain ⟨p0, hp0, hle⟩ := get_hits_le cfg hf s k p hp
    have := hh p0 (by rw [h3]; exact hp0)
    omega

/-- the assumptions on the float structure (DESIGN.md §9) for a configuration -/
structure FloatOK (A : F64 F) (cfg : Cfg) (fw : Option F) : Prop where
  arcBelowMax : ∀ a b, A.lt (A.mul (A.ofNat a) (A.ofNat b)) A.maxVal = true
  arcOrder : ∀ a b c d, A.lt (A.mul (A.ofNat a) (A.ofNat b)) (A.mul (A.ofNat c) (A.ofNat d)) = decide (a * b < c * d)
  tlruBelowMax : ∀ hits el rk, A.lt ((T02.srcTlru A fw).score cfg hits el rk) A.maxVal = true

theorem insert_frame (cfg : Cfg) (tl : Tlru F) (r : Nat) (s : State K V) (k : K) (v : V) :
    (Cachelito.insert cfg tl r s k v).now = s.now ∧ (Cachelito.insert cfg tl r s k v).hitStat = s.hitStat ∧
    (Cachelito.insert cfg tl r s k v).missStat = s.missStat := by
  unfold Cachelito.insert
  cases cfg.flavour <;> simp

/-- the thread-local plain `insert` simulates the model's `insert` -/
theorem thread_insert_sim (A : F64 F) (cfg : Cfg) (fw : Option F) (now r : Nat) (k : K) (v : V)
    (c : ThreadCache K V F) (s : State K V) (hr : RelT cfg fw now c s) (hh : ∀ p, p ∈ c.cache → p.2.hits < u64Max)
    (fok : FloatOK A cfg fw) :
    RelT cfg fw now (Thread.insert A ⟨fun b => now - b, now⟩ r c k v) (Cachelito.insert cfg (T02.srcTlru A fw) r s k v) := by
  obtain ⟨h1, h2, h3, h4, h5, h6, h7⟩ := hr
  have hs : s = ⟨c.cache, c.order, now, c.stats.hits, c.stats.misses⟩ := by
    cases s; simp_all
  have ok : T11.ScoresOK A c := ⟨hh, fok.arcBelowMax, fok.arcOrder, by rw [h1, h2]; exact fok.tlruBelowMax⟩
  have hi := T11.insert_eq A c now r c.stats.hits c.stats.misses k v ok
  rw [h1, h2, ← hs] at hi
  rw [hi]
  obtain ⟨f1, f2, f3⟩ := insert_frame cfg (T02.srcTlru A fw) r s k v
  exact ⟨by simpa [T11.cfgOf] using h1, rfl, rfl, rfl, by rw [f1, h5], by rw [f2]; exact h6, by rw [f3]; exact h7⟩

/-- **The wrapper `#[cache(scope = "thread")]` generates for a plain function without `max_memory` is the model's
    `callFn`**: for every policy / limit / ttl, with or without `invalidate_on` and `cache_if`, for every cache content,
    key, body value and predicate verdicts, the generic wrapper over the TRANSLATED thread-local engine returns what
    `callFn` returns and leaves the cache in the state `callFn` leaves.  (By part (a) the generated wrapper of each such
    configuration is that generic wrapper; by T11 / T12 the translated engine is the model's engine.) -/
theorem thread_plain_wrapper_is_callFn (A : F64 F) (cfg : Cfg) (fw : Option F) (now : Nat) (rs : List Nat)
    (inv ci : Bool) (io cif : K → V → Bool) (size : V → Nat) (isOk : V → Bool)
    (c : ThreadCache K V F) (s : State K V) (key : K) (body : V)
    (hr : RelT cfg fw now c s) (hh : ∀ p, p ∈ c.cache → p.2.hits + 1 < u64Max) (fok : FloatOK A cfg fw) :
    (wrapGen ⟨fun c k => Thread.get ⟨fun b => now - b, now⟩ c k,
              fun c k v => Thread.insert A ⟨fun b => now - b, now⟩ (headRand rs) c k v⟩ inv ci io cif c key body).1 =
      (callFn ⟨"f", false, true, cfg, false, false, ci, inv, [], [], []⟩ (T02.srcTlru A fw) size isOk rs s ⟨key, body, cif, io⟩).2.1 ∧
    RelT cfg fw now
      (wrapGen ⟨fun c k => Thread.get ⟨fun b => now - b, now⟩ c k,
                fun c k v => Thread.insert A ⟨fun b => now - b, now⟩ (headRand rs) c k v⟩ inv ci io cif c key body).2
      (callFn ⟨"f", false, true, cfg, false, false, ci, inv, [], [], []⟩ (T02.srcTlru A fw) size isOk rs s ⟨key, body, cif, io⟩).1 := by
  have hm := callFn_eq_wrapGen (K := K) ⟨"f", false, true, cfg, false, false, ci, inv, [], [], []⟩ rfl (T02.srcTlru A fw) size isOk rs s ⟨key, body, cif, io⟩
  have hsim := wrapGen_sim
    (fun c s => RelT cfg fw now c s ∧ ∀ p, p ∈ c.cache → p.2.hits + 1 < u64Max)
    (fun c s => RelT cfg fw now c s ∧ ∀ p, p ∈ c.cache → p.2.hits < u64Max)
    (fun c s => RelT cfg fw now c s)
    ⟨fun c k => Thread.get ⟨fun b => now - b, now⟩ c k, fun c k v => Thread.insert A ⟨fun b => now - b, now⟩ (headRand rs) c k v⟩
    (modelOps ⟨"f", false, true, cfg, false, false, ci, inv, [], [], []⟩ (T02.srcTlru A fw) size isOk rs)
    inv ci io cif key body
    (fun c s h => by
      obtain ⟨g1, g2, g3⟩ := thread_get_sim cfg fw now key c s h.1 h.2
      exact ⟨g1, g2, g3⟩)
    (fun c s h => by
      simp only [modelOps, headRand]
      exact thread_insert_sim A cfg fw now _ key body c s h.1 h.2 fok)
    (fun c s h => h.1) c s ⟨hr, hh⟩
  simp only [] at hm
  rw [← hm] at hsim
  exact hsim

/-- `Result::is_ok` -/
def isOkE : Except E T → Bool
  | .ok _ => true
  | .error _ => false

/-- **The same for a thread-scope function returning `Result`** (store variant `insert_result`): the generated wrapper is
    `callFn` with `isResult := true` — in particular an `Err` is returned but never stored, whatever `cache_if` says (C09) -/
theorem thread_result_wrapper_is_callFn (A : F64 F) (cfg : Cfg) (fw : Option F) (now : Nat) (rs : List Nat)
    (inv ci : Bool) (io cif : K → Except E T → Bool) (size : Except E T → Nat)
    (c : ThreadCache K (Except E T) F) (s : State K (Except E T)) (key : K) (body : Except E T)
    (hr : RelT cfg fw now c s) (hh : ∀ p, p ∈ c.cache → p.2.hits + 1 < u64Max) (fok : FloatOK A cfg fw) :
    (wrapGen ⟨fun c k => Thread.get ⟨fun b => now - b, now⟩ c k,
              fun c k v => Thread.insert_result A ⟨fun b => now - b, now⟩ (headRand rs) c k v⟩ inv ci io cif c key body).1 =
      (callFn ⟨"f", false, true, cfg, false, true, ci, inv, [], [], []⟩ (T02.srcTlru A fw) size isOkE rs s ⟨key, body, cif, io⟩).2.1 ∧
    RelT cfg fw now
      (wrapGen ⟨fun c k => Thread.get ⟨fun b => now - b, now⟩ c k,
                fun c k v => Thread.insert_result A ⟨fun b => now - b, now⟩ (headRand rs) c k v⟩ inv ci io cif c key body).2
      (callFn ⟨"f", false, true, cfg, false, true, ci, inv, [], [], []⟩ (T02.srcTlru A fw) size isOkE rs s ⟨key, body, cif, io⟩).1 := by
  have hm := callFn_eq_wrapGen (K := K) ⟨"f", false, true, cfg, false, true, ci, inv, [], [], []⟩ rfl (T02.srcTlru A fw) size isOkE rs s ⟨key, body, cif, io⟩
  have hsim := wrapGen_sim
    (fun c s => RelT cfg fw now c s ∧ ∀ p, p ∈ c.cache → p.2.hits + 1 < u64Max)
    (fun c s => RelT cfg fw now c s ∧ ∀ p, p ∈ c.cache → p.2.hits < u64Max)
    (fun c s => RelT cfg fw now c s)
    ⟨fun c k => Thread.get ⟨fun b => now - b, now⟩ c k, fun c k v => Thread.insert_result A ⟨fun b => now - b, now⟩ (headRand rs) c k v⟩
    (modelOps ⟨"f", false, true, cfg, false, true, ci, inv, [], [], []⟩ (T02.srcTlru A fw) size isOkE rs)
    inv ci io cif key body
    (fun c s h => by
      obtain ⟨g1, g2, g3⟩ := thread_get_sim cfg fw now key c s h.1 h.2
      exact ⟨g1, g2, g3⟩)
    (fun c s h => by
      simp only [modelOps, headRand]
      cases body with
      | error e => simp [T13.thread_insert_result_err, isOkE]; exact h.1
      | ok x =>
        simp only [T13.thread_insert_result_ok, isOkE, if_true]
        exact thread_insert_sim A cfg fw now _ key (.ok x) c s h.1 h.2 fok)
    (fun c s h => h.1) c s ⟨hr, hh⟩
  simp only [] at hm
  rw [← hm] at hsim
  exact hsim

/-! ## (e) the same for global scope (sequential reading of the engine, see T08 / T09) -/

/-- what relates a `GlobalCache` to a model state -/
def RelG (cfg : Cfg) (fw : Option F) (now : Nat) (c : GlobalCache K V F) (s : State K V) : Prop :=
  T08.cfgOf c = cfg ∧ c.frequency_weight = fw ∧ c.map = s.store ∧ c.order = s.queue ∧ s.now = now ∧
  c.stats.hits = s.hitStat ∧ c.stats.misses = s.missStat

/-- the sync global `get` simulates the model's `get` -/
theorem global_get_sim (cfg : Cfg) (fw : Option F) (now : Nat) (k : K) (c : GlobalCache K V F) (s : State K V)
    (hr : RelG cfg fw now c s) (hh : ∀ p, p ∈ c.map → p.2.hits + 1 < u64Max) :
    (Global.get ⟨fun b => now - b, now⟩ c k).1 = (Cachelito.get cfg s k).2 ∧
    RelG cfg fw now (Global.get ⟨fun b => now - b, now⟩ c k).2 (Cachelito.get cfg s k).1 ∧
    ∀ p, p ∈ (Global.get ⟨fun b => now - b, now⟩ c k).2.map → p.2.hits < u64Max := by
  obtain ⟨h1, h2, h3, h4, h5, h6, h7⟩ := hr
  have hs : s = ⟨c.map, c.order, now, c.stats.hits, c.stats.misses⟩ := by
    cases s; simp_all
  have hg := T09.get_eq c now k (fun p hp => by have := hh p hp; omega)
  rw [h1, ← hs] at hg
  rw [hg]
  refine ⟨rfl, ⟨by simpa [T08.cfgOf] using h1, h2, rfl, rfl, ?_, rfl, rfl⟩, ?_⟩
  · unfold Cachelito.get
    cases lookup k s.store <;> simp [h5]
    split <;> simp [h5]
  · intro p hp
    have hf : cfg.flavour ≠ .async := by rw [← h1]; simp [T08.cfgOf]
    obtain ⟨p0, hp0, hle⟩ := get_hits_le cfg hf s k p hp
    have := hh p0 (by rw [h3]; exact hp0)
    omega

/-- the sync global plain `insert` simulates the model's `insert` -/
theorem global_insert_sim (A : F64 F) (cfg : Cfg) (fw : Option F) (now r : Nat) (k : K) (v : V)
    (c : GlobalCache K V F) (s : State K V) (hr : RelG cfg fw now c s) (hh : ∀ p, p ∈ c.map → p.2.hits < u64Max)
    (fok : FloatOK A cfg fw) :
    RelG cfg fw now (Global.insert A ⟨fun b => now - b, now⟩ r c k v) (Cachelito.insert cfg (T02.srcTlru A fw) r s k v) := by
  obtain ⟨h1, h2, h3, h4, h5, h6, h7⟩ := hr
  have hs : s = ⟨c.map, c.order, now, c.stats.hits, c.stats.misses⟩ := by
    cases s; simp_all
  have ok : T08.ScoresOK A c := ⟨hh, fok.arcBelowMax, fok.arcOrder, by rw [h1, h2]; exact fok.tlruBelowMax⟩
  have hi := T08.insert_eq A c now r c.stats.hits c.stats.misses k v ok
  rw [h1, h2, ← hs] at hi
  rw [hi]
  obtain ⟨f1, f2, f3⟩ := insert_frame cfg (T02.srcTlru A fw) r s k v
  exact ⟨by simpa [T08.cfgOf] using h1, rfl, rfl, rfl, by rw [f1, h5], by rw [f2]; exact h6, by rw [f3]; exact h7⟩

/-- **The wrapper `#[cache]` (global scope) generates for a plain function without `max_memory` is the model's
    `callFn`**: for every policy / limit / ttl, with or without `invalidate_on` and `cache_if`, for every cache content,
    key, body value and predicate verdicts, the generic wrapper over the TRANSLATED sync global engine returns what
    `callFn` returns and leaves the cache in the state `callFn` leaves.  (By part (a) the generated wrapper of each such
    configuration is that generic wrapper; by T08 / T09 the translated engine is the model's engine.) -/
theorem global_plain_wrapper_is_callFn (A : F64 F) (cfg : Cfg) (fw : Option F) (now : Nat) (rs : List Nat)
    (inv ci : Bool) (io cif : K → V → Bool) (size : V → Nat) (isOk : V → Bool)
    (c : GlobalCache K V F) (s : State K V) (key : K) (body : V)
    (hr : RelG cfg fw now c s) (hh : ∀ p, p ∈ c.map → p.2.hits + 1 < u64Max) (fok : FloatOK A cfg fw) :
    (wrapGen ⟨fun c k => Global.get ⟨fun b => now - b, now⟩ c k,
              fun c k v => Global.insert A ⟨fun b => now - b, now⟩ (headRand rs) c k v⟩ inv ci io cif c key body).1 =
      (callFn ⟨"f", false, false, cfg, false, false, ci, inv, [], [], []⟩ (T02.srcTlru A fw) size isOk rs s ⟨key, body, cif, io⟩).2.1 ∧
    RelG cfg fw now
      (wrapGen ⟨fun c k => Global.get ⟨fun b => now - b, now⟩ c k,
                fun c k v => Global.insert A ⟨fun b => now - b, now⟩ (headRand rs) c k v⟩ inv ci io cif c key body).2
      (callFn ⟨"f", false, false, cfg, false, false, ci, inv, [], [], []⟩ (T02.srcTlru A fw) size isOk rs s ⟨key, body, cif, io⟩).1 := by
  have hm := callFn_eq_wrapGen (K := K) ⟨"f", false, false, cfg, false, false, ci, inv, [], [], []⟩ rfl (T02.srcTlru A fw) size isOk rs s ⟨key, body, cif, io⟩
  have hsim := wrapGen_sim
    (fun c s => RelG cfg fw now c s ∧ ∀ p, p ∈ c.map → p.2.hits + 1 < u64Max)
    (fun c s => RelG cfg fw now c s ∧ ∀ p, p ∈ c.map → p.2.hits < u64Max)
    (fun c s => RelG cfg fw now c s)
    ⟨fun c k => Global.get ⟨fun b => now - b, now⟩ c k, fun c k v => Global.insert A ⟨fun b => now - b, now⟩ (headRand rs) c k v⟩
    (modelOps ⟨"f", false, false, cfg, false, false, ci, inv, [], [], []⟩ (T02.srcTlru A fw) size isOk rs)
    inv ci io cif key body
    (fun c s h => by
      obtain ⟨g1, g2, g3⟩ := global_get_sim cfg fw now key c s h.1 h.2
      exact ⟨g1, g2, g3⟩)
    (fun c s h => by
      simp only [modelOps, headRand]
      exact global_insert_sim A cfg fw now _ key body c s h.1 h.2 fok)
    (fun c s h => h.1) c s ⟨hr, hh⟩
  simp only [] at hm
  rw [← hm] at hsim
  exact hsim

/-- **The same for a global-scope function returning `Result`** (store variant `insert_result`): the generated wrapper is
    `callFn` with `isResult := true` — in particular an `Err` is returned but never stored, whatever `cache_if` says (C09) -/
theorem global_result_wrapper_is_callFn (A : F64 F) (cfg : Cfg) (fw : Option F) (now : Nat) (rs : List Nat)
    (inv ci : Bool) (io cif : K → Except E T → Bool) (size : Except E T → Nat)
    (c : GlobalCache K (Except E T) F) (s : State K (Except E T)) (key : K) (body : Except E T)
    (hr : RelG cfg fw now c s) (hh : ∀ p, p ∈ c.map → p.2.hits + 1 < u64Max) (fok : FloatOK A cfg fw) :
    (wrapGen ⟨fun c k => Global.get ⟨fun b => now - b, now⟩ c k,
              fun c k v => Global.insert_result A ⟨fun b => now - b, now⟩ (headRand rs) c k v⟩ inv ci io cif c key body).1 =
      (callFn ⟨"f", false, false, cfg, false, true, ci, inv, [], [], []⟩ (T02.srcTlru A fw) size isOkE rs s ⟨key, body, cif, io⟩).2.1 ∧
    RelG cfg fw now
      (wrapGen ⟨fun c k => Global.get ⟨fun b => now - b, now⟩ c k,
                fun c k v => Global.insert_result A ⟨fun b => now - b, now⟩ (headRand rs) c k v⟩ inv ci io cif c key body).2
      (callFn ⟨"f", false, false, cfg, false, true, ci, inv, [], [], []⟩ (T02.srcTlru A fw) size isOkE rs s ⟨key, body, cif, io⟩).1 := by
  have hm := callFn_eq_wrapGen (K := K) ⟨"f", false, false, cfg, false, true, ci, inv, [], [], []⟩ rfl (T02.srcTlru A fw) size isOkE rs s ⟨key, body, cif, io⟩
  have hsim := wrapGen_sim
    (fun c s => RelG cfg fw now c s ∧ ∀ p, p ∈ c.map → p.2.hits + 1 < u64Max)
    (fun c s => RelG cfg fw now c s ∧ ∀ p, p ∈ c.map → p.2.hits < u64Max)
    (fun c s => RelG cfg fw now c s)
    ⟨fun c k => Global.get ⟨fun b => now - b, now⟩ c k, fun c k v => Global.insert_result A ⟨fun b => now - b, now⟩ (headRand rs) c k v⟩
    (modelOps ⟨"f", false, false, cfg, false, true, ci, inv, [], [], []⟩ (T02.srcTlru A fw) size isOkE rs)
    inv ci io cif key body
    (fun c s h => by
      obtain ⟨g1, g2, g3⟩ := global_get_sim cfg fw now key c s h.1 h.2
      exact ⟨g1, g2, g3⟩)
    (fun c s h => by
      simp only [modelOps, headRand]
      cases body with
      | error e => simp [T13.global_insert_result_err, isOkE]; exact h.1
      | ok x =>
        simp only [T13.global_insert_result_ok, isOkE, if_true]
        exact global_insert_sim A cfg fw now _ key (.ok x) c s h.1 h.2 fok)
    (fun c s h => h.1) c s ⟨hr, hh⟩
  simp only [] at hm
  rw [← hm] at hsim
  exact hsim


end Cachelito.T17
