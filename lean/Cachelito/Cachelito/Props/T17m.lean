/-
  T17m — TRANSLATOR TIE, the wrapper `#[cache]` generates, WITH `max_memory`, and the headline for all 32 configurations
  (C01, C03, C05, C09, C10, C11, C19)

  T17 proves that every generated sync wrapper is the generic wrapper `wrapGen` and that, without `max_memory`, `wrapGen` over
  the translated engine is the model's `callFn`.  This file closes the remaining composition: with `max_memory` the store
  variant is `insert_with_memory` / `insert_result_with_memory`, whose translation carries a FUEL parameter for the source's
  `loop { }` (T14 / T15).  The fuel is an artefact of the translation, so the theorems instantiate it with the value the
  model's loop uses — one more than the queue length after the re-queue, computed from the state the lookup leaves — and
  state: the generated wrapper returns what `callFn` (with `useMem := true`) returns and leaves the cache in the state
  `callFn` leaves.  At the end: one theorem per GENERATED definition (16 thread-scope + 16 global-scope), each saying that
  definition is `callFn` of the corresponding specification.
-/
import Cachelito.Props.T17
import Cachelito.Props.T18
import Cachelito.Props.T14
import Cachelito.Props.T15

set_option linter.unusedSimpArgs false
set_option linter.unusedVariables false
set_option linter.unusedSectionVars false

namespace Cachelito.T17m
open Cachelito Cachelito.RustLite Cachelito.Generated Cachelito.Generated.Wrap Cachelito.T17

variable {K V F E T : Type} [DecidableEq K]

/-! ## global scope -/
section GlobalScope

/-- the fuel the model's memory loop uses for the sync engines (one more than the queue length after the re-queue) -/
def memFuelG (c : GlobalCache K V F) (k : K) : Nat := (erasePush k c.order).length + 1

theorem refLoop_frameG (c : GlobalCache K V F) (cfg : Cfg) (tl : Tlru F) (size : V → Nat) (now maxM fuel : Nat)
    (st : T14.LoopSt K V F)
    (h : st.1.limit = c.limit ∧ st.1.max_memory = c.max_memory ∧ st.1.policy = c.policy ∧ st.1.ttl = c.ttl ∧
      st.1.frequency_weight = c.frequency_weight ∧ st.1.stats = c.stats) :
    (loopFuel fuel st (T14.memBody cfg tl size now maxM)).1.limit = c.limit ∧
    (loopFuel fuel st (T14.memBody cfg tl size now maxM)).1.max_memory = c.max_memory ∧
    (loopFuel fuel st (T14.memBody cfg tl size now maxM)).1.policy = c.policy ∧
    (loopFuel fuel st (T14.memBody cfg tl size now maxM)).1.ttl = c.ttl ∧
    (loopFuel fuel st (T14.memBody cfg tl size now maxM)).1.frequency_weight = c.frequency_weight ∧
    (loopFuel fuel st (T14.memBody cfg tl size now maxM)).1.stats = c.stats :=
  T14.loopFuel_inv (fun st : T14.LoopSt K V F => st.1.limit = c.limit ∧ st.1.max_memory = c.max_memory ∧ st.1.policy = c.policy ∧
      st.1.ttl = c.ttl ∧ st.1.frequency_weight = c.frequency_weight ∧ st.1.stats = c.stats)
    (fun s hs => by
      unfold T14.memBody
      split
      · exact hs
      · exact hs) fuel st h

/-- `insert_with_memory` leaves configuration and counters alone -/
theorem refInsertMem_frameG (A : F64 F) (size : V → Nat) (fuel : Nat) (rs : List Nat) (c : GlobalCache K V F) (now : Nat)
    (k : K) (v : V) :
    (T14.refInsertMem A size fuel rs c now k v).limit = c.limit ∧ (T14.refInsertMem A size fuel rs c now k v).max_memory = c.max_memory ∧
    (T14.refInsertMem A size fuel rs c now k v).policy = c.policy ∧ (T14.refInsertMem A size fuel rs c now k v).ttl = c.ttl ∧
    (T14.refInsertMem A size fuel rs c now k v).frequency_weight = c.frequency_weight ∧
    (T14.refInsertMem A size fuel rs c now k v).stats = c.stats := by
  obtain ⟨cache, order, limit, mm, policy, ttl, fw, st⟩ := c
  unfold T14.refInsertMem
  cases mm with
  | none => simp
  | some maxM =>
    simp only []
    by_cases hov : size v > maxM
    · simp [hov]
    · simp only [hov, if_false]
      exact refLoop_frameG (c := ⟨cache, order, limit, some maxM, policy, ttl, fw, st⟩) _ _ size now maxM fuel
        _ ⟨rfl, rfl, rfl, rfl, rfl, rfl⟩

/-- `insert_with_memory` simulates the model's `insertMem` (with the model's fuel) -/
theorem global_insertMem_sim (A : F64 F) (cfg : Cfg) (fw : Option F) (now : Nat) (rs : List Nat) (size : V → Nat) (k : K) (v : V)
    (c : GlobalCache K V F) (s : State K V) (hr : RelG cfg fw now c s) (hh : ∀ p, p ∈ c.map → p.2.hits < u64Max)
    (fok : FloatOK A cfg fw) :
    RelG cfg fw now (Global.insert_with_memory A ⟨fun b => now - b, now⟩ size (memFuelG c k) rs c k v)
      (Cachelito.insertMem cfg (T02.srcTlru A fw) size rs s k v) := by
  obtain ⟨h1, h2, h3, h4, h5, h6, h7⟩ := hr
  have hs : s = ⟨c.map, c.order, now, c.stats.hits, c.stats.misses⟩ := by
    cases s; simp_all
  have ok : T08.ScoresOK A c := ⟨hh, fok.arcBelowMax, fok.arcOrder, by rw [h1, h2]; exact fok.tlruBelowMax⟩
  obtain ⟨m1, m2⟩ := T14.insert_with_memory_model A c size now c.stats.hits c.stats.misses rs k v ok
  rw [h1, h2, ← hs] at m1 m2
  have hfr := refInsertMem_frameG A size (memFuelG c k) rs c now k v
  rw [← T14.insert_with_memory_eq A c size now (memFuelG c k) rs k v ok] at hfr
  obtain ⟨g1, g2, g3, g4, g5, g6⟩ := hfr
  obtain ⟨f1, f2, f3⟩ := T18.insertMem_frame cfg (T02.srcTlru A fw) size rs s k v
  unfold memFuelG at *
  refine ⟨?_, by rw [g5]; exact h2, m1, m2, by rw [f1, h5], by rw [f2, g6]; exact h6, by rw [f3, g6]; exact h7⟩
  simp only [T08.cfgOf] at h1 ⊢
  rw [g1, g2, g3, g4]; exact h1

theorem global_insert_result_with_memory_err (A : F64 F) (clock : Clock) (size : Except E T → Nat) (fuel : Nat) (rs : List Nat)
    (c : GlobalCache K (Except E T) F) (k : K) (e : E) :
    Global.insert_result_with_memory A clock size fuel rs c k (.error e) = c := by
  simp [Global.insert_result_with_memory]

theorem global_insert_result_with_memory_ok (A : F64 F) (clock : Clock) (size : Except E T → Nat) (fuel : Nat) (rs : List Nat)
    (c : GlobalCache K (Except E T) F) (k : K) (v : T) :
    Global.insert_result_with_memory A clock size fuel rs c k (.ok v) = Global.insert_with_memory A clock size fuel rs c k (.ok v) := by
  simp [Global.insert_result_with_memory]

/-- the general step: whatever store variant the configuration selects, if it simulates the model's store rule (`modelOps`) on
    the state the lookup leaves, the generic wrapper over the translated engine is `callFn` -/
theorem global_wrapper_is_callFn_of_store (A : F64 F) (spec : FnSpec) (hs : spec.isAsync = false) (fw : Option F) (now : Nat)
    (rs : List Nat) (io cif : K → V → Bool) (size : V → Nat) (isOk : V → Bool)
    (store : GlobalCache K V F → K → V → GlobalCache K V F)
    (c0 : GlobalCache K V F) (s : State K V) (key : K) (body : V)
    (hr : RelG spec.cfg fw now c0 s) (hh : ∀ p, p ∈ c0.map → p.2.hits + 1 < u64Max)
    (hstore : ∀ c s', RelG spec.cfg fw now c s' → (∀ p, p ∈ c.map → p.2.hits < u64Max) →
        c = (Global.get ⟨fun b => now - b, now⟩ c0 key).2 →
        RelG spec.cfg fw now (store c key body) ((modelOps spec (T02.srcTlru A fw) size isOk rs).store s' key body)) :
    (wrapGen ⟨fun c k => Global.get ⟨fun b => now - b, now⟩ c k, store⟩ spec.hasInvalidateOn spec.hasCacheIf io cif c0 key body).1 =
      (callFn spec (T02.srcTlru A fw) size isOk rs s ⟨key, body, cif, io⟩).2.1 ∧
    RelG spec.cfg fw now
      (wrapGen ⟨fun c k => Global.get ⟨fun b => now - b, now⟩ c k, store⟩ spec.hasInvalidateOn spec.hasCacheIf io cif c0 key body).2
      (callFn spec (T02.srcTlru A fw) size isOk rs s ⟨key, body, cif, io⟩).1 := by
  have hm := callFn_eq_wrapGen (K := K) spec hs (T02.srcTlru A fw) size isOk rs s ⟨key, body, cif, io⟩
  have hsim := wrapGen_sim
    (fun c s => (RelG spec.cfg fw now c s ∧ ∀ p, p ∈ c.map → p.2.hits + 1 < u64Max) ∧ c = c0)
    (fun c s => (RelG spec.cfg fw now c s ∧ ∀ p, p ∈ c.map → p.2.hits < u64Max) ∧ c = (Global.get ⟨fun b => now - b, now⟩ c0 key).2)
    (fun c s => RelG spec.cfg fw now c s)
    ⟨fun c k => Global.get ⟨fun b => now - b, now⟩ c k, store⟩
    (modelOps spec (T02.srcTlru A fw) size isOk rs)
    spec.hasInvalidateOn spec.hasCacheIf io cif key body
    (fun c s h => by
      obtain ⟨g1, g2, g3⟩ := global_get_sim spec.cfg fw now key c s h.1.1 h.1.2
      exact ⟨g1, ⟨g2, g3⟩, by rw [h.2]⟩)
    (fun c s h => hstore c s h.1.1 h.1.2 h.2)
    (fun c s h => h.1.1) c0 s ⟨⟨hr, hh⟩, rfl⟩
  simp only [] at hm
  rw [← hm] at hsim
  exact hsim

/-- `#[cache(max_memory = …)]` on a plain function: the generic wrapper over the TRANSLATED
    engine (memory loop with the model's fuel) returns what the model's `callFn` returns and leaves the cache in the state
    `callFn` leaves -/
theorem global_mem_plain_wrapper_is_callFn (A : F64 F) (cfg : Cfg) (fw : Option F) (now : Nat) (rs : List Nat)
    (inv ci : Bool) (io cif : K → V → Bool) (size : V → Nat) (isOk : V → Bool)
    (c0 : GlobalCache K (V) F) (s : State K (V)) (key : K) (body : V)
    (hr : RelG cfg fw now c0 s) (hh : ∀ p, p ∈ c0.map → p.2.hits + 1 < u64Max) (fok : FloatOK A cfg fw) :
    (wrapGen ⟨fun c k => Global.get ⟨fun b => now - b, now⟩ c k, fun c k v => Global.insert_with_memory A ⟨fun b => now - b, now⟩ size (memFuelG (Global.get ⟨fun b => now - b, now⟩ c0 key).2 key) rs c k v⟩ inv ci io cif c0 key body).1 =
      (callFn ⟨"f", false, false, cfg, true, false, ci, inv, [], [], []⟩ (T02.srcTlru A fw) size isOk rs s ⟨key, body, cif, io⟩).2.1 ∧
    RelG cfg fw now
      (wrapGen ⟨fun c k => Global.get ⟨fun b => now - b, now⟩ c k, fun c k v => Global.insert_with_memory A ⟨fun b => now - b, now⟩ size (memFuelG (Global.get ⟨fun b => now - b, now⟩ c0 key).2 key) rs c k v⟩ inv ci io cif c0 key body).2
      (callFn ⟨"f", false, false, cfg, true, false, ci, inv, [], [], []⟩ (T02.srcTlru A fw) size isOk rs s ⟨key, body, cif, io⟩).1 :=
  global_wrapper_is_callFn_of_store A ⟨"f", false, false, cfg, true, false, ci, inv, [], [], []⟩ rfl fw now rs io cif size isOk _ c0 s key body hr hh
    (fun c s' h1 h2 h3 => by
      simp only [modelOps, if_true, Bool.false_eq_true, if_false]
      exact (by have := global_insertMem_sim A cfg fw now rs size key body c s' h1 h2 fok; rw [h3] at this ⊢; exact this))

/-- `#[cache(max_memory = …)]` on a `Result` function: the generic wrapper over the TRANSLATED
    engine (memory loop with the model's fuel) returns what the model's `callFn` returns and leaves the cache in the state
    `callFn` leaves; an `Err` is never stored, whatever `cache_if` says (C09) -/
theorem global_mem_result_wrapper_is_callFn (A : F64 F) (cfg : Cfg) (fw : Option F) (now : Nat) (rs : List Nat)
    (inv ci : Bool) (io cif : K → Except E T → Bool) (size : Except E T → Nat)
    (c0 : GlobalCache K (Except E T) F) (s : State K (Except E T)) (key : K) (body : Except E T)
    (hr : RelG cfg fw now c0 s) (hh : ∀ p, p ∈ c0.map → p.2.hits + 1 < u64Max) (fok : FloatOK A cfg fw) :
    (wrapGen ⟨fun c k => Global.get ⟨fun b => now - b, now⟩ c k, fun c k v => Global.insert_result_with_memory A ⟨fun b => now - b, now⟩ size (memFuelG (Global.get ⟨fun b => now - b, now⟩ c0 key).2 key) rs c k v⟩ inv ci io cif c0 key body).1 =
      (callFn ⟨"f", false, false, cfg, true, true, ci, inv, [], [], []⟩ (T02.srcTlru A fw) size isOkE rs s ⟨key, body, cif, io⟩).2.1 ∧
    RelG cfg fw now
      (wrapGen ⟨fun c k => Global.get ⟨fun b => now - b, now⟩ c k, fun c k v => Global.insert_result_with_memory A ⟨fun b => now - b, now⟩ size (memFuelG (Global.get ⟨fun b => now - b, now⟩ c0 key).2 key) rs c k v⟩ inv ci io cif c0 key body).2
      (callFn ⟨"f", false, false, cfg, true, true, ci, inv, [], [], []⟩ (T02.srcTlru A fw) size isOkE rs s ⟨key, body, cif, io⟩).1 :=
  global_wrapper_is_callFn_of_store A ⟨"f", false, false, cfg, true, true, ci, inv, [], [], []⟩ rfl fw now rs io cif size isOkE _ c0 s key body hr hh
    (fun c s' h1 h2 h3 => by
      simp only [modelOps]
      cases body with
      | error e => simp [global_insert_result_with_memory_err, isOkE]; exact h1
      | ok x =>
        simp only [global_insert_result_with_memory_ok, isOkE, if_true]
        exact (by have := global_insertMem_sim A cfg fw now rs size key (.ok x) c s' h1 h2 fok; rw [h3] at this ⊢; exact this))

/-! ### headline: each of the 16 GENERATED global-scope wrappers is the model's `callFn` for its configuration -/

theorem wrapGlobal_0000_is_callFn (A : F64 F) (cfg : Cfg) (fw : Option F) (now : Nat) (rs : List Nat) (fuel : Nat)
    (io cif : K → V → Bool) (size : V → Nat) (isOk : V → Bool)
    (c0 : GlobalCache K (V) F) (s : State K (V)) (key : K) (body : V)
    (hr : RelG cfg fw now c0 s) (hh : ∀ p, p ∈ c0.map → p.2.hits + 1 < u64Max) (fok : FloatOK A cfg fw) :
    (wrapGlobal_0000 A ⟨fun b => now - b, now⟩ size fuel rs io cif c0 key body).1 =
      (callFn ⟨"f", false, false, cfg, false, false, false, false, [], [], []⟩ (T02.srcTlru A fw) size isOk rs s ⟨key, body, cif, io⟩).2.1 ∧
    RelG cfg fw now (wrapGlobal_0000 A ⟨fun b => now - b, now⟩ size fuel rs io cif c0 key body).2
      (callFn ⟨"f", false, false, cfg, false, false, false, false, [], [], []⟩ (T02.srcTlru A fw) size isOk rs s ⟨key, body, cif, io⟩).1 := by
  rw [wrapGlobal_0000_eq]
  exact global_plain_wrapper_is_callFn A cfg fw now rs false false io cif size isOk c0 s key body hr hh fok

theorem wrapGlobal_0001_is_callFn (A : F64 F) (cfg : Cfg) (fw : Option F) (now : Nat) (rs : List Nat) (fuel : Nat)
    (io cif : K → V → Bool) (size : V → Nat) (isOk : V → Bool)
    (c0 : GlobalCache K (V) F) (s : State K (V)) (key : K) (body : V)
    (hr : RelG cfg fw now c0 s) (hh : ∀ p, p ∈ c0.map → p.2.hits + 1 < u64Max) (fok : FloatOK A cfg fw) :
    (wrapGlobal_0001 A ⟨fun b => now - b, now⟩ size fuel rs io cif c0 key body).1 =
      (callFn ⟨"f", false, false, cfg, false, false, true, false, [], [], []⟩ (T02.srcTlru A fw) size isOk rs s ⟨key, body, cif, io⟩).2.1 ∧
    RelG cfg fw now (wrapGlobal_0001 A ⟨fun b => now - b, now⟩ size fuel rs io cif c0 key body).2
      (callFn ⟨"f", false, false, cfg, false, false, true, false, [], [], []⟩ (T02.srcTlru A fw) size isOk rs s ⟨key, body, cif, io⟩).1 := by
  rw [wrapGlobal_0001_eq]
  exact global_plain_wrapper_is_callFn A cfg fw now rs false true io cif size isOk c0 s key body hr hh fok

theorem wrapGlobal_0010_is_callFn (A : F64 F) (cfg : Cfg) (fw : Option F) (now : Nat) (rs : List Nat) (fuel : Nat)
    (io cif : K → V → Bool) (size : V → Nat) (isOk : V → Bool)
    (c0 : GlobalCache K (V) F) (s : State K (V)) (key : K) (body : V)
    (hr : RelG cfg fw now c0 s) (hh : ∀ p, p ∈ c0.map → p.2.hits + 1 < u64Max) (fok : FloatOK A cfg fw) :
    (wrapGlobal_0010 A ⟨fun b => now - b, now⟩ size fuel rs io cif c0 key body).1 =
      (callFn ⟨"f", false, false, cfg, false, false, false, true, [], [], []⟩ (T02.srcTlru A fw) size isOk rs s ⟨key, body, cif, io⟩).2.1 ∧
    RelG cfg fw now (wrapGlobal_0010 A ⟨fun b => now - b, now⟩ size fuel rs io cif c0 key body).2
      (callFn ⟨"f", false, false, cfg, false, false, false, true, [], [], []⟩ (T02.srcTlru A fw) size isOk rs s ⟨key, body, cif, io⟩).1 := by
  rw [wrapGlobal_0010_eq]
  exact global_plain_wrapper_is_callFn A cfg fw now rs true false io cif size isOk c0 s key body hr hh fok

theorem wrapGlobal_0011_is_callFn (A : F64 F) (cfg : Cfg) (fw : Option F) (now : Nat) (rs : List Nat) (fuel : Nat)
    (io cif : K → V → Bool) (size : V → Nat) (isOk : V → Bool)
    (c0 : GlobalCache K (V) F) (s : State K (V)) (key : K) (body : V)
    (hr : RelG cfg fw now c0 s) (hh : ∀ p, p ∈ c0.map → p.2.hits + 1 < u64Max) (fok : FloatOK A cfg fw) :
    (wrapGlobal_0011 A ⟨fun b => now - b, now⟩ size fuel rs io cif c0 key body).1 =
      (callFn ⟨"f", false, false, cfg, false, false, true, true, [], [], []⟩ (T02.srcTlru A fw) size isOk rs s ⟨key, body, cif, io⟩).2.1 ∧
    RelG cfg fw now (wrapGlobal_0011 A ⟨fun b => now - b, now⟩ size fuel rs io cif c0 key body).2
      (callFn ⟨"f", false, false, cfg, false, false, true, true, [], [], []⟩ (T02.srcTlru A fw) size isOk rs s ⟨key, body, cif, io⟩).1 := by
  rw [wrapGlobal_0011_eq]
  exact global_plain_wrapper_is_callFn A cfg fw now rs true true io cif size isOk c0 s key body hr hh fok

theorem wrapGlobal_0100_is_callFn (A : F64 F) (cfg : Cfg) (fw : Option F) (now : Nat) (rs : List Nat) (fuel : Nat)
    (io cif : K → Except E T → Bool) (size : Except E T → Nat)
    (c0 : GlobalCache K (Except E T) F) (s : State K (Except E T)) (key : K) (body : Except E T)
    (hr : RelG cfg fw now c0 s) (hh : ∀ p, p ∈ c0.map → p.2.hits + 1 < u64Max) (fok : FloatOK A cfg fw) :
    (wrapGlobal_0100 A ⟨fun b => now - b, now⟩ size fuel rs io cif c0 key body).1 =
      (callFn ⟨"f", false, false, cfg, false, true, false, false, [], [], []⟩ (T02.srcTlru A fw) size isOkE rs s ⟨key, body, cif, io⟩).2.1 ∧
    RelG cfg fw now (wrapGlobal_0100 A ⟨fun b => now - b, now⟩ size fuel rs io cif c0 key body).2
      (callFn ⟨"f", false, false, cfg, false, true, false, false, [], [], []⟩ (T02.srcTlru A fw) size isOkE rs s ⟨key, body, cif, io⟩).1 := by
  rw [wrapGlobal_0100_eq]
  exact global_result_wrapper_is_callFn A cfg fw now rs false false io cif size c0 s key body hr hh fok

theorem wrapGlobal_0101_is_callFn (A : F64 F) (cfg : Cfg) (fw : Option F) (now : Nat) (rs : List Nat) (fuel : Nat)
    (io cif : K → Except E T → Bool) (size : Except E T → Nat)
    (c0 : GlobalCache K (Except E T) F) (s : State K (Except E T)) (key : K) (body : Except E T)
    (hr : RelG cfg fw now c0 s) (hh : ∀ p, p ∈ c0.map → p.2.hits + 1 < u64Max) (fok : FloatOK A cfg fw) :
    (wrapGlobal_0101 A ⟨fun b => now - b, now⟩ size fuel rs io cif c0 key body).1 =
      (callFn ⟨"f", false, false, cfg, false, true, true, false, [], [], []⟩ (T02.srcTlru A fw) size isOkE rs s ⟨key, body, cif, io⟩).2.1 ∧
    RelG cfg fw now (wrapGlobal_0101 A ⟨fun b => now - b, now⟩ size fuel rs io cif c0 key body).2
      (callFn ⟨"f", false, false, cfg, false, true, true, false, [], [], []⟩ (T02.srcTlru A fw) size isOkE rs s ⟨key, body, cif, io⟩).1 := by
  rw [wrapGlobal_0101_eq]
  exact global_result_wrapper_is_callFn A cfg fw now rs false true io cif size c0 s key body hr hh fok

theorem wrapGlobal_0110_is_callFn (A : F64 F) (cfg : Cfg) (fw : Option F) (now : Nat) (rs : List Nat) (fuel : Nat)
    (io cif : K → Except E T → Bool) (size : Except E T → Nat)
    (c0 : GlobalCache K (Except E T) F) (s : State K (Except E T)) (key : K) (body : Except E T)
    (hr : RelG cfg fw now c0 s) (hh : ∀ p, p ∈ c0.map → p.2.hits + 1 < u64Max) (fok : FloatOK A cfg fw) :
    (wrapGlobal_0110 A ⟨fun b => now - b, now⟩ size fuel rs io cif c0 key body).1 =
      (callFn ⟨"f", false, false, cfg, false, true, false, true, [], [], []⟩ (T02.srcTlru A fw) size isOkE rs s ⟨key, body, cif, io⟩).2.1 ∧
    RelG cfg fw now (wrapGlobal_0110 A ⟨fun b => now - b, now⟩ size fuel rs io cif c0 key body).2
      (callFn ⟨"f", false, false, cfg, false, true, false, true, [], [], []⟩ (T02.srcTlru A fw) size isOkE rs s ⟨key, body, cif, io⟩).1 := by
  rw [wrapGlobal_0110_eq]
  exact global_result_wrapper_is_callFn A cfg fw now rs true false io cif size c0 s key body hr hh fok

theorem wrapGlobal_0111_is_callFn (A : F64 F) (cfg : Cfg) (fw : Option F) (now : Nat) (rs : List Nat) (fuel : Nat)
    (io cif : K → Except E T → Bool) (size : Except E T → Nat)
    (c0 : GlobalCache K (Except E T) F) (s : State K (Except E T)) (key : K) (body : Except E T)
    (hr : RelG cfg fw now c0 s) (hh : ∀ p, p ∈ c0.map → p.2.hits + 1 < u64Max) (fok : FloatOK A cfg fw) :
    (wrapGlobal_0111 A ⟨fun b => now - b, now⟩ size fuel rs io cif c0 key body).1 =
      (callFn ⟨"f", false, false, cfg, false, true, true, true, [], [], []⟩ (T02.srcTlru A fw) size isOkE rs s ⟨key, body, cif, io⟩).2.1 ∧
    RelG cfg fw now (wrapGlobal_0111 A ⟨fun b => now - b, now⟩ size fuel rs io cif c0 key body).2
      (callFn ⟨"f", false, false, cfg, false, true, true, true, [], [], []⟩ (T02.srcTlru A fw) size isOkE rs s ⟨key, body, cif, io⟩).1 := by
  rw [wrapGlobal_0111_eq]
  exact global_result_wrapper_is_callFn A cfg fw now rs true true io cif size c0 s key body hr hh fok

theorem wrapGlobal_1000_is_callFn (A : F64 F) (cfg : Cfg) (fw : Option F) (now : Nat) (rs : List Nat)
    (io cif : K → V → Bool) (size : V → Nat) (isOk : V → Bool)
    (c0 : GlobalCache K (V) F) (s : State K (V)) (key : K) (body : V)
    (hr : RelG cfg fw now c0 s) (hh : ∀ p, p ∈ c0.map → p.2.hits + 1 < u64Max) (fok : FloatOK A cfg fw) :
    (wrapGlobal_1000 A ⟨fun b => now - b, now⟩ size (memFuelG (Global.get ⟨fun b => now - b, now⟩ c0 key).2 key) rs io cif c0 key body).1 =
      (callFn ⟨"f", false, false, cfg, true, false, false, false, [], [], []⟩ (T02.srcTlru A fw) size isOk rs s ⟨key, body, cif, io⟩).2.1 ∧
    RelG cfg fw now (wrapGlobal_1000 A ⟨fun b => now - b, now⟩ size (memFuelG (Global.get ⟨fun b => now - b, now⟩ c0 key).2 key) rs io cif c0 key body).2
      (callFn ⟨"f", false, false, cfg, true, false, false, false, [], [], []⟩ (T02.srcTlru A fw) size isOk rs s ⟨key, body, cif, io⟩).1 := by
  rw [wrapGlobal_1000_eq]
  exact global_mem_plain_wrapper_is_callFn A cfg fw now rs false false io cif size isOk c0 s key body hr hh fok

theorem wrapGlobal_1001_is_callFn (A : F64 F) (cfg : Cfg) (fw : Option F) (now : Nat) (rs : List Nat)
    (io cif : K → V → Bool) (size : V → Nat) (isOk : V → Bool)
    (c0 : GlobalCache K (V) F) (s : State K (V)) (key : K) (body : V)
    (hr : RelG cfg fw now c0 s) (hh : ∀ p, p ∈ c0.map → p.2.hits + 1 < u64Max) (fok : FloatOK A cfg fw) :
    (wrapGlobal_1001 A ⟨fun b => now - b, now⟩ size (memFuelG (Global.get ⟨fun b => now - b, now⟩ c0 key).2 key) rs io cif c0 key body).1 =
      (callFn ⟨"f", false, false, cfg, true, false, true, false, [], [], []⟩ (T02.srcTlru A fw) size isOk rs s ⟨key, body, cif, io⟩).2.1 ∧
    RelG cfg fw now (wrapGlobal_1001 A ⟨fun b => now - b, now⟩ size (memFuelG (Global.get ⟨fun b => now - b, now⟩ c0 key).2 key) rs io cif c0 key body).2
      (callFn ⟨"f", false, false, cfg, true, false, true, false, [], [], []⟩ (T02.srcTlru A fw) size isOk rs s ⟨key, body, cif, io⟩).1 := by
  rw [wrapGlobal_1001_eq]
  exact global_mem_plain_wrapper_is_callFn A cfg fw now rs false true io cif size isOk c0 s key body hr hh fok

theorem wrapGlobal_1010_is_callFn (A : F64 F) (cfg : Cfg) (fw : Option F) (now : Nat) (rs : List Nat)
    (io cif : K → V → Bool) (size : V → Nat) (isOk : V → Bool)
    (c0 : GlobalCache K (V) F) (s : State K (V)) (key : K) (body : V)
    (hr : RelG cfg fw now c0 s) (hh : ∀ p, p ∈ c0.map → p.2.hits + 1 < u64Max) (fok : FloatOK A cfg fw) :
    (wrapGlobal_1010 A ⟨fun b => now - b, now⟩ size (memFuelG (Global.get ⟨fun b => now - b, now⟩ c0 key).2 key) rs io cif c0 key body).1 =
      (callFn ⟨"f", false, false, cfg, true, false, false, true, [], [], []⟩ (T02.srcTlru A fw) size isOk rs s ⟨key, body, cif, io⟩).2.1 ∧
    RelG cfg fw now (wrapGlobal_1010 A ⟨fun b => now - b, now⟩ size (memFuelG (Global.get ⟨fun b => now - b, now⟩ c0 key).2 key) rs io cif c0 key body).2
      (callFn ⟨"f", false, false, cfg, true, false, false, true, [], [], []⟩ (T02.srcTlru A fw) size isOk rs s ⟨key, body, cif, io⟩).1 := by
  rw [wrapGlobal_1010_eq]
  exact global_mem_plain_wrapper_is_callFn A cfg fw now rs true false io cif size isOk c0 s key body hr hh fok

theorem wrapGlobal_1011_is_callFn (A : F64 F) (cfg : Cfg) (fw : Option F) (now : Nat) (rs : List Nat)
    (io cif : K → V → Bool) (size : V → Nat) (isOk : V → Bool)
    (c0 : GlobalCache K (V) F) (s : State K (V)) (key : K) (body : V)
    (hr : RelG cfg fw now c0 s) (hh : ∀ p, p ∈ c0.map → p.2.hits + 1 < u64Max) (fok : FloatOK A cfg fw) :
    (wrapGlobal_1011 A ⟨fun b => now - b, now⟩ size (memFuelG (Global.get ⟨fun b => now - b, now⟩ c0 key).2 key) rs io cif c0 key body).1 =
      (callFn ⟨"f", false, false, cfg, true, false, true, true, [], [], []⟩ (T02.srcTlru A fw) size isOk rs s ⟨key, body, cif, io⟩).2.1 ∧
    RelG cfg fw now (wrapGlobal_1011 A ⟨fun b => now - b, now⟩ size (memFuelG (Global.get ⟨fun b => now - b, now⟩ c0 key).2 key) rs io cif c0 key body).2
      (callFn ⟨"f", false, false, cfg, true, false, true, true, [], [], []⟩ (T02.srcTlru A fw) size isOk rs s ⟨key, body, cif, io⟩).1 := by
  rw [wrapGlobal_1011_eq]
  exact global_mem_plain_wrapper_is_callFn A cfg fw now rs true true io cif size isOk c0 s key body hr hh fok

theorem wrapGlobal_1100_is_callFn (A : F64 F) (cfg : Cfg) (fw : Option F) (now : Nat) (rs : List Nat)
    (io cif : K → Except E T → Bool) (size : Except E T → Nat)
    (c0 : GlobalCache K (Except E T) F) (s : State K (Except E T)) (key : K) (body : Except E T)
    (hr : RelG cfg fw now c0 s) (hh : ∀ p, p ∈ c0.map → p.2.hits + 1 < u64Max) (fok : FloatOK A cfg fw) :
    (wrapGlobal_1100 A ⟨fun b => now - b, now⟩ size (memFuelG (Global.get ⟨fun b => now - b, now⟩ c0 key).2 key) rs io cif c0 key body).1 =
      (callFn ⟨"f", false, false, cfg, true, true, false, false, [], [], []⟩ (T02.srcTlru A fw) size isOkE rs s ⟨key, body, cif, io⟩).2.1 ∧
    RelG cfg fw now (wrapGlobal_1100 A ⟨fun b => now - b, now⟩ size (memFuelG (Global.get ⟨fun b => now - b, now⟩ c0 key).2 key) rs io cif c0 key body).2
      (callFn ⟨"f", false, false, cfg, true, true, false, false, [], [], []⟩ (T02.srcTlru A fw) size isOkE rs s ⟨key, body, cif, io⟩).1 := by
  rw [wrapGlobal_1100_eq]
  exact global_mem_result_wrapper_is_callFn A cfg fw now rs false false io cif size c0 s key body hr hh fok

theorem wrapGlobal_1101_is_callFn (A : F64 F) (cfg : Cfg) (fw : Option F) (now : Nat) (rs : List Nat)
    (io cif : K → Except E T → Bool) (size : Except E T → Nat)
    (c0 : GlobalCache K (Except E T) F) (s : State K (Except E T)) (key : K) (body : Except E T)
    (hr : RelG cfg fw now c0 s) (hh : ∀ p, p ∈ c0.map → p.2.hits + 1 < u64Max) (fok : FloatOK A cfg fw) :
    (wrapGlobal_1101 A ⟨fun b => now - b, now⟩ size (memFuelG (Global.get ⟨fun b => now - b, now⟩ c0 key).2 key) rs io cif c0 key body).1 =
      (callFn ⟨"f", false, false, cfg, true, true, true, false, [], [], []⟩ (T02.srcTlru A fw) size isOkE rs s ⟨key, body, cif, io⟩).2.1 ∧
    RelG cfg fw now (wrapGlobal_1101 A ⟨fun b => now - b, now⟩ size (memFuelG (Global.get ⟨fun b => now - b, now⟩ c0 key).2 key) rs io cif c0 key body).2
      (callFn ⟨"f", false, false, cfg, true, true, true, false, [], [], []⟩ (T02.srcTlru A fw) size isOkE rs s ⟨key, body, cif, io⟩).1 := by
  rw [wrapGlobal_1101_eq]
  exact global_mem_result_wrapper_is_callFn A cfg fw now rs false true io cif size c0 s key body hr hh fok

theorem wrapGlobal_1110_is_callFn (A : F64 F) (cfg : Cfg) (fw : Option F) (now : Nat) (rs : List Nat)
    (io cif : K → Except E T → Bool) (size : Except E T → Nat)
    (c0 : GlobalCache K (Except E T) F) (s : State K (Except E T)) (key : K) (body : Except E T)
    (hr : RelG cfg fw now c0 s) (hh : ∀ p, p ∈ c0.map → p.2.hits + 1 < u64Max) (fok : FloatOK A cfg fw) :
    (wrapGlobal_1110 A ⟨fun b => now - b, now⟩ size (memFuelG (Global.get ⟨fun b => now - b, now⟩ c0 key).2 key) rs io cif c0 key body).1 =
      (callFn ⟨"f", false, false, cfg, true, true, false, true, [], [], []⟩ (T02.srcTlru A fw) size isOkE rs s ⟨key, body, cif, io⟩).2.1 ∧
    RelG cfg fw now (wrapGlobal_1110 A ⟨fun b => now - b, now⟩ size (memFuelG (Global.get ⟨fun b => now - b, now⟩ c0 key).2 key) rs io cif c0 key body).2
      (callFn ⟨"f", false, false, cfg, true, true, false, true, [], [], []⟩ (T02.srcTlru A fw) size isOkE rs s ⟨key, body, cif, io⟩).1 := by
  rw [wrapGlobal_1110_eq]
  exact global_mem_result_wrapper_is_callFn A cfg fw now rs true false io cif size c0 s key body hr hh fok

theorem wrapGlobal_1111_is_callFn (A : F64 F) (cfg : Cfg) (fw : Option F) (now : Nat) (rs : List Nat)
    (io cif : K → Except E T → Bool) (size : Except E T → Nat)
    (c0 : GlobalCache K (Except E T) F) (s : State K (Except E T)) (key : K) (body : Except E T)
    (hr : RelG cfg fw now c0 s) (hh : ∀ p, p ∈ c0.map → p.2.hits + 1 < u64Max) (fok : FloatOK A cfg fw) :
    (wrapGlobal_1111 A ⟨fun b => now - b, now⟩ size (memFuelG (Global.get ⟨fun b => now - b, now⟩ c0 key).2 key) rs io cif c0 key body).1 =
      (callFn ⟨"f", false, false, cfg, true, true, true, true, [], [], []⟩ (T02.srcTlru A fw) size isOkE rs s ⟨key, body, cif, io⟩).2.1 ∧
    RelG cfg fw now (wrapGlobal_1111 A ⟨fun b => now - b, now⟩ size (memFuelG (Global.get ⟨fun b => now - b, now⟩ c0 key).2 key) rs io cif c0 key body).2
      (callFn ⟨"f", false, false, cfg, true, true, true, true, [], [], []⟩ (T02.srcTlru A fw) size isOkE rs s ⟨key, body, cif, io⟩).1 := by
  rw [wrapGlobal_1111_eq]
  exact global_mem_result_wrapper_is_callFn A cfg fw now rs true true io cif size c0 s key body hr hh fok

end GlobalScope

/-! ## thread scope -/
section ThreadScope

/-- the fuel the model's memory loop uses for the sync engines (one more than the queue length after the re-queue) -/
def memFuelT (c : ThreadCache K V F) (k : K) : Nat := (erasePush k c.order).length + 1

theorem refLoop_frameT (c : ThreadCache K V F) (cfg : Cfg) (tl : Tlru F) (size : V → Nat) (now maxM fuel : Nat)
    (st : T15.LoopSt K V F)
    (h : st.1.limit = c.limit ∧ st.1.max_memory = c.max_memory ∧ st.1.policy = c.policy ∧ st.1.ttl = c.ttl ∧
      st.1.frequency_weight = c.frequency_weight ∧ st.1.stats = c.stats) :
    (loopFuel fuel st (T15.memBody cfg tl size now maxM)).1.limit = c.limit ∧
    (loopFuel fuel st (T15.memBody cfg tl size now maxM)).1.max_memory = c.max_memory ∧
    (loopFuel fuel st (T15.memBody cfg tl size now maxM)).1.policy = c.policy ∧
    (loopFuel fuel st (T15.memBody cfg tl size now maxM)).1.ttl = c.ttl ∧
    (loopFuel fuel st (T15.memBody cfg tl size now maxM)).1.frequency_weight = c.frequency_weight ∧
    (loopFuel fuel st (T15.memBody cfg tl size now maxM)).1.stats = c.stats :=
  T14.loopFuel_inv (fun st : T15.LoopSt K V F => st.1.limit = c.limit ∧ st.1.max_memory = c.max_memory ∧ st.1.policy = c.policy ∧
      st.1.ttl = c.ttl ∧ st.1.frequency_weight = c.frequency_weight ∧ st.1.stats = c.stats)
    (fun s hs => by
      unfold T15.memBody
      split
      · exact hs
      · exact hs) fuel st h

/-- `insert_with_memory` leaves configuration and counters alone -/
theorem refInsertMem_frameT (A : F64 F) (size : V → Nat) (fuel : Nat) (rs : List Nat) (c : ThreadCache K V F) (now : Nat)
    (k : K) (v : V) :
    (T15.refInsertMem A size fuel rs c now k v).limit = c.limit ∧ (T15.refInsertMem A size fuel rs c now k v).max_memory = c.max_memory ∧
    (T15.refInsertMem A size fuel rs c now k v).policy = c.policy ∧ (T15.refInsertMem A size fuel rs c now k v).ttl = c.ttl ∧
    (T15.refInsertMem A size fuel rs c now k v).frequency_weight = c.frequency_weight ∧
    (T15.refInsertMem A size fuel rs c now k v).stats = c.stats := by
  obtain ⟨cache, order, limit, mm, policy, ttl, fw, st⟩ := c
  unfold T15.refInsertMem
  cases mm with
  | none => simp
  | some maxM =>
    simp only []
    by_cases hov : size v > maxM
    · simp [hov]
    · simp only [hov, if_false]
      exact refLoop_frameT (c := ⟨cache, order, limit, some maxM, policy, ttl, fw, st⟩) _ _ size now maxM fuel
        _ ⟨rfl, rfl, rfl, rfl, rfl, rfl⟩

/-- `insert_with_memory` simulates the model's `insertMem` (with the model's fuel) -/
theorem thread_insertMem_sim (A : F64 F) (cfg : Cfg) (fw : Option F) (now : Nat) (rs : List Nat) (size : V → Nat) (k : K) (v : V)
    (c : ThreadCache K V F) (s : State K V) (hr : RelT cfg fw now c s) (hh : ∀ p, p ∈ c.cache → p.2.hits < u64Max)
    (fok : FloatOK A cfg fw) :
    RelT cfg fw now (Thread.insert_with_memory A ⟨fun b => now - b, now⟩ size (memFuelT c k) rs c k v)
      (Cachelito.insertMem cfg (T02.srcTlru A fw) size rs s k v) := by
  obtain ⟨h1, h2, h3, h4, h5, h6, h7⟩ := hr
  have hs : s = ⟨c.cache, c.order, now, c.stats.hits, c.stats.misses⟩ := by
    cases s; simp_all
  have ok : T11.ScoresOK A c := ⟨hh, fok.arcBelowMax, fok.arcOrder, by rw [h1, h2]; exact fok.tlruBelowMax⟩
  obtain ⟨m1, m2⟩ := T15.insert_with_memory_model A c size now c.stats.hits c.stats.misses rs k v ok
  rw [h1, h2, ← hs] at m1 m2
  have hfr := refInsertMem_frameT A size (memFuelT c k) rs c now k v
  rw [← T15.insert_with_memory_eq A c size now (memFuelT c k) rs k v ok] at hfr
  obtain ⟨g1, g2, g3, g4, g5, g6⟩ := hfr
  obtain ⟨f1, f2, f3⟩ := T18.insertMem_frame cfg (T02.srcTlru A fw) size rs s k v
  unfold memFuelT at *
  refine ⟨?_, by rw [g5]; exact h2, m1, m2, by rw [f1, h5], by rw [f2, g6]; exact h6, by rw [f3, g6]; exact h7⟩
  simp only [T11.cfgOf] at h1 ⊢
  rw [g1, g2, g3, g4]; exact h1

theorem thread_insert_result_with_memory_err (A : F64 F) (clock : Clock) (size : Except E T → Nat) (fuel : Nat) (rs : List Nat)
    (c : ThreadCache K (Except E T) F) (k : K) (e : E) :
    Thread.insert_result_with_memory A clock size fuel rs c k (.error e) = c := by
  simp [Thread.insert_result_with_memory]

theorem thread_insert_result_with_memory_ok (A : F64 F) (clock : Clock) (size : Except E T → Nat) (fuel : Nat) (rs : List Nat)
    (c : ThreadCache K (Except E T) F) (k : K) (v : T) :
    Thread.insert_result_with_memory A clock size fuel rs c k (.ok v) = Thread.insert_with_memory A clock size fuel rs c k (.ok v) := by
  simp [Thread.insert_result_with_memory]

/-- the general step: whatever store variant the configuration selects, if it simulates the model's store rule (`modelOps`) on
    the state the lookup leaves, the generic wrapper over the translated engine is `callFn` -/
theorem thread_wrapper_is_callFn_of_store (A : F64 F) (spec : FnSpec) (hs : spec.isAsync = false) (fw : Option F) (now : Nat)
    (rs : List Nat) (io cif : K → V → Bool) (size : V → Nat) (isOk : V → Bool)
    (store : ThreadCache K V F → K → V → ThreadCache K V F)
    (c0 : ThreadCache K V F) (s : State K V) (key : K) (body : V)
    (hr : RelT spec.cfg fw now c0 s) (hh : ∀ p, p ∈ c0.cache → p.2.hits + 1 < u64Max)
    (hstore : ∀ c s', RelT spec.cfg fw now c s' → (∀ p, p ∈ c.cache → p.2.hits < u64Max) →
        c = (Thread.get ⟨fun b => now - b, now⟩ c0 key).2 →
        RelT spec.cfg fw now (store c key body) ((modelOps spec (T02.srcTlru A fw) size isOk rs).store s' key body)) :
    (wrapGen ⟨fun c k => Thread.get ⟨fun b => now - b, now⟩ c k, store⟩ spec.hasInvalidateOn spec.hasCacheIf io cif c0 key body).1 =
      (callFn spec (T02.srcTlru A fw) size isOk rs s ⟨key, body, cif, io⟩).2.1 ∧
    RelT spec.cfg fw now
      (wrapGen ⟨fun c k => Thread.get ⟨fun b => now - b, now⟩ c k, store⟩ spec.hasInvalidateOn spec.hasCacheIf io cif c0 key body).2
      (callFn spec (T02.srcTlru A fw) size isOk rs s ⟨key, body, cif, io⟩).1 := by
  have hm := callFn_eq_wrapGen (K := K) spec hs (T02.srcTlru A fw) size isOk rs s ⟨key, body, cif, io⟩
  have hsim := wrapGen_sim
    (fun c s => (RelT spec.cfg fw now c s ∧ ∀ p, p ∈ c.cache → p.2.hits + 1 < u64Max) ∧ c = c0)
    (fun c s => (RelT spec.cfg fw now c s ∧ ∀ p, p ∈ c.cache → p.2.hits < u64Max) ∧ c = (Thread.get ⟨fun b => now - b, now⟩ c0 key).2)
    (fun c s => RelT spec.cfg fw now c s)
    ⟨fun c k => Thread.get ⟨fun b => now - b, now⟩ c k, store⟩
    (modelOps spec (T02.srcTlru A fw) size isOk rs)
    spec.hasInvalidateOn spec.hasCacheIf io cif key body
    (fun c s h => by
      obtain ⟨g1, g2, g3⟩ := thread_get_sim spec.cfg fw now key c s h.1.1 h.1.2
      exact ⟨g1, ⟨g2, g3⟩, by rw [h.2]⟩)
    (fun c s h => hstore c s h.1.1 h.1.2 h.2)
    (fun c s h => h.1.1) c0 s ⟨⟨hr, hh⟩, rfl⟩
  simp only [] at hm
  rw [← hm] at hsim
  exact hsim

/-- `#[cache(scope = "thread", max_memory = …)]` on a plain function: the generic wrapper over the TRANSLATED
    engine (memory loop with the model's fuel) returns what the model's `callFn` returns and leaves the cache in the state
    `callFn` leaves -/
theorem thread_mem_plain_wrapper_is_callFn (A : F64 F) (cfg : Cfg) (fw : Option F) (now : Nat) (rs : List Nat)
    (inv ci : Bool) (io cif : K → V → Bool) (size : V → Nat) (isOk : V → Bool)
    (c0 : ThreadCache K (V) F) (s : State K (V)) (key : K) (body : V)
    (hr : RelT cfg fw now c0 s) (hh : ∀ p, p ∈ c0.cache → p.2.hits + 1 < u64Max) (fok : FloatOK A cfg fw) :
    (wrapGen ⟨fun c k => Thread.get ⟨fun b => now - b, now⟩ c k, fun c k v => Thread.insert_with_memory A ⟨fun b => now - b, now⟩ size (memFuelT (Thread.get ⟨fun b => now - b, now⟩ c0 key).2 key) rs c k v⟩ inv ci io cif c0 key body).1 =
      (callFn ⟨"f", false, true, cfg, true, false, ci, inv, [], [], []⟩ (T02.srcTlru A fw) size isOk rs s ⟨key, body, cif, io⟩).2.1 ∧
    RelT cfg fw now
      (wrapGen ⟨fun c k => Thread.get ⟨fun b => now - b, now⟩ c k, fun c k v => Thread.insert_with_memory A ⟨fun b => now - b, now⟩ size (memFuelT (Thread.get ⟨fun b => now - b, now⟩ c0 key).2 key) rs c k v⟩ inv ci io cif c0 key body).2
      (callFn ⟨"f", false, true, cfg, true, false, ci, inv, [], [], []⟩ (T02.srcTlru A fw) size isOk rs s ⟨key, body, cif, io⟩).1 :=
  thread_wrapper_is_callFn_of_store A ⟨"f", false, true, cfg, true, false, ci, inv, [], [], []⟩ rfl fw now rs io cif size isOk _ c0 s key body hr hh
    (fun c s' h1 h2 h3 => by
      simp only [modelOps, if_true, Bool.false_eq_true, if_false]
      exact (by have := thread_insertMem_sim A cfg fw now rs size key body c s' h1 h2 fok; rw [h3] at this ⊢; exact this))

/-- `#[cache(scope = "thread", max_memory = …)]` on a `Result` function: the generic wrapper over the TRANSLATED
    engine (memory loop with the model's fuel) returns what the model's `callFn` returns and leaves the cache in the state
    `callFn` leaves; an `Err` is never stored, whatever `cache_if` says (C09) -/
theorem thread_mem_result_wrapper_is_callFn (A : F64 F) (cfg : Cfg) (fw : Option F) (now : Nat) (rs : List Nat)
    (inv ci : Bool) (io cif : K → Except E T → Bool) (size : Except E T → Nat)
    (c0 : ThreadCache K (Except E T) F) (s : State K (Except E T)) (key : K) (body : Except E T)
    (hr : RelT cfg fw now c0 s) (hh : ∀ p, p ∈ c0.cache → p.2.hits + 1 < u64Max) (fok : FloatOK A cfg fw) :
    (wrapGen ⟨fun c k => Thread.get ⟨fun b => now - b, now⟩ c k, fun c k v => Thread.insert_result_with_memory A ⟨fun b => now - b, now⟩ size (memFuelT (Thread.get ⟨fun b => now - b, now⟩ c0 key).2 key) rs c k v⟩ inv ci io cif c0 key body).1 =
      (callFn ⟨"f", false, true, cfg, true, true, ci, inv, [], [], []⟩ (T02.srcTlru A fw) size isOkE rs s ⟨key, body, cif, io⟩).2.1 ∧
    RelT cfg fw now
      (wrapGen ⟨fun c k => Thread.get ⟨fun b => now - b, now⟩ c k, fun c k v => Thread.insert_result_with_memory A ⟨fun b => now - b, now⟩ size (memFuelT (Thread.get ⟨fun b => now - b, now⟩ c0 key).2 key) rs c k v⟩ inv ci io cif c0 key body).2
      (callFn ⟨"f", false, true, cfg, true, true, ci, inv, [], [], []⟩ (T02.srcTlru A fw) size isOkE rs s ⟨key, body, cif, io⟩).1 :=
  thread_wrapper_is_callFn_of_store A ⟨"f", false, true, cfg, true, true, ci, inv, [], [], []⟩ rfl fw now rs io cif size isOkE _ c0 s key body hr hh
    (fun c s' h1 h2 h3 => by
      simp only [modelOps]
      cases body with
      | error e => simp [thread_insert_result_with_memory_err, isOkE]; exact h1
      | ok x =>
        simp only [thread_insert_result_with_memory_ok, isOkE, if_true]
        exact (by have := thread_insertMem_sim A cfg fw now rs size key (.ok x) c s' h1 h2 fok; rw [h3] at this ⊢; exact this))

/-! ### headline: each of the 16 GENERATED thread-scope wrappers is the model's `callFn` for its configuration -/

theorem wrapThread_0000_is_callFn (A : F64 F) (cfg : Cfg) (fw : Option F) (now : Nat) (rs : List Nat) (fuel : Nat)
    (io cif : K → V → Bool) (size : V → Nat) (isOk : V → Bool)
    (c0 : ThreadCache K (V) F) (s : State K (V)) (key : K) (body : V)
    (hr : RelT cfg fw now c0 s) (hh : ∀ p, p ∈ c0.cache → p.2.hits + 1 < u64Max) (fok : FloatOK A cfg fw) :
    (wrapThread_0000 A ⟨fun b => now - b, now⟩ size fuel rs io cif c0 key body).1 =
      (callFn ⟨"f", false, true, cfg, false, false, false, false, [], [], []⟩ (T02.srcTlru A fw) size isOk rs s ⟨key, body, cif, io⟩).2.1 ∧
    RelT cfg fw now (wrapThread_0000 A ⟨fun b => now - b, now⟩ size fuel rs io cif c0 key body).2
      (callFn ⟨"f", false, true, cfg, false, false, false, false, [], [], []⟩ (T02.srcTlru A fw) size isOk rs s ⟨key, body, cif, io⟩).1 := by
  rw [wrapThread_0000_eq]
  exact thread_plain_wrapper_is_callFn A cfg fw now rs false false io cif size isOk c0 s key body hr hh fok

theorem wrapThread_0001_is_callFn (A : F64 F) (cfg : Cfg) (fw : Option F) (now : Nat) (rs : List Nat) (fuel : Nat)
    (io cif : K → V → Bool) (size : V → Nat) (isOk : V → Bool)
    (c0 : ThreadCache K (V) F) (s : State K (V)) (key : K) (body : V)
    (hr : RelT cfg fw now c0 s) (hh : ∀ p, p ∈ c0.cache → p.2.hits + 1 < u64Max) (fok : FloatOK A cfg fw) :
    (wrapThread_0001 A ⟨fun b => now - b, now⟩ size fuel rs io cif c0 key body).1 =
      (callFn ⟨"f", false, true, cfg, false, false, true, false, [], [], []⟩ (T02.srcTlru A fw) size isOk rs s ⟨key, body, cif, io⟩).2.1 ∧
    RelT cfg fw now (wrapThread_0001 A ⟨fun b => now - b, now⟩ size fuel rs io cif c0 key body).2
      (callFn ⟨"f", false, true, cfg, false, false, true, false, [], [], []⟩ (T02.srcTlru A fw) size isOk rs s ⟨key, body, cif, io⟩).1 := by
  rw [wrapThread_0001_eq]
  exact thread_plain_wrapper_is_callFn A cfg fw now rs false true io cif size isOk c0 s key body hr hh fok

theorem wrapThread_0010_is_callFn (A : F64 F) (cfg : Cfg) (fw : Option F) (now : Nat) (rs : List Nat) (fuel : Nat)
    (io cif : K → V → Bool) (size : V → Nat) (isOk : V → Bool)
    (c0 : ThreadCache K (V) F) (s : State K (V)) (key : K) (body : V)
    (hr : RelT cfg fw now c0 s) (hh : ∀ p, p ∈ c0.cache → p.2.hits + 1 < u64Max) (fok : FloatOK A cfg fw) :
    (wrapThread_0010 A ⟨fun b => now - b, now⟩ size fuel rs io cif c0 key body).1 =
      (callFn ⟨"f", false, true, cfg, false, false, false, true, [], [], []⟩ (T02.srcTlru A fw) size isOk rs s ⟨key, body, cif, io⟩).2.1 ∧
    RelT cfg fw now (wrapThread_0010 A ⟨fun b => now - b, now⟩ size fuel rs io cif c0 key body).2
      (callFn ⟨"f", false, true, cfg, false, false, false, true, [], [], []⟩ (T02.srcTlru A fw) size isOk rs s ⟨key, body, cif, io⟩).1 := by
  rw [wrapThread_0010_eq]
  exact thread_plain_wrapper_is_callFn A cfg fw now rs true false io cif size isOk c0 s key body hr hh fok

theorem wrapThread_0011_is_callFn (A : F64 F) (cfg : Cfg) (fw : Option F) (now : Nat) (rs : List Nat) (fuel : Nat)
    (io cif : K → V → Bool) (size : V → Nat) (isOk : V → Bool)
    (c0 : ThreadCache K (V) F) (s : State K (V)) (key : K) (body : V)
    (hr : RelT cfg fw now c0 s) (hh : ∀ p, p ∈ c0.cache → p.2.hits + 1 < u64Max) (fok : FloatOK A cfg fw) :
    (wrapThread_0011 A ⟨fun b => now - b, now⟩ size fuel rs io cif c0 key body).1 =
      (callFn ⟨"f", false, true, cfg, false, false, true, true, [], [], []⟩ (T02.srcTlru A fw) size isOk rs s ⟨key, body, cif, io⟩).2.1 ∧
    RelT cfg fw now (wrapThread_0011 A ⟨fun b => now - b, now⟩ size fuel rs io cif c0 key body).2
      (callFn ⟨"f", false, true, cfg, false, false, true, true, [], [], []⟩ (T02.srcTlru A fw) size isOk rs s ⟨key, body, cif, io⟩).1 := by
  rw [wrapThread_0011_eq]
  exact thread_plain_wrapper_is_callFn A cfg fw now rs true true io cif size isOk c0 s key body hr hh fok

theorem wrapThread_0100_is_callFn (A : F64 F) (cfg : Cfg) (fw : Option F) (now : Nat) (rs : List Nat) (fuel : Nat)
    (io cif : K → Except E T → Bool) (size : Except E T → Nat)
    (c0 : ThreadCache K (Except E T) F) (s : State K (Except E T)) (key : K) (body : Except E T)
    (hr : RelT cfg fw now c0 s) (hh : ∀ p, p ∈ c0.cache → p.2.hits + 1 < u64Max) (fok : FloatOK A cfg fw) :
    (wrapThread_0100 A ⟨fun b => now - b, now⟩ size fuel rs io cif c0 key body).1 =
      (callFn ⟨"f", false, true, cfg, false, true, false, false, [], [], []⟩ (T02.srcTlru A fw) size isOkE rs s ⟨key, body, cif, io⟩).2.1 ∧
    RelT cfg fw now (wrapThread_0100 A ⟨fun b => now - b, now⟩ size fuel rs io cif c0 key body).2
      (callFn ⟨"f", false, true, cfg, false, true, false, false, [], [], []⟩ (T02.srcTlru A fw) size isOkE rs s ⟨key, body, cif, io⟩).1 := by
  rw [wrapThread_0100_eq]
  exact thread_result_wrapper_is_callFn A cfg fw now rs false false io cif size c0 s key body hr hh fok

theorem wrapThread_0101_is_callFn (A : F64 F) (cfg : Cfg) (fw : Option F) (now : Nat) (rs : List Nat) (fuel : Nat)
    (io cif : K → Except E T → Bool) (size : Except E T → Nat)
    (c0 : ThreadCache K (Except E T) F) (s : State K (Except E T)) (key : K) (body : Except E T)
    (hr : RelT cfg fw now c0 s) (hh : ∀ p, p ∈ c0.cache → p.2.hits + 1 < u64Max) (fok : FloatOK A cfg fw) :
    (wrapThread_0101 A ⟨fun b => now - b, now⟩ size fuel rs io cif c0 key body).1 =
      (callFn ⟨"f", false, true, cfg, false, true, true, false, [], [], []⟩ (T02.srcTlru A fw) size isOkE rs s ⟨key, body, cif, io⟩).2.1 ∧
    RelT cfg fw now (wrapThread_0101 A ⟨fun b => now - b, now⟩ size fuel rs io cif c0 key body).2
      (callFn ⟨"f", false, true, cfg, false, true, true, false, [], [], []⟩ (T02.srcTlru A fw) size isOkE rs s ⟨key, body, cif, io⟩).1 := by
  rw [wrapThread_0101_eq]
  exact thread_result_wrapper_is_callFn A cfg fw now rs false true io cif size c0 s key body hr hh fok

theorem wrapThread_0110_is_callFn (A : F64 F) (cfg : Cfg) (fw : Option F) (now : Nat) (rs : List Nat) (fuel : Nat)
    (io cif : K → Except E T → Bool) (size : Except E T → Nat)
    (c0 : ThreadCache K (Except E T) F) (s : State K (Except E T)) (key : K) (body : Except E T)
    (hr : RelT cfg fw now c0 s) (hh : ∀ p, p ∈ c0.cache → p.2.hits + 1 < u64Max) (fok : FloatOK A cfg fw) :
    (wrapThread_0110 A ⟨fun b => now - b, now⟩ size fuel rs io cif c0 key body).1 =
      (callFn ⟨"f", false, true, cfg, false, true, false, true, [], [], []⟩ (T02.srcTlru A fw) size isOkE rs s ⟨key, body, cif, io⟩).2.1 ∧
    RelT cfg fw now (wrapThread_0110 A ⟨fun b => now - b, now⟩ size fuel rs io cif c0 key body).2
      (callFn ⟨"f", false, true, cfg, false, true, false, true, [], [], []⟩ (T02.srcTlru A fw) size isOkE rs s ⟨key, body, cif, io⟩).1 := by
  rw [wrapThread_0110_eq]
  exact thread_result_wrapper_is_callFn A cfg fw now rs true false io cif size c0 s key body hr hh fok

theorem wrapThread_0111_is_callFn (A : F64 F) (cfg : Cfg) (fw : Option F) (now : Nat) (rs : List Nat) (fuel : Nat)
    (io cif : K → Except E T → Bool) (size : Except E T → Nat)
    (c0 : ThreadCache K (Except E T) F) (s : State K (Except E T)) (key : K) (body : Except E T)
    (hr : RelT cfg fw now c0 s) (hh : ∀ p, p ∈ c0.cache → p.2.hits + 1 < u64Max) (fok : FloatOK A cfg fw) :
    (wrapThread_0111 A ⟨fun b => now - b, now⟩ size fuel rs io cif c0 key body).1 =
      (callFn ⟨"f", false, true, cfg, false, true, true, true, [], [], []⟩ (T02.srcTlru A fw) size isOkE rs s ⟨key, body, cif, io⟩).2.1 ∧
    RelT cfg fw now (wrapThread_0111 A ⟨fun b => now - b, now⟩ size fuel rs io cif c0 key body).2
      (callFn ⟨"f", false, true, cfg, false, true, true, true, [], [], []⟩ (T02.srcTlru A fw) size isOkE rs s ⟨key, body, cif, io⟩).1 := by
  rw [wrapThread_0111_eq]
  exact thread_result_wrapper_is_callFn A cfg fw now rs true true io cif size c0 s key body hr hh fok

theorem wrapThread_1000_is_callFn (A : F64 F) (cfg : Cfg) (fw : Option F) (now : Nat) (rs : List Nat)
    (io cif : K → V → Bool) (size : V → Nat) (isOk : V → Bool)
    (c0 : ThreadCache K (V) F) (s : State K (V)) (key : K) (body : V)
    (hr : RelT cfg fw now c0 s) (hh : ∀ p, p ∈ c0.cache → p.2.hits + 1 < u64Max) (fok : FloatOK A cfg fw) :
    (wrapThread_1000 A ⟨fun b => now - b, now⟩ size (memFuelT (Thread.get ⟨fun b => now - b, now⟩ c0 key).2 key) rs io cif c0 key body).1 =
      (callFn ⟨"f", false, true, cfg, true, false, false, false, [], [], []⟩ (T02.srcTlru A fw) size isOk rs s ⟨key, body, cif, io⟩).2.1 ∧
    RelT cfg fw now (wrapThread_1000 A ⟨fun b => now - b, now⟩ size (memFuelT (Thread.get ⟨fun b => now - b, now⟩ c0 key).2 key) rs io cif c0 key body).2
      (callFn ⟨"f", false, true, cfg, true, false, false, false, [], [], []⟩ (T02.srcTlru A fw) size isOk rs s ⟨key, body, cif, io⟩).1 := by
  rw [wrapThread_1000_eq]
  exact thread_mem_plain_wrapper_is_callFn A cfg fw now rs false false io cif size isOk c0 s key body hr hh fok

theorem wrapThread_1001_is_callFn (A : F64 F) (cfg : Cfg) (fw : Option F) (now : Nat) (rs : List Nat)
    (io cif : K → V → Bool) (size : V → Nat) (isOk : V → Bool)
    (c0 : ThreadCache K (V) F) (s : State K (V)) (key : K) (body : V)
    (hr : RelT cfg fw now c0 s) (hh : ∀ p, p ∈ c0.cache → p.2.hits + 1 < u64Max) (fok : FloatOK A cfg fw) :
    (wrapThread_1001 A ⟨fun b => now - b, now⟩ size (memFuelT (Thread.get ⟨fun b => now - b, now⟩ c0 key).2 key) rs io cif c0 key body).1 =
      (callFn ⟨"f", false, true, cfg, true, false, true, false, [], [], []⟩ (T02.srcTlru A fw) size isOk rs s ⟨key, body, cif, io⟩).2.1 ∧
    RelT cfg fw now (wrapThread_1001 A ⟨fun b => now - b, now⟩ size (memFuelT (Thread.get ⟨fun b => now - b, now⟩ c0 key).2 key) rs io cif c0 key body).2
      (callFn ⟨"f", false, true, cfg, true, false, true, false, [], [], []⟩ (T02.srcTlru A fw) size isOk rs s ⟨key, body, cif, io⟩).1 := by
  rw [wrapThread_1001_eq]
  exact thread_mem_plain_wrapper_is_callFn A cfg fw now rs false true io cif size isOk c0 s key body hr hh fok

theorem wrapThread_1010_is_callFn (A : F64 F) (cfg : Cfg) (fw : Option F) (now : Nat) (rs : List Nat)
    (io cif : K → V → Bool) (size : V → Nat) (isOk : V → Bool)
    (c0 : ThreadCache K (V) F) (s : State K (V)) (key : K) (body : V)
    (hr : RelT cfg fw now c0 s) (hh : ∀ p, p ∈ c0.cache → p.2.hits + 1 < u64Max) (fok : FloatOK A cfg fw) :
    (wrapThread_1010 A ⟨fun b => now - b, now⟩ size (memFuelT (Thread.get ⟨fun b => now - b, now⟩ c0 key).2 key) rs io cif c0 key body).1 =
      (callFn ⟨"f", false, true, cfg, true, false, false, true, [], [], []⟩ (T02.srcTlru A fw) size isOk rs s ⟨key, body, cif, io⟩).2.1 ∧
    RelT cfg fw now (wrapThread_1010 A ⟨fun b => now - b, now⟩ size (memFuelT (Thread.get ⟨fun b => now - b, now⟩ c0 key).2 key) rs io cif c0 key body).2
      (callFn ⟨"f", false, true, cfg, true, false, false, true, [], [], []⟩ (T02.srcTlru A fw) size isOk rs s ⟨key, body, cif, io⟩).1 := by
  rw [wrapThread_1010_eq]
  exact thread_mem_plain_wrapper_is_callFn A cfg fw now rs true false io cif size isOk c0 s key body hr hh fok

theorem wrapThread_1011_is_callFn (A : F64 F) (cfg : Cfg) (fw : Option F) (now : Nat) (rs : List Nat)
    (io cif : K → V → Bool) (size : V → Nat) (isOk : V → Bool)
    (c0 : ThreadCache K (V) F) (s : State K (V)) (key : K) (body : V)
    (hr : RelT cfg fw now c0 s) (hh : ∀ p, p ∈ c0.cache → p.2.hits + 1 < u64Max) (fok : FloatOK A cfg fw) :
    (wrapThread_1011 A ⟨fun b => now - b, now⟩ size (memFuelT (Thread.get ⟨fun b => now - b, now⟩ c0 key).2 key) rs io cif c0 key body).1 =
      (callFn ⟨"f", false, true, cfg, true, false, true, true, [], [], []⟩ (T02.srcTlru A fw) size isOk rs s ⟨key, body, cif, io⟩).2.1 ∧
    RelT cfg fw now (wrapThread_1011 A ⟨fun b => now - b, now⟩ size (memFuelT (Thread.get ⟨fun b => now - b, now⟩ c0 key).2 key) rs io cif c0 key body).2
      (callFn ⟨"f", false, true, cfg, true, false, true, true, [], [], []⟩ (T02.srcTlru A fw) size isOk rs s ⟨key, body, cif, io⟩).1 := by
  rw [wrapThread_1011_eq]
  exact thread_mem_plain_wrapper_is_callFn A cfg fw now rs true true io cif size isOk c0 s key body hr hh fok

theorem wrapThread_1100_is_callFn (A : F64 F) (cfg : Cfg) (fw : Option F) (now : Nat) (rs : List Nat)
    (io cif : K → Except E T → Bool) (size : Except E T → Nat)
    (c0 : ThreadCache K (Except E T) F) (s : State K (Except E T)) (key : K) (body : Except E T)
    (hr : RelT cfg fw now c0 s) (hh : ∀ p, p ∈ c0.cache → p.2.hits + 1 < u64Max) (fok : FloatOK A cfg fw) :
    (wrapThread_1100 A ⟨fun b => now - b, now⟩ size (memFuelT (Thread.get ⟨fun b => now - b, now⟩ c0 key).2 key) rs io cif c0 key body).1 =
      (callFn ⟨"f", false, true, cfg, true, true, false, false, [], [], []⟩ (T02.srcTlru A fw) size isOkE rs s ⟨key, body, cif, io⟩).2.1 ∧
    RelT cfg fw now (wrapThread_1100 A ⟨fun b => now - b, now⟩ size (memFuelT (Thread.get ⟨fun b => now - b, now⟩ c0 key).2 key) rs io cif c0 key body).2
      (callFn ⟨"f", false, true, cfg, true, true, false, false, [], [], []⟩ (T02.srcTlru A fw) size isOkE rs s ⟨key, body, cif, io⟩).1 := by
  rw [wrapThread_1100_eq]
  exact thread_mem_result_wrapper_is_callFn A cfg fw now rs false false io cif size c0 s key body hr hh fok

theorem wrapThread_1101_is_callFn (A : F64 F) (cfg : Cfg) (fw : Option F) (now : Nat) (rs : List Nat)
    (io cif : K → Except E T → Bool) (size : Except E T → Nat)
    (c0 : ThreadCache K (Except E T) F) (s : State K (Except E T)) (key : K) (body : Except E T)
    (hr : RelT cfg fw now c0 s) (hh : ∀ p, p ∈ c0.cache → p.2.hits + 1 < u64Max) (fok : FloatOK A cfg fw) :
    (wrapThread_1101 A ⟨fun b => now - b, now⟩ size (memFuelT (Thread.get ⟨fun b => now - b, now⟩ c0 key).2 key) rs io cif c0 key body).1 =
      (callFn ⟨"f", false, true, cfg, true, true, true, false, [], [], []⟩ (T02.srcTlru A fw) size isOkE rs s ⟨key, body, cif, io⟩).2.1 ∧
    RelT cfg fw now (wrapThread_1101 A ⟨fun b => now - b, now⟩ size (memFuelT (Thread.get ⟨fun b => now - b, now⟩ c0 key).2 key) rs io cif c0 key body).2
      (callFn ⟨"f", false, true, cfg, true, true, true, false, [], [], []⟩ (T02.srcTlru A fw) size isOkE rs s ⟨key, body, cif, io⟩).1 := by
  rw [wrapThread_1101_eq]
  exact thread_mem_result_wrapper_is_callFn A cfg fw now rs false true io cif size c0 s key body hr hh fok

theorem wrapThread_1110_is_callFn (A : F64 F) (cfg : Cfg) (fw : Option F) (now : Nat) (rs : List Nat)
    (io cif : K → Except E T → Bool) (size : Except E T → Nat)
    (c0 : ThreadCache K (Except E T) F) (s : State K (Except E T)) (key : K) (body : Except E T)
    (hr : RelT cfg fw now c0 s) (hh : ∀ p, p ∈ c0.cache → p.2.hits + 1 < u64Max) (fok : FloatOK A cfg fw) :
    (wrapThread_1110 A ⟨fun b => now - b, now⟩ size (memFuelT (Thread.get ⟨fun b => now - b, now⟩ c0 key).2 key) rs io cif c0 key body).1 =
      (callFn ⟨"f", false, true, cfg, true, true, false, true, [], [], []⟩ (T02.srcTlru A fw) size isOkE rs s ⟨key, body, cif, io⟩).2.1 ∧
    RelT cfg fw now (wrapThread_1110 A ⟨fun b => now - b, now⟩ size (memFuelT (Thread.get ⟨fun b => now - b, now⟩ c0 key).2 key) rs io cif c0 key body).2
      (callFn ⟨"f", false, true, cfg, true, true, false, true, [], [], []⟩ (T02.srcTlru A fw) size isOkE rs s ⟨key, body, cif, io⟩).1 := by
  rw [wrapThread_1110_eq]
  exact thread_mem_result_wrapper_is_callFn A cfg fw now rs true false io cif size c0 s key body hr hh fok

theorem wrapThread_1111_is_callFn (A : F64 F) (cfg : Cfg) (fw : Option F) (now : Nat) (rs : List Nat)
    (io cif : K → Except E T → Bool) (size : Except E T → Nat)
    (c0 : ThreadCache K (Except E T) F) (s : State K (Except E T)) (key : K) (body : Except E T)
    (hr : RelT cfg fw now c0 s) (hh : ∀ p, p ∈ c0.cache → p.2.hits + 1 < u64Max) (fok : FloatOK A cfg fw) :
    (wrapThread_1111 A ⟨fun b => now - b, now⟩ size (memFuelT (Thread.get ⟨fun b => now - b, now⟩ c0 key).2 key) rs io cif c0 key body).1 =
      (callFn ⟨"f", false, true, cfg, true, true, true, true, [], [], []⟩ (T02.srcTlru A fw) size isOkE rs s ⟨key, body, cif, io⟩).2.1 ∧
    RelT cfg fw now (wrapThread_1111 A ⟨fun b => now - b, now⟩ size (memFuelT (Thread.get ⟨fun b => now - b, now⟩ c0 key).2 key) rs io cif c0 key body).2
      (callFn ⟨"f", false, true, cfg, true, true, true, true, [], [], []⟩ (T02.srcTlru A fw) size isOkE rs s ⟨key, body, cif, io⟩).1 := by
  rw [wrapThread_1111_eq]
  exact thread_mem_result_wrapper_is_callFn A cfg fw now rs true true io cif size c0 s key body hr hh fok

end ThreadScope

end Cachelito.T17m
