/-
  T01 — TRANSLATOR TIE for the pure helper code (supports C05 / C16 / C07 / C08 / C06 / C15).

  `checklib/rust2lean.py` regenerates `Generated/PureMem.lean` and `Generated/PureUtils.lean` from /repo's CURRENT
  source on every check.  The theorems below are therefore re-proved, on every run, against what the code says NOW:
  they state that the translated functions ARE the corresponding definitions of the hand-written model.  A change to
  the source that alters what one of these functions computes breaks a proof here, whether or not any generated
  history reaches the difference.

  Part 1 — memory estimator (`memory_estimator.rs`, `cache_entry.rs`): for EVERY value shape, what the source's
  `estimate_memory` impls compute (with unchecked subtraction failing on underflow) is `MemEst.estimateChecked`.

  (Parts 2–5: `Props/T02.lean` utils.rs, `T03.lean` cache_entry.rs, `T04.lean` stats.rs, `T05.lean` eviction_policy.rs.)
-/
import Cachelito.Source.Mem
import Cachelito.Lemmas.MemEst

set_option linter.unusedSimpArgs false
set_option linter.unusedVariables false

namespace Cachelito.T01
open Cachelito Cachelito.MemEst Cachelito.RustLite Cachelito.Generated Cachelito.Source.Mem

/-! ## Part 1: the memory estimator -/

theorem usub_eq_csub (a b : Nat) : usub a b = csub a b := rfl

theorem mapM_pure {α β : Type} (g : α → β) : ∀ l : List α,
    RustLite.mapM (fun e => some (g e)) l = some (l.map g)
  | [] => rfl
  | x :: xs => by
      have ih := mapM_pure g xs
      simp [RustLite.mapM, ih]

theorem sum_cons (x : Nat) (xs : List Nat) : RustLite.sum (x :: xs) = x + RustLite.sum xs := rfl

theorem estSliceRef_eq (r : Nat) (subs : List Sub) :
    Mem.estSliceRef r subs = some (r + RustLite.sum (subs.map (·.est))) := by
  have h := mapM_pure (fun e : Sub => e.est) subs
  simp [Mem.estSliceRef, h]

theorem estVec_eq (v ei cap : Nat) (subs : List Sub) :
    Mem.estVec v ei cap subs = some (v + cap * ei + RustLite.sum (subs.map (fun s => s.est - s.szv))) := by
  have h := mapM_pure (fun e : Sub => e.est - e.szv) subs
  simp [Mem.estVec, ssub, h]

mutual
/-- **The source's estimator is the model's estimator**, for every shape of value: each `impl MemoryEstimator` of
    the current source, applied as Rust's trait resolution applies it, computes `estimateChecked` — including where
    an unchecked subtraction underflows (`none` on both sides). -/
theorem source_estimate_eq (L : Layout) : ∀ s : Shape, srcEstimate L s = estimateChecked L s
  | .prim i => by simp [srcEstimate, estimateChecked, Mem.estDefault]
  | .user _ e => by simp [srcEstimate, estimateChecked]
  | .str cap => by simp [srcEstimate, estimateChecked, Mem.estString]
  | .strRef len => by simp [srcEstimate, estimateChecked, Mem.estStrRef]
  | .sliceRef xs => by
      have h := source_subs_estSum L xs
      simp only [srcEstimate, estimateChecked]
      rw [← h]
      cases srcSubs L xs <;> simp [estSliceRef_eq]
  | .vec ei cap xs => by
      have h := source_subs_extras L xs
      simp only [srcEstimate, estimateChecked]
      rw [← h]
      cases srcSubs L xs <;> simp [estVec_eq]
  | .opt i none => by simp [srcEstimate, estimateChecked, Mem.estOption, mapOrM]
  | .opt i (some v) => by
      simp only [srcEstimate, estimateChecked, source_estimate_eq L v]
      cases h : estimateChecked L v <;> simp [Mem.estOption, mapOrM, usub_eq_csub]
  | .res i true v => by
      simp only [srcEstimate, estimateChecked, source_estimate_eq L v]
      cases h : estimateChecked L v <;> simp [Mem.estResult, usub_eq_csub]
  | .res i false v => by
      simp only [srcEstimate, estimateChecked, source_estimate_eq L v]
      cases h : estimateChecked L v <;> simp [Mem.estResult, usub_eq_csub]
  | .tup2 i a b => by
      simp only [srcEstimate, estimateChecked, source_estimate_eq L a, source_estimate_eq L b]
      cases ha : estimateChecked L a <;> cases hb : estimateChecked L b <;>
        simp [Mem.estTuple2, usub_eq_csub]
      all_goals (cases csub _ (inline L a) <;> simp)
  | .tup3 i a b c => by
      simp only [srcEstimate, estimateChecked, source_estimate_eq L a, source_estimate_eq L b,
        source_estimate_eq L c]
      cases ha : estimateChecked L a <;> cases hb : estimateChecked L b <;> cases hc : estimateChecked L c <;>
        simp [Mem.estTuple3, usub_eq_csub]
      all_goals (cases csub _ (inline L a) <;> simp)
      all_goals (cases csub _ (inline L b) <;> simp)
  | .box v => by
      simp only [srcEstimate, estimateChecked, source_estimate_eq L v]
      cases h : estimateChecked L v <;> simp [Mem.estBox]
  | .arc v => by
      simp only [srcEstimate, estimateChecked, source_estimate_eq L v]
      cases h : estimateChecked L v <;> simp [Mem.estArc]
  | .rc v => by
      simp only [srcEstimate, estimateChecked, source_estimate_eq L v]
      cases h : estimateChecked L v <;> simp [Mem.estRc]
  | .entry i v => by
      simp only [srcEstimate, estimateChecked, source_estimate_eq L v]
      cases h : estimateChecked L v <;> simp [Mem.estCacheEntry, ssub]
/-- `&[T]`: the sum of the elements' estimates is the model's `estimateSumChecked` -/
theorem source_subs_estSum (L : Layout) : ∀ xs : List Shape,
    (srcSubs L xs >>= fun subs => some (RustLite.sum (subs.map (·.est)))) = estimateSumChecked L xs
  | [] => by simp [srcSubs, estimateSumChecked, RustLite.sum]
  | x :: xs => by
      have ih := source_subs_estSum L xs
      simp only [srcSubs, estimateSumChecked, source_estimate_eq L x]
      rw [← ih]
      cases estimateChecked L x <;> cases srcSubs L xs <;> simp [sum_cons]
/-- `Vec<T>`: the sum of the elements' heap extras is the model's `extrasSumChecked` -/
theorem source_subs_extras (L : Layout) : ∀ xs : List Shape,
    (srcSubs L xs >>= fun subs => some (RustLite.sum (subs.map (fun s => s.est - s.szv)))) = extrasSumChecked L xs
  | [] => by simp [srcSubs, extrasSumChecked, RustLite.sum]
  | x :: xs => by
      have ih := source_subs_extras L xs
      simp only [srcSubs, extrasSumChecked, source_estimate_eq L x]
      rw [← ih]
      cases estimateChecked L x <;> cases srcSubs L xs <;> simp [sum_cons]
end

end Cachelito.T01
