/-
  T16 — TRANSLATOR TIE, async_global_cache.rs: `insert_with_memory` of the async engine (C05, C04, C07, C08, C16, C18)

  `Generated/PureAsync.lean` is regenerated from /repo's CURRENT source on every check; the theorems are re-proved against
  whatever was generated.  Same structure as `Props/T14.lean`: Step 1, every iteration of the source's memory loop is the
  reference iteration `memBody` (stop when total + new value fits, otherwise one eviction by the model's `evictMem`, stop
  when nothing could be evicted) and the whole function is: old entry of the key dropped; an oversize value not stored
  at all; otherwise the loop, the entry-limit step, then push + store.  Step 2, that reference loop is the model's
  `memLoop`; so the translated function leaves exactly the store and queue of `Cachelito.insertMem` (async flavour).
-/
import Cachelito.Props.T07
import Cachelito.Props.T14

set_option linter.unusedSimpArgs false
set_option linter.unusedVariables false
set_option linter.unusedSectionVars false

namespace Cachelito.T16
open Cachelito Cachelito.RustLite Cachelito.Generated Cachelito.SourceLemmas Cachelito.T06 Cachelito.T07
open Cachelito.Generated.Async

variable {K V F : Type} [DecidableEq K]

abbrev LoopSt (K V F : Type) := AsyncCache K V F × List K × List Nat

/-- one iteration of the async memory loop (`extra` = size of the value about to be stored) -/
def memBody (cfg : Cfg) (tl : Tlru F) (size : V → Nat) (now maxM extra : Nat) (st : LoopSt K V F) : Bool × LoopSt K V F :=
  if totalMem size st.1.cache + extra ≤ maxM then (true, st)
  else
    let res := evictMem cfg tl now (st.2.2.headD 0) st.1.cache st.2.1
    let rs' := if cfg.policy = .random ∧ st.2.1 ≠ [] then st.2.2.tail else st.2.2
    (!res.2.2, ({ st.1 with cache := res.1 }, res.2.1, rs'))

theorem mem_evictMem (cfg : Cfg) (hg : cfg.flavour = .async) (tl : Tlru F) (now r : Nat) (m : Store K V) (q : List K)
    (p : K × Entry V) (h : p ∈ (evictMem cfg tl now r m q).1) : p ∈ m := by
  unfold evictMem at h
  cases hp : cfg.policy <;> simp only [hp, hg] at h
  · cases q <;> simp [popOne, eraseKey] at h
    · exact h
    · exact h.1
  · cases q <;> simp [popOne, eraseKey] at h
    · exact h
    · exact h.1
  · simp only [evictScored] at h
    cases hv : victim cfg tl now m q <;> simp [hv, removeBoth, hg, eraseKey] at h
    · exact h
    · exact h.1
  · simp only [evictScored] at h
    cases hv : victim cfg tl now m q <;> simp [hv, removeBoth, hg, eraseKey] at h
    · exact h
    · exact h.1
  · simp only [evictRandom] at h
    cases hv : q[r % q.length]? <;> simp [hv, eraseKey] at h
    · exact h
    · exact h.1
  · simp only [evictScored] at h
    cases hv : victim cfg tl now m q <;> simp [hv, removeBoth, hg, eraseKey] at h
    · exact h
    · exact h.1

def LoopInv (c : AsyncCache K V F) (st : LoopSt K V F) : Prop :=
  st.1.limit = c.limit ∧ st.1.max_memory = c.max_memory ∧ st.1.policy = c.policy ∧ st.1.ttl = c.ttl ∧
  st.1.frequency_weight = c.frequency_weight ∧ ∀ p, p ∈ st.1.cache → p.2.hits < u64Max

theorem memBody_inv (A : F64 F) (c : AsyncCache K V F) (size : V → Nat) (now maxM extra : Nat) (s : LoopSt K V F)
    (hs : LoopInv c s) :
    LoopInv c (memBody (cfgOf c) (srcTlruAsync A c.frequency_weight) size now maxM extra s).2 := by
  unfold memBody
  by_cases hfit : totalMem size s.1.cache + extra ≤ maxM
  · simpa [hfit] using hs
  · simp only [hfit, if_false]
    obtain ⟨h1, h2, h3, h4, h5, h6⟩ := hs
    exact ⟨h1, h2, h3, h4, h5, fun p hp => h6 p (mem_evictMem (cfgOf c) rfl _ now _ _ _ p hp)⟩

theorem memory_loop_eq (A : F64 F) (c : AsyncCache K V F) (size : V → Nat) (now maxM extra fuel : Nat)
    {st : LoopSt K V F} {body : LoopSt K V F → Bool × LoopSt K V F} (hi : LoopInv c st)
    (hbody : ∀ s, LoopInv c s → body s = memBody (cfgOf c) (srcTlruAsync A c.frequency_weight) size now maxM extra s) :
    loopFuel fuel st body = loopFuel fuel st (memBody (cfgOf c) (srcTlruAsync A c.frequency_weight) size now maxM extra) :=
  T14.loopFuel_congr_inv (LoopInv c) hbody (fun s hs => memBody_inv A c size now maxM extra s hs) fuel st hi

/-- the whole function, written with the model's primitives and the reference loop -/
def refInsertMem (A : F64 F) (size : V → Nat) (fuel : Nat) (rs : List Nat) (c : AsyncCache K V F) (now : Nat)
    (k : K) (v : V) : AsyncCache K V F :=
  let tl := srcTlruAsync A c.frequency_weight
  let m0 := eraseKey k c.cache
  let q0 := if hasKey k c.cache then c.order.filter (fun x => x ≠ k) else c.order
  match c.max_memory with
  | some maxM =>
    if size v > maxM then { c with cache := m0, order := q0 }
    else
      let st := loopFuel fuel (({ c with cache := m0 } : AsyncCache K V F), q0, rs) (memBody (cfgOf c) tl size now maxM (size v))
      let r := limitStep (cfgOf c) tl now (st.2.2.headD 0) st.1.cache st.2.1
      { st.1 with cache := put k ⟨v, now / 1000 * 1000, 0⟩ r.1, order := r.2 ++ [k] }
  | none =>
    let r := limitStep (cfgOf c) tl now (rs.headD 0) m0 q0
    { c with cache := put k ⟨v, now / 1000 * 1000, 0⟩ r.1, order := r.2 ++ [k] }

/-- **`insert_with_memory` of the async engine, read off the source** -/
theorem insert_with_memory_eq (A : F64 F) (c : AsyncCache K V F) (size : V → Nat) (now fuel : Nat) (rs : List Nat)
    (k : K) (v : V) (ok : ScoresOK A c) :
    Async.insert_with_memory A ⟨fun _ => 0, now⟩ size fuel rs c k v = refInsertMem A size fuel rs c now k v := by
  obtain ⟨cache, order, limit, mm, policy, ttl, fw, st⟩ := c
  unfold Async.insert_with_memory refInsertMem
  simp only [is_already_key_inserted_eq, Bool.false_eq_true, if_false]
  have ok' : ScoresOK A (AsyncCache.mk (eraseKey k cache) order limit mm policy ttl fw st) :=
    ⟨fun p hp => ok.hitsBelowMax p (by simp [eraseKey] at hp; exact hp.1), ok.arcBelowMax, ok.arcOrder, ok.tlruBelowMax⟩
  cases mm with
  | none =>
    simp only [headRand, pushBack, mapInsert, asyncEntry, asSecs]
    rw [handle_entry_limit_eviction_eq A _ now _ _ ok']
    simp [cfgOf]
  | some maxM =>
    simp only [headRand, pushBack, mapInsert, asyncEntry, asSecs]
    by_cases hov : size v > maxM
    · simp [hov]
    · simp only [hov, decide_false, if_false, Bool.false_eq_true]
      rw [memory_loop_eq A (AsyncCache.mk (eraseKey k cache) order limit (some maxM) policy ttl fw st) size now maxM (size v) fuel]
      · -- after the loop: entry-limit step, push, store
        generalize (if hasKey k cache = true then List.filter (fun x => decide (x ≠ k)) order else order) = q0
        have hR := T14.loopFuel_inv (LoopInv (AsyncCache.mk (eraseKey k cache) order limit (some maxM) policy ttl fw st))
          (fun s hs => memBody_inv A _ size now maxM (size v) s hs) fuel
          ((AsyncCache.mk (eraseKey k cache) order limit (some maxM) policy ttl fw st), q0, rs)
          ⟨rfl, rfl, rfl, rfl, rfl, ok'.hitsBelowMax⟩
        simp only [cfgOf] at hR ⊢
        generalize loopFuel fuel ((AsyncCache.mk (eraseKey k cache) order limit (some maxM) policy ttl fw st), q0, rs)
          (memBody (⟨.async, policy, limit, some maxM, ttl⟩ : Cfg) (srcTlruAsync A fw) size now maxM (size v)) = R at hR ⊢
        obtain ⟨⟨map2, order2, limit2, mm2, policy2, ttl2, fw2, st2⟩, o2, rs2⟩ := R
        simp only [LoopInv] at hR
        obtain ⟨h1, h2, h3, h4, h5, hh⟩ := hR
        subst h1 h2 h3 h4 h5
        simp only []
        rw [handle_entry_limit_eviction_eq A (AsyncCache.mk map2 order2 limit2 (some maxM) policy2 ttl2 fw2 st2) now _ _
          ⟨hh, ok.arcBelowMax, ok.arcOrder, by simpa [cfgOf] using ok.tlruBelowMax⟩]
        simp [cfgOf]
      · exact ⟨rfl, rfl, rfl, rfl, rfl, ok'.hitsBelowMax⟩
      · rintro ⟨⟨map2, order2, limit2, mm2, policy2, ttl2, fw2, st2⟩, o, rs2⟩ hinv
        simp only [LoopInv] at hinv
        obtain ⟨h1, h2, h3, h4, h5, hh⟩ := hinv
        subst h1 h2 h3 h4 h5
        have hlk : ∀ k e, lookup k map2 = some e → e.hits < u64Max :=
          fun k e h => hh (k, e) (lookup_mem' k e _ h)
        unfold memBody
        simp only [T14.sum_values_eq_totalMem, cfgOf]
        by_cases hfit : totalMem size map2 + size v ≤ maxM
        · simp [hfit]
        · simp only [hfit, decide_false, if_false, Bool.false_eq_true]
          cases policy2 with
          | lfu =>
            have hv := find_min_frequency_key_eq (AsyncCache.mk map2 order2 limit2 (some maxM) Policy.lfu ttl2 fw2 st2) (srcTlruAsync A fw2) now rfl o hlk
            simp only [cfgOf] at hv
            simp [evictMem, evictScored, hv]
            cases victim _ _ now map2 o <;> simp [removeBoth, mapRemove, retain]
          | arc =>
            have hv := find_arc_eviction_key_eq A (AsyncCache.mk map2 order2 limit2 (some maxM) Policy.arc ttl2 fw2 st2) (srcTlruAsync A fw2) now rfl o ok.arcBelowMax ok.arcOrder
            simp only [cfgOf] at hv
            simp [evictMem, evictScored, hv]
            cases victim _ _ now map2 o <;> simp [removeBoth, mapRemove, retain]
          | tlru =>
            have hv := find_tlru_eviction_key_eq A (AsyncCache.mk map2 order2 limit2 (some maxM) Policy.tlru ttl2 fw2 st2) now rfl o
              (by simpa [cfgOf] using ok.tlruBelowMax)
            simp only [cfgOf] at hv
            simp [evictMem, evictScored, hv]
            cases victim _ _ now map2 o <;> simp [removeBoth, mapRemove, retain]
          | random =>
            simp [evictMem, evictRandom, randBelow, nextRand, dequeRemove, mapRemove]
            cases o with
            | nil => simp
            | cons x xs =>
              simp
              have hlt := Nat.mod_lt (rs2.head?.getD 0) (show 0 < xs.length + 1 by omega)
              cases h : (x :: xs)[rs2.head?.getD 0 % (xs.length + 1)]? with
              | some y => simp_all
              | none =>
                simp [List.getElem?_eq_none_iff] at h
                omega
          | fifo =>
            cases o <;> simp [evictMem, popOne, popFront, mapRemove]
          | lru =>
            cases o <;> simp [evictMem, popOne, popFront, mapRemove]

/-! ### Step 2: the reference loop is the model's `memLoop` -/

theorem limitStep_indep (cfg : Cfg) (tl : Tlru F) (now r r' : Nat) (m : Store K V) (q : List K)
    (h : cfg.policy ≠ .random ∨ q = []) : limitStep cfg tl now r m q = limitStep cfg tl now r' m q := by
  unfold limitStep
  cases cfg.limit with
  | none => rfl
  | some n => simp [T14.evictLimit_indep cfg tl now r r' m q h]

theorem refLoop_eq_memLoop (cfg : Cfg) (tl : Tlru F) (size : V → Nat) (now maxM extra : Nat) :
    ∀ (fuel : Nat) (c : AsyncCache K V F) (q : List K) (rs rs' : List Nat), (cfg.policy = .random → rs = rs') →
      (loopFuel fuel (c, q, rs) (memBody cfg tl size now maxM extra)).1.cache = (memLoop cfg tl size now maxM extra fuel rs' c.cache q).1 ∧
      (loopFuel fuel (c, q, rs) (memBody cfg tl size now maxM extra)).2.1 = (memLoop cfg tl size now maxM extra fuel rs' c.cache q).2.1 ∧
      (cfg.policy = .random →
        (loopFuel fuel (c, q, rs) (memBody cfg tl size now maxM extra)).2.2 = (memLoop cfg tl size now maxM extra fuel rs' c.cache q).2.2 ∨
        (loopFuel fuel (c, q, rs) (memBody cfg tl size now maxM extra)).2.1 = [])
  | 0, c, q, rs, rs', hr => by
      simp only [loopFuel, memLoop]
      exact ⟨trivial, trivial, fun h => Or.inl (hr h)⟩
  | fuel + 1, c, q, rs, rs', hr => by
      simp only [loopFuel, memLoop, memBody]
      by_cases hfit : totalMem size c.cache + extra ≤ maxM
      · simp only [hfit, if_true]
        exact ⟨trivial, trivial, fun h => Or.inl (hr h)⟩
      · simp only [hfit, if_false]
        have hev : evictMem cfg tl now (rs.headD 0) c.cache q = evictMem cfg tl now (rs'.headD 0) c.cache q := by
          by_cases hp : cfg.policy = .random
          · rw [hr hp]
          · exact T14.evictMem_indep cfg tl now _ _ c.cache q hp
        rw [hev]
        cases hres : evictMem cfg tl now (rs'.headD 0) c.cache q with
        | mk m' rest =>
          obtain ⟨q', ev⟩ := rest
          cases ev with
          | false =>
            simp only [Bool.not_false, if_true, Bool.false_eq_true, if_false]
            refine ⟨trivial, trivial, fun hp => ?_⟩
            by_cases hq : q = []
            · right
              subst hq
              simp [evictMem, hp, evictRandom] at hres
              exact hres.2
            · left
              simp [hp, hq, hr hp]
          | true =>
            simp only [Bool.not_true, Bool.false_eq_true, if_false, if_true]
            have hr' : cfg.policy = .random → (if cfg.policy = .random ∧ q ≠ [] then rs.tail else rs) = rs'.tail := by
              intro hp
              have hq : q ≠ [] := by
                intro hq; subst hq
                simp [evictMem, hp, evictRandom] at hres
              simp [hp, hq, hr hp]
            exact refLoop_eq_memLoop cfg tl size now maxM extra fuel { c with cache := m' } q' _ rs'.tail hr'

/-- **The async engine's `insert_with_memory` is the model's `insertMem`** (with the model's fuel: one more than the
    queue length after the old entry of the key was dropped) -/
theorem insert_with_memory_model (A : F64 F) (c : AsyncCache K V F) (size : V → Nat) (now hs ms : Nat) (rs : List Nat)
    (k : K) (v : V) (ok : ScoresOK A c) :
    (Async.insert_with_memory A ⟨fun _ => 0, now⟩ size
        ((if hasKey k c.cache then c.order.filter (fun x => x ≠ k) else c.order).length + 1) rs c k v).cache =
      (Cachelito.insertMem (cfgOf c) (srcTlruAsync A c.frequency_weight) size rs ⟨c.cache, c.order, now, hs, ms⟩ k v).store ∧
    (Async.insert_with_memory A ⟨fun _ => 0, now⟩ size
        ((if hasKey k c.cache then c.order.filter (fun x => x ≠ k) else c.order).length + 1) rs c k v).order =
      (Cachelito.insertMem (cfgOf c) (srcTlruAsync A c.frequency_weight) size rs ⟨c.cache, c.order, now, hs, ms⟩ k v).queue := by
  rw [insert_with_memory_eq A c size now _ rs k v ok]
  obtain ⟨cache, order, limit, mm, policy, ttl, fw, st⟩ := c
  unfold refInsertMem Cachelito.insertMem
  simp only [cfgOf, stamp]
  have hm0 : (if hasKey k cache = true then (eraseKey k cache, order.filter (fun x => x ≠ k)) else (cache, order)) =
      (eraseKey k cache, if hasKey k cache = true then order.filter (fun x => x ≠ k) else order) := by
    by_cases hk : hasKey k cache = true
    · simp [hk]
    · have : eraseKey k cache = cache := eraseKey_of_not_mem ((hasKey_false_iff k cache).1 (by simpa using hk))
      simp [hk, this]
  simp only [hm0]
  generalize (if hasKey k cache = true then order.filter (fun x => x ≠ k) else order) = q0
  cases mm with
  | none => simp
  | some maxM =>
    by_cases hov : size v > maxM
    · simp [hov]
    · simp only [hov, if_false]
      have h2 := refLoop_eq_memLoop (⟨.async, policy, limit, some maxM, ttl⟩ : Cfg) (srcTlruAsync A fw) size now maxM (size v)
        (q0.length + 1) (AsyncCache.mk (eraseKey k cache) order limit (some maxM) policy ttl fw st) q0 rs rs (fun _ => rfl)
      obtain ⟨hm, hq, hrs⟩ := h2
      generalize loopFuel (q0.length + 1)
        ((AsyncCache.mk (eraseKey k cache) order limit (some maxM) policy ttl fw st), q0, rs)
        (memBody (⟨.async, policy, limit, some maxM, ttl⟩ : Cfg) (srcTlruAsync A fw) size now maxM (size v)) = R at hm hq hrs ⊢
      generalize memLoop (⟨.async, policy, limit, some maxM, ttl⟩ : Cfg) (srcTlruAsync A fw) size now maxM (size v)
        (q0.length + 1) rs (eraseKey k cache) q0 = M at hm hq hrs ⊢
      obtain ⟨⟨map2, order2, limit2, mm2, policy2, ttl2, fw2, st2⟩, o2, rs2⟩ := R
      obtain ⟨m1, q1, rs1⟩ := M
      simp only [] at hm hq hrs ⊢
      subst hm hq
      have hl : limitStep (⟨.async, policy, limit, some maxM, ttl⟩ : Cfg) (srcTlruAsync A fw) now (rs2.headD 0) map2 o2 =
          limitStep (⟨.async, policy, limit, some maxM, ttl⟩ : Cfg) (srcTlruAsync A fw) now (rs1.headD 0) map2 o2 := by
        by_cases hp : policy = .random
        · rcases hrs hp with h | h
          · rw [h]
          · exact limitStep_indep _ _ now _ _ map2 o2 (Or.inr h)
        · exact limitStep_indep _ _ now _ _ map2 o2 (Or.inl hp)
      simp only [hl]
      exact ⟨trivial, trivial⟩

end Cachelito.T16
