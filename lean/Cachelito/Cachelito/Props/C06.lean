/-
  C06 — TTL: an entry of age ≥ ttl is never served and is purged on access.

  Clock and births are in milliseconds, `ttl = some T` in seconds.  Sync flavours stamp an entry
  with the clock reading of the store and compare `(now − birth)/1000 ≥ T`; the async flavour stamps
  with the whole second `now/1000*1000` and compares whole seconds `now/1000 − birth/1000 ≥ T`.

  Two notions of age appear below:
    * the *stored age* `s.now − e.birth` (what the engine sees), used in the state-level theorems;
    * the *real age* `clock − t` where `t = lastStoredAt history k` is the clock reading at the latest
      store of the key, used in the history-level theorems.  For sync flavours they coincide; for
      async `e.birth = t/1000*1000 ≤ t`, so the stored age is the real age plus `t % 1000`.

  All statements hold for every flavour, policy, limit, max_memory, score algebra, size function,
  random draws and every finite history (from the empty cache, or from any consistent state).
-/
import Cachelito.Lemmas.Hist
import Cachelito.Props.C04

set_option linter.unusedSectionVars false
set_option linter.unusedSimpArgs false
set_option linter.unusedVariables false

namespace Cachelito.C06
open Cachelito Cachelito.Hist
variable {K V S : Type} [DecidableEq K]

/-! ## (i) An entry of age ≥ T is never served and is purged on access -/

/-- **Expired ⇒ not served, purged, counted as a miss** (every flavour).  If the entry found under `k`
    has stored age `≥ 1000·T` ms, the lookup returns nothing, removes `k` from the store and from the
    eviction queue, touches no other entry, raises `missStat` by one and leaves `hitStat` alone. -/
theorem expired_never_served (cfg : Cfg) (T : Nat) (ht : cfg.ttl = some T) (s : State K V) (hi : Inv s)
    (k : K) (e : Entry V) (hl : lookup k s.store = some e) (hage : s.now - e.birth ≥ 1000 * T) :
    (get cfg s k).2 = none ∧
    k ∉ keys (get cfg s k).1.store ∧ k ∉ (get cfg s k).1.queue ∧
    (get cfg s k).1.store = eraseKey k s.store ∧
    (get cfg s k).1.queue = s.queue.filter (fun x => x ≠ k) ∧
    (∀ k', k' ≠ k → lookup k' (get cfg s k).1.store = lookup k' s.store) ∧
    (get cfg s k).1.missStat = s.missStat + 1 ∧ (get cfg s k).1.hitStat = s.hitStat := by
  have hx := expired_of_old cfg T s.now e ht hage
  have hg : get cfg s k = ({ s with store := (removeBoth cfg k s.store s.queue).1,
                                    queue := (removeBoth cfg k s.store s.queue).2,
                                    missStat := s.missStat + 1 }, none) := by
    unfold get; rw [hl]; simp only [hx, if_true]
  have h1 : (get cfg s k).1.store = eraseKey k s.store := by rw [hg]; exact removeBoth_store cfg k _ _
  have h2 : (get cfg s k).1.queue = s.queue.filter (fun x => x ≠ k) := by
    rw [hg]; exact removeBoth_queue hi cfg k
  have h3 : (get cfg s k).2 = none := by rw [hg]
  have h4 : (get cfg s k).1.missStat = s.missStat + 1 := by rw [hg]
  have h5 : (get cfg s k).1.hitStat = s.hitStat := by rw [hg]
  refine ⟨h3, ?_, ?_, h1, h2, ?_, h4, h5⟩
  · rw [h1, keys_eraseKey]; simp
  · rw [h2]; simp
  · intro k' hk; rw [h1]; exact lookup_eraseKey_ne hk _

/-- The async whole-second arithmetic behind (i): whole-second difference ≥ whole seconds of the
    millisecond difference, for every pair of readings. -/
theorem whole_seconds_ge (now birth : Nat) : now / 1000 - birth / 1000 ≥ (now - birth) / 1000 := by
  omega

/-- … and at most one more. -/
theorem whole_seconds_le (now birth : Nat) : now / 1000 - birth / 1000 ≤ (now - birth) / 1000 + 1 := by
  omega

/-! ## (ii) A young entry is still served -/

/-- **Sync flavours: younger than T ⇒ served.**  If the entry found under `k` has stored age
    `< 1000·T` ms, the lookup returns its value (and counts a hit). -/
theorem young_served_sync (cfg : Cfg) (T : Nat) (ht : cfg.ttl = some T) (hf : cfg.flavour ≠ .async)
    (s : State K V) (k : K) (e : Entry V) (hl : lookup k s.store = some e)
    (hage : s.now - e.birth < 1000 * T) :
    (get cfg s k).2 = some e.val ∧ (get cfg s k).1.hitStat = s.hitStat + 1 ∧
    (get cfg s k).1.missStat = s.missStat := by
  have hx : expired cfg s.now e = false := by
    cases hb : expired cfg s.now e with
    | false => rfl
    | true =>
      rw [expired_iff cfg T s.now e ht] at hb
      cases hfl : cfg.flavour <;> rw [hfl] at hb <;> simp only at hb
      · omega
      · omega
      · exact absurd hfl hf
  have hr : (get cfg s k).2 = some e.val := by rw [get_result, hl]; simp [hx]
  exact ⟨hr, (get_stats cfg s k).1 (by rw [hr]; rfl)⟩

/-- **Every flavour, exact boundary in terms of the stored birth.**  In a state whose births are stamps
    (true of every reachable state, `tinv_reachable`), the entry found under `k` is served iff its stored
    age is `< 1000·T` ms, and the lookup returns nothing iff it is `≥ 1000·T` ms. -/
theorem served_iff_stored_age (cfg : Cfg) (T : Nat) (ht : cfg.ttl = some T) (s : State K V)
    (hti : TInv cfg s) (k : K) (e : Entry V) (hl : lookup k s.store = some e) :
    ((get cfg s k).2 = some e.val ↔ s.now - e.birth < 1000 * T) ∧
    ((get cfg s k).2 = none ↔ s.now - e.birth ≥ 1000 * T) := by
  have hiff := expired_iff_of_stamped cfg T s.now e ht (hti.birth_stamped hl)
  rw [get_result, hl]
  simp only
  cases hb : expired cfg s.now e with
  | true =>
    have := hiff.mp hb
    simp only [if_true]
    constructor
    · constructor
      · intro h; cases h
      · intro h; omega
    · constructor
      · intro _; exact this
      · intro _; trivial
  | false =>
    have : ¬ (s.now - e.birth ≥ 1000 * T) := fun h => by rw [hiff.mpr h] at hb; cases hb
    simp only [Bool.false_eq_true, if_false]
    constructor
    · constructor
      · intro _; omega
      · intro _; trivial
    · constructor
      · intro h; cases h
      · intro h; exact absurd h this

/-- **Async flavour, exact boundary in terms of the real store time.**  If the entry was stamped at clock
    reading `t ≤ now` (so `e.birth = t/1000*1000`), it is served iff
    `real age + (t mod 1000) < 1000·T`: the sub-second part of the store time is lost by the whole-second
    clock and counts against the entry. -/
theorem served_iff_async (cfg : Cfg) (T : Nat) (ht : cfg.ttl = some T) (hf : cfg.flavour = .async)
    (s : State K V) (k : K) (e : Entry V) (hl : lookup k s.store = some e) (t : Nat) (hts : t ≤ s.now)
    (hb : e.birth = stamp cfg t) :
    (get cfg s k).2 = some e.val ↔ (s.now - t) + t % 1000 < 1000 * T := by
  have hiff := expired_iff cfg T s.now e ht
  rw [hf] at hiff
  simp only at hiff
  have hbirth : e.birth = t / 1000 * 1000 := by rw [hb]; unfold stamp; rw [hf]
  rw [get_result, hl]
  simp only
  cases hx : expired cfg s.now e with
  | true =>
    have := hiff.mp hx
    simp only [if_true]
    constructor
    · intro h; cases h
    · intro h; omega
  | false =>
    have : ¬ (s.now / 1000 - e.birth / 1000 ≥ T) := fun h => by rw [hiff.mpr h] at hx; cases hx
    simp only [Bool.false_eq_true, if_false]
    constructor
    · intro _; omega
    · intro _; trivial

/-- **Async flavour: real age ≤ T−1 seconds ⇒ served** (in particular "younger than T−1 seconds", the
    bound of the property statement).  `s.now − t + 1000 ≤ 1000·T` says real age `≤ 1000·(T−1)` ms. -/
theorem young_served_async_sharp (cfg : Cfg) (T : Nat) (ht : cfg.ttl = some T) (hf : cfg.flavour = .async)
    (s : State K V) (k : K) (e : Entry V) (hl : lookup k s.store = some e) (t : Nat) (hts : t ≤ s.now)
    (hb : e.birth = stamp cfg t) (hage : s.now - t + 1000 ≤ 1000 * T) :
    (get cfg s k).2 = some e.val :=
  (served_iff_async cfg T ht hf s k e hl t hts hb).mpr (by omega)

/-- **Async flavour: younger than T−1 seconds ⇒ served**, exactly as the property statement words it.
    Holds for every stored birth (no stamp hypothesis needed), hence also for the real age. -/
theorem young_served_async (cfg : Cfg) (T : Nat) (ht : cfg.ttl = some T) (hf : cfg.flavour = .async)
    (s : State K V) (k : K) (e : Entry V) (hl : lookup k s.store = some e)
    (hage : s.now - e.birth < 1000 * (T - 1)) :
    (get cfg s k).2 = some e.val ∧ (get cfg s k).1.hitStat = s.hitStat + 1 ∧
    (get cfg s k).1.missStat = s.missStat := by
  have hx : expired cfg s.now e = false := by
    cases hb : expired cfg s.now e with
    | false => rfl
    | true =>
      rw [expired_iff cfg T s.now e ht, hf] at hb
      simp only at hb
      omega
  have hr : (get cfg s k).2 = some e.val := by rw [get_result, hl]; simp [hx]
  exact ⟨hr, (get_stats cfg s k).1 (by rw [hr]; rfl)⟩

/-- the same with the real store time `t` in place of the stored birth -/
theorem young_served_async_real (cfg : Cfg) (T : Nat) (ht : cfg.ttl = some T) (hf : cfg.flavour = .async)
    (s : State K V) (k : K) (e : Entry V) (hl : lookup k s.store = some e) (t : Nat) (hts : t ≤ s.now)
    (hb : e.birth = stamp cfg t) (hage : s.now - t < 1000 * (T - 1)) :
    (get cfg s k).2 = some e.val :=
  young_served_async_sharp cfg T ht hf s k e hl t hts hb (by omega)

/-! ## (iii) The purged entry no longer occupies capacity -/

/-- **The purge frees one slot and keeps the bookkeeping consistent.**  After the expired lookup the
    invariant (store keys distinct, queue duplicate-free, queue = store keys) still holds and the store
    holds exactly one entry less. -/
theorem purge_frees_capacity (cfg : Cfg) (T : Nat) (ht : cfg.ttl = some T) (s : State K V) (hi : Inv s)
    (k : K) (e : Entry V) (hl : lookup k s.store = some e) (hage : s.now - e.birth ≥ 1000 * T) :
    Inv (get cfg s k).1 ∧ (get cfg s k).1.store.length + 1 = s.store.length ∧
    (get cfg s k).1.queue.length + 1 = s.queue.length := by
  have hinv := get_inv cfg s k hi
  obtain ⟨_, _, _, hst, _, _, _, _⟩ := expired_never_served cfg T ht s hi k e hl hage
  have hlen : (get cfg s k).1.store.length + 1 = s.store.length := by
    rw [hst]; exact length_eraseKey_of_mem hi.1 (mem_keys_of_lookup hl)
  refine ⟨hinv, hlen, ?_⟩
  have h1 := InvMQ.length_eq hinv
  have h2 := InvMQ.length_eq hi
  omega

/-- **A store that follows the purge evicts nothing.**  Take a cache with `limit = n ≥ 1` holding at most
    `n` entries (for instance exactly `n`: full).  After a lookup has purged the expired entry of `k`, a
    plain store of a NEW key `k2` keeps every remaining entry: the store is the purged store plus the
    fresh entry, it holds as many entries as before the purge (C04 `insert_exact`), and every key other
    than `k` that was held before is still held. -/
theorem store_after_purge_evicts_nothing (cfg : Cfg) (tl : Tlru S) (r : Nat) (T n : Nat)
    (ht : cfg.ttl = some T) (hlim : cfg.limit = some n) (hn : 1 ≤ n)
    (s : State K V) (hi : Inv s) (hfull : s.store.length ≤ n)
    (k : K) (e : Entry V) (hl : lookup k s.store = some e) (hage : s.now - e.birth ≥ 1000 * T)
    (k2 : K) (v2 : V) (hnew : k2 ∉ keys s.store) :
    (insert cfg tl r (get cfg s k).1 k2 v2).store.length = s.store.length ∧
    (insert cfg tl r (get cfg s k).1 k2 v2).store
      = eraseKey k s.store ++ [(k2, ⟨v2, stamp cfg s.now, 0⟩)] ∧
    (∀ x, x ∈ keys s.store → x ≠ k → x ∈ keys (insert cfg tl r (get cfg s k).1 k2 v2).store) := by
  obtain ⟨hinv, hlen, _⟩ := purge_frees_capacity cfg T ht s hi k e hl hage
  obtain ⟨_, _, _, hst, _, _, _, _⟩ := expired_never_served cfg T ht s hi k e hl hage
  have hnew' : k2 ∉ keys (get cfg s k).1.store := by
    rw [hst, keys_eraseKey]; intro hh; exact hnew (List.mem_filter.mp hh).1
  have hnow : (get cfg s k).1.now = s.now := get_now cfg s k
  -- the length, through C04's exactness theorem
  have hex := C04.insert_exact cfg tl r (get cfg s k).1 k2 v2 n hlim hn hinv (by omega)
  have hsz : C04.sizeWith k2 (get cfg s k).1.store = s.store.length := by
    unfold C04.sizeWith; rw [if_neg hnew']; exact hlen
  -- the contents
  have hne := (insert_no_evict cfg tl r (get cfg s k).1 k2 v2 n hlim hinv hnew' (by omega)).1
  rw [hnow, hst] at hne
  refine ⟨by rw [hex, hsz]; exact Nat.min_eq_right hfull, hne, ?_⟩
  intro x hx hxk
  rw [hne, keys_append, List.mem_append]
  left
  rw [keys_eraseKey]
  exact List.mem_filter.mpr ⟨hx, by simp [hxk]⟩

/-! ## Reachable states: births are stamps -/

/-- every state reached from the empty cache has only stamped births, none in the future -/
theorem tinv_reachable (cfg : Cfg) (tl : Tlru S) (size : V → Nat) (ops : List (Op K V × List Nat)) :
    TInv cfg (run cfg tl size (State.init : State K V) ops).1 :=
  run_tinv cfg tl size _ ops inv_init (tinv_init cfg)

/-- in particular, for the async flavour every stored birth of a reachable state is a whole second -/
theorem async_birth_whole_second (cfg : Cfg) (tl : Tlru S) (size : V → Nat) (ops : List (Op K V × List Nat))
    (hf : cfg.flavour = .async) (k : K) (e : Entry V)
    (hl : lookup k (run cfg tl size (State.init : State K V) ops).1.store = some e) :
    e.birth % 1000 = 0 ∧ e.birth ≤ (run cfg tl size (State.init : State K V) ops).1.now := by
  have hti := tinv_reachable cfg tl size ops
  have h1 := hti.birth_stamped hl
  unfold stamp at h1; rw [hf] at h1; simp only at h1
  exact ⟨by omega, hti.birth_le hl⟩

/-! ## The clock is monotone -/

/-- `tick` only increases the clock, no other operation moves it -/
theorem clock_step (cfg : Cfg) (tl : Tlru S) (size : V → Nat) (rs : List Nat) (s : State K V) (op : Op K V) :
    s.now ≤ (step cfg tl size rs s op).1.now ∧
    ((∀ ms, op ≠ .tick ms) → (step cfg tl size rs s op).1.now = s.now) ∧
    (∀ ms, op = .tick ms → (step cfg tl size rs s op).1.now = s.now + ms) := by
  have h := step_now cfg tl size rs s op
  refine ⟨by omega, ?_, ?_⟩
  · intro hop
    cases op with
    | tick ms => exact absurd rfl (hop ms)
    | _ => exact h
  · intro ms hop; subst hop; exact h

/-- the clock never goes back along a history, and equals the sum of the ticks -/
theorem clock_monotone (cfg : Cfg) (tl : Tlru S) (size : V → Nat) (s : State K V) (ops : List (Op K V × List Nat)) :
    (run cfg tl size s ops).1.now = s.now + clockOf ops ∧ s.now ≤ (run cfg tl size s ops).1.now := by
  have h : (run cfg tl size s ops).1.now = s.now + clockOf ops := by
    induction ops generalizing s with
    | nil => simp [run, clockOf]
    | cons a ops ih =>
      obtain ⟨op, rs⟩ := a
      simp only [run]
      rw [ih, step_now]
      have : clockOf ((op, rs) :: ops) = tickOf op + clockOf ops := by simp [clockOf]
      omega
  exact ⟨h, by omega⟩

/-! ## (iv) History level -/

/-- **Never served when expired.**  For every history from the empty cache: if the `i`-th operation is
    `get k` and returns `some v`, then `k` was stored before, `v` is the value of the latest store of `k`,
    and the REAL age of that store at the moment of the lookup (clock now − clock at the latest store) is
    `< 1000·T` ms — in every flavour. -/
theorem never_served_when_expired (cfg : Cfg) (tl : Tlru S) (size : V → Nat) (T : Nat) (ht : cfg.ttl = some T)
    (ops : List (Op K V × List Nat)) (i : Nat) (k : K) (rs : List Nat) (v : V)
    (hop : ops[i]? = some (.get k, rs))
    (hout : (run cfg tl size (State.init : State K V) ops).2[i]? = some (.val (some v))) :
    ∃ t, lastStore (ops.take i) k = some (v, t) ∧ t ≤ clockOf (ops.take i) ∧
      clockOf (ops.take i) - t < 1000 * T := by
  rw [run_out_at cfg tl size _ ops i _ rs hop] at hout
  simp only [step, Option.some.injEq, Out.val.injEq] at hout
  have hh := hinv_reachable cfg tl size (ops.take i) (K := K) (V := V)
  generalize (run cfg tl size (State.init : State K V) (ops.take i)).1 = s at hout hh
  rw [get_result] at hout
  cases hl : lookup k s.store with
  | none => rw [hl] at hout; cases hout
  | some e =>
    rw [hl] at hout
    simp only at hout
    cases hx : expired cfg s.now e with
    | true => rw [hx] at hout; simp at hout
    | false =>
      rw [hx] at hout
      simp only [Bool.false_eq_true, if_false, Option.some.injEq] at hout
      obtain ⟨t, h1, h2⟩ := hh.2 k e hl
      have hle := lastStore_time_le _ k _ t h1
      refine ⟨t, by rw [← hout]; exact h1, hle, ?_⟩
      rw [← hh.1]
      rw [hh.1] at hx
      have hnx : ¬ (expired cfg (clockOf (ops.take i)) e = true) := by rw [hx]; simp
      rw [expired_iff cfg T _ e ht] at hnx
      rw [hh.1]
      have hst := stamp_le cfg t
      unfold stamp at h2
      cases hfl : cfg.flavour <;> rw [hfl] at hnx h2 <;> simp only at hnx h2 <;> omega

/-- **Expired in the history ⇒ not served and gone.**  For every history from the empty cache: if the
    `i`-th operation is `get k` and the latest store of `k` happened at clock reading `t` with real age
    `clock − t ≥ 1000·T` ms, the lookup returns nothing and afterwards `k` is neither in the store nor in
    the eviction queue (whether or not it was still stored), and the lookup is counted as a miss. -/
theorem expired_purged_in_history (cfg : Cfg) (tl : Tlru S) (size : V → Nat) (T : Nat) (ht : cfg.ttl = some T)
    (ops : List (Op K V × List Nat)) (i : Nat) (k : K) (rs : List Nat) (t : Nat)
    (hop : ops[i]? = some (.get k, rs)) (hlast : lastStoredAt (ops.take i) k = some t)
    (hage : clockOf (ops.take i) - t ≥ 1000 * T) :
    (run cfg tl size (State.init : State K V) ops).2[i]? = some (.val none) ∧
    k ∉ keys (run cfg tl size (State.init : State K V) (ops.take (i + 1))).1.store ∧
    k ∉ (run cfg tl size (State.init : State K V) (ops.take (i + 1))).1.queue ∧
    (run cfg tl size (State.init : State K V) (ops.take (i + 1))).1.missStat
      = (run cfg tl size (State.init : State K V) (ops.take i)).1.missStat + 1 ∧
    (run cfg tl size (State.init : State K V) (ops.take (i + 1))).1.hitStat
      = (run cfg tl size (State.init : State K V) (ops.take i)).1.hitStat := by
  rw [run_out_at cfg tl size _ ops i _ rs hop, run_take_succ cfg tl size _ ops i _ rs hop]
  have hh := hinv_reachable cfg tl size (ops.take i) (K := K) (V := V)
  have hi : Inv (run cfg tl size (State.init : State K V) (ops.take i)).1 := run_inv cfg tl size _ _ inv_init
  generalize (run cfg tl size (State.init : State K V) (ops.take i)).1 = s at hh hi
  have hstep : step cfg tl size rs s (.get k) = ((get cfg s k).1, .val (get cfg s k).2) := rfl
  rw [hstep]
  simp only
  cases hl : lookup k s.store with
  | none =>
    have hg : get cfg s k = ({ s with missStat := s.missStat + 1 }, none) := by unfold get; rw [hl]
    rw [hg]
    have hk : k ∉ keys s.store := (lookup_eq_none_iff k s.store).mp hl
    exact ⟨rfl, hk, fun hq => hk ((hi.2.2 k).mp hq), rfl, rfl⟩
  | some e =>
    obtain ⟨t', h1, h2⟩ := hh.2 k e hl
    have htt : t' = t := by
      unfold lastStoredAt at hlast; rw [h1] at hlast; exact Option.some.inj hlast
    subst htt
    have hst := stamp_le cfg t'
    have hold : s.now - e.birth ≥ 1000 * T := by rw [hh.1, h2]; omega
    obtain ⟨g1, g2, g3, _, _, _, g7, g8⟩ := expired_never_served cfg T ht s hi k e hl hold
    exact ⟨by rw [g1], g2, g3, g7, g8⟩

/-- **Young and still stored ⇒ served, in the history.**  For every history from the empty cache: if the
    `i`-th operation is `get k`, the key is still stored at that moment (not evicted, not invalidated), and
    the real age of its latest store is `< 1000·T` ms (sync flavours) resp. `≤ 1000·(T−1)` ms (async —
    implied by "younger than T−1 seconds"), the lookup returns the value of that latest store. -/
theorem young_served_in_history (cfg : Cfg) (tl : Tlru S) (size : V → Nat) (T : Nat) (ht : cfg.ttl = some T)
    (ops : List (Op K V × List Nat)) (i : Nat) (k : K) (rs : List Nat) (v : V) (t : Nat)
    (hop : ops[i]? = some (.get k, rs))
    (hstored : k ∈ keys (run cfg tl size (State.init : State K V) (ops.take i)).1.store)
    (hlast : lastStore (ops.take i) k = some (v, t))
    (hage : if cfg.flavour = .async then clockOf (ops.take i) - t + 1000 ≤ 1000 * T
            else clockOf (ops.take i) - t < 1000 * T) :
    (run cfg tl size (State.init : State K V) ops).2[i]? = some (.val (some v)) := by
  rw [run_out_at cfg tl size _ ops i _ rs hop]
  have hh := hinv_reachable cfg tl size (ops.take i) (K := K) (V := V)
  generalize (run cfg tl size (State.init : State K V) (ops.take i)).1 = s at hh hstored
  have hstep : step cfg tl size rs s (.get k) = ((get cfg s k).1, .val (get cfg s k).2) := rfl
  rw [hstep]
  simp only [Option.some.injEq, Out.val.injEq]
  obtain ⟨e, hl⟩ := lookup_isSome_of_mem_keys hstored
  obtain ⟨t', h1, h2⟩ := hh.2 k e hl
  rw [hlast] at h1
  simp only [Option.some.injEq, Prod.mk.injEq] at h1
  obtain ⟨hv, htt⟩ := h1
  subst htt
  have hle := lastStore_time_le _ k _ t hlast
  rw [hv]
  by_cases hf : cfg.flavour = .async
  · rw [if_pos hf] at hage
    exact young_served_async_sharp cfg T ht hf s k e hl t (by rw [hh.1]; exact hle) h2 (by rw [hh.1]; exact hage)
  · rw [if_neg hf] at hage
    have hb : e.birth = t := by
      rw [h2]; unfold stamp
      cases hfl : cfg.flavour <;> simp only
      exact absurd hfl hf
    exact (young_served_sync cfg T ht hf s k e hl (by rw [hh.1, hb]; exact hage)).1

/-- **Exact boundary in the history, every flavour.**  If the `i`-th operation is `get k`, the key is still
    stored and its latest store happened at clock reading `t`, then the lookup serves the value iff
    `clock − stamp t < 1000·T`, where `stamp t = t` (sync) or `t` truncated to the whole second (async). -/
theorem served_iff_in_history (cfg : Cfg) (tl : Tlru S) (size : V → Nat) (T : Nat) (ht : cfg.ttl = some T)
    (ops : List (Op K V × List Nat)) (i : Nat) (k : K) (rs : List Nat) (v : V) (t : Nat)
    (hop : ops[i]? = some (.get k, rs))
    (hstored : k ∈ keys (run cfg tl size (State.init : State K V) (ops.take i)).1.store)
    (hlast : lastStore (ops.take i) k = some (v, t)) :
    ((run cfg tl size (State.init : State K V) ops).2[i]? = some (.val (some v))
        ↔ clockOf (ops.take i) - stamp cfg t < 1000 * T) ∧
    ((run cfg tl size (State.init : State K V) ops).2[i]? = some (.val none)
        ↔ clockOf (ops.take i) - stamp cfg t ≥ 1000 * T) := by
  rw [run_out_at cfg tl size _ ops i _ rs hop]
  have hh := hinv_reachable cfg tl size (ops.take i) (K := K) (V := V)
  generalize (run cfg tl size (State.init : State K V) (ops.take i)).1 = s at hh hstored
  have hstep : step cfg tl size rs s (.get k) = ((get cfg s k).1, .val (get cfg s k).2) := rfl
  rw [hstep]
  simp only [Option.some.injEq, Out.val.injEq]
  obtain ⟨e, hl⟩ := lookup_isSome_of_mem_keys hstored
  obtain ⟨t', h1, h2⟩ := hh.2 k e hl
  rw [hlast] at h1
  simp only [Option.some.injEq, Prod.mk.injEq] at h1
  obtain ⟨hv, htt⟩ := h1
  subst htt
  have := served_iff_stored_age cfg T ht s hh.tinv k e hl
  rw [hv, ← h2, ← hh.1]
  exact this

/-! ## Non-vacuity (K = V = Nat, ttl = 2 s)

  Sync: store at clock 0; after 1999 ms the entry is served; one more ms (age 2000 = T) and it is not
  served, the key has left store and queue and the lookup counted as a miss.
  Async: store at clock 999 (stamped 0); at clock 1999 (real age 1000 = T−1 s) it is served; at clock 2000
  (real age 1001 ms!) it is not — the whole-second behaviour the statement allows for. -/
def exTl : Tlru Nat := ⟨fun a b => decide (a < b), fun _ h _ r => h * r⟩
def exGlobal : Cfg := ⟨.global, .lru, some 2, none, some 2⟩
def exThread : Cfg := ⟨.threadLocal, .lfu, some 2, none, some 2⟩
def exAsync : Cfg := ⟨.async, .fifo, some 2, none, some 2⟩

def exOps : List (Op Nat Nat × List Nat) :=
  [(.insert 1 10, []), (.tick 1999, []), (.get 1, []), (.tick 1, []), (.get 1, []), (.get 1, [])]

example : ((run exGlobal exTl (fun _ => 0) (State.init : State Nat Nat) exOps).2.map outVal) =
    [none, none, some (some 10), none, some none, some none] := by decide
example : ((run exThread exTl (fun _ => 0) (State.init : State Nat Nat) exOps).2.map outVal) =
    [none, none, some (some 10), none, some none, some none] := by decide
/-- purged on access: before the expired lookup the key is in store and queue, afterwards in neither;
    counters: 1 hit, then 1 miss -/
example : keys (run exGlobal exTl (fun _ => 0) (State.init : State Nat Nat) (exOps.take 4)).1.store = [1] ∧
    (run exGlobal exTl (fun _ => 0) (State.init : State Nat Nat) (exOps.take 4)).1.queue = [1] ∧
    keys (run exGlobal exTl (fun _ => 0) (State.init : State Nat Nat) (exOps.take 5)).1.store = [] ∧
    (run exGlobal exTl (fun _ => 0) (State.init : State Nat Nat) (exOps.take 5)).1.queue = [] ∧
    (run exGlobal exTl (fun _ => 0) (State.init : State Nat Nat) (exOps.take 5)).1.hitStat = 1 ∧
    (run exGlobal exTl (fun _ => 0) (State.init : State Nat Nat) (exOps.take 5)).1.missStat = 1 := by decide
/-- hypotheses of `expired_purged_in_history` are satisfiable: latest store of key 1 at clock 0, real age 2000 -/
example : exOps[4]? = some (.get 1, []) ∧ lastStoredAt (exOps.take 4) 1 = some 0 ∧
    clockOf (exOps.take 4) - 0 ≥ 1000 * 2 := ⟨rfl, by decide, by decide⟩

def exOpsAsync : List (Op Nat Nat × List Nat) :=
  [(.tick 999, []), (.insert 1 10, []), (.tick 1000, []), (.get 1, []), (.tick 1, []), (.get 1, []), (.get 1, [])]
example : ((run exAsync exTl (fun _ => 0) (State.init : State Nat Nat) exOpsAsync).2.map outVal) =
    [none, none, none, some (some 10), none, some none, some none] := by decide
/-- the async birth is the whole second 0 although the store happened at clock 999 -/
example : (lookup 1 (run exAsync exTl (fun _ => 0) (State.init : State Nat Nat) (exOpsAsync.take 2)).1.store).map (·.birth)
    = some 0 ∧ lastStoredAt (exOpsAsync.take 2) 1 = some 999 := by decide
example : keys (run exAsync exTl (fun _ => 0) (State.init : State Nat Nat) (exOpsAsync.take 6)).1.store = [] ∧
    (run exAsync exTl (fun _ => 0) (State.init : State Nat Nat) (exOpsAsync.take 6)).1.queue = [] := by decide

/-- capacity: limit 2, keys 1 and 2 stored (full); key 1 expires and is purged by a lookup; storing the
    new key 3 then evicts nothing (key 2, stored 1.5 s later, survives) -/
def exOpsCap : List (Op Nat Nat × List Nat) :=
  [(.insert 1 10, []), (.tick 1500, []), (.insert 2 20, []), (.tick 500, []), (.get 1, []), (.insert 3 30, []),
   (.get 2, []), (.get 3, [])]
example : keys (run exGlobal exTl (fun _ => 0) (State.init : State Nat Nat) exOpsCap).1.store = [2, 3] ∧
    ((run exGlobal exTl (fun _ => 0) (State.init : State Nat Nat) exOpsCap).2.map outVal) =
      [none, none, none, none, some none, none, some (some 20), some (some 30)] := by decide
example : keys (run exAsync exTl (fun _ => 0) (State.init : State Nat Nat) exOpsCap).1.store = [2, 3] := by decide
/-- contrast (keys 2 then 1 stored, both expire): with the purging lookup of key 1 the store of key 3 evicts
    nothing and key 2 stays; without it the same store has to evict the queue front, key 2 -/
example : keys (run exGlobal exTl (fun _ => 0) (State.init : State Nat Nat)
      [(.insert 2 20, []), (.insert 1 10, []), (.tick 2000, []), (.get 1, []), (.insert 3 30, [])]).1.store = [2, 3] ∧
    keys (run exGlobal exTl (fun _ => 0) (State.init : State Nat Nat)
      [(.insert 2 20, []), (.insert 1 10, []), (.tick 2000, []), (.insert 3 30, [])]).1.store = [1, 3] := by decide

end Cachelito.C06
