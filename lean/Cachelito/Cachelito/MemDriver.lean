/-
  Cachelito.MemDriver — line protocol between `harness/src/bin/mem_diff.rs` (real
  `MemoryEstimator::estimate_memory()`) and the estimator model `Cachelito/MemEst.lean`.

  Line (fields separated by `|`; a 5th field, the Rust type name, is optional and only echoed):

      M|<str> <fatref> <vec> <ptr> <shape tokens…>|<estimate> or `PANIC <msg>`|<footprint>[|<rust type>]

  layout prefix  `size_of::<String>() size_of::<&str>() size_of::<Vec<_>>() size_of::<Box<_>>()`
  shape tokens   prefix notation, space separated
      p <inl>                       primitive / default-method type      u <inl> <est>   user estimator
      s <cap>                       String                               r <len>         &str
      l <n> <shape>*n               &[T]
      v <elemInl> <cap> <n> <shape>*n     Vec<T>
      on <inl> | os <inl> <shape>         Option<T>
      ok <inl> <shape> | er <inl> <shape> Result<T,E>
      t2 <inl> <a> <b> | t3 <inl> <a> <b> <c>
      b <shape> | a <shape> | c <shape>   Box / Arc / Rc
      e <inl> <shape>               CacheEntry<R>
  footprint      computed by the harness by walking the value: `size_of_val` + owned heap.

  `handleMemLine` answers
      ok                 model = real estimate, all monitors hold
      BAD …              malformed line / inconsistent layout parameters
      DIFF …             the model's `estimateChecked` disagrees with the real estimator (value or
                         panic), or the harness footprint disagrees with `inline + ownedHeap`
      MON C05 …          well-formed value whose real estimate ≠ footprint (+ `borrowed` if the value
                         contains `&str`/`&[T]`)
      MON C16 …          real estimate < inline size on a well-formed value, or the real estimator
                         panicked
  Several findings on one line are joined by ` ;; ` (DIFF first, so the prefix is the most severe).
-/
import Cachelito.MemEst

namespace Cachelito.MemDriver
open Cachelito.MemEst

mutual
/-- parse one shape from the token list; `fuel` bounds the recursion (number of tokens suffices) -/
def parseShape : Nat → List String → Option (Shape × List String)
  | 0, _ => none
  | fuel + 1, toks =>
    match toks with
    | "p" :: i :: rest => do pure (.prim (← i.toNat?), rest)
    | "u" :: i :: e :: rest => do pure (.user (← i.toNat?) (← e.toNat?), rest)
    | "s" :: c :: rest => do pure (.str (← c.toNat?), rest)
    | "r" :: n :: rest => do pure (.strRef (← n.toNat?), rest)
    | "l" :: n :: rest => do
        let (xs, rest) ← parseShapes fuel (← n.toNat?) rest
        pure (.sliceRef xs, rest)
    | "v" :: ei :: c :: n :: rest => do
        let (xs, rest) ← parseShapes fuel (← n.toNat?) rest
        pure (.vec (← ei.toNat?) (← c.toNat?) xs, rest)
    | "on" :: i :: rest => do pure (.opt (← i.toNat?) none, rest)
    | "os" :: i :: rest => do
        let (v, rest) ← parseShape fuel rest
        pure (.opt (← i.toNat?) (some v), rest)
    | "ok" :: i :: rest => do
        let (v, rest) ← parseShape fuel rest
        pure (.res (← i.toNat?) true v, rest)
    | "er" :: i :: rest => do
        let (v, rest) ← parseShape fuel rest
        pure (.res (← i.toNat?) false v, rest)
    | "t2" :: i :: rest => do
        let (a, rest) ← parseShape fuel rest
        let (b, rest) ← parseShape fuel rest
        pure (.tup2 (← i.toNat?) a b, rest)
    | "t3" :: i :: rest => do
        let (a, rest) ← parseShape fuel rest
        let (b, rest) ← parseShape fuel rest
        let (c, rest) ← parseShape fuel rest
        pure (.tup3 (← i.toNat?) a b c, rest)
    | "b" :: rest => do let (v, rest) ← parseShape fuel rest; pure (.box v, rest)
    | "a" :: rest => do let (v, rest) ← parseShape fuel rest; pure (.arc v, rest)
    | "c" :: rest => do let (v, rest) ← parseShape fuel rest; pure (.rc v, rest)
    | "e" :: i :: rest => do
        let (v, rest) ← parseShape fuel rest
        pure (.entry (← i.toNat?) v, rest)
    | _ => none
/-- parse `n` shapes -/
def parseShapes : Nat → Nat → List String → Option (List Shape × List String)
  | 0, _, _ => none
  | _ + 1, 0, toks => some ([], toks)
  | fuel + 1, n + 1, toks => do
      let (x, rest) ← parseShape fuel toks
      let (xs, rest) ← parseShapes fuel n rest
      pure (x :: xs, rest)
end

/-- `<str> <fatref> <vec> <ptr> <shape…>` -/
def parseLayoutShape (s : String) : Option (Layout × Shape) :=
  match (s.splitOn " ").filter (· ≠ "") with
  | a :: b :: c :: d :: toks => do
      let L : Layout := ⟨← a.toNat?, ← b.toNat?, ← c.toNat?, ← d.toNat?⟩
      let (v, rest) ← parseShape (toks.length + 1) toks
      if rest.isEmpty then pure (L, v) else none
  | _ => none

/-- the real estimator's outcome: `none` = it panicked -/
def parseReal (s : String) : Option (Option Nat) :=
  if s.startsWith "PANIC" then some none else s.toNat?.map some

def showOpt : Option Nat → String
  | none => "PANIC"
  | some n => toString n

/-- Check one `M|…` line; see the file header for the possible answers. -/
def handleMemLine (line : String) : String :=
  let fields := line.splitOn "|"
  match fields with
  | "M" :: shapeS :: realS :: footS :: tl =>
    let label := match tl with | [] => "" | t :: _ => s!" type=[{t}]"
    match parseLayoutShape shapeS, parseReal realS, footS.toNat? with
    | some (L, v), some real, some foot =>
      if !layoutOk L v then s!"BAD layout parameters inconsistent{label} shape=[{shapeS}]"
      else
        let model := estimateChecked L v
        let ctx := s!"{label} shape=[{shapeS}] real={showOpt real} model={showOpt model} truncating={estimate L v} inline={inline L v} ownedHeap={ownedHeap L v} borrowed={borrowed L v} footprint={foot} wf={wf v}"
        -- model vs implementation
        let d1 := if model ≠ real then ["DIFF estimate"] else []
        -- the harness's independent walk vs the model's independent definition
        let d2 := if foot ≠ inline L v + ownedHeap L v then ["DIFF footprint"] else []
        -- monitors: evaluated on the REAL numbers only
        let m := match real with
          | none => ["MON C16 estimate_memory panicked"]
          | some n =>
            if !wf v then []
            else
              (if n < inline L v then ["MON C16 estimate below inline size"] else []) ++
              (if n ≠ foot + borrowed L v then ["MON C05 estimate differs from footprint"] else []) ++
              -- the property defines size as inline + OWNED heap: bytes a value merely borrows must not count
              (if n = foot + borrowed L v ∧ borrowed L v > 0 then
                 ["MON C05 estimate charges borrowed data (&str / &[T]) as if owned"] else [])
        match d1 ++ d2 ++ m with
        | [] => "ok"
        | issues => " ;; ".intercalate issues ++ ctx
    | _, _, _ => s!"BAD parse {line}"
  | _ => s!"BAD shape {line}"

end Cachelito.MemDriver
