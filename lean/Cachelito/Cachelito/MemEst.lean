/-
  Cachelito.MemEst — model of the memory estimator
  (`cachelito-core/src/memory_estimator.rs:60-232`, `cachelito-core/src/cache_entry.rs:124-136`).

  A `Shape` is the memory-relevant skeleton of a Rust value: which built-in container it is, the
  capacities of the buffers it owns, and — because Lean cannot compute Rust layouts — the value of
  `size_of::<T>()` for every composite type, supplied by the harness (`inl` arguments, `Layout`).

  * `inline`           `size_of_val(v)`.
  * `estimate`         literal transcription of `MemoryEstimator::estimate_memory`; Rust's unchecked
                       `-` on `usize` is Lean's truncating `Nat` subtraction (that is what one gets
                       with `overflow-checks = off` *as long as no wrap happens*; see `estimateChecked`).
  * `estimateChecked`  the same with every unchecked `-` replaced by a checked one: `none` exactly
                       when the Rust code would panic under `overflow-checks = on` (debug builds).
                       `saturating_sub` sites (Vec, CacheEntry) never fail.
  * `ownedHeap`        defined independently of the estimator: the sum of all heap buffers the value
                       OWNS (String: capacity; Vec: capacity × element size + what the elements own;
                       Box/Arc/Rc: the pointee's inline size + what the pointee owns; borrowed data
                       (`&str`, `&[T]`): nothing).
  * `borrowed`         bytes that the estimator counts although the value does not own them
                       (`&str`: `len`; `&[T]`: the full estimate of every element).

  Core Lean only.  `usize` overflow of the sums is not modelled (`Nat` is unbounded).
-/

namespace Cachelito.MemEst

/-- `size_of` of the built-in types whose layout does not depend on a type parameter
    (x86-64: `String` 24, `&str`/`&[T]` 16, `Vec<T>` 24, `Box<T>`/`Arc<T>`/`Rc<T>` 8). -/
structure Layout where
  /-- `size_of::<String>()` -/
  str : Nat
  /-- `size_of::<&str>()` = `size_of::<&[T]>()` (fat pointer) -/
  fatRef : Nat
  /-- `size_of::<Vec<T>>()` -/
  vec : Nat
  /-- `size_of::<Box<T>>()` = `size_of::<Arc<T>>()` = `size_of::<Rc<T>>()` for sized `T` -/
  ptr : Nat
  deriving DecidableEq, Repr

/-- the x86-64 layout -/
def Layout.x64 : Layout := ⟨24, 16, 24, 8⟩

/-- Memory-relevant skeleton of a Rust value. -/
inductive Shape where
  /-- any type that uses the trait's default method (`iN`, `uN`, `fN`, `bool`, `char`, `()`, or a user
      type with `impl MemoryEstimator for T {}`): `inl = size_of::<T>()` -/
  | prim (inl : Nat)
  /-- a user type with its own `estimate_memory`: `inl = size_of::<T>()`, `est` = what it reports -/
  | user (inl est : Nat)
  /-- `String` with the given capacity -/
  | str (cap : Nat)
  /-- `&str` of the given length -/
  | strRef (len : Nat)
  /-- `&[T]` with the given elements -/
  | sliceRef (elems : List Shape)
  /-- `Vec<T>`: `elemInl = size_of::<T>()`, capacity, elements -/
  | vec (elemInl cap : Nat) (elems : List Shape)
  /-- `Option<T>`: `inl = size_of::<Option<T>>()` -/
  | opt (inl : Nat) (v : Option Shape)
  /-- `Result<T, E>`: `inl = size_of::<Result<T, E>>()`; `v` is the payload of `Ok` / `Err` -/
  | res (inl : Nat) (isOk : Bool) (v : Shape)
  /-- `(T1, T2)`: `inl = size_of::<(T1, T2)>()` -/
  | tup2 (inl : Nat) (a b : Shape)
  /-- `(T1, T2, T3)` -/
  | tup3 (inl : Nat) (a b c : Shape)
  | box (v : Shape)
  | arc (v : Shape)
  | rc (v : Shape)
  /-- `CacheEntry<R>`: `inl = size_of::<CacheEntry<R>>()` -/
  | entry (inl : Nat) (v : Shape)
  deriving Repr

/-- `size_of_val(v)` -/
def inline (L : Layout) : Shape → Nat
  | .prim i => i
  | .user i _ => i
  | .str _ => L.str
  | .strRef _ => L.fatRef
  | .sliceRef _ => L.fatRef
  | .vec _ _ _ => L.vec
  | .opt i _ => i
  | .res i _ _ => i
  | .tup2 i _ _ => i
  | .tup3 i _ _ _ => i
  | .box _ => L.ptr
  | .arc _ => L.ptr
  | .rc _ => L.ptr
  | .entry i _ => i

mutual
/-- `MemoryEstimator::estimate_memory`, transcribed impl by impl. -/
def estimate (L : Layout) : Shape → Nat
  -- default method (memory_estimator.rs:76-78): `size_of_val(self)`
  | .prim i => i
  | .user _ e => e
  -- `String` (139-143): `size_of::<Self>() + self.capacity()`
  | .str cap => L.str + cap
  -- `&str` (104-109): `size_of::<&str>() + self.len()`
  | .strRef len => L.fatRef + len
  -- `&[T]` (112-118): `size_of::<&[T]>() + Σ e.estimate_memory()`
  | .sliceRef xs => L.fatRef + estimateSum L xs
  -- `Vec<T>` (146-167): `base + capacity * size_of::<T>() + Σ est(item).saturating_sub(size_of_val(item))`
  | .vec ei cap xs => L.vec + cap * ei + extrasSum L xs
  -- `Option<T>` (170-180): `size_of::<Self>() + map_or(0, |val| est(val) - size_of_val(val))`
  | .opt i none => i + 0
  | .opt i (some v) => i + (estimate L v - inline L v)
  -- `Result<T, E>` (183-195)
  | .res i _ v => i + (estimate L v - inline L v)
  -- tuples (198-222)
  | .tup2 i a b => i + (estimate L a - inline L a) + (estimate L b - inline L b)
  | .tup3 i a b c =>
      i + (estimate L a - inline L a) + (estimate L b - inline L b) + (estimate L c - inline L c)
  -- `Box<T>` (225-232), `Arc<T>` (121-126), `Rc<T>` (129-134): `size_of::<Self>() + (**self).estimate_memory()`
  | .box v => L.ptr + estimate L v
  | .arc v => L.ptr + estimate L v
  | .rc v => L.ptr + estimate L v
  -- `CacheEntry<R>` (cache_entry.rs:124-136): `size_of::<Self>() + est(value).saturating_sub(size_of_val(&value))`
  | .entry i v => i + (estimate L v - inline L v)
/-- `iter().map(|e| e.estimate_memory()).sum()` -/
def estimateSum (L : Layout) : List Shape → Nat
  | [] => 0
  | x :: xs => estimate L x + estimateSum L xs
/-- `iter().map(|item| item.estimate_memory().saturating_sub(size_of_val(item))).sum()` -/
def extrasSum (L : Layout) : List Shape → Nat
  | [] => 0
  | x :: xs => (estimate L x - inline L x) + extrasSum L xs
end

/-- Rust's unchecked `a - b` on `usize` with overflow checks on: panics (`none`) when `a < b`. -/
def csub (a b : Nat) : Option Nat := if b ≤ a then some (a - b) else none

mutual
/-- `estimate_memory` under `overflow-checks = on`: `none` = "attempt to subtract with overflow". -/
def estimateChecked (L : Layout) : Shape → Option Nat
  | .prim i => some i
  | .user _ e => some e
  | .str cap => some (L.str + cap)
  | .strRef len => some (L.fatRef + len)
  | .sliceRef xs => do let s ← estimateSumChecked L xs; pure (L.fatRef + s)
  | .vec ei cap xs => do let s ← extrasSumChecked L xs; pure (L.vec + cap * ei + s)
  | .opt i none => some (i + 0)
  | .opt i (some v) => do let e ← estimateChecked L v; let d ← csub e (inline L v); pure (i + d)
  | .res i _ v => do let e ← estimateChecked L v; let d ← csub e (inline L v); pure (i + d)
  | .tup2 i a b => do
      let ea ← estimateChecked L a; let da ← csub ea (inline L a)
      let eb ← estimateChecked L b; let db ← csub eb (inline L b)
      pure (i + da + db)
  | .tup3 i a b c => do
      let ea ← estimateChecked L a; let da ← csub ea (inline L a)
      let eb ← estimateChecked L b; let db ← csub eb (inline L b)
      let ec ← estimateChecked L c; let dc ← csub ec (inline L c)
      pure (i + da + db + dc)
  | .box v => do let e ← estimateChecked L v; pure (L.ptr + e)
  | .arc v => do let e ← estimateChecked L v; pure (L.ptr + e)
  | .rc v => do let e ← estimateChecked L v; pure (L.ptr + e)
  -- saturating: cannot fail by itself
  | .entry i v => do let e ← estimateChecked L v; pure (i + (e - inline L v))
def estimateSumChecked (L : Layout) : List Shape → Option Nat
  | [] => some 0
  | x :: xs => do let e ← estimateChecked L x; let s ← estimateSumChecked L xs; pure (e + s)
def extrasSumChecked (L : Layout) : List Shape → Option Nat
  | [] => some 0
  -- saturating
  | x :: xs => do let e ← estimateChecked L x; let s ← extrasSumChecked L xs; pure ((e - inline L x) + s)
end

mutual
/-- Heap bytes OWNED by the value — defined without looking at the estimator. -/
def ownedHeap (L : Layout) : Shape → Nat
  | .prim _ => 0
  -- for a user type the property takes "what its MemoryEstimator reports"
  | .user i e => e - i
  | .str cap => cap
  | .strRef _ => 0
  | .sliceRef _ => 0
  | .vec ei cap xs => cap * ei + ownedSum L xs
  | .opt _ none => 0
  | .opt _ (some v) => ownedHeap L v
  | .res _ _ v => ownedHeap L v
  | .tup2 _ a b => ownedHeap L a + ownedHeap L b
  | .tup3 _ a b c => ownedHeap L a + ownedHeap L b + ownedHeap L c
  | .box v => inline L v + ownedHeap L v
  | .arc v => inline L v + ownedHeap L v
  | .rc v => inline L v + ownedHeap L v
  | .entry _ v => ownedHeap L v
def ownedSum (L : Layout) : List Shape → Nat
  | [] => 0
  | x :: xs => ownedHeap L x + ownedSum L xs
end

mutual
/-- Bytes the estimator adds for data the value only BORROWS. -/
def borrowed (L : Layout) : Shape → Nat
  | .prim _ => 0
  | .user _ _ => 0
  | .str _ => 0
  | .strRef len => len
  | .sliceRef xs => footSum L xs
  | .vec _ _ xs => borrowedSum L xs
  | .opt _ none => 0
  | .opt _ (some v) => borrowed L v
  | .res _ _ v => borrowed L v
  | .tup2 _ a b => borrowed L a + borrowed L b
  | .tup3 _ a b c => borrowed L a + borrowed L b + borrowed L c
  | .box v => borrowed L v
  | .arc v => borrowed L v
  | .rc v => borrowed L v
  | .entry _ v => borrowed L v
def borrowedSum (L : Layout) : List Shape → Nat
  | [] => 0
  | x :: xs => borrowed L x + borrowedSum L xs
/-- everything the elements of a borrowed slice amount to: inline + owned + borrowed, each -/
def footSum (L : Layout) : List Shape → Nat
  | [] => 0
  | x :: xs => (inline L x + ownedHeap L x + borrowed L x) + footSum L xs
end

mutual
/-- `true` iff the value contains no `&str` / `&[T]` (it owns everything it reaches). -/
def allOwned : Shape → Bool
  | .prim _ | .user _ _ | .str _ => true
  | .strRef _ | .sliceRef _ => false
  | .vec _ _ xs => allOwnedList xs
  | .opt _ none => true
  | .opt _ (some v) => allOwned v
  | .res _ _ v => allOwned v
  | .tup2 _ a b => allOwned a && allOwned b
  | .tup3 _ a b c => allOwned a && allOwned b && allOwned c
  | .box v | .arc v | .rc v => allOwned v
  | .entry _ v => allOwned v
def allOwnedList : List Shape → Bool
  | [] => true
  | x :: xs => allOwned x && allOwnedList xs
end

mutual
/-- Well-formedness, as a decidable check: every USER estimator inside the value reports at least the
    inline size of its type.  Built-in shapes carry no constraint at all (in particular nothing is
    assumed about the `inl` parameters). -/
def wf : Shape → Bool
  | .prim _ | .str _ | .strRef _ => true
  | .user i e => decide (i ≤ e)
  | .sliceRef xs => wfList xs
  | .vec _ _ xs => wfList xs
  | .opt _ none => true
  | .opt _ (some v) => wf v
  | .res _ _ v => wf v
  | .tup2 _ a b => wf a && wf b
  | .tup3 _ a b c => wf a && wf b && wf c
  | .box v | .arc v | .rc v => wf v
  | .entry _ v => wf v
def wfList : List Shape → Bool
  | [] => true
  | x :: xs => wf x && wfList xs
end

/-- Well-formedness as a proposition. -/
def WF (v : Shape) : Prop := wf v = true

instance (v : Shape) : Decidable (WF v) := inferInstanceAs (Decidable (wf v = true))

mutual
/-- `true` iff the value contains no user estimator: it is built from the crate's own impls only. -/
def builtin : Shape → Bool
  | .prim _ | .str _ | .strRef _ => true
  | .user _ _ => false
  | .sliceRef xs => builtinList xs
  | .vec _ _ xs => builtinList xs
  | .opt _ none => true
  | .opt _ (some v) => builtin v
  | .res _ _ v => builtin v
  | .tup2 _ a b => builtin a && builtin b
  | .tup3 _ a b c => builtin a && builtin b && builtin c
  | .box v | .arc v | .rc v => builtin v
  | .entry _ v => builtin v
def builtinList : List Shape → Bool
  | [] => true
  | x :: xs => builtin x && builtinList xs
end

mutual
/-- Sanity of the layout parameters reported by the harness (NOT needed by any theorem; the driver
    rejects a line that violates it, because that would mean the shape encoding is wrong): a payload
    fits into its container, tuple components fit side by side, all elements of a `Vec`/slice have
    the declared element size. -/
def layoutOk (L : Layout) : Shape → Bool
  | .prim _ | .user _ _ | .str _ | .strRef _ => true
  | .sliceRef xs => layoutOkList L xs
  | .vec ei _ xs => layoutOkList L xs && elemsHave L ei xs
  | .opt _ none => true
  | .opt i (some v) => layoutOk L v && decide (inline L v ≤ i)
  | .res i _ v => layoutOk L v && decide (inline L v ≤ i)
  | .tup2 i a b => layoutOk L a && layoutOk L b && decide (inline L a + inline L b ≤ i)
  | .tup3 i a b c =>
      layoutOk L a && layoutOk L b && layoutOk L c && decide (inline L a + inline L b + inline L c ≤ i)
  | .box v | .arc v | .rc v => layoutOk L v
  | .entry i v => layoutOk L v && decide (inline L v ≤ i)
def layoutOkList (L : Layout) : List Shape → Bool
  | [] => true
  | x :: xs => layoutOk L x && layoutOkList L xs
def elemsHave (L : Layout) (ei : Nat) : List Shape → Bool
  | [] => true
  | x :: xs => decide (inline L x = ei) && elemsHave L ei xs
end

end Cachelito.MemEst
