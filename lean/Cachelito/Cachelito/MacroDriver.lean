/-
  Cachelito.MacroDriver — L2 line protocol (`harness/src/bin/macro_diff.rs`): real `#[cache]` /
  `#[cache_async]` generated functions, real registries, vs `Cachelito.sysStep`.

    F|idx|name|async|thread|<cfg>|useMem|isResult|cacheIf|invOn|tags|events|deps|ident|attrs
    E|<fn idx list>|<seed>
    S|<op input>||<observed output>||<dumps of every cache instance of the episode's functions>

  The model state is carried along the episode; after a disagreement the model's cache instances are
  re-synchronised from the implementation's dumps so that one divergence does not cascade.
-/
import Cachelito.System
import Cachelito.Async
import Cachelito.Driver

namespace Cachelito.MacroDriver
open Cachelito Cachelito.Driver

abbrev MSys := Sys String Val

structure Ctx where
  fns : List FnSpec := []
  fws : List (Option Float) := []
  epFns : List Nat := []
  sys : MSys := ⟨[], [], 0⟩
  pending : List (PendingCall String Val) := []
  lines : Nat := 0
  ok : Nat := 0
  diffs : Nat := 0
  bad : Nat := 0
  tries : Nat := 0
  episode : Nat := 0
  stepInEp : Nat := 0

def base : Nat := 1000000000000

def splitList (s : String) : List String := if s.isEmpty then [] else s.splitOn ","

def parseSpecLine (p : List String) : Option (FnSpec × Option Float) :=
  match p with
  | _ :: _idx :: name :: asy :: thr :: cfgS :: useMem :: isRes :: ci :: io :: tags :: events :: deps :: _ident :: _attrs :: _ => do
    let (cfg, fw) ← parseCfg cfgS
    pure (⟨name, asy = "1", thr = "1", cfg, useMem = "1", isRes = "1", ci = "1", io = "1",
           splitList tags, splitList events, splitList deps⟩, fw)
  | _ => none

def isOkVal (v : Val) : Bool := v.id.startsWith "4f6b28"   -- hex of `Ok(`

def tlsOf (ctx : Ctx) (i : Nat) : Tlru Float := tlruFloat ((ctx.fws[i]?).getD none)

/-! ### rendering of model cache instances -/

def renderInst (cfg : Cfg) (s : State String Val) : String :=
  let es := s.store.map (fun (k, e) =>
    (k, s!"{k}={e.val.id},{e.val.size},{elapsedMs cfg s.now e.birth},{e.hits}"))
  let es := es.foldl (fun acc x => insertSorted x acc) []
  ";".intercalate (es.map (·.2)) ++ "#" ++ ",".intercalate s.queue

def instLabel (id : CacheId) : String :=
  match id.thread with
  | some t => s!"{id.fn}:{t}"
  | none => s!"{id.fn}:g"

def nThreads : Nat := 3

def instancesOf (ctx : Ctx) : List CacheId :=
  ctx.epFns.flatMap (fun i =>
    match ctx.fns[i]? with
    | some spec => if spec.threadScope then (List.range nThreads).map (fun t => ⟨i, some t⟩) else [⟨i, none⟩]
    | none => [])

def renderAll (ctx : Ctx) : String :=
  "@".intercalate ((instancesOf ctx).map (fun id =>
    let body := match ctx.sys.caches.find? (fun p => p.1 = id), ctx.fns[id.fn]? with
      | some p, some spec => renderInst spec.cfg p.2
      | _, _ => "-"
    s!"{instLabel id}={body}"))

/-! ### re-synchronisation from the implementation's dumps -/

def parseDumpEntry (cfg : Cfg) (now : Nat) (s : String) : Option (String × Entry Val) :=
  match s.splitOn "=" with
  | [k, r] =>
    match r.splitOn "," with
    | [vid, sz, age, hits] => do
      let sz ← sz.toNat?
      let age ← age.toNat?
      let hits ← hits.toNat?
      let birth := match cfg.flavour with
        | .async => (now / 1000 - age / 1000) * 1000
        | _ => now - age
      pure (k, ⟨⟨vid, sz⟩, birth, hits⟩)
    | _ => none
  | _ => none

def resync (ctx : Ctx) (dumps : String) : Ctx :=
  let parts := dumps.splitOn "@"
  let sys := parts.foldl (fun (sys : MSys) part =>
    match part.splitOn "=" with
    | lbl :: rest =>
      let body := "=".intercalate rest
      match lbl.splitOn ":" with
      | [fi, inst] =>
        match fi.toNat?, (if inst = "g" then some none else inst.toNat?.map some) with
        | some fi, some th =>
          let id : CacheId := ⟨fi, th⟩
          match ctx.fns[fi]? with
          | none => sys
          | some spec =>
            if body = "-" then { sys with caches := sys.caches.filter (fun p => p.1 ≠ id) }
            else
              match body.splitOn "#" with
              | [es, q] =>
                let old := sys.getCache id
                let entries := (splitNonEmpty es ";").filterMap (parseDumpEntry spec.cfg sys.now)
                sys.setCache id { old with store := entries, queue := splitNonEmpty q ",", now := sys.now }
              | _ => sys
        | _, _ => sys
      | _ => sys
    | _ => sys) ctx.sys
  { ctx with sys := sys }

/-! ### one operation -/

def field (out : String) (name : String) : Option String :=
  (out.splitOn " ").findSome? (fun tok =>
    if tok.startsWith (name ++ "=") then some (tok.drop (name.length + 1)).toString else none)

def renderTraceLog (tr : List (TraceEv String Val)) (fi : Nat) : String × String × Nat :=
  let preds := tr.filterMap (fun ev => match ev with
    | .predCalled k v a => some s!"{fi}:{k}:{v.id}:{if a then 1 else 0}" | _ => none)
  let checks := tr.filterMap (fun ev => match ev with
    | .checkCalled k v a => some s!"{fi}:{k}:{v.id}:{if a then 1 else 0}" | _ => none)
  let runs := (tr.filter (fun ev => match ev with | .bodyRun => true | _ => false)).length
  (";".intercalate preds, ";".intercalate checks, runs)

def keySetPred (ks : String) : String → Bool :=
  let l := splitList ks
  fun k => l.contains k

/-- suspended / resumed / dropped async calls (`Cachelito.aStep`) -/
def modelStepAsync (ctx : Ctx) (op : String) (implOut : String) (rs : List Nat) :
    Option (MSys × List (PendingCall String Val) × String) :=
  let a : ASys String Val := ⟨ctx.sys, ctx.pending⟩
  let go (o : AOp String Val) := aStep ctx.fns (tlsOf ctx) Val.size isOkVal rs a o
  match op.splitOn " " with
  | ["begin", id, fi, _j, _n, _ok, _len, ci, io, _k] => do
    let id ← id.toNat?
    let fi ← fi.toNat?
    let spec ← ctx.fns[fi]?
    let would ← field implOut "would"
    -- the key is reported as `ret=<key> …` (finished at once) or `susp=<key>` (suspended)
    let key ← (field implOut "susp").orElse (fun _ => field implOut "ret")
    match would.splitOn "," with
    | [wv, wsz, _wok] => do
      let wsz ← wsz.toNat?
      let c : CallIn String Val :=
        ⟨key, ⟨wv, if spec.useMem then wsz else 0⟩, fun _ _ => ci = "1", fun _ _ => io = "1"⟩
      let (a', out) := go (.callBegin id fi c)
      let st := let s := a'.sys.getCache ⟨fi, none⟩; s!"{s.hitStat},{s.missStat}"
      match out with
      | .ret v tr =>
        let (pl, cl, runs) := renderTraceLog tr fi
        pure (a'.sys, a'.pending, s!"ret={key} {v.id} exec={runs} pred=[{pl}] check=[{cl}] stats={st}")
      | .suspended pre =>
        let (_, cl, _) := renderTraceLog pre fi
        pure (a'.sys, a'.pending, s!"susp={key} exec=1 check=[{cl}] stats={st} blocked=0")
      | _ => none
    | _ => none
  | ["resume", id] => do
    let id ← id.toNat?
    if (ctx.pending.find? (fun p => p.id = id)).isNone then
      return (ctx.sys, ctx.pending, "nosuchcall")
    let p ← ctx.pending.find? (fun p => p.id = id)
    let (a', out) := go (.callResume id)
    match out with
    | .ret v tr =>
      -- body execution and staleness check were observed at `begin`; only the predicate runs now
      let tr' := tr.drop p.pre.length
      let (pl, _, _) := renderTraceLog tr' p.fn
      let st := let s := a'.sys.getCache ⟨p.fn, none⟩; s!"{s.hitStat},{s.missStat}"
      pure (a'.sys, a'.pending, s!"ret={p.c.key} {v.id} exec=0 pred=[{pl}] check=[] stats={st}")
    | _ => none
  | ["drop", id] => do
    let id ← id.toNat?
    let (a', _) := go (.callDrop id)
    pure (a'.sys, a'.pending, "unit")
  | _ => none

/-- model output rendered like the harness renders the observation -/
def modelStep (ctx : Ctx) (op : String) (implOut : String) (rs : List Nat) : Option (MSys × String) :=
  let go (o : SysOp String Val) : MSys × SysOut String Val :=
    sysStep ctx.fns (tlsOf ctx) Val.size isOkVal rs ctx.sys o
  match op.splitOn " " with
  | ["call", fi, th, _j, _n, _ok, _len, ci, io] => do
    let fi ← fi.toNat?
    let th ← th.toNat?
    let spec ← ctx.fns[fi]?
    -- key and would-be body value are read from the implementation's observation
    let would ← field implOut "would"
    let ret ← field implOut "ret"
    let key ← (ret.splitOn " ").head?   -- `ret=<key> <value>`: field() cut at the space, so take from raw
    match would.splitOn "," with
    | [wv, wsz, _wok] => do
      let wsz ← wsz.toNat?
      let c : CallIn String Val :=
        ⟨key, ⟨wv, if spec.useMem then wsz else 0⟩, fun _ _ => ci = "1", fun _ _ => io = "1"⟩
      let (sys', out) := go (.call fi th c)
      match out with
      | .ret v tr =>
        let (pl, cl, runs) := renderTraceLog tr fi
        let st := if spec.threadScope then "-" else
          let s := sys'.getCache ⟨fi, none⟩; s!"{s.hitStat},{s.missStat}"
        pure (sys', s!"ret={key} {v.id} exec={runs} pred=[{pl}] check=[{cl}] stats={st}")
      | _ => none
    | _ => none
  | ["tick", ms] => do
    let ms ← ms.toNat?
    let (sys', _) := go (.tick ms)
    pure (sys', "unit")
  | ["tag", t] => let (s, o) := go (.invalidateByTag t); some (s, match o with | .count n => s!"count={n}" | _ => "?")
  | ["event", t] => let (s, o) := go (.invalidateByEvent t); some (s, match o with | .count n => s!"count={n}" | _ => "?")
  | ["dep", t] => let (s, o) := go (.invalidateByDependency t); some (s, match o with | .count n => s!"count={n}" | _ => "?")
  | ["cache", n] => let (s, o) := go (.invalidateCache n); some (s, match o with | .flag b => s!"flag={if b then 1 else 0}" | _ => "?")
  | ["with", n] => let (s, o) := go (.invalidateWith n (fun _ => false)); some (s, match o with | .flag b => s!"flag={if b then 1 else 0}" | _ => "?")
  | ["with", n, ks] => let (s, o) := go (.invalidateWith n (keySetPred ks)); some (s, match o with | .flag b => s!"flag={if b then 1 else 0}" | _ => "?")
  | ["allwith"] => let (s, o) := go (.invalidateAllWith (fun _ _ => false)); some (s, match o with | .count n => s!"count={n}" | _ => "?")
  | ["allwith", tbl] =>
    let table : List (String × (String → Bool)) := (tbl.splitOn ";").filterMap (fun part =>
      match part.splitOn "=" with
      | [n, ks] => some (n, keySetPred ks)
      | _ => none)
    let p : String → String → Bool := fun name k => table.any (fun (n, f) => n = name && f k)
    let (s, o) := go (.invalidateAllWith p)
    some (s, match o with | .count n => s!"count={n}" | _ => "?")
  | ["sget", n] =>
    let (s, o) := go (.statsGet n)
    some (s, match o with | .stats (some (h, m)) => s!"stats={h},{m}" | .stats none => "stats=-" | _ => "?")
  | ["sreset", n] => let (s, o) := go (.statsReset n); some (s, match o with | .flag b => s!"flag={if b then 1 else 0}" | _ => "?")
  | _ => none

/-- the part of the implementation's output that the model predicts (drops `would=…`) -/
def implComparable (op : String) (implOut : String) : String :=
  if op.startsWith "begin " then
    match implOut.splitOn " ret=", implOut.splitOn " susp=" with
    | [_, rest], _ => "ret=" ++ rest
    | _, [_, rest] => "susp=" ++ rest
    | _, _ => implOut
  else if op.startsWith "call " then
    match implOut.splitOn " ret=" with
    | [_, rest] => "ret=" ++ rest
    | _ => implOut
  else implOut

def policyOfCall (ctx : Ctx) (op : String) : Bool :=
  match op.splitOn " " with
  | "begin" :: _ :: fi :: _ =>
    match fi.toNat? with
    | some fi => match ctx.fns[fi]? with
      | some spec => spec.cfg.policy = .random
      | none => false
    | none => false
  | "resume" :: id :: _ =>
    match id.toNat? with
    | some id => match ctx.pending.find? (fun p => p.id = id) with
      | some p => match ctx.fns[p.fn]? with
        | some spec => spec.cfg.policy = .random
        | none => false
      | none => false
    | none => false
  | "call" :: fi :: _ =>
    match fi.toNat? with
    | some fi => match ctx.fns[fi]? with
      | some spec => spec.cfg.policy = .random
      | none => false
    | none => false
  | _ => false

def handleLine (line : String) (ctx : Ctx) : Ctx × List String :=
  match line.splitOn "|" with
  | "F" :: _ =>
    match parseSpecLine (line.splitOn "|") with
    | some (spec, fw) => ({ ctx with fns := ctx.fns ++ [spec], fws := ctx.fws ++ [fw] }, [])
    | none => ({ ctx with bad := ctx.bad + 1 }, [s!"BAD spec {line}"])
  | "E" :: fl :: _ =>
    let ids := (splitList fl).filterMap String.toNat?
    ({ ctx with epFns := ids, sys := ⟨[], [], base⟩, pending := [], episode := ctx.episode + 1, stepInEp := 0 }, [])
  | ["R", dumps, stats, called] =>
    -- start the episode from a state observed on the implementation (quiescent state after a scheduled run)
    let ctx := resync ctx dumps
    let calledL := (splitList called).filterMap String.toNat?
    let sys := { ctx.sys with called := calledL }
    let sys := (stats.splitOn ";").foldl (fun (sy : MSys) part =>
      match part.splitOn "=" with
      | [fi, hm] =>
        match fi.toNat?, hm.splitOn "," with
        | some fi, [h, m] =>
          match h.toNat?, m.toNat? with
          | some h, some m =>
            let id : CacheId := ⟨fi, none⟩
            if (sy.caches.find? (fun p => p.1 = id)).isSome then
              sy.setCache id { sy.getCache id with hitStat := h, missStat := m }
            else sy
          | _, _ => sy
        | _, _ => sy
      | _ => sy) sys
    ({ ctx with sys := sys }, [])
  | "S" :: _ =>
    let ctx := { ctx with lines := ctx.lines + 1, stepInEp := ctx.stepInEp + 1 }
    match (line.drop 2).toString.splitOn "||" with
    | [op, implOut, implDumps] =>
      let want := implComparable op implOut
      let isA := op.startsWith "begin " || op.startsWith "resume " || op.startsWith "drop "
      -- pending calls after this step (only begin / resume / drop change them; independent of the draws)
      let pend' := if isA then
          match modelStepAsync ctx op implOut [] with
          | some (_, p, _) => p
          | none => ctx.pending
        else ctx.pending
      let try1 (rs : List Nat) : Option (MSys × String × String) :=
        if isA then
          match modelStepAsync ctx op implOut rs with
          | some (sys', _, out) => some (sys', out, renderAll { ctx with sys := sys' })
          | none => none
        else
        match modelStep ctx op implOut rs with
        | some (sys', out) => some (sys', out, renderAll { ctx with sys := sys' })
        | none => none
      match try1 [] with
      | none => ({ ctx with bad := ctx.bad + 1 }, [s!"BAD op episode={ctx.episode} step={ctx.stepInEp} {op}"])
      | some (sys0, out0, dumps0) =>
        let good (r : MSys × String × String) : Bool := r.2.1 == want && r.2.2 == implDumps
        if good (sys0, out0, dumps0) then
          ({ ctx with sys := sys0, pending := pend', ok := ctx.ok + 1, tries := ctx.tries + 1 }, [])
        else
          -- random policy: search the draws the implementation could have made
          let found : Option (MSys × String × String) :=
            if policyOfCall ctx op then
              (List.range 4).findSome? (fun d =>
                (vectors 6 (d + 1)).findSome? (fun v =>
                  match try1 v with
                  | some r => if good r then some r else none
                  | none => none))
            else none
          match found with
          | some r => ({ ctx with sys := r.1, pending := pend', ok := ctx.ok + 1, tries := ctx.tries + 2 }, [])
          | none =>
            let msg := s!"DIFF episode={ctx.episode} step={ctx.stepInEp} op=[{op}] implOut=[{want}] modelOut=[{out0}] implDumps=[{implDumps}] modelDumps=[{dumps0}]"
            let ctx' := resync { ctx with sys := sys0, pending := pend' } implDumps
            ({ ctx' with diffs := ctx.diffs + 1, tries := ctx.tries + 1 }, [msg])
    | _ => ({ ctx with bad := ctx.bad + 1 }, [s!"BAD shape {line}"])
  | _ =>
    if line.startsWith "#" then (ctx, []) else ({ ctx with bad := ctx.bad + 1 }, [s!"BAD shape {line}"])

end Cachelito.MacroDriver
