use cachelito::cache;
use std::sync::atomic::{AtomicU64, Ordering::SeqCst};
use std::sync::Arc;
#[cache(limit = 1)]
fn f(x: u64) -> u64 { x }
fn main() {
    f(0);
    let prog = Arc::new(AtomicU64::new(0));
    let p1 = prog.clone(); let p2 = prog.clone();
    std::thread::spawn(move || { let mut i = 1; loop { f(i); i += 1; p1.fetch_add(1, SeqCst); } });
    std::thread::spawn(move || { loop { cachelito::invalidate_with("f", |_| false); p2.fetch_add(1, SeqCst); } });
    let mut last = 0; let t0 = std::time::Instant::now();
    loop {
        std::thread::sleep(std::time::Duration::from_millis(500));
        let now = prog.load(SeqCst);
        if now == last { println!("DEADLOCK: no progress for 500ms after {} ops, {:?}", now, t0.elapsed()); std::process::exit(0); }
        last = now;
        if t0.elapsed().as_secs() > 20 { println!("no deadlock in 20s ({} ops)", now); std::process::exit(0); }
    }
}
