/-
  C10 — `cache_if` decides, per result, whether it is stored.

  Wrapper level (`Cachelito.callFn`), for a function with a `cache_if` predicate
  (`spec.hasCacheIf = true`).  The predicate is an ORACLE supplied per call (`c.cacheIf`), so arbitrary
  accept/reject scripts over key and value — including predicates whose verdict changes between calls —
  are covered.  Every statement holds for every flavour, policy, limit, TTL, `max_memory`, both engine
  stores (`spec.useMem`), with or without `invalidate_on`, Result or not, unless a hypothesis says
  otherwise.
-/
import Cachelito.Lemmas.Wrapper

set_option linter.unusedSectionVars false
set_option linter.unusedSimpArgs false
set_option linter.unusedVariables false

namespace Cachelito.C10
open Cachelito Cachelito.Wrap
variable {K V S : Type} [DecidableEq K]

/-- (1a) **Consulted once per execution, right after it, on that call's key and result.**  When the body
    runs, the trace is `pre ++ [bodyRun, predCalled key result verdict] ++ post` where neither `pre` nor
    `post` contains a `bodyRun` or a `predCalled`. -/
theorem pred_once_after_body (spec : FnSpec) (hC : spec.hasCacheIf = true) (tl : Tlru S) (size : V → Nat)
    (isOk : V → Bool) (rs : List Nat) (s : State K V) (c : CallIn K V) (hb : runsBody spec s c = true) :
    ∃ pre post, (callFn spec tl size isOk rs s c).2.2 =
        pre ++ [TraceEv.bodyRun, TraceEv.predCalled c.key c.bodyVal (c.cacheIf c.key c.bodyVal)] ++ post ∧
      (∀ ev ∈ pre, TraceEv.isExec ev = false) ∧ (∀ ev ∈ post, TraceEv.isExec ev = false) := by
  obtain ⟨pre, post, h1, h2, h3⟩ := trace_body_shape spec tl size isOk rs s c hb
  refine ⟨pre, post, ?_, h2, h3⟩
  rw [h1]; simp [predPart, hC]

/-- (1b) **Not consulted on a hit.**  When the body does not run (the call is served from the cache), the
    trace contains neither `bodyRun` nor `predCalled`. -/
theorem pred_not_called_on_hit (spec : FnSpec) (tl : Tlru S) (size : V → Nat)
    (isOk : V → Bool) (rs : List Nat) (s : State K V) (c : CallIn K V) (hb : runsBody spec s c = false) :
    TraceEv.bodyRun ∉ (callFn spec tl size isOk rs s c).2.2 ∧
    ∀ k v a, TraceEv.predCalled k v a ∉ (callFn spec tl size isOk rs s c).2.2 := by
  have h := trace_hit_shape spec tl size isOk rs s c hb
  refine ⟨fun hm => ?_, fun k v a hm => ?_⟩
  · have := h _ hm; simp [TraceEv.isExec] at this
  · have := h _ hm; simp [TraceEv.isExec] at this

/-- (1, any call) the execution events of a call's trace are exactly `[bodyRun, predCalled key result
    verdict]` if the body ran and `[]` otherwise: one consultation per execution, none without. -/
theorem exec_events (spec : FnSpec) (hC : spec.hasCacheIf = true) (tl : Tlru S) (size : V → Nat)
    (isOk : V → Bool) (rs : List Nat) (s : State K V) (c : CallIn K V) :
    (callFn spec tl size isOk rs s c).2.2.filter TraceEv.isExec =
      if runsBody spec s c
      then [TraceEv.bodyRun, TraceEv.predCalled c.key c.bodyVal (c.cacheIf c.key c.bodyVal)]
      else [] := by
  cases hb : runsBody spec s c
  · simp only [Bool.false_eq_true, if_false, List.filter_eq_nil_iff, Bool.not_eq_true]
    exact trace_hit_shape spec tl size isOk rs s c hb
  · obtain ⟨pre, post, h1, h2, h3⟩ := pred_once_after_body spec hC tl size isOk rs s c hb
    rw [h1]
    have hpre : pre.filter TraceEv.isExec = [] := by
      simp only [List.filter_eq_nil_iff, Bool.not_eq_true]; exact h2
    have hpost : post.filter TraceEv.isExec = [] := by
      simp only [List.filter_eq_nil_iff, Bool.not_eq_true]; exact h3
    simp [List.filter_append, hpre, hpost, List.filter_cons, TraceEv.isExec]

/-- (1, histories) over every history of calls and ticks from any state, every call's trace has exactly
    one predicate consultation — with that call's key, result and verdict — after each body execution, and
    none otherwise. -/
theorem exec_events_history (spec : FnSpec) (hC : spec.hasCacheIf = true) (tl : Tlru S) (size : V → Nat)
    (isOk : V → Bool) (s : State K V) (h : List (WEv K V)) :
    (runCalls spec tl size isOk s h).2.length = (callsOf h).length ∧
    ∀ p ∈ (callsOf h).zip (runCalls spec tl size isOk s h).2,
      p.2.2.filter TraceEv.isExec =
          [TraceEv.bodyRun, TraceEv.predCalled p.1.key p.1.bodyVal (p.1.cacheIf p.1.key p.1.bodyVal)] ∨
      p.2.2.filter TraceEv.isExec = [] := by
  refine ⟨runCalls_length spec tl size isOk s h, ?_⟩
  apply runCalls_forall_zip spec tl size isOk
    (fun c out => out.2.filter TraceEv.isExec =
        [TraceEv.bodyRun, TraceEv.predCalled c.key c.bodyVal (c.cacheIf c.key c.bodyVal)] ∨
      out.2.filter TraceEv.isExec = [])
  intro s c rs
  show (callFn spec tl size isOk rs s c).2.2.filter TraceEv.isExec = _ ∨ _
  rw [exec_events spec hC tl size isOk rs s c]
  cases runsBody spec s c <;> simp

/-- a rejected result is never handed to the engine, whatever the other settings -/
theorem rejected_not_wouldStore (spec : FnSpec) (hC : spec.hasCacheIf = true) (isOk : V → Bool)
    (c : CallIn K V) (hrej : c.cacheIf c.key c.bodyVal = false) : wouldStore spec isOk c = false := by
  unfold wouldStore shouldStore
  cases spec.isAsync <;> simp [hC, hrej]

/-- (2a) **Rejected ⇒ not stored.**  If the predicate rejects this call's result, the state after the call
    is exactly the post-lookup state and the trace has no `stored` event. -/
theorem rejected_not_stored (spec : FnSpec) (hC : spec.hasCacheIf = true) (tl : Tlru S) (size : V → Nat)
    (isOk : V → Bool) (rs : List Nat) (s : State K V) (c : CallIn K V)
    (hrej : c.cacheIf c.key c.bodyVal = false) :
    (callFn spec tl size isOk rs s c).1 = (get spec.cfg s c.key).1 ∧
    ∀ k v, TraceEv.stored k v ∉ (callFn spec tl size isOk rs s c).2.2 := by
  have hw := rejected_not_wouldStore spec hC isOk c hrej
  refine ⟨by rw [callFn_state, hw]; simp, ?_⟩
  intro k v hm
  rw [stored_mem_iff, hw] at hm
  exact Bool.false_ne_true hm.2.1

/-- (2b) **…so the key stays absent.**  If the key was not cached before a call whose result is
    rejected, it is not cached after it (no assumption on limits, memory or TTL). -/
theorem rejected_stays_absent (spec : FnSpec) (hC : spec.hasCacheIf = true) (tl : Tlru S) (size : V → Nat)
    (isOk : V → Bool) (rs : List Nat) (s : State K V) (c : CallIn K V)
    (hrej : c.cacheIf c.key c.bodyVal = false) (habs : lookup c.key s.store = none) :
    lookup c.key (callFn spec tl size isOk rs s c).1.store = none := by
  rw [(rejected_not_stored spec hC tl size isOk rs s c hrej).1]
  exact get_absent spec.cfg s c.key c.key habs

/-- (2c) **…and the next call runs the body again.**  From a state that does not hold `k`, after any
    history in which every call for `k` had its result rejected (calls for other keys and ticks are
    unrestricted), `k` is still not held, so a call for `k` executes the body, consults the predicate on
    its own result, and returns the body's value. -/
theorem rejected_next_call_runs_body (spec : FnSpec) (hC : spec.hasCacheIf = true) (tl : Tlru S)
    (size : V → Nat) (isOk : V → Bool) (s : State K V) (k : K) (h : List (WEv K V))
    (habs : lookup k s.store = none)
    (hrej : ∀ c ∈ callsOf h, c.key = k → c.cacheIf c.key c.bodyVal = false)
    (c' : CallIn K V) (rs' : List Nat) (hk : c'.key = k) :
    lookup k (runCalls spec tl size isOk s h).1.store = none ∧
    runsBody spec (runCalls spec tl size isOk s h).1 c' = true ∧
    (callFn spec tl size isOk rs' (runCalls spec tl size isOk s h).1 c').2.1 = c'.bodyVal ∧
    (callFn spec tl size isOk rs' (runCalls spec tl size isOk s h).1 c').2.2.filter TraceEv.isExec =
      [TraceEv.bodyRun, TraceEv.predCalled c'.key c'.bodyVal (c'.cacheIf c'.key c'.bodyVal)] := by
  have habs' : lookup k (runCalls spec tl size isOk s h).1.store = none := by
    rw [← heldSat_false_iff]
    apply runCalls_heldSat spec tl size isOk k (fun _ => False) h
    · intro c hc hck hw
      rw [rejected_not_wouldStore spec hC isOk c (hrej c hc hck)] at hw
      exact Bool.false_ne_true hw
    · rw [heldSat_false_iff]; exact habs
  have hb : runsBody spec (runCalls spec tl size isOk s h).1 c' = true :=
    runsBody_of_absent spec _ c' (by rw [hk]; exact habs')
  refine ⟨habs', hb, ?_, ?_⟩
  · rw [callFn_body spec tl size isOk rs' _ c' hb]
  · rw [exec_events spec hC tl size isOk rs' _ c', hb]; rfl

/-- the store condition under `cache_if`: accepted, and `Ok` if the function is a SYNC Result function -/
theorem accepted_wouldStore (spec : FnSpec) (hC : spec.hasCacheIf = true) (isOk : V → Bool)
    (c : CallIn K V) (hacc : c.cacheIf c.key c.bodyVal = true)
    (hok : spec.isAsync = false → spec.isResult = true → isOk c.bodyVal = true) :
    wouldStore spec isOk c = true := by
  unfold wouldStore shouldStore
  cases hA : spec.isAsync
  · cases hR : spec.isResult
    · simp [hC, hacc]
    · simp [hC, hacc, hok hA hR]
  · simp [hC, hacc]

/-- (3a) **Accepted ⇒ stored.**  If the body runs and the predicate accepts its result (and, for a sync
    Result function, the result is `Ok`), exactly `(key, result)` is handed to the engine store the macro
    selected, on the post-lookup state, and the trace records `stored key result`. -/
theorem accepted_stored (spec : FnSpec) (hC : spec.hasCacheIf = true) (tl : Tlru S) (size : V → Nat)
    (isOk : V → Bool) (rs : List Nat) (s : State K V) (c : CallIn K V) (hb : runsBody spec s c = true)
    (hacc : c.cacheIf c.key c.bodyVal = true)
    (hok : spec.isAsync = false → spec.isResult = true → isOk c.bodyVal = true) :
    (callFn spec tl size isOk rs s c).1 =
      (if spec.useMem then insertMem spec.cfg tl size rs (get spec.cfg s c.key).1 c.key c.bodyVal
       else insert spec.cfg tl (rs.headD 0) (get spec.cfg s c.key).1 c.key c.bodyVal) ∧
    TraceEv.stored c.key c.bodyVal ∈ (callFn spec tl size isOk rs s c).2.2 := by
  have hw := accepted_wouldStore spec hC isOk c hacc hok
  refine ⟨by rw [callFn_state, hb, hw]; simp [storeOp], ?_⟩
  rw [stored_mem_iff]; exact ⟨hb, hw, rfl, rfl⟩

/-- (3b) **…and served on the next call.**  Without eviction pressure or expiry (`limit = none`, no
    effective memory bound, `ttl = none`): after a call that ran the body and whose result was accepted
    (and `Ok` for sync Result functions), and after ANY further history of ticks and calls (for the same key:
    provided no `invalidate_on` check declares the value stale — automatic when `invalidate_on` is not
    configured), a call for the key returns that value from the cache: no `bodyRun`, no `predCalled`. -/
theorem accepted_then_served (spec : FnSpec) (hC : spec.hasCacheIf = true) (hnp : NoPressure spec)
    (tl : Tlru S) (size : V → Nat) (isOk : V → Bool) (s : State K V) (c : CallIn K V) (rs : List Nat)
    (hb : runsBody spec s c = true) (hacc : c.cacheIf c.key c.bodyVal = true)
    (hok : spec.isAsync = false → spec.isResult = true → isOk c.bodyVal = true)
    (h2 : List (WEv K V)) (hkeep : ∀ c0 ∈ callsOf h2, Keeps spec c.key c.bodyVal c0)
    (c' : CallIn K V) (rs' : List Nat) (hk : c'.key = c.key) (hkeep' : Keeps spec c.key c.bodyVal c') :
    (callFn spec tl size isOk rs'
        (runCalls spec tl size isOk (callFn spec tl size isOk rs s c).1 h2).1 c').2 =
      (c.bodyVal, (if spec.hasInvalidateOn then [TraceEv.checkCalled c.key c.bodyVal false] else []) ++
            [TraceEv.returned c.bodyVal true]) :=
  stored_then_served spec hnp tl size isOk s c rs hb (accepted_wouldStore spec hC isOk c hacc hok)
    h2 hkeep c' rs' hk hkeep'

/-- (3b, without `invalidate_on`) the same with no side condition on the later history: every later
    call for the key has the trace `[returned value (from cache)]`. -/
theorem accepted_then_served_noinv (spec : FnSpec) (hC : spec.hasCacheIf = true)
    (hI : spec.hasInvalidateOn = false) (hnp : NoPressure spec)
    (tl : Tlru S) (size : V → Nat) (isOk : V → Bool) (s : State K V) (c : CallIn K V) (rs : List Nat)
    (hb : runsBody spec s c = true) (hacc : c.cacheIf c.key c.bodyVal = true)
    (hok : spec.isAsync = false → spec.isResult = true → isOk c.bodyVal = true)
    (h2 : List (WEv K V)) (c' : CallIn K V) (rs' : List Nat) (hk : c'.key = c.key) :
    (callFn spec tl size isOk rs'
        (runCalls spec tl size isOk (callFn spec tl size isOk rs s c).1 h2).1 c').2 =
      (c.bodyVal, [TraceEv.returned c.bodyVal true]) := by
  rw [accepted_then_served spec hC hnp tl size isOk s c rs hb hacc hok h2
    (fun _ _ _ => Or.inl hI) c' rs' hk (fun _ => Or.inl hI)]
  simp [hI]

/-- (4a) **The store happens iff `shouldStore`.**  The trace contains a `stored` event iff the body ran and
    `shouldStore` holds of the predicate's verdict and the result; the event then carries this call's key
    and result, and the state is the engine store applied to the post-lookup state — otherwise the state is
    the post-lookup state. -/
theorem store_iff_shouldStore (spec : FnSpec) (tl : Tlru S) (size : V → Nat)
    (isOk : V → Bool) (rs : List Nat) (s : State K V) (c : CallIn K V) :
    ((∃ k v, TraceEv.stored k v ∈ (callFn spec tl size isOk rs s c).2.2) ↔
      (runsBody spec s c = true ∧ shouldStore spec isOk (c.cacheIf c.key c.bodyVal) c.bodyVal = true)) ∧
    (∀ k v, TraceEv.stored k v ∈ (callFn spec tl size isOk rs s c).2.2 → k = c.key ∧ v = c.bodyVal) ∧
    (callFn spec tl size isOk rs s c).1 =
      if runsBody spec s c && shouldStore spec isOk (c.cacheIf c.key c.bodyVal) c.bodyVal
      then (if spec.useMem then insertMem spec.cfg tl size rs (get spec.cfg s c.key).1 c.key c.bodyVal
            else insert spec.cfg tl (rs.headD 0) (get spec.cfg s c.key).1 c.key c.bodyVal)
      else (get spec.cfg s c.key).1 := by
  refine ⟨⟨?_, ?_⟩, ?_, ?_⟩
  · rintro ⟨k, v, hm⟩
    rw [stored_mem_iff] at hm; exact ⟨hm.1, hm.2.1⟩
  · rintro ⟨h1, h2⟩
    exact ⟨c.key, c.bodyVal, (stored_mem_iff spec tl size isOk rs s c _ _).mpr ⟨h1, h2, rfl, rfl⟩⟩
  · intro k v hm
    rw [stored_mem_iff] at hm; exact ⟨hm.2.2.1, hm.2.2.2⟩
  · rw [callFn_state]; rfl

/-- (4b) sync function, not a Result: stored iff the predicate accepts -/
theorem shouldStore_sync_plain (spec : FnSpec) (hC : spec.hasCacheIf = true) (hA : spec.isAsync = false)
    (hR : spec.isResult = false) (isOk : V → Bool) (accept : Bool) (v : V) :
    shouldStore spec isOk accept v = accept := by
  simp [shouldStore, hC, hA, hR]

/-- (4c) sync Result function: stored iff the predicate accepts AND the result is `Ok`
    (`insert_result*` drops an `Err` even when the predicate accepted it) -/
theorem shouldStore_sync_result (spec : FnSpec) (hC : spec.hasCacheIf = true) (hA : spec.isAsync = false)
    (hR : spec.isResult = true) (isOk : V → Bool) (accept : Bool) (v : V) :
    shouldStore spec isOk accept v = (accept && isOk v) := by
  simp [shouldStore, hC, hA, hR]

/-- (4d) async function, not a Result: stored iff the predicate accepts -/
theorem shouldStore_async_plain (spec : FnSpec) (hC : spec.hasCacheIf = true) (hA : spec.isAsync = true)
    (hR : spec.isResult = false) (isOk : V → Bool) (accept : Bool) (v : V) :
    shouldStore spec isOk accept v = accept := by
  simp [shouldStore, hC, hA]

/-- (4e) async Result function: stored iff the predicate accepts — `Ok`/`Err` is NOT looked at (the
    predicate replaces the `is_ok()` test), so an accepted `Err` is cached -/
theorem shouldStore_async_result (spec : FnSpec) (hC : spec.hasCacheIf = true) (hA : spec.isAsync = true)
    (hR : spec.isResult = true) (isOk : V → Bool) (accept : Bool) (v : V) :
    shouldStore spec isOk accept v = accept := by
  simp [shouldStore, hC, hA]

/-! ### Non-vacuity (`K = V = Nat`; predicate "value > 10"; even = Ok) -/

def exTl : Tlru Nat := ⟨fun a b => decide (a < b), fun _ h _ r => h * r⟩
def exOk (v : Nat) : Bool := v % 2 == 0
def big (_ : Nat) (v : Nat) : Bool := decide (v > 10)
def mk (k v : Nat) : WEv Nat Nat := .call ⟨k, v, big, fun _ _ => false⟩ []

/-- thread-local, FIFO, limit 2, memory-aware store, not a Result -/
def specT : FnSpec :=
  { name := "f", isAsync := false, threadScope := true, cfg := ⟨.threadLocal, .fifo, some 2, some 1000, none⟩,
    useMem := true, isResult := false, hasCacheIf := true, hasInvalidateOn := false,
    tags := [], events := [], deps := [] }
/-- sync global Result function, LRU -/
def specR : FnSpec := { specT with threadScope := false, cfg := ⟨.global, .lru, some 2, none, some 60⟩,
                                   useMem := false, isResult := true }
/-- async Result function, ARC -/
def specAR : FnSpec := { specR with isAsync := true, cfg := ⟨.async, .arc, some 2, none, none⟩ }

/-- rejected (5 ≤ 10) twice: body and predicate run on both calls; accepted (20): stored; then served with
    neither body nor predicate -/
example : (runCalls specT exTl id exOk (State.init : State Nat Nat) [mk 1 5, mk 1 7, mk 1 20, mk 1 30]).2 =
    [(5, [.bodyRun, .predCalled 1 5 false, .returned 5 false]),
     (7, [.bodyRun, .predCalled 1 7 false, .returned 7 false]),
     (20, [.bodyRun, .predCalled 1 20 true, .stored 1 20, .returned 20 false]),
     (20, [.returned 20 true])] := by decide

/-- sync Result: an accepted Err (13) is NOT stored, an accepted Ok (14) is -/
example : (runCalls specR exTl id exOk (State.init : State Nat Nat) [mk 1 13, mk 1 14, mk 1 15]).2 =
    [(13, [.bodyRun, .predCalled 1 13 true, .returned 13 false]),
     (14, [.bodyRun, .predCalled 1 14 true, .stored 1 14, .returned 14 false]),
     (14, [.returned 14 true])] := by decide

/-- async Result: an accepted Err (13) IS stored and served -/
example : (runCalls specAR exTl id exOk (State.init : State Nat Nat) [mk 1 13, mk 1 14]).2 =
    [(13, [.bodyRun, .predCalled 1 13 true, .stored 1 13, .returned 13 false]),
     (13, [.returned 13 true])] := by decide

/-- the execution-event filter on a concrete trace -/
example : ([.bodyRun, .predCalled 1 20 true, .stored 1 20, .returned 20 false] :
    List (TraceEv Nat Nat)).filter TraceEv.isExec = [.bodyRun, .predCalled 1 20 true] := by decide

/-- hypotheses of (3b) are satisfiable -/
def specU : FnSpec := { specT with cfg := ⟨.threadLocal, .lfu, none, none, none⟩ }
example : NoPressure specU := ⟨⟨rfl, Or.inl rfl⟩, rfl⟩
example : runsBody specU (State.init : State Nat Nat) ⟨1, 20, big, fun _ _ => false⟩ = true := by decide

end Cachelito.C10
