//! C19 probe (not part of the check): behaviour of the REAL macros on attribute lists outside `Valid`.
//! Build in a copy of the harness crate: `cargo build --release --offline --bin attrs_probe`.
//!
//! 1. An invalid value that only splices `compile_error!` tokens is silently dropped when the same
//!    attribute is written again later: all three functions below compile and run (prints `2 3 4`).
//! 2. `#[cache(max_memory = "17179869184GB")]` (= 2^64 bytes): with `overflow-checks = true` for the macro
//!    crate (dev profile, or this harness' release profile) compilation fails with
//!    "custom attribute panicked: attempt to multiply with overflow"; with
//!    `[profile.release.build-override] overflow-checks = false` (cargo's default for release builds) it
//!    compiles and the cache is built with `Some(0usize)`.  Uncomment `w` to try.
use cachelito::cache;

#[cache(limit = "not a number", limit = 2)]
fn f(x: u32) -> u32 {
    x + 1
}

#[cache(ttl = nonsense(), max_memory = true, ttl = 5, max_memory = "1KB")]
fn g(x: u32) -> u32 {
    x + 2
}

// tolerated forms: leading `+`, repeated unit, non-string name (ignored), integer weight 0
#[cache(max_memory = "+1GBGB", name = 5, frequency_weight = 0, policy = "tlru")]
fn h(x: u32) -> u32 {
    x + 3
}

// #[cache(max_memory = "17179869184GB")]
// fn w(x: u32) -> u32 { x }

fn main() {
    println!("{} {} {}", f(1), g(1), h(1));
}
