"""A small source-to-model TRANSLATOR (second tie, besides the correspondence streams), run on /repo's CURRENT source by
every check of C16 and C17:

  * lock nesting  — for every parking_lot acquisition site of cachelito-core and the macro crates: which guards are
    alive there (lexically: `let` guards until their block closes or `drop(g)`, temporaries until the end of their
    statement, `if let`/`match` scrutinee temporaries until the end of that statement), plus, interprocedurally, every
    acquisition a called function of the same impl performs while the caller's guards are alive, plus the registered
    callbacks run by the registry while it holds its callback table.  Output: `Generated/LockNesting.lean`
    (`nesting : List (Lock × Mode × Lock × Mode)`), about which `Props/C17s.lean` proves by kernel evaluation that every
    statically possible nesting strictly increases the rank and is a nesting of some skeleton of THE TABLE of `Conc.lean`.
  * RefCell borrows — the same scope analysis for `.borrow()` / `.borrow_mut()` on the two thread-local cells of
    `thread_local_cache.rs`.  Output: `Generated/BorrowNesting.lean` (`borrows : List (Cell × Bool × Cell × Bool)`:
    live cell, live-is-mutable, new cell, new-is-mutable), about which `Props/C16s.lean` proves that no borrow is taken
    while a conflicting borrow of the SAME cell is alive (a `BorrowMutError` / `BorrowError` panic needs exactly that).

The scanner is lexical and deliberately conservative (over-approximates liveness only where Rust's own temporary
rules do); it is part of the trusted base as a translator.  When it meets something it cannot classify (an
acquisition on an unknown receiver) it says so and the obligation counts as broken.
"""
import os, re, sys, json

REPO = os.environ.get("VERIF_REPO", "/repo")   # VERIF_REPO: development-time mutation slots only (design/mutate.py)
ROOT = os.path.dirname(os.path.dirname(os.path.abspath(__file__)))
GEN_DIR = os.path.join(ROOT, "lean", "Cachelito", "Cachelito", "Generated")

LOCK_ACQ = {"lock": "excl", "write": "excl", "read": "shared", "try_lock": "excl", "try_write": "excl", "try_read": "shared",
            "upgradable_read": "excl", "read_recursive": "shared"}
BORROW_ACQ = {"borrow": False, "borrow_mut": True, "try_borrow": False, "try_borrow_mut": True}
BLOCK_KW = {"if", "match", "while", "for", "loop", "unsafe"}


def tokenize(text):
    """(token, line) list; strings / chars / comments dropped (a string literal becomes the token '"S"')"""
    toks = []
    i, n, line = 0, len(text), 1
    while i < n:
        c = text[i]
        if c == "\n":
            line += 1; i += 1; continue
        if c.isspace():
            i += 1; continue
        if text.startswith("//", i):
            j = text.find("\n", i)
            i = n if j < 0 else j
            continue
        if text.startswith("/*", i):
            j = text.find("*/", i + 2)
            j = n if j < 0 else j + 2
            line += text.count("\n", i, j)
            i = j
            continue
        if c == '"' or (c == "r" and re.match(r'r#*"', text[i:i + 6])):
            if c == "r":
                m = re.match(r'r(#*)"', text[i:])
                end = '"' + m.group(1)
                j = text.find(end, i + len(m.group(0)))
                j = n if j < 0 else j + len(end)
            else:
                j = i + 1
                while j < n and text[j] != '"':
                    j += 2 if text[j] == "\\" else 1
                j += 1
            line_at = line
            line += text.count("\n", i, j)
            toks.append(('"S"', line_at))
            i = j
            continue
        if c == "'":
            # char literal or lifetime
            m = re.match(r"'(\\.[^']*|[^'\\])'", text[i:])
            if m:
                toks.append(("'c'", line)); i += len(m.group(0)); continue
            m = re.match(r"'[A-Za-z_]\w*", text[i:])
            if m:
                toks.append((m.group(0), line)); i += len(m.group(0)); continue
        m = re.match(r"#?[A-Za-z_]\w*", text[i:])
        if m and (c != "#" or len(m.group(0)) > 1):
            if not m.group(0).startswith("#verif_"):      # hook interpolations of the macro crates are not code
                toks.append((m.group(0), line))
            i += len(m.group(0)); continue
        m = re.match(r"\d[\w.]*", text[i:])
        if m:
            toks.append((m.group(0), line)); i += len(m.group(0)); continue
        for op in ("::", "->", "=>", "==", "!=", "<=", ">=", "&&", "||", "..="):
            if text.startswith(op, i):
                toks.append((op, line)); i += len(op); break
        else:
            toks.append((c, line)); i += 1
    return toks


def production_text(path):
    """source without the test module and without the verif hook lines (add-only instrumentation)"""
    out = []
    lines = open(path).read().split("\n")
    skip_next = False
    i = 0
    while i < len(lines):
        l = lines[i]
        st = l.strip()
        if st.startswith("#[cfg(test)]"):
            break
        if st == '#[cfg(feature = "verif")]':
            # drop the attribute and the single statement / item line(s) it guards (up to the closing `;`)
            j = i + 1
            while j < len(lines) and not lines[j].rstrip().endswith((";", "}")):
                j += 1
            out.extend([""] * (j - i + 1))
            i = j + 1
            continue
        out.append(l)
        i += 1
    return "\n".join(out)


class Guard:
    def __init__(self, kind, name, res, mode, depth, line):
        self.kind, self.name, self.res, self.mode, self.depth, self.line = kind, name, res, mode, depth, line


DASH_GUARD = {"get_mut": "excl", "get": "shared", "iter": "shared", "iter_mut": "excl", "entry": "excl", "try_get_mut": "excl", "try_get": "shared"}
DASH_MOMENT = {"insert": "excl", "remove": "excl", "remove_if": "excl", "len": "shared", "contains_key": "shared", "clear": "excl",
               "retain": "excl", "is_empty": "shared", "alter": "excl"}


def analyse(path, rel, classify, acq_table, closure_cells=False, skip_fn=lambda n: False, dash_recv=()):
    """returns (sites, calls, problems):
       sites  = [(fn, line, res, mode, [(res, mode) live])]
       calls  = [(fn, line, callee, [(res, mode) live])]"""
    toks = tokenize(production_text(path))
    sites, calls, problems = [], [], []
    depth = 0
    fn_stack = []               # (name, depth of body)
    pending_fn = None
    guards = []
    stmt_first = {0: None}      # depth -> first token of the current statement
    new_stmt = {0: True}
    var_cell = {}               # closure parameter -> cell (thread-local `.with(|c| …)`)
    n = len(toks)
    i = 0

    def cur_fn():
        return fn_stack[-1][0] if fn_stack else None

    def live():
        return [(g.res, g.mode) for g in guards if not getattr(g, "suspended", None)]

    while i < n:
        t, line = toks[i]
        if new_stmt.get(depth, True) and t not in ("}", ";"):
            stmt_first[depth] = t
            new_stmt[depth] = False
        if t == "fn" and i + 1 < n and re.match(r"[A-Za-z_]\w*$", toks[i + 1][0]):
            pending_fn = toks[i + 1][0]
        if t == "{":
            depth += 1
            new_stmt[depth] = True
            if pending_fn is not None:
                fn_stack.append((pending_fn, depth))
                pending_fn = None
        elif t == ";":
            if pending_fn is not None and not fn_stack:
                pending_fn = None       # a declaration without body
            guards = [g for g in guards if not (g.kind == "temp" and g.depth >= depth)]
            new_stmt[depth] = True
        elif t == "}":
            guards = [g for g in guards if g.depth < depth]
            for g in guards:
                if getattr(g, "suspended", None) == depth:
                    g.suspended = None
            if fn_stack and fn_stack[-1][1] == depth:
                fn_stack.pop()
                guards = []
            depth -= 1
            nxt = toks[i + 1][0] if i + 1 < n else ""
            first = stmt_first.get(depth)
            ends = (first in BLOCK_KW or first == "{" or first is None) and nxt not in ("else", ".", "?", ")", ",", ";")
            if first == "let" or first == "return":
                ends = False
            if ends:
                guards = [g for g in guards if not (g.kind == "temp" and g.depth >= depth)]
                new_stmt[depth] = True
        elif t == "drop" and i + 3 < n and toks[i + 1][0] == "(" and toks[i + 3][0] == ")":
            nm = toks[i + 2][0]
            kept = []
            for g in guards:
                if g.name != nm:
                    kept.append(g)
                elif g.res == "D2" and depth > g.depth + (1 if g.kind == "temp" else 0):
                    # dropped inside a NESTED block (a branch that usually returns): on the path that skips the branch the
                    # guard is still alive — suspended until that block closes (conservative for branches that fall through)
                    g.suspended = depth
                    kept.append(g)
            guards = kept
        # closure parameter bound to a thread-local cell: `self.cache.with(|c| …`
        if closure_cells and t == "with" and i >= 2 and toks[i - 1][0] == "." and i + 4 < n and toks[i + 1][0] == "(" and toks[i + 2][0] == "|":
            cell = toks[i - 2][0]
            var_cell[toks[i + 3][0]] = cell
        # acquisition: `. name ( )`
        if t in acq_table and i >= 1 and toks[i - 1][0] == "." and i + 2 < n and toks[i + 1][0] == "(" and toks[i + 2][0] == ")" \
                and cur_fn() is not None and not skip_fn(cur_fn()):
            # receiver: tokens backwards over identifiers, `.`, `::`, `&`, `*`, `)`…`(` groups
            j = i - 2
            recv = []
            while j >= 0 and re.match(r"#?[A-Za-z_]\w*$", toks[j][0]) and toks[j][0] not in ("mut", "let", "return", "in", "if", "match"):
                recv.append(toks[j][0])
                if j >= 1 and toks[j - 1][0] in (".", "::"):
                    recv.append(toks[j - 1][0]); j -= 2
                else:
                    break
            recv = "".join(reversed(recv))
            res = classify(recv, var_cell, rel)
            if res is None:
                problems.append(f"{rel}:{line}: acquisition `.{t}()` on an unknown receiver `{recv}`")
            elif res != "ignore":
                mode = acq_table[t]
                sites.append((cur_fn(), line, res, mode, live()))
                # bound by `let NAME = … .acq() ;`  (the acquisition is the last thing before `;`)
                first = stmt_first.get(depth)
                bound = False
                name = None
                if first == "let" and i + 3 < n and toks[i + 3][0] == ";":
                    # find the binding name: tokens after `let` (skip `mut`)
                    k = i
                    while k >= 0 and toks[k][0] != "let":
                        k -= 1
                    name = toks[k + 1][0] if toks[k + 1][0] != "mut" else toks[k + 2][0]
                    bound = True
                guards.append(Guard("bound" if bound else "temp", name, res, mode, depth, line))
        # a suspension point: nothing may be held across it (a DashMap guard alive here blocks every other user of that shard
        # for as long as the future stays suspended)
        if dash_recv and t == "await" and i >= 1 and toks[i - 1][0] == "." and cur_fn() is not None and not skip_fn(cur_fn()):
            sites.append((cur_fn(), line, "AWAIT", "excl", live()))
        # DashMap operations on the async store (`self.cache.get_mut(k)`, `#cache_ident.iter()` …): the returned Ref / RefMut / iterator
        # holds a SHARD lock for as long as it lives (bound by `let`, by an `if let` / `while let` / `for` / `match` head: through that
        # statement; otherwise to the end of the statement); insert / remove / len … take shard locks momentarily
        if dash_recv and (t in DASH_GUARD or t in DASH_MOMENT) and i >= 2 and toks[i - 1][0] == "." and i + 1 < n and toks[i + 1][0] == "(" \
                and cur_fn() is not None and not skip_fn(cur_fn()):
            j = i - 2
            recv = []
            while j >= 0 and re.match(r"#?[A-Za-z_]\w*$", toks[j][0]) and toks[j][0] not in ("mut", "let", "return", "in", "if", "match"):
                recv.append(toks[j][0])
                if j >= 1 and toks[j - 1][0] in (".", "::"):
                    recv.append(toks[j - 1][0]); j -= 2
                else:
                    break
            recv = "".join(reversed(recv))
            if recv in dash_recv:
                mode = DASH_GUARD.get(t) or DASH_MOMENT[t]
                sites.append((cur_fn(), line, "D2", mode, live()))
                if t in DASH_GUARD:
                    first = stmt_first.get(depth)
                    # the name the guard is bound to: `let [mut] NAME = …` / `if let Some([mut] NAME) = …` / `for NAME in …`
                    k = i
                    while k >= 0 and toks[k][0] not in ("let", "for", ";", "{", "}"):
                        k -= 1
                    name = None
                    if k >= 0 and toks[k][0] in ("let", "for"):
                        kk = k + 1
                        while kk < i and toks[kk][0] in ("mut", "Some", "Ok", "(", "ref", "&"):
                            kk += 1
                        if re.match(r"[A-Za-z_]\w*$", toks[kk][0]):
                            name = toks[kk][0]
                    # bound only if the DashMap call is the whole right-hand side (`let g = map.get_mut(k);`)
                    dd, kk2 = 0, i + 1
                    while kk2 < n:
                        if toks[kk2][0] == "(":
                            dd += 1
                        elif toks[kk2][0] == ")":
                            dd -= 1
                            if dd == 0:
                                break
                        kk2 += 1
                    bound = first == "let" and kk2 + 1 < n and toks[kk2 + 1][0] == ";"
                    guards.append(Guard("bound" if bound else "temp", name, "D2", mode, depth, line))
        # call of a function of the same crate: `self.NAME(` or `NAME(` or `Self::NAME(`; callbacks: `callback(`
        if re.match(r"[A-Za-z_]\w*$", t) and i + 1 < n and toks[i + 1][0] == "(" and cur_fn() is not None and not skip_fn(cur_fn()) \
                and (i == 0 or toks[i - 1][0] != "fn") and t not in acq_table:
            calls.append((cur_fn(), line, t, live(), (toks[i - 1][0] == "." and i >= 2 and toks[i - 2][0] == "self") or toks[i - 1][0] != "."))
        i += 1
    return sites, calls, problems


# ------------------------------------------------------------------------------------------------
# locks

LOCK_FILES = ["cachelito-core/src/global_cache.rs", "cachelito-core/src/async_global_cache.rs", "cachelito-core/src/invalidation.rs",
              "cachelito-core/src/stats_registry.rs", "cachelito-core/src/utils.rs", "cachelito-core/src/stats.rs",
              "cachelito-macros/src/lib.rs", "cachelito-async-macros/src/lib.rs"]


def classify_lock(recv, var_cell, rel):
    last = recv.split(".")[-1]
    table = {"tag_to_caches": "Rt", "event_to_caches": "Re", "dependency_to_caches": "Rd", "cache_metadata": "Rm",
             "clear_callbacks": "Rc", "invalidation_check_callbacks": "Rk", "STATS_REGISTRY": "STATS"}
    if last in table:
        return table[last]
    is_async = "async" in rel
    if last in ("order", "#order_ident"):
        return "O2" if is_async else "O0"
    if last in ("map", "#cache_ident"):
        return "M2" if is_async else "M0"
    return None


def lock_nesting():
    per_fn_sites = {}       # (file, fn) -> [(line, res, mode)]
    all_sites, all_calls, problems = [], [], []
    skip = lambda n: n.startswith("verif_")
    for rel in LOCK_FILES:
        p = os.path.join(REPO, rel)
        if not os.path.exists(p):
            problems.append(f"{rel}: file is gone")
            continue
        sites, calls, pr = analyse(p, rel, classify_lock, LOCK_ACQ, skip_fn=skip,
                                   dash_recv=(("self.cache", "#cache_ident") if "async" in rel else ()))
        problems += pr
        for s in sites:
            all_sites.append((rel,) + s)
            per_fn_sites.setdefault((rel, s[0]), []).append((s[1], s[2], s[3]))
        for c in calls:
            all_calls.append((rel,) + c)
    # transitive acquisitions of each function (same file; calls on self / free functions)
    direct = {k: set((r, m) for _, r, m in v) for k, v in per_fn_sites.items()}
    callees = {}
    for rel, fn, line, callee, live, selfish in all_calls:
        if selfish:
            callees.setdefault((rel, fn), set()).add((rel, callee))
    trans = {k: set(v) for k, v in direct.items()}
    changed = True
    while changed:
        changed = False
        for k, cs in callees.items():
            for c in cs:
                add = trans.get(c, set()) - trans.get(k, set())
                if add:
                    trans.setdefault(k, set()).update(add)
                    changed = True
    # what the registered callbacks acquire: every acquisition of the macro crates' generated code
    cb_sync = set((r, m) for (rel, fn, line, r, m, live) in all_sites if rel.startswith("cachelito-macros") and r not in ("D2", "AWAIT"))
    cb_async = set((r, m) for (rel, fn, line, r, m, live) in all_sites if rel.startswith("cachelito-async-macros") and r not in ("D2", "AWAIT"))
    edges = set()
    where = {}
    shard_held = []         # DashMap shard guards alive at an acquisition (of a lock, or of the DashMap itself)
    for rel, fn, line, res, mode, live in all_sites:
        for (hr, hm) in live:
            if hr == "D2":
                shard_held.append(f"{rel}:{line} ({fn}): a DashMap guard is alive at " + ("an `.await`" if res == "AWAIT" else f"the acquisition of {res}"))
                continue
            if res in ("D2", "AWAIT"):
                continue        # a DashMap operation under a lock: the order queue -> store nesting, an atomic step of the model
            e = (hr, hm, res, mode)
            edges.add(e); where.setdefault(e, f"{rel}:{line}")
    for rel, fn, line, callee, live, selfish in all_calls:
        if not live:
            continue
        inner = set()
        if selfish and (rel, callee) in trans:
            inner = trans[(rel, callee)]
        if rel.endswith("invalidation.rs") and callee == "callback":
            inner = cb_sync | cb_async
            # nestings INSIDE the callbacks are already in `edges`; here: registry guard -> everything a callback takes
        for (hr, hm) in live:
            if hr == "D2":
                if inner:
                    shard_held.append(f"{rel}:{line} ({fn}): a DashMap guard is alive at the call of `{callee}`, which acquires {sorted(set(r for r, _ in inner))}")
                continue
            for (r, m) in inner:
                if r == "D2":
                    continue
                e = (hr, hm, r, m)
                edges.add(e); where.setdefault(e, f"{rel}:{line} (via {callee})")
    SHARD_HELD.clear(); SHARD_HELD.extend(sorted(set(shard_held)))
    return sorted(edges), where, len([x for x in all_sites if x[3] not in ("D2", "AWAIT")]), problems


SHARD_HELD = []


LEAN_LOCK = {"STATS": "STATS", "Rt": "Rt", "Re": "Re", "Rd": "Rd", "Rm": "Rm", "Rc": "Rc", "Rk": "Rk",
             "O0": "O 0", "M0": "M 0", "O2": "O 2", "M2": "M 2"}


def write_lock_file(edges, where, nsites, problems):
    os.makedirs(GEN_DIR, exist_ok=True)
    L = ["/-",
         "  GENERATED by checklib/static_scopes.py from the CURRENT source of /repo — regenerated by every check of C17;",
         "  do not edit.  One entry per statically possible nesting of lock acquisitions:",
         "  (lock held, its mode, lock acquired while it is held, its mode).  Sync engine / sync macro = cache 0,",
         "  async engine / async macro = cache 2 (the numbering of `Conc.Table.opTable`).",
         "-/",
         "import Cachelito.Conc",
         "",
         "namespace Cachelito.Generated",
         "open Cachelito.Conc Cachelito.Conc.Table",
         "",
         f"/-- number of lock acquisition sites the translator found -/",
         f"def lockSites : Nat := {nsites}",
         "",
         f"/-- constructs the translator could not classify (must be empty) -/",
         "def lockProblems : List String := [" + ", ".join(json.dumps(p) for p in problems) + "]",
         "/-- DashMap shard guards (`get` / `get_mut` / `iter` … on the async store) that are still alive where the code acquires a lock, touches",
         "    the DashMap again, or calls a function that does: must be empty (the model treats DashMap operations as atomic steps) -/",
         "def shardHeld : List String := [" + ", ".join(json.dumps(p) for p in SHARD_HELD) + "]",
         "",
         "def nesting : List (Lock × Mode × Lock × Mode) := ["]
    rows = []
    for (hr, hm, r, m) in edges:
        rows.append(f"  ({LEAN_LOCK[hr]}, .{hm}, {LEAN_LOCK[r]}, .{m})   -- {where[(hr, hm, r, m)]}")
    # comments after the comma would swallow it: put the comma before the comment
    rows = [re.sub(r"\)   -- ", "),   -- ", x) if k + 1 < len(rows) else x for k, x in enumerate(rows)]
    L += rows
    L += ["]", "", "end Cachelito.Generated", ""]
    text = "\n".join(L)
    path = os.path.join(GEN_DIR, "LockNesting.lean")
    if not os.path.exists(path) or open(path).read() != text:
        open(path, "w").write(text)
    return path


# ------------------------------------------------------------------------------------------------
# RefCell borrows of the thread-local engine

def classify_cell(recv, var_cell, rel):
    head = recv.split(".")[0]
    if head in var_cell:
        return var_cell[head]
    if recv in ("self.cache", "self.order"):
        return recv.split(".")[1]
    return None


def borrow_nesting():
    rel = "cachelito-core/src/thread_local_cache.rs"
    p = os.path.join(REPO, rel)
    if not os.path.exists(p):
        return [], {}, 0, [f"{rel}: file is gone"]
    sites, calls, problems = analyse(p, rel, classify_cell, BORROW_ACQ, closure_cells=True)
    edges, where = set(), {}
    direct = {}
    for fn, line, res, mode, live in sites:
        direct.setdefault(fn, set()).add((res, mode))
        for (hr, hm) in live:
            e = (hr, hm, res, mode)
            edges.add(e); where.setdefault(e, f"{rel}:{line}")
    trans = {k: set(v) for k, v in direct.items()}
    callees = {}
    for fn, line, callee, live, selfish in calls:
        if selfish:
            callees.setdefault(fn, set()).add(callee)
    changed = True
    while changed:
        changed = False
        for k, cs in callees.items():
            for c in cs:
                add = trans.get(c, set()) - trans.get(k, set())
                if add:
                    trans.setdefault(k, set()).update(add); changed = True
    for fn, line, callee, live, selfish in calls:
        if live and selfish and callee in trans:
            for (hr, hm) in live:
                for (r, m) in trans[callee]:
                    e = (hr, hm, r, m)
                    edges.add(e); where.setdefault(e, f"{rel}:{line} (via {callee})")
    for e in list(edges):
        for c in (e[0], e[2]):
            if c not in ("cache", "order"):
                problems.append(f"{rel}: borrow of an unknown cell `{c}`")
    return sorted(edges), where, len(sites), problems


def write_borrow_file(edges, where, nsites, problems):
    os.makedirs(GEN_DIR, exist_ok=True)
    b = lambda x: "true" if x else "false"
    L = ["/-",
         "  GENERATED by checklib/static_scopes.py from the CURRENT source of /repo (thread_local_cache.rs) — regenerated by",
         "  every check of C16; do not edit.  One entry per statically possible nesting of RefCell borrows:",
         "  (cell borrowed, mutably?, cell borrowed while that borrow is alive, mutably?).",
         "-/",
         "",
         "namespace Cachelito.Generated",
         "",
         "inductive Cell | cache | order",
         "  deriving DecidableEq, Repr",
         "",
         f"def borrowSites : Nat := {nsites}",
         "def borrowProblems : List String := [" + ", ".join(json.dumps(p) for p in problems) + "]",
         "",
         "def borrows : List (Cell × Bool × Cell × Bool) := ["]
    rows = [f"  (.{hr}, {b(hm)}, .{r}, {b(m)})" for (hr, hm, r, m) in edges if hr in ("cache", "order") and r in ("cache", "order")]
    cm = [f"   -- {where[e]}" for e in edges if e[0] in ("cache", "order") and e[2] in ("cache", "order")]
    L += [rows[k] + ("," if k + 1 < len(rows) else "") + cm[k] for k in range(len(rows))]
    L += ["]", "", "end Cachelito.Generated", ""]
    text = "\n".join(L)
    path = os.path.join(GEN_DIR, "BorrowNesting.lean")
    if not os.path.exists(path) or open(path).read() != text:
        open(path, "w").write(text)
    return path


def regenerate():
    e, w, n, pr = lock_nesting()
    write_lock_file(e, w, n, pr)
    e2, w2, n2, pr2 = borrow_nesting()
    write_borrow_file(e2, w2, n2, pr2)
    return {"lock_sites": n, "lock_nestings": len(e), "lock_problems": pr, "borrow_sites": n2, "borrow_nestings": len(e2), "borrow_problems": pr2}


if __name__ == "__main__":
    r = regenerate()
    print(json.dumps(r, indent=1))
    if "-v" in sys.argv:
        e, w, n, pr = lock_nesting()
        for x in e:
            print("LOCK", x, w[x])
        e, w, n, pr = borrow_nesting()
        for x in e:
            print("BORROW", x, w[x])
