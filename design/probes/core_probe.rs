use cachelito_core::{AsyncGlobalCache, CacheEntry, EvictionPolicy, GlobalCache, ThreadLocalCache, CacheStats};
use dashmap::DashMap;
use once_cell::sync::Lazy;
use parking_lot::{Mutex, RwLock};
use std::cell::RefCell;
use std::collections::{HashMap, VecDeque};

fn async_probe() {
    // D1: async insert keeps old value
    let cache: DashMap<String, (i32, u64, u64)> = DashMap::new();
    let order = Mutex::new(VecDeque::new());
    let stats = CacheStats::new();
    let c = AsyncGlobalCache::new(&cache, &order, Some(2), None, EvictionPolicy::ARC, None, None, &stats);
    c.insert("a", 1);
    c.insert("a", 2);
    println!("D1 async re-insert: get(a) = {:?} (expect Some(2) if last store wins)", c.get("a"));
    // D2: ARC recency reversed: a and b with equal hits; a used least recently
    cache.clear(); order.lock().clear();
    c.insert("a", 1);
    c.insert("b", 2);
    c.get("a"); c.get("b"); // hits a=1,b=1; order a,b (b most recent)
    c.insert("c", 3);
    let mut keys: Vec<String> = cache.iter().map(|e| e.key().clone()).collect(); keys.sort();
    println!("D2 async ARC equal hits, LRU is a: remaining = {:?} (expect [b, c])", keys);
    // D3: LRU with max_memory only: no recency update on hit
    let cache2: DashMap<String, (String, u64, u64)> = DashMap::new();
    let order2 = Mutex::new(VecDeque::new());
    let sz = |n: usize| { let mut s = String::with_capacity(n); s.push('x'); s };
    let one = std::mem::size_of::<String>() + 100;
    let c2 = AsyncGlobalCache::new(&cache2, &order2, None, Some(2 * one), EvictionPolicy::LRU, None, None, &stats);
    c2.insert_with_memory("a", sz(100));
    c2.insert_with_memory("b", sz(100));
    c2.get("a"); // a is now most recently used
    c2.insert_with_memory("c", sz(100));
    let mut keys: Vec<String> = cache2.iter().map(|e| e.key().clone()).collect(); keys.sort();
    println!("D3 async LRU mem-only, a touched: remaining = {:?} (expect [a, c])", keys);
}

thread_local! {
    static TL_MAP: RefCell<HashMap<String, CacheEntry<i32>>> = RefCell::new(HashMap::new());
    static TL_ORDER: RefCell<VecDeque<String>> = RefCell::new(VecDeque::new());
}

fn tl_probe() {
    for p in [EvictionPolicy::FIFO, EvictionPolicy::LRU, EvictionPolicy::LFU, EvictionPolicy::ARC, EvictionPolicy::Random, EvictionPolicy::TLRU] {
        TL_MAP.with(|c| c.borrow_mut().clear());
        TL_ORDER.with(|c| c.borrow_mut().clear());
        let r = std::panic::catch_unwind(|| {
            let c = ThreadLocalCache::new(&TL_MAP, &TL_ORDER, Some(1), None, p, None, None);
            c.insert("a", 1);
            c.insert("b", 2);
        });
        println!("D5 thread-local overflow {:?}: {}", p, if r.is_ok() {"ok"} else {"PANIC"});
    }
}

static G_MAP: Lazy<RwLock<HashMap<String, CacheEntry<i32>>>> = Lazy::new(|| RwLock::new(HashMap::new()));
static G_ORDER: Lazy<Mutex<VecDeque<String>>> = Lazy::new(|| Mutex::new(VecDeque::new()));
static G_STATS: Lazy<CacheStats> = Lazy::new(|| CacheStats::new());

fn global_probe() {
    let c = GlobalCache::new(&G_MAP, &G_ORDER, Some(2), None, EvictionPolicy::ARC, None, None, &G_STATS);
    c.insert("a", 1); c.insert("b", 2);
    c.get("a"); c.get("b");
    c.insert("c", 3);
    let mut keys: Vec<String> = G_MAP.read().keys().cloned().collect(); keys.sort();
    println!("sync ARC a,b hit once then insert c: remaining = {:?}", keys);
}

fn main() {
    std::panic::set_hook(Box::new(|_| {}));
    async_probe();
    tl_probe();
    global_probe();
}
