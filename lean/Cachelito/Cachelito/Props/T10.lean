/-
  T10 — TRANSLATOR TIE, async_global_cache.rs: the LOOKUP PATH of the async engine (`get`) — C01, C06, C07, C08, C15

  `Generated/PureAsync.lean` is regenerated from /repo's CURRENT source on every check (statements of the `stats`
  feature included); the theorem is re-proved against whatever was generated.  `if let Some(mut entry_ref) =
  self.cache.get_mut(key)` binds a reference INTO the DashMap: every assignment through it is written through to the
  map, `drop(entry_ref)` is a no-op.  Sequential reading of the function.

  `get_eq`: for every cache content, configuration, key and clock the translated `AsyncGlobalCache::get` returns what the
  model's `Cachelito.get` (async flavour) returns and leaves exactly its store, queue and counters: absent → miss;
  expired (whole unix seconds: now − stored ≥ ttl) → removed from map and queue, miss; otherwise the value, a hit, the
  frequency bump (LFU / ARC / TLRU) and — only when a bound is configured — the move to the back (LRU / ARC / TLRU).
-/
import Cachelito.Props.T07
import Cachelito.Props.T04

set_option linter.unusedSimpArgs false
set_option linter.unusedVariables false

namespace Cachelito.T10
open Cachelito Cachelito.RustLite Cachelito.Generated Cachelito.SourceLemmas Cachelito.T06
open Cachelito.Generated.Async

variable {K V F : Type} [DecidableEq K]

/-- writing an entry with one more hit through the reference is `bumpHits` -/
theorem mapSet_bump (k : K) : ∀ (m : Store K V) (e : Entry V), lookup k m = some e → e.hits < u64Max →
    mapSet m k { e with hits := saturatingAddU64 e.hits 1 } = bumpHits k m
  | [], e, h, _ => by simp [lookup] at h
  | (k', e') :: m, e, h, hb => by
      simp only [lookup] at h
      by_cases hk : k' = k
      · simp [hk] at h; subst h
        simp [mapSet, bumpHits, modify, hk, saturatingAddU64, Nat.succ_le_of_lt hb]
      · simp [hk] at h
        have ih := mapSet_bump k m e h hb
        simp only [mapSet, bumpHits] at ih
        simp [mapSet, bumpHits, modify, hk, ih]

theorem hasKey_bumpHits (k k' : K) (m : Store K V) : hasKey k' (bumpHits k m) = hasKey k' m := by
  unfold bumpHits hasKey
  induction m with
  | nil => rfl
  | cons p m ih =>
    obtain ⟨k2, e2⟩ := p
    by_cases hk : k2 = k <;> by_cases hk' : k2 = k' <;> simp_all [modify, lookup]

/-- **The async engine's `get` is the model's `get`**: same returned value, same store, queue and counters -/
theorem get_eq (c : AsyncCache K V F) (now : Nat) (k : K) (hmax : ∀ p, p ∈ c.cache → p.2.hits < u64Max) :
    Async.get ⟨fun _ => 0, now⟩ c k =
      ((Cachelito.get (cfgOf c) ⟨c.cache, c.order, now, c.stats.hits, c.stats.misses⟩ k).2,
       { c with
         cache := (Cachelito.get (cfgOf c) ⟨c.cache, c.order, now, c.stats.hits, c.stats.misses⟩ k).1.store,
         order := (Cachelito.get (cfgOf c) ⟨c.cache, c.order, now, c.stats.hits, c.stats.misses⟩ k).1.queue,
         stats := ⟨(Cachelito.get (cfgOf c) ⟨c.cache, c.order, now, c.stats.hits, c.stats.misses⟩ k).1.hitStat,
                   (Cachelito.get (cfgOf c) ⟨c.cache, c.order, now, c.stats.hits, c.stats.misses⟩ k).1.missStat⟩ }) := by
  obtain ⟨cache, order, limit, mm, policy, ttl, fw, ⟨sh, sm⟩⟩ := c
  unfold Async.get Cachelito.get
  simp only [cfgOf]
  cases hl : lookup k cache with
  | none => simp [hl, Stats.record_miss, fetchAdd]
  | some e =>
    have hb : e.hits < u64Max := hmax (k, e) (T07.lookup_mem' k e _ hl)
    have hbump := mapSet_bump k cache e hl hb
    have hk : hasKey k cache = true := by simp [hasKey, hl]
    cases ttl with
    | none =>
      cases policy <;> cases limit <;> cases mm <;>
        simp [hl, expired, Stats.record_hit, fetchAdd, hitUpdate, Policy.bumps, Policy.refreshes, hbump, hk,
          hasKey_bumpHits, retainPush, retain, pushBack]
    | some t =>
      by_cases hx : now / 1000 - e.birth / 1000 ≥ t
      · simp [hl, expired, elapsedMs, asSecs, tsSecs, ssub, hx, removeBoth, mapRemove, retain,
          Stats.record_miss, fetchAdd]
      · cases policy <;> cases limit <;> cases mm <;>
          simp [hl, expired, elapsedMs, asSecs, tsSecs, ssub, hx, Stats.record_hit, fetchAdd, hitUpdate, Policy.bumps,
            Policy.refreshes, hbump, hk, hasKey_bumpHits, retainPush, retain, pushBack]

end Cachelito.T10
