#!/usr/bin/env python3
"""Development-time mutation campaign (NOT part of the registered checks).

Generates small syntactic mutants of /repo's production source (operator flips, off-by-one, dropped statements, swapped
queue ends, dropped match alternatives ...), keeps those that still compile and pass the unedited 350-test suite, and runs the
quick checks against each survivor in a private COPY of /verif + worktree of /repo (slots under /tmp/mut), so /repo and
/verif themselves are never touched and several mutants are evaluated in parallel.  Every N-th job is a CONTROL (no change):
a detection there is a false alarm of the machinery under load.

usage: mutate.py gen [--seed S]                      enumerate candidate mutants -> /tmp/mut/mutants.jsonl
       mutate.py run --slots 4 [--limit N] [--only FILE-SUBSTR]   evaluate them -> /tmp/mut/results.jsonl
       mutate.py report                               summary of results.jsonl (survivors first)
"""
import sys, os, re, json, random, subprocess, time, shutil, threading, queue

BASE = "/tmp/mut"
FILES = [
    "cachelito-core/src/global_cache.rs", "cachelito-core/src/thread_local_cache.rs", "cachelito-core/src/async_global_cache.rs",
    "cachelito-core/src/utils.rs", "cachelito-core/src/cache_entry.rs", "cachelito-core/src/invalidation.rs",
    "cachelito-core/src/stats_registry.rs", "cachelito-core/src/stats.rs", "cachelito-core/src/keys.rs",
    "cachelito-core/src/memory_estimator.rs", "cachelito-core/src/eviction_policy.rs",
    "cachelito-macros/src/lib.rs", "cachelito-async-macros/src/lib.rs", "cachelito-macro-utils/src/lib.rs",
]
ENV = dict(os.environ, CARGO_NET_OFFLINE="true")
PROPS = ["C%02d" % i for i in range(1, 21)]

OPS = [
    (r">=", ">"), (r"(?<= )>(?= )", ">="), (r"<=", "<"), (r"(?<= )<(?= )", "<="),
    (r"==", "!="), (r"!=", "=="), (r"&&", "||"), (r"\|\|", "&&"),
    (r"\+ 1\b", "+ 0"), (r"\+ 1\b", "+ 2"), (r"- 1\b", "- 0"), (r"\bidx \+ 1\b", "idx"),
    (r"\btrue\b", "false"), (r"\bfalse\b", "true"),
    (r"push_back", "push_front"), (r"pop_front", "pop_back"), (r"pop_back", "pop_front"),
    (r"\.min\(", ".max("), (r"\.max\(", ".min("),
    (r"is_some\(\)", "is_none()"), (r"is_none\(\)", "is_some()"), (r"is_ok\(\)", "is_err()"),
    (r"if !", "if "), (r"if (?!let|!)", "if !"),
    (r"saturating_sub", "wrapping_sub"),
    (r"\.rev\(\)", ""), (r"\bfirst\b", "last"), (r"\.front\(\)", ".back()"),
    (r"contains_key", "!contains_key__"),   # placeholder, fixed up below
    (r"\* ", "+ "), (r" / ", " * "),
    (r"as_secs\(\)", "as_millis() as u64"),
    (r"EvictionPolicy::LRU", "EvictionPolicy::FIFO"), (r"EvictionPolicy::LFU", "EvictionPolicy::ARC"),
    (r"EvictionPolicy::ARC", "EvictionPolicy::TLRU"), (r"EvictionPolicy::TLRU", "EvictionPolicy::ARC"),
    (r"EvictionPolicy::Random", "EvictionPolicy::FIFO"), (r"EvictionPolicy::FIFO", "EvictionPolicy::LRU"),
    (r"1024", "1000"),
]

def production_lines(path):
    src = open(path).read().split("\n")
    end = len(src)
    for i, l in enumerate(src):
        if re.match(r"\s*#\[cfg\(test\)\]", l):
            end = i
            break
    ok = [False] * len(src)
    in_verif_fn, depth = False, 0
    for i in range(end):
        l = src[i]
        s = l.strip()
        if re.match(r"(pub(\(crate\))? )?fn verif_", s):
            in_verif_fn, depth = True, 0
        if in_verif_fn:
            depth += l.count("{") - l.count("}")
            if depth <= 0 and "{" in "".join(src[max(0, i - 40):i + 1]) and l.count("}"):
                if depth <= 0:
                    in_verif_fn = False
            continue
        if not s or s.startswith("//") or s.startswith("#[") or s.startswith("#!["):
            continue
        if "verif" in l or (i > 0 and 'cfg(feature = "verif")' in src[i - 1]):
            continue
        if s.startswith("use ") or s.startswith("pub use "):
            continue
        ok[i] = True
    return src, ok

def strip_strings(l):
    return re.sub(r'"(\\.|[^"\\])*"', lambda m: '"' + "_" * (len(m.group(0)) - 2) + '"', l)

def gen(seed):
    out = []
    for f in FILES:
        src, ok = production_lines(os.path.join("/repo", f))
        for i, l in enumerate(src):
            if not ok[i]:
                continue
            code = strip_strings(l).split("//")[0]
            for pat, rep in OPS:
                for m in re.finditer(pat, code):
                    new = l[:m.start()] + rep + l[m.end():]
                    if "contains_key__" in new:
                        new = l[:m.start()] + "contains_key" + l[m.end():]
                        new = re.sub(r"(\b[\w\.]+)\.contains_key", r"!\1.contains_key", new, count=1) if "!" not in l[:m.start()][-12:] else l
                    if new != l:
                        out.append({"file": f, "line": i + 1, "op": f"{pat}->{rep}", "old": l, "new": new})
            s = l.strip()
            # statement deletion: a call statement on one line
            if re.match(r"^[\w\.\(\)&\*]+\.(push_back|push_front|retain|remove|insert|clear|record_hit|record_miss|pop_front|pop_back|truncate|fetch_add|store|extend|entry)\b.*;\s*$", s) \
               and not s.startswith("let ") and not s.startswith("return"):
                out.append({"file": f, "line": i + 1, "op": "delete-stmt", "old": l, "new": l[:len(l) - len(l.lstrip())] + "// deleted"})
            # drop one alternative of an or-pattern
            m = re.match(r"^(\s*)(EvictionPolicy::\w+) \| (EvictionPolicy::\w+)( \| EvictionPolicy::\w+)? =>", l)
            if m:
                out.append({"file": f, "line": i + 1, "op": "drop-alt-1", "old": l, "new": l.replace(m.group(2) + " | ", "", 1)})
                out.append({"file": f, "line": i + 1, "op": "drop-alt-2", "old": l, "new": l.replace(" | " + m.group(3), "", 1)})
    rnd = random.Random(seed)
    rnd.shuffle(out)
    # round-robin over files so that every file is sampled early
    by = {}
    for m in out:
        by.setdefault(m["file"], []).append(m)
    res = []
    while any(by.values()):
        for f in FILES:
            if by.get(f):
                res.append(by[f].pop())
    for n, m in enumerate(res):
        m["id"] = f"M{n:04d}"
    os.makedirs(BASE, exist_ok=True)
    with open(f"{BASE}/mutants.jsonl", "w") as fh:
        for m in res:
            fh.write(json.dumps(m) + "\n")
    print(len(res), "candidate mutants;", {f.split('/')[-2] + '/' + f.split('/')[-1]: sum(1 for m in res if m['file'] == f) for f in FILES})

def sh(cmd, cwd=None, timeout=1800, env=None):
    try:
        p = subprocess.run(cmd, cwd=cwd, shell=True, env=env or ENV, stdout=subprocess.PIPE, stderr=subprocess.STDOUT, text=True, timeout=timeout)
        return p.returncode, p.stdout
    except subprocess.TimeoutExpired as e:
        return 124, (e.stdout or b"").decode("utf8", "replace") if isinstance(e.stdout, bytes) else (e.stdout or "") + "\nTIMEOUT"

def setup_slot(n):
    d = f"{BASE}/s{n}"
    repo, verif = f"{d}/repo", f"{d}/verif"
    if not os.path.isdir(repo):
        os.makedirs(d, exist_ok=True)
        rc, o = sh(f"git -C /repo worktree add -f -q {repo} HEAD"); assert rc == 0, o
    sh(f"git -C {repo} checkout -q -- . ")
    sh(f"rsync -a --delete --exclude .git --exclude replays --exclude work --exclude seeded --exclude design /verif/ {verif}/")
    for f in ("harness/Cargo.toml", "harness/cf/Cargo.toml"):
        p = os.path.join(verif, f)
        t = open(p).read().replace('"/repo', f'"{repo}')
        open(p, "w").write(t)
    return repo, verif

def anchors():
    a = {}
    for l in open("/verif/properties.jsonl"):
        p = json.loads(l)
        for f in p["anchors"]["files"]:
            a.setdefault(f, []).append(p["id"])
    return a

def evaluate(m, repo, verif, anch, lock, all_checks=False):
    res = dict(m)
    path = os.path.join(repo, m["file"]) if m.get("file") else None
    if path:
        src = open(path).read().split("\n")
        assert src[m["line"] - 1] == m["old"], "source moved"
        src[m["line"] - 1] = m["new"]
        open(path, "w").write("\n".join(src))
    try:
        t = time.time()
        if path:
            rc, o = sh("cargo nextest run --workspace --no-fail-fast --offline --test-threads 6 2>&1 | tail -40", cwd=repo, timeout=1500)
            mm = re.search(r"(\d+) tests run: (\d+) passed", o)
            if not mm:
                res["status"] = "nocompile" if ("error" in o and "could not compile" in o) else "tests-broken"
                res["detail"] = o[-300:]
                return res
            if mm.group(1) != mm.group(2) or int(mm.group(1)) < 350:
                res["status"] = "killed-by-tests"; res["detail"] = mm.group(0)
                return res
        res["tests_s"] = round(time.time() - t)
        first = anch.get(m.get("file"), [])
        order = first + [p for p in PROPS if p not in first]
        env = dict(ENV, VERIF_REPO=repo)
        det = {}
        for p in order:
            t = time.time()
            rc, o = sh(f"./check {p} --tier quick", cwd=verif, timeout=1500, env=env)
            vio = [l for l in o.splitlines() if l.startswith("VIOLATION")]
            if rc != 0 or vio:
                det[p] = {"rc": rc, "vio": vio[:2], "s": round(time.time() - t),
                          "concrete": bool(vio) and "no-failing-input-found" not in vio[0],
                          "summary": [l for l in o.splitlines() if l.startswith(p + " quick")][:1]}
                if vio:
                    rp = vio[0].split("replay=")[1].split(" ")[0]
                    try:
                        det[p]["replay_head"] = [l[:240] for l in open(os.path.join(verif, rp)).read().splitlines()[:4]]
                    except Exception:
                        pass
                if not all_checks:
                    break
        res["detected_by"] = det
        res["status"] = "detected" if det else "SURVIVED"
        return res
    finally:
        if path:
            sh(f"git -C {repo} checkout -q -- .")

def run(slots, limit, only, control_every=12, start=0):
    anch = anchors()
    ms = [json.loads(l) for l in open(f"{BASE}/mutants.jsonl")]
    done = set()
    if os.path.exists(f"{BASE}/results.jsonl"):
        done = {json.loads(l)["id"] for l in open(f"{BASE}/results.jsonl")}
    ms = [m for m in ms[start:] if m["id"] not in done and (not only or only in m["file"])][:limit]
    q = queue.Queue()
    for i, m in enumerate(ms):
        if control_every and i % control_every == 0:
            q.put({"id": f"CTRL-{int(time.time())}-{i}", "file": None, "op": "control"})
        q.put(m)
    lock = threading.Lock()
    def worker(n):
        repo, verif = setup_slot(n)
        while True:
            try:
                m = q.get_nowait()
            except queue.Empty:
                return
            try:
                r = evaluate(m, repo, verif, anch, lock)
            except Exception as e:
                r = dict(m, status="error", detail=str(e)[:300])
                sh(f"git -C {repo} checkout -q -- .")
            with lock:
                with open(f"{BASE}/results.jsonl", "a") as fh:
                    fh.write(json.dumps(r) + "\n")
                print(r["id"], r.get("file"), r.get("line"), r.get("op"), "=>", r["status"], list(r.get("detected_by", {}).keys()), flush=True)
    ts = [threading.Thread(target=worker, args=(n,)) for n in range(slots)]
    for t in ts: t.start()
    for t in ts: t.join()

def report():
    rs = [json.loads(l) for l in open(f"{BASE}/results.jsonl")]
    from collections import Counter
    print(Counter(r["status"] for r in rs))
    for r in rs:
        if r["status"] == "SURVIVED" and r.get("file"):
            print("SURVIVED", r["id"], r["file"], r["line"], r["op"]); print("   -", r["old"].strip()); print("   +", r["new"].strip())
    for r in rs:
        if r.get("op") == "control" and r["status"] != "SURVIVED":
            print("FALSE ALARM on control:", r["id"], r.get("detected_by"))
    nc = [r for r in rs if r["status"] == "detected" and not any(d["concrete"] for d in r["detected_by"].values())]
    print(len(nc), "detected only without a concrete input")
    for r in nc:
        print("  ", r["id"], r["file"], r["line"], r["op"], list(r["detected_by"]))

if __name__ == "__main__":
    a = sys.argv[1:]
    def opt(name, default=None):
        return a[a.index(name) + 1] if name in a else default
    if a[0] == "gen":
        gen(int(opt("--seed", "1")))
    elif a[0] == "run":
        run(int(opt("--slots", "4")), int(opt("--limit", "100000")), opt("--only"), start=int(opt("--start", "0")))
    elif a[0] == "report":
        report()
