"""Static tie of the lock-level model (C17 / C18 / C20) to the CURRENT source of /repo.

The scheduler stream only sees lock acquisitions that are announced by a hook-H1 yield point.  This scan reads the
current source and checks that the inventory is complete and unchanged in shape:

  * every parking_lot acquisition expression (`.lock()`, `.read()`, `.write()`, try_/timed/upgradable variants) in the
    non-test, non-hook code of cachelito-core and of the two macro crates is preceded (within a few lines, same
    statement group) by its yield point; an acquisition without one is invisible to the scheduler and to the skeleton
    check, so the correspondence of the lock model is no longer established ("TIE" verdict);
  * every lock OBJECT declared (`Mutex<`/`RwLock<`/`Condvar`/`Semaphore`/`tokio::sync` primitives) outside test and
    hook code belongs to the known set of declaration sites (a new lock object means the rank table of
    `Conc.lean` (registry < queue mutex < store lock) no longer covers the code);
  * no `.await` occurs between an acquisition and the end of its enclosing block in the async engine and the
    async macro (a guard held across an await is what C20 excludes; the run-time `blocked` watchdog checks the same
    dynamically).

It is a correspondence check (a small source-to-inventory translator), never a decider on its own: a finding here
makes the check search for a concrete failing schedule and, when none is found, report `no-failing-input-found`.
"""
import os, re, json

REPO = os.environ.get("VERIF_REPO", "/repo")   # VERIF_REPO: development-time mutation slots only (design/mutate.py)
CORE = ["cachelito-core/src/global_cache.rs", "cachelito-core/src/async_global_cache.rs", "cachelito-core/src/invalidation.rs",
        "cachelito-core/src/stats_registry.rs", "cachelito-core/src/thread_local_cache.rs", "cachelito-core/src/utils.rs",
        "cachelito-core/src/stats.rs", "cachelito-core/src/lib.rs", "cachelito-core/src/cache_entry.rs",
        "cachelito-core/src/eviction_policy.rs", "cachelito-core/src/keys.rs", "cachelito-core/src/memory_estimator.rs"]
MACROS = ["cachelito-macros/src", "cachelito-async-macros/src", "cachelito-macro-utils/src", "cachelito-async/src", "src"]

ACQ = re.compile(r"\.(try_)?(lock|read|write|upgradable_read|read_recursive)(_for|_until|_arc|_owned)?\(\s*\)")
DECL = re.compile(r"\b(Mutex|RwLock|ReentrantMutex|FairMutex|Condvar|Semaphore|Barrier|Notify)\s*(<|::new)")


def _files():
    out = [f for f in CORE if os.path.exists(os.path.join(REPO, f))]
    # any further file of cachelito-core/src that is not the hook module
    cdir = os.path.join(REPO, "cachelito-core/src")
    for fn in sorted(os.listdir(cdir)):
        rel = "cachelito-core/src/" + fn
        if fn.endswith(".rs") and fn != "verif.rs" and rel not in out:
            out.append(rel)
    for d in MACROS:
        full = os.path.join(REPO, d)
        if not os.path.isdir(full):
            continue
        for root, _, fns in os.walk(full):
            for fn in sorted(fns):
                if fn.endswith(".rs"):
                    out.append(os.path.relpath(os.path.join(root, fn), REPO))
    return out


def _strip(lines):
    """indices of lines that belong to production code: not after `#[cfg(test)]`, not inside a `fn verif_*` hook
    generator, not comments / doc comments"""
    keep = []
    in_hook_fn = False
    depth = 0
    for i, l in enumerate(lines):
        st = l.strip()
        if st.startswith("#[cfg(test)]"):
            break
        if not in_hook_fn and re.match(r"\s*(pub(\(crate\))?\s+)?fn verif_\w+", l):
            in_hook_fn = True
            depth = 0
            seen_open = False
        if in_hook_fn:
            depth += l.count("{") - l.count("}")
            if "{" in l:
                seen_open = True
            if seen_open and depth <= 0:
                in_hook_fn = False
            continue
        if st.startswith("//"):
            continue
        keep.append(i)
    return keep


def scan():
    acquisitions = []
    unhooked = []
    decls = []
    awaits_under_guard = []
    for rel in _files():
        lines = open(os.path.join(REPO, rel)).read().split("\n")
        keep = set(_strip(lines))
        for i in sorted(keep):
            l = lines[i]
            code = l.split("//")[0]
            if DECL.search(code) and "use " not in code:
                decls.append((rel, i + 1, code.strip()[:100]))
            m = ACQ.search(code)
            if not m:
                continue
            # `std::io::Read::read()`-style calls do not occur in these crates; every match is a lock acquisition
            s = i
            while s > 0 and lines[s].strip().startswith("."):
                s -= 1
            window = "\n".join(lines[max(0, s - 8):s + 1])
            hooked = ("yield_point(" in window) or re.search(r"#verif_y_\w+", window) is not None
            acquisitions.append((rel, i + 1, code.strip()[:100], hooked))
            if not hooked:
                unhooked.append((rel, i + 1, code.strip()[:100]))
            # guard bound by `let` and an await before the block closes (async engine / async macro only)
            if "async" in rel and re.match(r"\s*let\s", lines[s]):
                depth = 0
                for j in range(i + 1, min(len(lines), i + 200)):
                    depth += lines[j].count("{") - lines[j].count("}")
                    if depth < 0:
                        break
                    if ".await" in lines[j].split("//")[0]:
                        awaits_under_guard.append((rel, i + 1, j + 1))
                        break
    return {"acquisitions": acquisitions, "unhooked": unhooked, "decls": decls, "awaits_under_guard": awaits_under_guard}


BASE = os.path.join(os.path.dirname(os.path.dirname(os.path.abspath(__file__))), "harness", "lock_inventory.json")


def decl_key(d):
    # a declaration is identified by file + normalised text (line numbers move with harmless edits)
    return d[0] + " :: " + re.sub(r"\s+", " ", d[2])


def scan_counters():
    """C15's atomicity assumption, checked on the current source: every update of the hit / miss counters of
    `CacheStats` (stats.rs) is one atomic read-modify-write (`fetch_add`), except the `store(0, …)` of `reset` (and the
    initialisation); and nobody outside stats.rs touches the counter fields.  A `load` + `store` pair is a lost-update
    waiting for two threads (the Lean model of the counters assumes `fetch_add`)."""
    problems = []
    path = os.path.join(REPO, "cachelito-core/src/stats.rs")
    if not os.path.exists(path):
        return ["cachelito-core/src/stats.rs is gone"], 0
    lines = open(path).read().split("\n")
    keep = _strip(lines)
    cur_fn = None
    updates = 0
    for i in keep:
        code = lines[i].split("//")[0]
        m = re.search(r"\bfn\s+(\w+)", code)
        if m:
            cur_fn = m.group(1)
        if re.search(r"\.(hits|misses)\s*\.\s*fetch_add\(\s*1\s*,", code):
            updates += 1
            continue
        mm = re.search(r"\.(hits|misses)\s*\.\s*(store|swap|fetch_sub|fetch_update|compare_exchange\w*|fetch_\w+)\(([^,)]*)", code)
        if mm:
            if mm.group(2) == "store" and mm.group(3).strip() == "0" and cur_fn in ("reset", "new", "default"):
                continue
            problems.append(f"cachelito-core/src/stats.rs:{i + 1}: counter `{mm.group(1)}` updated by `{mm.group(2)}({mm.group(3).strip()}…)` in fn {cur_fn} - not a single atomic increment")
    # other files must not reach into the counters
    for rel in _files():
        if rel.endswith("stats.rs"):
            continue
        ls = open(os.path.join(REPO, rel)).read().split("\n")
        for i in _strip(ls):
            code = ls[i].split("//")[0]
            if re.search(r"\.(hits|misses)\s*\.\s*(store|fetch_\w+|swap|compare_exchange\w*)\(", code):
                problems.append(f"{rel}:{i + 1}: counter updated outside stats.rs: `{code.strip()[:80]}`")
    return problems, updates


def run_static_stream(prop, stream, tier, seed, workdir, scale=1):
    if stream.get("what_kind") == "counters":
        problems, updates = scan_counters()
        verdicts = [{"kind": "DIFF", "id": None, "episode": 0, "step": 0,
                     "text": "TIE " + pr + " (the model of the statistics assumes one atomic fetch_add per counted lookup)"} for pr in problems]
        acc = {"steps": updates, "events": {"atomic-counter-increment-site": updates}, "configs": set(), "by_flavour_policy": {},
               "nontrivial": set(range(updates)), "samples": []}
        return {"episodes": updates, "corpus_episodes": 0, "acc": acc, "verdicts": verdicts, "model_runs": 0}
    r = scan()
    verdicts = []
    for rel, ln, code in r["unhooked"]:
        verdicts.append({"kind": "DIFF", "id": None, "episode": 0, "step": 0,
                         "text": f"TIE lock acquisition without a verif yield point at {rel}:{ln}: `{code}` - the scheduler and the "
                                 f"skeleton check cannot see it, the lock model is no longer tied to this code"})
    for rel, ln, aw in r["awaits_under_guard"]:
        verdicts.append({"kind": "DIFF", "id": None, "episode": 0, "step": 0,
                         "text": f"TIE a lock guard bound at {rel}:{ln} is still in scope at the `.await` on line {aw}"})
    base = json.load(open(BASE)) if os.path.exists(BASE) else None
    if base is not None:
        known = set(base["decls"])
        for d in r["decls"]:
            if decl_key(d) not in known:
                verdicts.append({"kind": "DIFF", "id": None, "episode": 0, "step": 0,
                                 "text": f"TIE new lock object declared at {d[0]}:{d[1]}: `{d[2]}` - not in the rank table of the lock model"})
    acc = {"steps": len(r["acquisitions"]) + len(r["decls"]), "events": {"lock-acquisition-site": len(r["acquisitions"]),
                                                                       "hooked-site": sum(1 for a in r["acquisitions"] if a[3]),
                                                                       "lock-object-declaration": len(r["decls"])},
           "configs": set(), "by_flavour_policy": {}, "nontrivial": set(a[0] + ":" + a[2] for a in r["acquisitions"]),
           "samples": [f"{a[0]}:{a[1]} {a[2]}" for a in r["acquisitions"][:3]]}
    return {"episodes": len(r["acquisitions"]), "corpus_episodes": 0, "acc": acc, "verdicts": verdicts, "model_runs": 0}


if __name__ == "__main__":
    import sys
    print("counters:", scan_counters())
    r = scan()
    if len(sys.argv) > 1 and sys.argv[1] == "--write-base":
        json.dump({"decls": sorted(set(decl_key(d) for d in r["decls"]))}, open(BASE, "w"), indent=1)
        print("written", BASE)
    print(len(r["acquisitions"]), "acquisitions,", len(r["unhooked"]), "unhooked,", len(r["decls"]), "lock declarations,",
          len(r["awaits_under_guard"]), "awaits under a guard")
    for u in r["unhooked"]:
        print("UNHOOKED", u)
    for d in r["decls"]:
        print("DECL", d)
    for a in r["awaits_under_guard"]:
        print("AWAIT", a)
