/-
  C18f — C18 ("Concurrent use keeps values correct and the cache consistent") re-established at the
  granularity of the NESTED store-lock sections of the sync `insert_with_memory`.

  `Props/C18.lean` proves C18 for `Cachelito.ConcData`, where the whole queue-mutex section of the sync
  `insert_with_memory` is one atomic micro-step (listed in DESIGN.md as a limit of the model).  Here the model
  is `Cachelito.ConcDataFine`: that section is split into the real `M` sections
  (`[M.r: entry size]`, `[M.w: remove k]`, and per loop iteration `[M.r: Σ sizes]` + `[M.w: evict one]`, then the
  entry-limit step); between two of them the other threads may run every micro-step that does not need the
  queue mutex `O` (store writes `put`, hit bumps, lookups, ticks), and `cstepFine` refuses the micro-steps that
  need `O` while another thread holds it.  Everything else is `ConcData` unchanged.

  All theorems quantify over any number of threads, programs, schedules, policies, `tl`, `size`, draws.

    (a) values                     : `calls_return_function_value`
    (b) every point                : `sync_inflight_invariant` (stored keys distinct, queue duplicate-free, every
                                     stored key missing from the queue is the key of a thread between its store
                                     write and the START of its queue section — stronger than "… not yet finished
                                     its queue section", which is `sync_inflight_invariant_weak`),
                                     `queue_mutex_exclusive` (`holder_unique`), `holder_never_blocked`
    (c) quiescence                 : `sync_quiescent` (every stored key queued, no duplicates), `allDone_quiescent`
    (d) entry limit                : `sync_bound_inflight` (every point), `sync_quiescent` (`|store| ≤ limit`)
    (e) memory                     : `sync_quiescent_memory` (ghost invariant at every point; `≤ max_memory` at
                                     quiescence)
    (f) relation to the coarse model: `fine_single_thread_eq`, `fine_refines_coarse_when_uninterrupted`
    sequential use afterwards      : `sync_then_sequential`, `sync_then_sequential_memory`
    non-vacuity                    : concrete 2-thread schedules at the end.

  Nothing is `_partial`.  The async engine has no nested sections; for it the fine model IS the coarse model
  (`fineEntry` is `none`), and (a) and (f) are stated for both engines.

  Helper lemmas: `Cachelito/Lemmas/ConcDataFine.lean`.
-/
import Cachelito.Lemmas.ConcDataFine

set_option linter.unusedSectionVars false
set_option linter.unusedSimpArgs false
set_option linter.unusedVariables false

namespace Cachelito.C18f
open Cachelito Cachelito.ConcData Cachelito.ConcDataFine

variable {K V S : Type} [DecidableEq K]

/-! ## (a) Values -/

/-- **Each call returns the function's value for its own arguments**, at the fine granularity, both engines:
    if the cache starts with pairs `(k, f k)` only and every store operation of every thread writes `(k, f k)`,
    then after ANY schedule of the fine model every stored pair is `(k, f k)` and every finished lookup
    `get k` of every thread that returned a value returned `f k`. -/
theorem calls_return_function_value (f : K → V) (cfg : Cfg) (tl : Tlru S) (size : V → Nat)
    (s0 : State K V) (progs : List (List (Op K V × List Nat)))
    (hs0 : ValOK f s0.store) (hprogs : ∀ prog, prog ∈ progs → ∀ x, x ∈ prog → OpOK f x.1)
    (sch : List ThreadId) :
    ValOK f (crunFine cfg tl size sch (FState.start s0 progs)).shared.store ∧
    ∀ t, t ∈ (crunFine cfg tl size sch (FState.start s0 progs)).threads →
      ∀ op o, (op, o) ∈ t.done → ∀ k v, op = .get k → o = .val (some v) → v = f k := by
  have h := crunFine_invariant (cfg := cfg) (tl := tl) (size := size) (FValInv f)
    (fun c i c' hc hs => cstepFine_val c i c' hc hs) sch _ (fvalInv_start s0 progs hs0 hprogs)
  exact ⟨h.1, fun t ht op o hr => (h.2 t ht).2.2 (op, o) hr⟩

/-! ## (b) The in-flight invariant at every point; the queue mutex -/

/-- **Sync: the in-flight invariant holds at every point of every fine interleaving.**  Stored keys are
    distinct, the queue is duplicate-free, and every stored key that is missing from the queue is the key of a
    thread that has written the store and has not yet STARTED its queue section (`pendKeysF`: the thread is
    between `[M.w: put]` and the acquisition of `O`).  In particular the key of a thread that is inside its
    split queue section is already queued, whatever the other threads' store-only sections did in between. -/
theorem sync_inflight_invariant (cfg : Cfg) (tl : Tlru S) (size : V → Nat) (hf : cfg.flavour ≠ .async)
    (s0 : State K V) (h0 : WeakInv s0) (progs : List (List (Op K V × List Nat))) (sch : List ThreadId) :
    SyncInv (crunFine cfg tl size sch (FState.start s0 progs)).shared.store
            (crunFine cfg tl size sch (FState.start s0 progs)).shared.queue
            (pendKeysF (crunFine cfg tl size sch (FState.start s0 progs)).threads) := by
  have h := crunFine_invariant (cfg := cfg) (tl := tl) (size := size) FineSys
    (fun c i c' hc hs => cstepFine_sync hf c i c' hc hs) sch _ (fineSys_start h0 progs)
  exact h.1

/-- the form asked for in the task: `queue.Nodup` at every point, and every stored key missing from the queue
    belongs to a thread that has written the store and not yet FINISHED its queue section (in-flight keys
    together with the keys of the threads inside the split section) -/
theorem sync_inflight_invariant_weak (cfg : Cfg) (tl : Tlru S) (size : V → Nat) (hf : cfg.flavour ≠ .async)
    (s0 : State K V) (h0 : WeakInv s0) (progs : List (List (Op K V × List Nat))) (sch : List ThreadId) :
    (crunFine cfg tl size sch (FState.start s0 progs)).shared.queue.Nodup ∧
    SyncInv (crunFine cfg tl size sch (FState.start s0 progs)).shared.store
            (crunFine cfg tl size sch (FState.start s0 progs)).shared.queue
            (pendKeysF (crunFine cfg tl size sch (FState.start s0 progs)).threads ++
             holdKeys (crunFine cfg tl size sch (FState.start s0 progs)).threads) := by
  have h := sync_inflight_invariant cfg tl size hf s0 h0 progs sch
  exact ⟨h.queueNodup, h.congr (fun x hx => List.mem_append_left _ hx)⟩

/-- **`holder_unique` — the model respects the queue mutex**: at every point of every schedule at most one
    thread is inside a (multi-step) queue-mutex section.  (`cstepFine` only checks "no OTHER thread holds `O`"
    when a micro-step needs `O`; that a thread continuing its own section is never blocked follows.) -/
theorem queue_mutex_exclusive (cfg : Cfg) (tl : Tlru S) (size : V → Nat)
    (s0 : State K V) (progs : List (List (Op K V × List Nat))) (sch : List ThreadId) :
    holders (crunFine cfg tl size sch (FState.start s0 progs)).threads ≤ 1 ∧
    (holdKeys (crunFine cfg tl size sch (FState.start s0 progs)).threads).length ≤ 1 := by
  have h := crunFine_invariant (cfg := cfg) (tl := tl) (size := size) (fun c => holders c.threads ≤ 1)
    (fun c i c' hc hs => cstepFine_holders c i c' hc hs) sch (FState.start s0 progs)
    (by rw [holders_start]; omega)
  refine ⟨h, ?_⟩
  have hle : ∀ l : List (FThread K V), (holdKeys l).length ≤ holders l := by
    intro l
    induction l with
    | nil => simp [holdKeys, keysBy, holders]
    | cons t l ih =>
      have h1 := holders_mid [] l t
      simp only [List.nil_append] at h1
      unfold holdKeys at ih ⊢
      rw [keysBy_cons, List.length_append, h1]
      have : (hkeys t.pend).length ≤ (if holdsO t.pend = true then 1 else 0) := by
        cases ht : holdsO t.pend
        · rw [hkeys_of_not_holds ht]; simp
        · cases hp : t.pend with
          | none => rw [hp] at ht; cases ht
          | some fp => cases fp <;> simp [hkeys]
      omega
  exact Nat.le_trans (hle _) h

/-- **A thread inside its queue section is never blocked** (the mutex model cannot deadlock a holder): at
    every point of every schedule, a thread that is inside its split queue section can perform its next
    micro-step. -/
theorem holder_never_blocked (cfg : Cfg) (tl : Tlru S) (size : V → Nat)
    (s0 : State K V) (progs : List (List (Op K V × List Nat))) (sch : List ThreadId) (i : ThreadId) (t : FThread K V)
    (hi : (crunFine cfg tl size sch (FState.start s0 progs)).threads[i]? = some t) (ht : holdsO t.pend = true) :
    (cstepFine cfg tl size (crunFine cfg tl size sch (FState.start s0 progs)) i).isSome = true := by
  have hw := crunFine_invariant (cfg := cfg) (tl := tl) (size := size) WFF
    (fun c i c' hc hs => cstepFine_wf c i c' hc hs) sch _ (wff_start s0 progs)
  exact holder_steps (queue_mutex_exclusive cfg tl size s0 progs sch).1 hw hi ht

/-- a thread list in which everybody has returned is quiescent (no operation in progress) -/
theorem allDone_quiescent (cfg : Cfg) (tl : Tlru S) (size : V → Nat)
    (s0 : State K V) (progs : List (List (Op K V × List Nat))) (sch : List ThreadId)
    (hd : AllDoneF (crunFine cfg tl size sch (FState.start s0 progs))) :
    QuiescentF (crunFine cfg tl size sch (FState.start s0 progs)) := by
  refine quiescentF_of_allDone ?_ hd
  exact crunFine_invariant (cfg := cfg) (tl := tl) (size := size) WFF
    (fun c i c' hc hs => cstepFine_wf c i c' hc hs) sch _ (wff_start s0 progs)

/-! ## (d) The entry bound at every point -/

/-- **Sync: the capacity invariant holds at every point of every fine interleaving** (`limit = n`): under
    EVERY policy the store holds at most `n` entries plus one per store in flight plus one for the thread that
    is inside its split queue section (its entry-limit step has not run yet); under FIFO, LRU and Random
    moreover the queue has at most `n` slots (`n + 1` while a thread is inside its split section). -/
theorem sync_bound_inflight (cfg : Cfg) (tl : Tlru S) (size : V → Nat) (hf : cfg.flavour ≠ .async)
    (n : Nat) (hl : cfg.limit = some n)
    (s0 : State K V) (h0 : WeakInv s0) (hb0 : WeakBound cfg n s0)
    (progs : List (List (Op K V × List Nat))) (sch : List ThreadId) :
    (crunFine cfg tl size sch (FState.start s0 progs)).shared.store.length
        ≤ n + (pendKeysF (crunFine cfg tl size sch (FState.start s0 progs)).threads).length
            + (holdKeys (crunFine cfg tl size sch (FState.start s0 progs)).threads).length ∧
    (holdKeys (crunFine cfg tl size sch (FState.start s0 progs)).threads).length ≤ 1 ∧
    (cfg.policy = .fifo ∨ cfg.policy = .lru ∨ cfg.policy = .random →
      (crunFine cfg tl size sch (FState.start s0 progs)).shared.queue.length
        ≤ n + (holdKeys (crunFine cfg tl size sch (FState.start s0 progs)).threads).length) := by
  have h := crunFine_invariant (cfg := cfg) (tl := tl) (size := size)
    (fun c => FineSys c ∧ FBoundSys cfg n c) ?_ sch (FState.start s0 progs)
    ⟨fineSys_start h0 progs, fboundSys_start hb0 progs⟩
  · exact ⟨fine_entries_le h.1.1 h.2, (queue_mutex_exclusive cfg tl size s0 progs sch).2, h.2.slots⟩
  · intro c i c' hc hs
    exact ⟨cstepFine_sync hf c i c' hc.1 hs, cstepFine_bound hf n hl c i c' hc.1 hc.2 hs⟩

/-! ## (c), (d) Quiescence -/

/-- **Sync, at quiescence** (no operation in progress — in particular once all callers have returned):
    stored keys distinct, queue duplicate-free, EVERY stored key is in the queue (so every entry can still be
    evicted, expired and invalidated), and, with `limit = n`, at most `n` entries — under every policy, Random
    included.  The state again satisfies `WeakInv` / `WeakBound`, so concurrent phases compose (also with the
    coarse theorems of `C18`). -/
theorem sync_quiescent (cfg : Cfg) (tl : Tlru S) (size : V → Nat) (hf : cfg.flavour ≠ .async)
    (s0 : State K V) (h0 : WeakInv s0) (progs : List (List (Op K V × List Nat))) (sch : List ThreadId)
    (hq : QuiescentF (crunFine cfg tl size sch (FState.start s0 progs))) :
    ((keys (crunFine cfg tl size sch (FState.start s0 progs)).shared.store).Nodup ∧
     (crunFine cfg tl size sch (FState.start s0 progs)).shared.queue.Nodup ∧
     ∀ x, x ∈ keys (crunFine cfg tl size sch (FState.start s0 progs)).shared.store →
          x ∈ (crunFine cfg tl size sch (FState.start s0 progs)).shared.queue) ∧
    WeakInv (crunFine cfg tl size sch (FState.start s0 progs)).shared ∧
    ∀ n, cfg.limit = some n → WeakBound cfg n s0 →
      (crunFine cfg tl size sch (FState.start s0 progs)).shared.store.length ≤ n ∧
      WeakBound cfg n (crunFine cfg tl size sch (FState.start s0 progs)).shared := by
  have h1 := sync_inflight_invariant cfg tl size hf s0 h0 progs sch
  have hP : pendKeysF (crunFine cfg tl size sch (FState.start s0 progs)).threads = [] :=
    keysBy_of_quiescent fkeys rfl hq
  have hF : holdKeys (crunFine cfg tl size sch (FState.start s0 progs)).threads = [] :=
    keysBy_of_quiescent hkeys rfl hq
  rw [hP] at h1
  refine ⟨⟨h1.keysNodup, h1.queueNodup, ?_⟩, h1, ?_⟩
  · intro x hx
    apply Classical.byContradiction; intro hn
    exact absurd (h1.tracked x hx hn) (by simp)
  · intro n hl hb0
    have h2 := crunFine_invariant (cfg := cfg) (tl := tl) (size := size)
      (fun c => FineSys c ∧ FBoundSys cfg n c)
      (fun c i c' hc hs => ⟨cstepFine_sync hf c i c' hc.1 hs, cstepFine_bound hf n hl c i c' hc.1 hc.2 hs⟩)
      sch (FState.start s0 progs) ⟨fineSys_start h0 progs, fboundSys_start hb0 progs⟩
    have hb := h2.2
    unfold FBoundSys at hb
    rw [hP, hF] at hb
    have hwb : WeakBound cfg n (crunFine cfg tl size sch (FState.start s0 progs)).shared :=
      BoundF.to_sync [] rfl hb
    exact ⟨weak_length_le h1 hwb, hwb⟩

/-! ## (e) Memory -/

/-- **Sync, memory** (`max_memory = M`, all stores through `insert_with_memory`, values `f k`), at the fine
    granularity.  At every point of every interleaving the footprint exceeds `M` by at most the sizes of the
    values of the threads that have written the store and have not yet passed the END of their memory loop
    (`memKeys`: between `[M.w: put]` and the fitting `[M.r]` sum / the eviction attempt that found nothing /
    the oversize removal).  A thread leaves that set only with the footprint `≤ M` read under the store lock, or
    when no queued key is stored — then every stored entry belongs to another thread still in the set.  After
    the last such exit nothing can be written without re-entering the set.  Hence at quiescence the footprint
    is at most `M`. -/
theorem sync_quiescent_memory (f : K → V) (cfg : Cfg) (tl : Tlru S) (size : V → Nat) (hf : cfg.flavour ≠ .async)
    (M : Nat) (hM : cfg.maxMem = some M)
    (s0 : State K V) (h0 : WeakInv s0) (hs0 : ValOK f s0.store) (hb0 : totalMem size s0.store ≤ M)
    (progs : List (List (Op K V × List Nat)))
    (hprogs : ∀ prog, prog ∈ progs → ∀ x, x ∈ prog → OpOK f x.1)
    (hvia : ∀ prog, prog ∈ progs → ∀ x, x ∈ prog → x.1.viaMem = true) (sch : List ThreadId) :
    totalMem size (crunFine cfg tl size sch (FState.start s0 progs)).shared.store
      ≤ M + ((memKeys (crunFine cfg tl size sch (FState.start s0 progs)).threads).map (fun k => size (f k))).sum ∧
    (QuiescentF (crunFine cfg tl size sch (FState.start s0 progs)) →
      totalMem size (crunFine cfg tl size sch (FState.start s0 progs)).shared.store ≤ M) := by
  have h := crunFine_invariant (cfg := cfg) (tl := tl) (size := size)
    (fun c => FineSys c ∧ FValInv f c ∧ NoPlainF c ∧ MemSysF size f M c) ?_ sch (FState.start s0 progs) ?_
  · refine ⟨h.2.2.2, fun hq => ?_⟩
    have := h.2.2.2
    unfold MemSysF MemInv at this
    have hpk : memKeys (crunFine cfg tl size sch (FState.start s0 progs)).threads = [] :=
      keysBy_of_quiescent mkeys rfl hq
    rw [hpk] at this
    simpa using this
  · intro c i c' hc hs
    exact ⟨cstepFine_sync hf c i c' hc.1 hs, cstepFine_val c i c' hc.2.1 hs, cstepFine_noPlain c i c' hc.2.2.1 hs,
           cstepFine_mem hf f M hM c i c' hc.1 hc.2.1 hc.2.2.1 hc.2.2.2 hs⟩
  · refine ⟨fineSys_start h0 progs, fvalInv_start s0 progs hs0 hprogs, ?_, ?_⟩
    · intro t ht
      simp only [FState.start, List.mem_map] at ht
      obtain ⟨prog, hprog, rfl⟩ := ht
      exact ⟨hvia prog hprog, by intro k v r hh; simp [FThread.start] at hh⟩
    · unfold MemSysF MemInv memKeys
      rw [keysBy_start mkeys rfl]
      simpa [FState.start] using hb0

/-! ## Sequential use after quiescence -/

/-- **Sync: subsequent sequential use respects the bound and returns correct values** — from the state left
    by any fine schedule at quiescence, every sequential history keeps the consistency, never holds more than
    `limit = n` entries after any operation, and every lookup that returns a value returns `f` of its key. -/
theorem sync_then_sequential (f : K → V) (cfg : Cfg) (tl : Tlru S) (size : V → Nat) (hf : cfg.flavour ≠ .async)
    (n : Nat) (hl : cfg.limit = some n)
    (s0 : State K V) (h0 : WeakInv s0) (hb0 : WeakBound cfg n s0) (hs0 : ValOK f s0.store)
    (progs : List (List (Op K V × List Nat))) (hprogs : ∀ prog, prog ∈ progs → ∀ x, x ∈ prog → OpOK f x.1)
    (sch : List ThreadId) (hq : QuiescentF (crunFine cfg tl size sch (FState.start s0 progs)))
    (ops : List (Op K V × List Nat)) (hops : ∀ x, x ∈ ops → OpOK f x.1) :
    WeakInv (run cfg tl size (crunFine cfg tl size sch (FState.start s0 progs)).shared ops).1 ∧
    (∀ i, (run cfg tl size (crunFine cfg tl size sch (FState.start s0 progs)).shared (ops.take i)).1.store.length ≤ n) ∧
    ∀ a o, (a, o) ∈ ops.zip (run cfg tl size (crunFine cfg tl size sch (FState.start s0 progs)).shared ops).2 →
      ∀ k v, a.1 = .get k → o = .val (some v) → v = f k := by
  obtain ⟨_, hw, hb⟩ := sync_quiescent cfg tl size hf s0 h0 progs sch hq
  obtain ⟨_, hwb⟩ := hb n hl hb0
  have h3 := (calls_return_function_value f cfg tl size s0 progs hs0 hprogs sch).1
  refine ⟨(run_weak hf tl size ops _ hw).1, ?_, (run_val cfg tl size ops _ h3 hops).2⟩
  intro i
  have hr := run_weak hf tl size (ops.take i) _ hw
  exact weak_length_le hr.1 (hr.2 n hl hwb)

/-- **Sync: … and the memory bound**, for sequential histories whose stores go through `insert_with_memory`. -/
theorem sync_then_sequential_memory (f : K → V) (cfg : Cfg) (tl : Tlru S) (size : V → Nat)
    (hf : cfg.flavour ≠ .async) (M : Nat) (hM : cfg.maxMem = some M)
    (s0 : State K V) (h0 : WeakInv s0) (hs0 : ValOK f s0.store) (hb0 : totalMem size s0.store ≤ M)
    (progs : List (List (Op K V × List Nat)))
    (hprogs : ∀ prog, prog ∈ progs → ∀ x, x ∈ prog → OpOK f x.1)
    (hvia : ∀ prog, prog ∈ progs → ∀ x, x ∈ prog → x.1.viaMem = true)
    (sch : List ThreadId) (hq : QuiescentF (crunFine cfg tl size sch (FState.start s0 progs)))
    (ops : List (Op K V × List Nat)) (hops : AllViaMem ops) (i : Nat) :
    totalMem size (run cfg tl size (crunFine cfg tl size sch (FState.start s0 progs)).shared (ops.take i)).1.store ≤ M := by
  obtain ⟨_, hw, _⟩ := sync_quiescent cfg tl size hf s0 h0 progs sch hq
  have hm := (sync_quiescent_memory f cfg tl size hf M hM s0 h0 hs0 hb0 progs hprogs hvia sch).2 hq
  exact run_weak_mem hf tl size M hM (ops.take i) (hops.take i) _ hw hm

/-! ## (f) Relation to the coarse model -/

/-- **For ONE thread the fine model computes exactly `trackMemStep`.**  A thread whose `insert_with_memory` is
    in flight (store written) and that runs its queue section with nobody stepping in between performs
    finitely many (`n ≤ 2·|queue| + 6`) micro-steps — the first `n - 1` leave the operation in progress — and ends in exactly
    the shared state `trackMemStep cfg tl size rs s k` of the single coarse micro-step, reporting the same
    finished operation.  (`ReachF … s pend n s' r` is that uninterrupted block; the fine loop has no fuel, the
    coarse `memLoop` runs with fuel `|queue| + 1`.) -/
theorem fine_single_thread_eq (cfg : Cfg) (hf : cfg.flavour ≠ .async) (tl : Tlru S) (size : V → Nat)
    (op : Op K V) (rs0 : List Nat) (s : State K V) (k : K) (v : V) (rs : List Nat) :
    ∃ n, n ≤ 2 * s.queue.length + 6 ∧ ReachF cfg tl size op rs0 s (some (.base (.trackMem k v rs))) n
      (trackMemStep cfg tl size rs s k) (.fin (.insertMem k v) .unit) :=
  ConcDataFine.fine_single_thread_eq hf tl size op rs0 s k v rs

/-- **`fine_refines_coarse_when_uninterrupted`** (both engines): if no other thread steps while a thread is
    inside a critical-section sequence that the coarse model treats as one micro-step, the fine run equals the
    coarse run.  Precisely: for every coarse schedule `sch` there are block lengths `ns` (one per entry) such
    that the fine schedule "entry `i` repeated `ns[i]` times" leads the fine model from `embed c` to exactly
    `embed (crun … sch c)`.  So every coarse schedule is a fine schedule, and every state reachable in
    `ConcData` is reachable in `ConcDataFine`. -/
theorem fine_refines_coarse_when_uninterrupted (cfg : Cfg) (tl : Tlru S) (size : V → Nat)
    (sch : List ThreadId) (c : CState K V) :
    ∃ ns : List Nat, ns.length = sch.length ∧
      crunFine cfg tl size (List.zipWith List.replicate ns sch).flatten (embed c) =
        embed (crun cfg tl size sch c) :=
  crun_simulated cfg tl size sch c

/-- one coarse step = one uninterrupted block of fine steps of the same thread -/
theorem coarse_step_is_fine_block (cfg : Cfg) (tl : Tlru S) (size : V → Nat) (c c' : CState K V) (i : ThreadId)
    (h : cstep cfg tl size c i = some c') :
    ∃ n, crunFine cfg tl size (List.replicate n i) (embed c) = embed c' :=
  cstep_simulated h

/-! ## Non-vacuity: concrete two-thread schedules -/

def exTl : Tlru Nat := ⟨fun a b => decide (a < b), fun _ h _ r => h * r⟩
def exF (k : Nat) : Nat := if k = 9 then 40 else 10
/-- FIFO, `max_memory = 25`, no entry limit; `size v = v` -/
def cfgM : Cfg := ⟨.global, .fifo, none, some 25, none⟩
/-- FIFO, `max_memory = 25`, `limit = 1` -/
def cfgML : Cfg := ⟨.global, .fifo, some 1, some 25, none⟩

/-- thread 0 stores keys 1, 2, 3 (10 bytes each), thread 1 stores key 4 -/
def progsLoop : List (List (Op Nat Nat × List Nat)) :=
  [[(.insertMem 1 (exF 1), []), (.insertMem 2 (exF 2), []), (.insertMem 3 (exF 3), [])], [(.insertMem 4 (exF 4), [])]]

/-- the schedule up to the point where thread 1's store write has landed BETWEEN two iterations of thread 0's
    memory loop: thread 0 runs `insertMem 1`, `insertMem 2` (4 micro-steps each: put, enter, read, limit), then
    of `insertMem 3`: put, enter, read (30 > 25), evict (key 1); then thread 1: put 4 -/
def schMid : List ThreadId := [0,0,0,0, 0,0,0,0, 0,0,0,0, 1]
/-- … thread 0: read (30 > 25 again, because of key 4), evict (key 2), read (20 fits), limit; thread 1: enter,
    read, limit -/
def schEnd : List ThreadId := schMid ++ [0,0,0,0, 1,1,1]

/-- **Non-vacuity, a store write between two loop iterations** — a state that no schedule of the coarse model
    can produce an analogue of (there the loop is atomic).  At the mid-point: keys 2, 3, 4 stored (30 bytes,
    over the bound by exactly the ghost allowance 10 + 10), key 4 stored-but-unqueued and in flight, thread 0
    inside its queue section holding key 3, thread 1 BLOCKED on the queue mutex (its next micro-step is refused).
    At the end: everybody returned, 20 bytes ≤ 25, queue = stored keys, no duplicates. -/
example :
    keys (crunFine cfgM exTl id schMid (FState.init progsLoop)).shared.store = [2, 3, 4] ∧
    (crunFine cfgM exTl id schMid (FState.init progsLoop)).shared.queue = [2, 3] ∧
    totalMem id (crunFine cfgM exTl id schMid (FState.init progsLoop)).shared.store = 30 ∧
    pendKeysF (crunFine cfgM exTl id schMid (FState.init progsLoop)).threads = [4] ∧
    holdKeys (crunFine cfgM exTl id schMid (FState.init progsLoop)).threads = [3] ∧
    memKeys (crunFine cfgM exTl id schMid (FState.init progsLoop)).threads = [3, 4] ∧
    (cstepFine cfgM exTl id (crunFine cfgM exTl id schMid (FState.init progsLoop)) 1).isNone = true ∧
    (cstepFine cfgM exTl id (crunFine cfgM exTl id schMid (FState.init progsLoop)) 0).isSome = true ∧
    allDoneFB (crunFine cfgM exTl id schEnd (FState.init progsLoop)) = true ∧
    keys (crunFine cfgM exTl id schEnd (FState.init progsLoop)).shared.store = [3, 4] ∧
    (crunFine cfgM exTl id schEnd (FState.init progsLoop)).shared.queue = [3, 4] ∧
    totalMem id (crunFine cfgM exTl id schEnd (FState.init progsLoop)).shared.store = 20 := by
  decide

/-- the hypotheses of the theorems hold for this system (values `exF k`, all stores memory-aware) -/
example : (∀ prog, prog ∈ progsLoop → ∀ x, x ∈ prog → OpOK exF x.1) ∧
    (∀ prog, prog ∈ progsLoop → ∀ x, x ∈ prog → x.1.viaMem = true) := by
  refine ⟨?_, ?_⟩ <;> intro prog hp x hx <;> simp [progsLoop] at hp <;> rcases hp with rfl | rfl <;>
    simp at hx <;> rcases hx with rfl | rfl | rfl <;> simp [OpOK, Op.viaMem, exF]

/-- **Non-vacuity, the oversize path** (`exF 9 = 40 > 25`): thread 0 measures its oversize entry; thread 1's
    store write of key 2 lands between the measurement `[M.r]` and the removal `[M.w] ; pop_back`; the removal
    takes key 9 out of the store and its (last) slot out of the queue; key 2 survives and is queued by its own
    thread afterwards. -/
def progsOver : List (List (Op Nat Nat × List Nat)) := [[(.insertMem 9 (exF 9), [])], [(.insertMem 2 (exF 2), [])]]
example :
    keys (crunFine cfgM exTl id [0, 0, 1] (FState.init progsOver)).shared.store = [9, 2] ∧
    (crunFine cfgM exTl id [0, 0, 1] (FState.init progsOver)).shared.queue = [9] ∧
    holdKeys (crunFine cfgM exTl id [0, 0, 1] (FState.init progsOver)).threads = [9] ∧
    keys (crunFine cfgM exTl id [0, 0, 1, 0] (FState.init progsOver)).shared.store = [2] ∧
    (crunFine cfgM exTl id [0, 0, 1, 0] (FState.init progsOver)).shared.queue = [] ∧
    pendKeysF (crunFine cfgM exTl id [0, 0, 1, 0] (FState.init progsOver)).threads = [2] ∧
    allDoneFB (crunFine cfgM exTl id [0, 0, 1, 0, 1, 1, 1] (FState.init progsOver)) = true ∧
    keys (crunFine cfgM exTl id [0, 0, 1, 0, 1, 1, 1] (FState.init progsOver)).shared.store = [2] ∧
    (crunFine cfgM exTl id [0, 0, 1, 0, 1, 1, 1] (FState.init progsOver)).shared.queue = [2] := by
  decide

/-- **Non-vacuity, the entry limit** (`limit = 1`): both threads write the store, thread 0 enters its queue
    section — 2 entries = `1 + |in flight| + |holders|` with one store in flight and one holder, queue of
    `1 + 1` slots is not reached yet — and finishes; thread 1's limit step then evicts key 1.  At quiescence
    one entry, queued. -/
def progsLim : List (List (Op Nat Nat × List Nat)) := [[(.insertMem 1 (exF 1), [])], [(.insertMem 2 (exF 2), [])]]
example :
    (crunFine cfgML exTl id [0, 1, 0] (FState.init progsLim)).shared.store.length = 2 ∧
    pendKeysF (crunFine cfgML exTl id [0, 1, 0] (FState.init progsLim)).threads = [2] ∧
    holdKeys (crunFine cfgML exTl id [0, 1, 0] (FState.init progsLim)).threads = [1] ∧
    allDoneFB (crunFine cfgML exTl id [0, 1, 0, 0, 0, 1, 1, 1] (FState.init progsLim)) = true ∧
    keys (crunFine cfgML exTl id [0, 1, 0, 0, 0, 1, 1, 1] (FState.init progsLim)).shared.store = [2] ∧
    (crunFine cfgML exTl id [0, 1, 0, 0, 0, 1, 1, 1] (FState.init progsLim)).shared.queue = [2] := by
  decide

/-- **Non-vacuity of (f)**: the coarse schedule `[0, 0, 1, 1]` (thread 0: put, queue section; thread 1: put,
    queue section) and its block expansion `[0, 0×3, 1, 1×3]` reach the same state. -/
example :
    (crunFine cfgM exTl id [0, 0,0,0, 1, 1,1,1] (embed (CState.init progsLim))).shared.queue =
      (crun cfgM exTl id [0, 0, 1, 1] (CState.init progsLim)).shared.queue ∧
    keys (crunFine cfgM exTl id [0, 0,0,0, 1, 1,1,1] (embed (CState.init progsLim))).shared.store =
      keys (crun cfgM exTl id [0, 0, 1, 1] (CState.init progsLim)).shared.store ∧
    allDoneFB (crunFine cfgM exTl id [0, 0,0,0, 1, 1,1,1] (embed (CState.init progsLim))) = true ∧
    allDoneB (crun cfgM exTl id [0, 0, 1, 1] (CState.init progsLim)) = true := by
  decide

end Cachelito.C18f
