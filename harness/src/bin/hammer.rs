//! Free-running parallel stress (no scheduler): several real threads call plain generated functions whose results
//! are already stored.  The property (C03 / C18) holds for EVERY schedule, so any body execution observed here is
//! a violation; nothing observed proves nothing (that is what the theorems and the scheduled runs are for).
//! This stream exists because the deterministic scheduler serialises threads at lock acquisitions and therefore
//! never exercises contention inside un-instrumented structures (DashMap shards).
//!
//!   hammer <seed> <threads> <rounds>   ->  H|<fn>|<calls>|<body executions in the parallel phase>|<wrong values>
use std::sync::atomic::{AtomicU64, Ordering};
use std::sync::{Arc, Barrier};
use verif_harness::l2::{all_specs, corpus, rt};
use verif_harness::Rng;

static WRONG: AtomicU64 = AtomicU64::new(0);
static PANICS: std::sync::Mutex<Vec<String>> = std::sync::Mutex::new(Vec::new());

/// C16 under concurrency: a panic of a cached call / invalidation on any thread is an observation, not a crash of the
/// harness.  The hook records message and location; `join_all` reports one `HP|…` line per panicked thread.
fn join_all(hs: &mut Vec<std::thread::JoinHandle<()>>, phase: &str, fi: usize, name: &str) {
    for h in hs.drain(..) {
        if h.join().is_err() {
            let msg = PANICS.lock().map(|mut v| v.pop().unwrap_or_default()).unwrap_or_default();
            let hexmsg: String = msg.bytes().map(|b| format!("{:02x}", b)).collect();
            println!("HP|{}|{}|{}|{}", fi, name, phase, hexmsg);
        }
    }
}

/// the value of a call is a function of its ARGUMENTS (two argument indices that render to one key — a function
/// without arguments — must produce one value)
fn det_n(fi: usize, j: usize) -> u64 {
    let key = corpus::KEYS[fi](j);
    let mut h: u64 = fi as u64 * 1_000_003 + 17;
    for b in key.bytes() {
        h = h.wrapping_mul(31).wrapping_add(b as u64);
    }
    h % 997
}

fn main() {
    let args: Vec<String> = std::env::args().collect();
    std::panic::set_hook(Box::new(|info| {
        let loc = info.location().map(|l| format!("{}:{}", l.file(), l.line())).unwrap_or_default();
        let msg = info.payload().downcast_ref::<&str>().map(|s| s.to_string())
            .or_else(|| info.payload().downcast_ref::<String>().cloned()).unwrap_or_else(|| "panic".to_string());
        if let Ok(mut v) = PANICS.lock() {
            v.push(format!("{} at {}", msg, loc));
        }
    }));
    let seed: u64 = args[1].parse().unwrap();
    let threads: usize = args[2].parse().unwrap();
    let rounds: usize = args[3].parse().unwrap();
    let specs = all_specs();
    // plain configuration: global or async, no limit / ttl / max_memory / predicates, not a Result type
    let plain: Vec<_> = specs
        .iter()
        .filter(|s| !s.thread && s.limit.is_none() && s.max_mem.is_none() && s.ttl.is_none() && !s.has_pred && !s.is_result)
        .cloned()
        .collect();
    // at most four plain functions per invocation (two sync, two async where available), rotating with the seed
    let mut pick: Vec<_> = Vec::new();
    for want_async in [false, true] {
        let pool: Vec<_> = plain.iter().filter(|s| s.is_async == want_async).cloned().collect();
        for k in 0..2usize.min(pool.len()) {
            pick.push(pool[(seed as usize + k * 3) % pool.len()].clone());
        }
    }
    pick.dedup_by_key(|s| s.idx);
    for sp in pick {
        let fi = sp.idx;
        let nk = 4usize;
        // phase 1 (sequential): every key is computed and stored once; large values make clones slow
        let mut expect: Vec<String> = Vec::new();
        for j in 0..nk {
            rt::NEXT_TL.with(|n| n.set(Some(rt::Next { n: 7 + j as u64, ok: true, len: 100_000, ci: true, io: false })));
            let (_, r) = corpus::CALLS[fi](j);
            expect.push(r);
        }
        let e0 = rt::EXEC.load(Ordering::SeqCst);
        WRONG.store(0, Ordering::SeqCst);
        let expect = Arc::new(expect);
        let barrier = Arc::new(Barrier::new(threads));
        let mut hs = Vec::new();
        for t in 0..threads {
            let expect = expect.clone();
            let barrier = barrier.clone();
            hs.push(std::thread::spawn(move || {
                let mut rng = Rng::new(seed ^ (t as u64 * 7919 + fi as u64));
                barrier.wait();
                for _ in 0..rounds {
                    let j = rng.below(nk as u64) as usize;
                    // the body is a deterministic function of the arguments: a re-execution returns the same value
                    rt::NEXT_TL.with(|n| n.set(Some(rt::Next { n: 7 + j as u64, ok: true, len: 100_000, ci: true, io: false })));
                    let (_, r) = corpus::CALLS[fi](j);
                    if r != expect[j] {
                        WRONG.fetch_add(1, Ordering::SeqCst);
                    }
                }
            }));
        }
        join_all(&mut hs, "stored-results", fi, &sp.name);
        let e1 = rt::EXEC.load(Ordering::SeqCst);
        println!("H|{}|{}|{}|{}|{}", fi, sp.name, threads * rounds, e1 - e0, WRONG.load(Ordering::SeqCst));
    }
    // statistics under contention (C15): callers race with a thread that keeps invalidating the same cache (group
    // invalidation by tag and conditional invalidation of every key); whatever the interleaving, every completed call
    // counted exactly one hit or one miss, and every miss ran the body exactly once
    let tagged: Vec<_> = specs
        .iter()
        .filter(|s| !s.thread && !s.has_pred && !s.tags.is_empty())
        .cloned()
        .collect();
    let mut pick: Vec<_> = Vec::new();
    for want_async in [false, true] {
        for want_ttl in [false, true] {
            let pool: Vec<_> = tagged.iter().filter(|s| s.is_async == want_async && s.ttl.is_some() == want_ttl).cloned().collect();
            if !pool.is_empty() {
                pick.push(pool[seed as usize % pool.len()].clone());
            }
        }
    }
    for sp in pick {
        let fi = sp.idx;
        let nk = 4usize;
        rt::NEXT_TL.with(|n| n.set(Some(rt::Next { n: 1, ok: true, len: 8, ci: true, io: false })));
        let _ = corpus::CALLS[fi](0);
        // forget whatever earlier phases stored for this function
        let _ = cachelito_core::invalidate_with(&sp.name, |_k| true);
        // the value each argument index must return (deterministic body: a function of the arguments)
        let mut expect: Vec<String> = Vec::new();
        for j in 0..nk {
            rt::NEXT_TL.with(|n| n.set(Some(rt::Next { n: det_n(fi, j), ok: true, len: 8, ci: true, io: false })));
            let (_, r) = corpus::CALLS[fi](j);
            expect.push(r);
        }
        let expect = Arc::new(expect);
        WRONG.store(0, Ordering::SeqCst);
        let _ = cachelito_core::invalidate_cache(&sp.name);
        cachelito_core::stats_registry::reset(&sp.name);
        let e0 = rt::EXEC.load(Ordering::SeqCst);
        let stop = Arc::new(std::sync::atomic::AtomicBool::new(false));
        let barrier = Arc::new(Barrier::new(threads + 1));
        let mut hs = Vec::new();
        for t in 0..threads {
            let barrier = barrier.clone();
            let expect = expect.clone();
            hs.push(std::thread::spawn(move || {
                let mut rng = Rng::new(seed ^ (t as u64 * 104729 + fi as u64));
                barrier.wait();
                for _ in 0..rounds {
                    let j = rng.below(nk as u64) as usize;
                    rt::NEXT_TL.with(|n| n.set(Some(rt::Next { n: det_n(fi, j), ok: true, len: 8, ci: true, io: false })));
                    let (_, r) = corpus::CALLS[fi](j);
                    if r != expect[j] {
                        WRONG.fetch_add(1, Ordering::SeqCst);
                    }
                }
            }));
        }
        let inv = {
            let (stop, barrier, name, tag, ttl) = (stop.clone(), barrier.clone(), sp.name.clone(), sp.tags[0].clone(), sp.ttl);
            std::thread::spawn(move || {
                barrier.wait();
                let mut n = 0u64;
                while !stop.load(Ordering::SeqCst) {
                    if let (Some(t), true) = (ttl, n % 3 != 2) {
                        // with a ttl: mostly make every stored entry EXPIRED (virtual ageing through the verif hook), so that
                        // expired-lookup paths race with plain misses, stores and each other
                        cachelito_core::verif::age_global(&name, (t + 1) * 1000);
                    } else if n % 2 == 0 {
                        cachelito_core::invalidate_by_tag(&tag);
                    } else {
                        cachelito_core::invalidate_with(&name, |_k| true);
                    }
                    n += 1;
                    std::thread::yield_now();
                }
            })
        };
        join_all(&mut hs, "calls-vs-invalidations", fi, &sp.name);
        stop.store(true, Ordering::SeqCst);
        join_all(&mut vec![inv], "invalidator", fi, &sp.name);
        let e1 = rt::EXEC.load(Ordering::SeqCst);
        let st = verif_harness::l2::stats_of(&sp.name);
        // quiescent state of the cache: every stored key tracked by the queue (async: and vice versa), no duplicate
        // queue slot, within the entry limit
        let cons = match cachelito_core::verif::dump_global(&sp.name) {
            Some(d) => {
                let keys: std::collections::HashSet<&String> = d.entries.iter().map(|e| &e.0).collect();
                let q: std::collections::HashSet<&String> = d.queue.iter().collect();
                let untracked = keys.iter().filter(|k| !q.contains(**k)).count();
                let orphans = q.iter().filter(|k| !keys.contains(**k)).count();
                let dups = d.queue.len() - q.len();
                let over = sp.limit.map(|l| keys.len() > l).unwrap_or(false);
                format!("{},{},{},{},{}", untracked, if sp.is_async { orphans } else { 0 }, dups, over as u8, keys.len())
            }
            None => "-".to_string(),
        };
        println!("HS|{}|{}|{}|{}|{}|{}|{}", fi, sp.name, threads * rounds, e1 - e0, st, WRONG.load(Ordering::SeqCst), cons);
    }
    // memory-aware stores that all FIT (C09 / C03 / C05 "no needless eviction"): caches with max_memory >= 1 KB and no (or a loose)
    // entry limit, six keys with small values; all threads call in parallel, and once every caller has returned a sequential
    // pass over the six keys must be served from the cache — every computed (Ok) result was stored and nothing had to go.
    // A store path that gives up under contention (try_lock, a busy shard treated as absent) loses results here.
    {
        let fit: Vec<_> = specs
            .iter()
            .filter(|s| !s.thread && s.ttl.is_none() && s.max_mem.is_some() && s.limit.map(|l| l >= 6).unwrap_or(true))
            .filter(|s| {
                // six values of this return type must fit together (predicates, if any, are scripted to accept / not to object)
                rt::NEXT_TL.with(|n| n.set(Some(rt::Next { n: 1, ok: true, len: 4, ci: true, io: false })));
                6 * (corpus::WOULD[s.idx]().1 + 8) <= s.max_mem.unwrap()
            })
            .cloned()
            .collect();
        let mut pick: Vec<_> = Vec::new();
        for want_async in [false, true] {
            for want_result in [false, true] {
                let pool: Vec<_> = fit.iter().filter(|s| s.is_async == want_async && s.is_result == want_result).cloned().collect();
                if !pool.is_empty() {
                    pick.push(pool[seed as usize % pool.len()].clone());
                }
            }
        }
        for sp in pick {
            let fi = sp.idx;
            rt::NEXT_TL.with(|n| n.set(Some(rt::Next { n: 1, ok: true, len: 4, ci: true, io: false })));
            let _ = corpus::CALLS[fi](0);
            let reps = (rounds / 8).max(20);
            let mut lost = 0u64;
            for _rep in 0..reps {
                let _ = cachelito_core::invalidate_with(&sp.name, |_k| true);
                let barrier = Arc::new(Barrier::new(threads));
                let mut hs = Vec::new();
                for t in 0..threads {
                    let barrier = barrier.clone();
                    hs.push(std::thread::spawn(move || {
                        barrier.wait();
                        for i in 0..3usize {
                            let j = (t + i * 2) % 6;
                            rt::NEXT_TL.with(|n| n.set(Some(rt::Next { n: det_n(fi, j), ok: true, len: 4, ci: true, io: false })));
                            let _ = corpus::CALLS[fi](j);
                        }
                    }));
                }
                join_all(&mut hs, "fitting-memory-aware-stores", fi, &sp.name);
                let e0 = rt::EXEC.load(Ordering::SeqCst);
                for j in 0..6usize {
                    rt::NEXT_TL.with(|n| n.set(Some(rt::Next { n: det_n(fi, j), ok: true, len: 4, ci: true, io: false })));
                    let _ = corpus::CALLS[fi](j);
                }
                lost += rt::EXEC.load(Ordering::SeqCst) - e0;
            }
            println!("HK|{}|{}|{}|{}|{}", fi, sp.name, reps * threads * 3, lost, sp.is_result as u8);
        }
    }
    // REFRESHES under contention (C11 / C01): functions with `invalidate_on` whose entries all fit; six keys are stored, then every
    // thread calls them in parallel with the check answering "stale" and a FRESH body value per call; once every caller has
    // returned, a sequential pass with the check answering "valid" must be served from the cache (no execution) a value of the
    // fresh generation for every key — a refresh whose store is dropped under contention leaves the stale value cached
    {
        let pool: Vec<_> = specs
            .iter()
            .filter(|s| !s.thread && s.has_io && s.ttl.is_none() && s.limit.map(|l| l >= 6).unwrap_or(true))
            .filter(|s| {
                rt::NEXT_TL.with(|n| n.set(Some(rt::Next { n: 1, ok: true, len: 4, ci: true, io: false })));
                s.max_mem.map(|m| 6 * (corpus::WOULD[s.idx]().1 + 8) <= m).unwrap_or(true)
            })
            .cloned()
            .collect();
        let mut pick: Vec<_> = Vec::new();
        for want_async in [false, true] {
            let p2: Vec<_> = pool.iter().filter(|s| s.is_async == want_async).cloned().collect();
            if !p2.is_empty() {
                pick.push(p2[seed as usize % p2.len()].clone());
            }
        }
        for sp in pick {
            let fi = sp.idx;
            let reps = (rounds / 8).max(20);
            let (mut stale_left, mut reexec) = (0u64, 0u64);
            for rep in 0..reps {
                let _ = cachelito_core::invalidate_with(&sp.name, |_k| true);
                let mut old = Vec::new();
                for j in 0..6usize {
                    rt::NEXT_TL.with(|n| n.set(Some(rt::Next { n: 10 + j as u64, ok: true, len: 4, ci: true, io: false })));
                    old.push(corpus::CALLS[fi](j).1);
                }
                let barrier = Arc::new(Barrier::new(threads));
                let mut hs = Vec::new();
                for t in 0..threads {
                    let barrier = barrier.clone();
                    hs.push(std::thread::spawn(move || {
                        barrier.wait();
                        for i in 0..3usize {
                            let j = (t + i * 2) % 6;
                            let n = 100_000 + (rep as u64 % 50) * 1000 + (t as u64) * 10 + i as u64;
                            rt::NEXT_TL.with(|x| x.set(Some(rt::Next { n, ok: true, len: 4, ci: true, io: true })));
                            let _ = corpus::CALLS[fi](j);
                        }
                    }));
                }
                join_all(&mut hs, "refreshes-under-contention", fi, &sp.name);
                let e0 = rt::EXEC.load(Ordering::SeqCst);
                for j in 0..6usize {
                    rt::NEXT_TL.with(|n| n.set(Some(rt::Next { n: 999_999, ok: true, len: 4, ci: true, io: false })));
                    let r = corpus::CALLS[fi](j).1;
                    if r == old[j] {
                        stale_left += 1;
                    }
                }
                reexec += rt::EXEC.load(Ordering::SeqCst) - e0;
            }
            println!("HI|{}|{}|{}|{}|{}", fi, sp.name, reps * threads * 3, stale_left, reexec);
        }
    }
    // RECENCY under contention (C07 / C18): an async LRU cache with an entry limit holding two keys; one thread alternates hits on
    // them (ending with the second), another keeps the queue mutex busy with conditional invalidations that match nothing; once both
    // have finished the queue must list the key hit last AFTER the other one — a hit that skips its recency refresh when the queue
    // mutex is busy (try_lock) leaves the least recently used entry looking recent and the next overflow evicts the wrong one
    {
        let pool: Vec<_> = specs
            .iter()
            .filter(|s| s.is_async && !s.has_pred && s.ttl.is_none() && s.max_mem.is_none() && s.limit.map(|l| l >= 2).unwrap_or(false) && !s.is_result)
            .filter(|s| s.policy == "lru")
            .cloned()
            .collect();
        if let Some(sp) = pool.get(seed as usize % pool.len().max(1)).cloned() {
            let fi = sp.idx;
            let (k0, k1) = (corpus::KEYS[fi](0), corpus::KEYS[fi](1));
            let reps = (rounds / 2).max(100);
            let mut wrong = 0u64;
            for _rep in 0..reps {
                let _ = cachelito_core::invalidate_with(&sp.name, |_k| true);
                for j in 0..2usize {
                    rt::NEXT_TL.with(|n| n.set(Some(rt::Next { n: det_n(fi, j), ok: true, len: 4, ci: true, io: false })));
                    let _ = corpus::CALLS[fi](j);
                }
                let stop = Arc::new(std::sync::atomic::AtomicBool::new(false));
                let busy = {
                    let (stop, name) = (stop.clone(), sp.name.clone());
                    std::thread::spawn(move || {
                        while !stop.load(Ordering::Acquire) {
                            let _ = cachelito_core::invalidate_with(&name, |_k| false);
                        }
                    })
                };
                let hitter = std::thread::spawn(move || {
                    for i in 0..40usize {
                        let j = i % 2;
                        rt::NEXT_TL.with(|n| n.set(Some(rt::Next { n: det_n(fi, j), ok: true, len: 4, ci: true, io: false })));
                        let _ = corpus::CALLS[fi](j);
                    }
                });
                join_all(&mut vec![hitter], "recency-under-contention", fi, &sp.name);
                stop.store(true, Ordering::Release);
                join_all(&mut vec![busy], "recency-under-contention", fi, &sp.name);
                if let Some(d) = cachelito_core::verif::dump_global(&sp.name) {
                    let p0 = d.queue.iter().position(|k| *k == k0);
                    let p1 = d.queue.iter().position(|k| *k == k1);
                    // the last hit was on key 1 (i = 39), the one before on key 0
                    if !(p0.is_some() && p1.is_some() && p0 < p1) {
                        wrong += 1;
                    }
                }
            }
            println!("HL|{}|{}|{}|{}", fi, sp.name, reps * 40, wrong);
        }
    }
    // concurrent RESETS (C15): k lookups, then every thread calls `stats_registry::reset(name)` at once, then (no lookup in
    // between) the counters must read 0 / 0; then k lookups again must read exactly k.  A reset that is not one atomic
    // overwrite per counter (snapshot-and-subtract, read-modify-write) lets two overlapping resets wrap a counter.
    for sp in specs.iter().filter(|s| !s.thread && !s.has_pred && s.ttl.is_none()).take(2) {
        let fi = sp.idx;
        rt::NEXT_TL.with(|n| n.set(Some(rt::Next { n: 1, ok: true, len: 4, ci: true, io: false })));
        let _ = corpus::CALLS[fi](0);
        let mut bad = 0u64;
        let mut worst = String::new();
        let reps = (rounds * 8).max(3000);
        // persistent workers spinning on a generation counter, so that their resets really overlap
        let nw = threads.min(3).max(2);
        let gen = Arc::new(std::sync::atomic::AtomicU64::new(0));
        let done = Arc::new(std::sync::atomic::AtomicU64::new(0));
        let stopw = Arc::new(std::sync::atomic::AtomicBool::new(false));
        let mut hs = Vec::new();
        for _ in 0..nw {
            let (gen, done, stopw, name) = (gen.clone(), done.clone(), stopw.clone(), sp.name.clone());
            hs.push(std::thread::spawn(move || {
                let mut seen = 0u64;
                loop {
                    while gen.load(Ordering::Acquire) == seen {
                        if stopw.load(Ordering::Acquire) {
                            return;
                        }
                        std::hint::spin_loop();
                    }
                    seen += 1;
                    cachelito_core::stats_registry::reset(&name);
                    done.fetch_add(1, Ordering::AcqRel);
                }
            }));
        }
        for rep in 0..reps {
            let k = 1 + (rep % 3);
            for _ in 0..k {
                rt::NEXT_TL.with(|n| n.set(Some(rt::Next { n: 1, ok: true, len: 4, ci: true, io: false })));
                let _ = corpus::CALLS[fi](0);
            }
            gen.fetch_add(1, Ordering::AcqRel);
            while done.load(Ordering::Acquire) < (rep as u64 + 1) * nw as u64 {
                std::hint::spin_loop();
            }
            let st = verif_harness::l2::stats_of(&sp.name);
            if st != "0,0" {
                bad += 1;
                if worst.is_empty() {
                    worst = st.replace(',', "+");
                }
                cachelito_core::stats_registry::reset(&sp.name);
            }
        }
        stopw.store(true, Ordering::Release);
        join_all(&mut hs, "concurrent-resets", fi, &sp.name);
        println!("HR|{}|{}|{}|{}|{}", fi, sp.name, reps, bad, if worst.is_empty() { "-".to_string() } else { worst });
    }
    // memory-aware stores under contention (C05 / C18): every thread stores its own keys with values of about 60 % of
    // max_memory, so that no two of them fit; once all callers have returned the estimated total is within max_memory
    // and every stored key is tracked by the queue
    let mem: Vec<_> = specs
        .iter()
        .filter(|s| !s.thread && !s.has_pred && s.ttl.is_none() && !s.is_result && s.max_mem.map(|m| m >= 90).unwrap_or(false))
        .filter(|s| {
            // only return types whose estimate grows with the payload (String / Vec), or nothing would ever overflow
            rt::NEXT_TL.with(|n| n.set(Some(rt::Next { n: 1, ok: true, len: 200, ci: true, io: false })));
            corpus::WOULD[s.idx]().1 > 150
        })
        .cloned()
        .collect();
    let mut pick: Vec<_> = Vec::new();
    for want_async in [false, true] {
        let pool: Vec<_> = mem.iter().filter(|s| s.is_async == want_async).cloned().collect();
        if !pool.is_empty() {
            pick.push(pool[seed as usize % pool.len()].clone());
        }
    }
    for sp in pick {
        let fi = sp.idx;
        let m = sp.max_mem.unwrap();
        rt::NEXT_TL.with(|n| n.set(Some(rt::Next { n: 1, ok: true, len: 8, ci: true, io: false })));
        let _ = corpus::CALLS[fi](0);
        let _ = cachelito_core::invalidate_with(&sp.name, |_k| true);
        let barrier = Arc::new(Barrier::new(threads));
        let mut hs = Vec::new();
        let mut over = 0u64;
        let mut worst = 0usize;
        let mut incons = 0u64;
        let reps = (rounds / 8).max(10);
        for _rep in 0..reps {
            hs.clear();
            for t in 0..threads {
                let barrier = barrier.clone();
                hs.push(std::thread::spawn(move || {
                    barrier.wait();
                    for i in 0..3usize {
                        let j = (t * 3 + i) % 6;
                        // payload length so that the estimate is about 0.6 * max_memory (String/Vec: 24 bytes inline)
                        let len = (m * 6 / 10).saturating_sub(24).max(4);
                        rt::NEXT_TL.with(|n| n.set(Some(rt::Next { n: det_n(fi, j), ok: true, len, ci: true, io: false })));
                        let _ = corpus::CALLS[fi](j);
                    }
                }));
            }
            join_all(&mut hs, "memory-aware-stores", fi, &sp.name);
            if let Some(d) = cachelito_core::verif::dump_global(&sp.name) {
                let total: usize = d.entries.iter().map(|e| e.2).sum();
                if total > m {
                    over += 1;
                    worst = worst.max(total);
                }
                let q: std::collections::HashSet<&String> = d.queue.iter().collect();
                if d.entries.iter().any(|e| !q.contains(&e.0)) || d.queue.len() != q.len() {
                    incons += 1;
                }
            }
        }
        println!("HM|{}|{}|{}|{}|{}|{}|{}", fi, sp.name, reps * threads * 3, m, over, worst, incons);
    }
}
