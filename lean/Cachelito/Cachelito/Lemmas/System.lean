/-
  Lemmas about the system model (`Cachelito/System.lean`): lookup of cache instances, effect of every
  `sysStep` on every cache instance (frame lemmas), the registration set `called`, the targets of the
  registry operations, the per-cache invariant lifted to the system, and the exact shape of a
  conditional invalidation.

  Everything lives in `namespace Cachelito.SysLemmas` (several lemma files about `System.lean` are being
  written in parallel; the sub-namespace keeps the names apart).  Use `open Cachelito.SysLemmas`.
-/
import Cachelito.System
import Cachelito.Lemmas.Inv
import Cachelito.Lemmas.Order

set_option linter.unusedSectionVars false
set_option linter.unusedSimpArgs false
set_option linter.unusedVariables false

namespace Cachelito.SysLemmas
open Cachelito
variable {K V S : Type} [DecidableEq K]

/-! ### cache lookup -/

/-- the state of a cache instance nobody has touched yet, at clock `n` -/
def State.fresh (n : Nat) : State K V := { (State.init : State K V) with now := n }

theorem getCache_of_find_none {sys : Sys K V} {id : CacheId}
    (h : sys.caches.find? (fun p => p.1 = id) = none) : sys.getCache id = State.fresh sys.now := by
  unfold Sys.getCache; rw [h]; rfl

theorem getCache_of_find_some {sys : Sys K V} {id : CacheId} {p : CacheId × State K V}
    (h : sys.caches.find? (fun p => p.1 = id) = some p) : sys.getCache id = p.2 := by
  unfold Sys.getCache; rw [h]

/-- `getCache` only reads the instance table and the clock -/
theorem getCache_congr {a b : Sys K V} (hc : a.caches = b.caches) (hn : a.now = b.now) (id : CacheId) :
    a.getCache id = b.getCache id := by
  unfold Sys.getCache; rw [hc, hn]

theorem getCache_setCache_same (sys : Sys K V) (id : CacheId) (s : State K V) :
    (sys.setCache id s).getCache id = s := by
  simp [Sys.getCache, Sys.setCache]

theorem find_filter_ne (l : List (CacheId × State K V)) {id id' : CacheId} (h : id' ≠ id) :
    (l.filter (fun p => p.1 ≠ id)).find? (fun p => p.1 = id') = l.find? (fun p => p.1 = id') := by
  induction l with
  | nil => rfl
  | cons a l ih =>
    by_cases h1 : a.1 = id
    · have h2 : ¬ a.1 = id' := fun hh => h (hh ▸ h1)
      have e1 : decide (a.1 ≠ id) = false := by simp [h1]
      rw [List.filter_cons, e1, List.find?_cons]
      simp only [h2, decide_false, Bool.false_eq_true, if_false]
      exact ih
    · have e1 : decide (a.1 ≠ id) = true := by simp [h1]
      rw [List.filter_cons, e1, if_pos rfl, List.find?_cons, List.find?_cons, ih]

theorem getCache_setCache_ne (sys : Sys K V) {id id' : CacheId} (s : State K V) (h : id' ≠ id) :
    (sys.setCache id s).getCache id' = sys.getCache id' := by
  have h2 : ¬ id = id' := fun hh => h hh.symm
  simp only [Sys.getCache, Sys.setCache, List.find?_cons, h2, decide_false, find_filter_ne _ h]

theorem getCache_mapFn (sys : Sys K V) (i : Nat) (f : State K V → State K V)
    (hf : ∀ n, f (State.fresh n) = State.fresh n) (id : CacheId) :
    (sys.mapFn i f).getCache id =
      if id.fn = i ∧ id.thread = none then f (sys.getCache id) else sys.getCache id := by
  unfold Sys.getCache Sys.mapFn
  simp only [List.find?_map]
  have hcomp : ((fun p : CacheId × State K V => decide (p.1 = id)) ∘
      (fun p : CacheId × State K V => if p.1.fn = i ∧ p.1.thread = none then (p.1, f p.2) else p))
      = (fun p => decide (p.1 = id)) := by
    funext p; simp only [Function.comp]; split <;> rfl
  rw [hcomp]
  cases hfd : sys.caches.find? (fun p => p.1 = id) with
  | none =>
    simp only [Option.map_none]
    split
    · exact (hf sys.now).symm
    · rfl
  | some p =>
    have hp : p.1 = id := by simpa using List.find?_some hfd
    simp only [Option.map_some]
    subst hp
    split <;> rfl

@[simp] theorem mapFn_now (sys : Sys K V) (i : Nat) (f : State K V → State K V) : (sys.mapFn i f).now = sys.now := rfl
@[simp] theorem mapFn_called (sys : Sys K V) (i : Nat) (f : State K V → State K V) :
    (sys.mapFn i f).called = sys.called := rfl

theorem mapFn_id (sys : Sys K V) (i : Nat) : sys.mapFn i (fun s => s) = sys := by
  unfold Sys.mapFn
  have : (fun p : CacheId × State K V => if p.1.fn = i ∧ p.1.thread = none then (p.1, p.2) else p) = id := by
    funext p; simp
  rw [this, List.map_id]

theorem foldl_mapFn_called (g : Nat → State K V → State K V) (ts : List Nat) (sys : Sys K V) :
    (ts.foldl (fun sy j => sy.mapFn j (g j)) sys).called = sys.called ∧
    (ts.foldl (fun sy j => sy.mapFn j (g j)) sys).now = sys.now := by
  induction ts generalizing sys with
  | nil => exact ⟨rfl, rfl⟩
  | cons j ts ih => simp only [List.foldl_cons]; exact ih _

/-- applying per-function updates `g j` to the global/async instances of the functions in `ts`
    (each listed once): an instance is updated iff it is the shared instance of a listed function -/
theorem getCache_foldl_mapFn (g : Nat → State K V → State K V) (hg : ∀ j n, g j (State.fresh n) = State.fresh n)
    (ts : List Nat) (hnd : ts.Nodup) (sys : Sys K V) (id : CacheId) :
    (ts.foldl (fun sy j => sy.mapFn j (g j)) sys).getCache id =
      if id.thread = none ∧ id.fn ∈ ts then g id.fn (sys.getCache id) else sys.getCache id := by
  induction ts generalizing sys with
  | nil => simp
  | cons j ts ih =>
    simp only [List.foldl_cons]
    have hn := List.nodup_cons.mp hnd
    rw [ih hn.2, getCache_mapFn _ _ _ (hg j)]
    by_cases ht : id.thread = none
    · by_cases hj : id.fn = j
      · have hnot : id.fn ∉ ts := hj ▸ hn.1
        simp [ht, hj, hnot, hn.1]
      · by_cases hm : id.fn ∈ ts <;> simp [ht, hj, hm]
    · simp [ht]

theorem getCache_foldl_mapFn_pos (g : Nat → State K V → State K V)
    (hg : ∀ j n, g j (State.fresh n) = State.fresh n) (ts : List Nat) (hnd : ts.Nodup) (sys : Sys K V)
    (id : CacheId) (h : id.thread = none ∧ id.fn ∈ ts) :
    (ts.foldl (fun sy j => sy.mapFn j (g j)) sys).getCache id = g id.fn (sys.getCache id) := by
  rw [getCache_foldl_mapFn g hg ts hnd, if_pos h]

theorem getCache_foldl_mapFn_neg (g : Nat → State K V → State K V)
    (hg : ∀ j n, g j (State.fresh n) = State.fresh n) (ts : List Nat) (hnd : ts.Nodup) (sys : Sys K V)
    (id : CacheId) (h : ¬ (id.thread = none ∧ id.fn ∈ ts)) :
    (ts.foldl (fun sy j => sy.mapFn j (g j)) sys).getCache id = sys.getCache id := by
  rw [getCache_foldl_mapFn g hg ts hnd, if_neg h]

/-! ### registration predicates and the targets of the registry operations -/

/-- the function declares at least one tag, event or dependency -/
def HasMeta (spec : FnSpec) : Prop := spec.tags ≠ [] ∨ spec.events ≠ [] ∨ spec.deps ≠ []

/-- function `i` exists, is global or async, and its first call has happened -/
def Registered (fns : List FnSpec) (sys : Sys K V) (i : Nat) : Prop :=
  ∃ spec, fns[i]? = some spec ∧ spec.threadScope = false ∧ i ∈ sys.called

/-- function `i` is registered, declares metadata, and is selected by `sel` -/
def IsTarget (fns : List FnSpec) (sys : Sys K V) (sel : FnSpec → Bool) (i : Nat) : Prop :=
  ∃ spec, fns[i]? = some spec ∧ spec.threadScope = false ∧ i ∈ sys.called ∧ HasMeta spec ∧ sel spec = true

/-- function `i` is registered and selected by `sel` (conditional invalidation, statistics) -/
def IsRegTarget (fns : List FnSpec) (sys : Sys K V) (sel : FnSpec → Bool) (i : Nat) : Prop :=
  ∃ spec, fns[i]? = some spec ∧ spec.threadScope = false ∧ i ∈ sys.called ∧ sel spec = true

theorem isRegistered_iff (fns : List FnSpec) (sys : Sys K V) (i : Nat) :
    isRegistered fns sys i = true ↔ Registered fns sys i := by
  unfold isRegistered Registered
  cases h : fns[i]? with
  | none => simp
  | some spec => simp [and_comm]

theorem hasClearCallback_iff (fns : List FnSpec) (sys : Sys K V) (i : Nat) :
    hasClearCallback fns sys i = true ↔
      ∃ spec, fns[i]? = some spec ∧ spec.threadScope = false ∧ i ∈ sys.called ∧ HasMeta spec := by
  unfold hasClearCallback HasMeta
  cases h : fns[i]? with
  | none => simp
  | some spec =>
    simp only [Option.some.injEq, exists_eq_left', Bool.and_eq_true, List.contains_eq_mem, decide_eq_true_eq,
      Bool.not_eq_true', Bool.and_eq_false_iff, List.isEmpty_iff, Bool.not_eq_eq_eq_not, Bool.not_true,
      Bool.not_eq_true, ne_eq]
    constructor
    · rintro ⟨⟨h1, h2⟩, h3⟩
      refine ⟨h2, h1, ?_⟩
      by_cases ht : spec.tags = []
      · by_cases he : spec.events = []
        · right; right; intro hd; simp [ht, he, hd] at h3
        · right; left; exact he
      · left; exact ht
    · rintro ⟨h2, h1, h3⟩
      refine ⟨⟨h1, h2⟩, ?_⟩
      rcases h3 with h3 | h3 | h3
      · cases hh : spec.tags with
        | nil => exact absurd hh h3
        | cons a l => simp
      · cases hh : spec.events with
        | nil => exact absurd hh h3
        | cons a l => simp
      · cases hh : spec.deps with
        | nil => exact absurd hh h3
        | cons a l => simp

/-- indices of registered functions selected by `sel` — the list `sysStep` folds over for
    `invalidateWith`, `invalidateAllWith`, `statsGet`, `statsReset` -/
def regTargets (fns : List FnSpec) (sys : Sys K V) (sel : FnSpec → Bool) : List Nat :=
  (List.range fns.length).filter (fun i =>
    isRegistered fns sys i && (match fns[i]? with | some spec => sel spec | none => false))

theorem lt_length_of_getElem? {fns : List FnSpec} {i : Nat} {spec : FnSpec} (h : fns[i]? = some spec) :
    i < fns.length := by
  apply Classical.byContradiction; intro hn
  rw [List.getElem?_eq_none (by omega)] at h; cases h

theorem mem_clearTargets (fns : List FnSpec) (sys : Sys K V) (sel : FnSpec → Bool) (i : Nat) :
    i ∈ clearTargets fns sys sel ↔ IsTarget fns sys sel i := by
  unfold clearTargets IsTarget
  simp only [List.mem_filter, List.mem_range, Bool.and_eq_true, hasClearCallback_iff]
  constructor
  · rintro ⟨_, ⟨spec, h1, h2, h3, h4⟩, h5⟩
    rw [h1] at h5
    exact ⟨spec, h1, h2, h3, h4, h5⟩
  · rintro ⟨spec, h1, h2, h3, h4, h5⟩
    refine ⟨lt_length_of_getElem? h1, ⟨spec, h1, h2, h3, h4⟩, ?_⟩
    rw [h1]; exact h5

theorem mem_regTargets (fns : List FnSpec) (sys : Sys K V) (sel : FnSpec → Bool) (i : Nat) :
    i ∈ regTargets fns sys sel ↔ IsRegTarget fns sys sel i := by
  unfold regTargets IsRegTarget
  simp only [List.mem_filter, List.mem_range, Bool.and_eq_true, isRegistered_iff, Registered]
  constructor
  · rintro ⟨_, ⟨spec, h1, h2, h3⟩, h5⟩
    rw [h1] at h5
    exact ⟨spec, h1, h2, h3, h5⟩
  · rintro ⟨spec, h1, h2, h3, h5⟩
    refine ⟨lt_length_of_getElem? h1, ⟨spec, h1, h2, h3⟩, ?_⟩
    rw [h1]; exact h5

theorem clearTargets_nodup (fns : List FnSpec) (sys : Sys K V) (sel : FnSpec → Bool) :
    (clearTargets fns sys sel).Nodup := List.Pairwise.filter _ List.nodup_range

theorem regTargets_nodup (fns : List FnSpec) (sys : Sys K V) (sel : FnSpec → Bool) :
    (regTargets fns sys sel).Nodup := List.Pairwise.filter _ List.nodup_range

/-- the targets depend on the system only through the registration set -/
theorem clearTargets_congr (fns : List FnSpec) {a b : Sys K V} (h : a.called = b.called) (sel : FnSpec → Bool) :
    clearTargets fns a sel = clearTargets fns b sel := by
  unfold clearTargets hasClearCallback; rw [h]

theorem regTargets_congr (fns : List FnSpec) {a b : Sys K V} (h : a.called = b.called) (sel : FnSpec → Bool) :
    regTargets fns a sel = regTargets fns b sel := by
  unfold regTargets isRegistered; rw [h]

/-- with pairwise distinct names, a name identifies at most one function -/
theorem index_unique_of_name {fns : List FnSpec} (hn : (fns.map (·.name)).Nodup) {i j : Nat} {a b : FnSpec}
    (hi : fns[i]? = some a) (hj : fns[j]? = some b) (hab : a.name = b.name) : i = j := by
  have hi' : (fns.map (·.name))[i]? = some a.name := by rw [List.getElem?_map, hi]; rfl
  have hj' : (fns.map (·.name))[j]? = some a.name := by rw [List.getElem?_map, hj, hab]; rfl
  exact (List.getElem?_inj (by
    have := lt_length_of_getElem? hi; simpa using this) hn).mp (hi'.trans hj'.symm)

/-! ### what each `sysStep` does -/

theorem clear_fresh (n : Nat) : clear (State.fresh n : State K V) = State.fresh n := rfl

theorem invalidateWith_fresh (p : K → Bool) (n : Nat) :
    invalidateWith p (State.fresh n : State K V) = State.fresh n := rfl

theorem getCache_clearAll (sys : Sys K V) (ts : List Nat) (hnd : ts.Nodup) (id : CacheId) :
    (clearAll sys ts).getCache id =
      if id.thread = none ∧ id.fn ∈ ts then clear (sys.getCache id) else sys.getCache id :=
  getCache_foldl_mapFn (fun _ => clear) (fun _ n => clear_fresh n) ts hnd sys id

theorem clearAll_called (sys : Sys K V) (ts : List Nat) :
    (clearAll sys ts).called = sys.called ∧ (clearAll sys ts).now = sys.now :=
  foldl_mapFn_called (fun _ => clear) ts sys

theorem clearAll_nil (sys : Sys K V) : clearAll sys [] = sys := rfl

/-- the selector of the four group invalidations -/
def groupSel : SysOp K V → Option (FnSpec → Bool)
  | .invalidateByTag t => some (fun spec => spec.tags.contains t)
  | .invalidateByEvent e => some (fun spec => spec.events.contains e)
  | .invalidateByDependency d => some (fun spec => spec.deps.contains d)
  | .invalidateCache name => some (fun spec => spec.name = name)
  | _ => none

theorem sysStep_group (fns : List FnSpec) (tls : Nat → Tlru S) (size : V → Nat) (isOk : V → Bool) (rs : List Nat)
    (sys : Sys K V) {op : SysOp K V} {sel : FnSpec → Bool} (h : groupSel op = some sel) :
    (sysStep fns tls size isOk rs sys op).1 = clearAll sys (clearTargets fns sys sel) := by
  cases op <;> simp only [groupSel, Option.some.injEq, reduceCtorEq] at h <;> subst h <;> rfl

theorem sysStep_call_none (fns : List FnSpec) (tls : Nat → Tlru S) (size : V → Nat) (isOk : V → Bool) (rs : List Nat)
    (sys : Sys K V) (fn th : Nat) (c : CallIn K V) (h : fns[fn]? = none) :
    sysStep fns tls size isOk rs sys (.call fn th c) = (sys, .noSuchFn) := by
  simp only [sysStep, h]

/-- a call: its own cache instance moves by `callFn`, the output is `callFn`'s value and trace -/
theorem sysStep_call (fns : List FnSpec) (tls : Nat → Tlru S) (size : V → Nat) (isOk : V → Bool) (rs : List Nat)
    (sys : Sys K V) (fn th : Nat) (c : CallIn K V) {spec : FnSpec} (h : fns[fn]? = some spec) :
    let r := callFn spec (tls fn) size isOk rs (sys.getCache (cacheIdOf spec fn th)) c
    let st := sysStep fns tls size isOk rs sys (.call fn th c)
    st.2 = .ret r.2.1 r.2.2 ∧
    st.1.getCache (cacheIdOf spec fn th) = r.1 ∧
    (∀ id, id ≠ cacheIdOf spec fn th → st.1.getCache id = sys.getCache id) ∧
    st.1.now = sys.now ∧
    (∀ i, i ∈ st.1.called ↔ i ∈ sys.called ∨ (i = fn ∧ spec.threadScope = false)) := by
  intro r st
  have hst : st = (if spec.threadScope || (sys.setCache (cacheIdOf spec fn th) r.1).called.contains fn
      then sys.setCache (cacheIdOf spec fn th) r.1
      else { sys.setCache (cacheIdOf spec fn th) r.1 with
              called := fn :: (sys.setCache (cacheIdOf spec fn th) r.1).called }, .ret r.2.1 r.2.2) := by
    simp only [st, sysStep, h]; rfl
  rw [hst]
  refine ⟨rfl, ?_, ?_, ?_, ?_⟩
  · simp only
    split
    · exact getCache_setCache_same _ _ _
    · exact (getCache_congr rfl rfl _).trans (getCache_setCache_same _ _ _)
  · intro id hid
    simp only
    split
    · exact getCache_setCache_ne _ _ hid
    · exact (getCache_congr rfl rfl _).trans (getCache_setCache_ne _ _ hid)
  · simp only; split <;> rfl
  · intro i
    simp only
    have hc : (sys.setCache (cacheIdOf spec fn th) r.1).called = sys.called := rfl
    by_cases hts : spec.threadScope = true
    · simp [hts, hc]
    · by_cases hm : fn ∈ sys.called
      · simp only [hc, hts, List.contains_eq_mem, hm, decide_true, Bool.or_true, if_true]
        constructor
        · intro hh; exact Or.inl hh
        · rintro (hh | ⟨hh, _⟩)
          · exact hh
          · exact hh ▸ hm
      · simp only [hc, hts, List.contains_eq_mem, hm, decide_false, Bool.or_false, Bool.false_eq_true, if_false,
          List.mem_cons]
        constructor
        · rintro (hh | hh)
          · exact Or.inr ⟨hh, by simp [hts]⟩
          · exact Or.inl hh
        · rintro (hh | ⟨hh, _⟩)
          · exact Or.inr hh
          · exact Or.inl hh

theorem sysStep_tick (fns : List FnSpec) (tls : Nat → Tlru S) (size : V → Nat) (isOk : V → Bool) (rs : List Nat)
    (sys : Sys K V) (ms : Nat) :
    let st := sysStep fns tls size isOk rs sys (.tick ms)
    (∀ id, st.1.getCache id = { sys.getCache id with now := (sys.getCache id).now + ms }) ∧
    st.1.called = sys.called ∧ st.1.now = sys.now + ms ∧ st.2 = .unit := by
  refine ⟨?_, rfl, rfl, rfl⟩
  intro id
  simp only [sysStep, Sys.getCache, List.find?_map]
  have hcomp : ((fun p : CacheId × State K V => decide (p.1 = id)) ∘
      (fun p : CacheId × State K V => (p.1, { p.2 with now := p.2.now + ms }))) = (fun p => decide (p.1 = id)) := by
    funext p; rfl
  rw [hcomp]
  cases sys.caches.find? (fun p => p.1 = id) <;> rfl

/-- all registered functions -/
def regAll (fns : List FnSpec) (sys : Sys K V) : List Nat :=
  (List.range fns.length).filter (fun i => isRegistered fns sys i)

theorem mem_regAll (fns : List FnSpec) (sys : Sys K V) (i : Nat) : i ∈ regAll fns sys ↔ Registered fns sys i := by
  unfold regAll
  simp only [List.mem_filter, List.mem_range, isRegistered_iff]
  constructor
  · exact fun h => h.2
  · rintro ⟨spec, h1, h2, h3⟩
    exact ⟨lt_length_of_getElem? h1, spec, h1, h2, h3⟩

theorem regAll_nodup (fns : List FnSpec) (sys : Sys K V) : (regAll fns sys).Nodup :=
  List.Pairwise.filter _ List.nodup_range

/-- the per-function update of `invalidate_all_with` -/
def allWith (fns : List FnSpec) (p : String → K → Bool) (i : Nat) : State K V → State K V :=
  match fns[i]? with
  | some spec => invalidateWith (p spec.name)
  | none => fun s => s

theorem allWith_fresh (fns : List FnSpec) (p : String → K → Bool) (i n : Nat) :
    allWith fns p i (State.fresh n : State K V) = State.fresh n := by
  unfold allWith; cases fns[i]? <;> rfl

theorem sysStep_invalidateWith (fns : List FnSpec) (tls : Nat → Tlru S) (size : V → Nat) (isOk : V → Bool)
    (rs : List Nat) (sys : Sys K V) (name : String) (p : K → Bool) :
    sysStep fns tls size isOk rs sys (.invalidateWith name p) =
      ((regTargets fns sys (fun spec => spec.name = name)).foldl (fun sy i => sy.mapFn i (invalidateWith p)) sys,
       .flag (!(regTargets fns sys (fun spec => spec.name = name)).isEmpty)) := rfl

theorem sysStep_invalidateAllWith (fns : List FnSpec) (tls : Nat → Tlru S) (size : V → Nat) (isOk : V → Bool)
    (rs : List Nat) (sys : Sys K V) (p : String → K → Bool) :
    sysStep fns tls size isOk rs sys (.invalidateAllWith p) =
      ((regAll fns sys).foldl (fun sy i => sy.mapFn i (allWith fns p i)) sys, .count (regAll fns sys).length) := by
  simp only [sysStep]; unfold regAll
  congr 2
  funext sy i
  unfold allWith
  cases h : fns[i]? with
  | none => exact (mapFn_id sy i).symm
  | some spec => rfl

theorem sysStep_statsGet (fns : List FnSpec) (tls : Nat → Tlru S) (size : V → Nat) (isOk : V → Bool)
    (rs : List Nat) (sys : Sys K V) (name : String) :
    (sysStep fns tls size isOk rs sys (.statsGet name)).1 = sys := by
  simp only [sysStep]; split <;> rfl

theorem statsReset_fresh (n : Nat) :
    (fun s : State K V => { s with hitStat := 0, missStat := 0 }) (State.fresh n) = State.fresh n := rfl

theorem sysStep_statsReset (fns : List FnSpec) (tls : Nat → Tlru S) (size : V → Nat) (isOk : V → Bool)
    (rs : List Nat) (sys : Sys K V) (name : String) :
    sysStep fns tls size isOk rs sys (.statsReset name) =
      ((regTargets fns sys (fun spec => spec.name = name)).foldl
          (fun sy i => sy.mapFn i (fun s => { s with hitStat := 0, missStat := 0 })) sys,
       .flag (!(regTargets fns sys (fun spec => spec.name = name)).isEmpty)) := rfl

/-! ### the registration set -/

/-- only calls register anything -/
theorem sysStep_called_of_not_call (fns : List FnSpec) (tls : Nat → Tlru S) (size : V → Nat) (isOk : V → Bool)
    (rs : List Nat) (sys : Sys K V) (op : SysOp K V) (h : ∀ fn th c, op ≠ .call fn th c) :
    (sysStep fns tls size isOk rs sys op).1.called = sys.called := by
  cases op with
  | call fn th c => exact absurd rfl (h fn th c)
  | tick ms => rfl
  | invalidateByTag t => exact (clearAll_called _ _).1
  | invalidateByEvent t => exact (clearAll_called _ _).1
  | invalidateByDependency t => exact (clearAll_called _ _).1
  | invalidateCache t => exact (clearAll_called _ _).1
  | invalidateWith name p => rw [sysStep_invalidateWith]; exact (foldl_mapFn_called _ _ _).1
  | invalidateAllWith p => rw [sysStep_invalidateAllWith]; exact (foldl_mapFn_called _ _ _).1
  | statsGet name => rw [sysStep_statsGet]
  | statsReset name => rw [sysStep_statsReset]; exact (foldl_mapFn_called _ _ _).1

theorem mem_called_sysStep (fns : List FnSpec) (tls : Nat → Tlru S) (size : V → Nat) (isOk : V → Bool)
    (rs : List Nat) (sys : Sys K V) (op : SysOp K V) (i : Nat) :
    i ∈ (sysStep fns tls size isOk rs sys op).1.called ↔
      i ∈ sys.called ∨ ∃ th c spec, op = .call i th c ∧ fns[i]? = some spec ∧ spec.threadScope = false := by
  by_cases hc : ∃ fn th c, op = .call fn th c
  · obtain ⟨fn, th, c, rfl⟩ := hc
    cases hs : fns[fn]? with
    | none =>
      rw [sysStep_call_none _ _ _ _ _ _ _ _ _ hs]
      constructor
      · exact Or.inl
      · rintro (h | ⟨th', c', spec, h1, h2, _⟩)
        · exact h
        · cases h1; rw [hs] at h2; cases h2
    | some spec =>
      rw [(sysStep_call fns tls size isOk rs sys fn th c hs).2.2.2.2 i]
      constructor
      · rintro (h | ⟨h1, h2⟩)
        · exact Or.inl h
        · subst h1; exact Or.inr ⟨th, c, spec, rfl, hs, h2⟩
      · rintro (h | ⟨th', c', spec', h1, h2, h3⟩)
        · exact Or.inl h
        · cases h1; rw [hs] at h2; cases h2; exact Or.inr ⟨rfl, h3⟩
  · have hn : ∀ fn th c, op ≠ .call fn th c := fun fn th c hh => hc ⟨fn, th, c, hh⟩
    rw [sysStep_called_of_not_call _ _ _ _ _ _ _ hn]
    constructor
    · exact Or.inl
    · rintro (h | ⟨th, c, spec, h1, _⟩)
      · exact h
      · exact absurd h1 (hn _ _ _)

/-- **Characterisation of the registration set**: after a history, `i` is registered iff it was
    registered before or the history contains a call of `i` and `i` is an existing global/async function. -/
theorem mem_called_sysRun (fns : List FnSpec) (tls : Nat → Tlru S) (size : V → Nat) (isOk : V → Bool)
    (sys : Sys K V) (ops : List (SysOp K V × List Nat)) (i : Nat) :
    i ∈ (sysRun fns tls size isOk sys ops).1.called ↔
      i ∈ sys.called ∨
      ∃ th c rs spec, (SysOp.call i th c, rs) ∈ ops ∧ fns[i]? = some spec ∧ spec.threadScope = false := by
  induction ops generalizing sys with
  | nil => simp [sysRun]
  | cons a ops ih =>
    obtain ⟨op, rs⟩ := a
    simp only [sysRun]
    rw [ih, mem_called_sysStep]
    constructor
    · rintro ((h | ⟨th, c, spec, h1, h2, h3⟩) | ⟨th, c, rs', spec, h1, h2, h3⟩)
      · exact Or.inl h
      · exact Or.inr ⟨th, c, rs, spec, by rw [h1]; exact List.mem_cons_self, h2, h3⟩
      · exact Or.inr ⟨th, c, rs', spec, List.mem_cons_of_mem _ h1, h2, h3⟩
    · rintro (h | ⟨th, c, rs', spec, h1, h2, h3⟩)
      · exact Or.inl (Or.inl h)
      · rcases List.mem_cons.mp h1 with h1 | h1
        · cases h1; exact Or.inl (Or.inr ⟨th, c, spec, rfl, h2, h3⟩)
        · exact Or.inr ⟨th, c, rs', spec, h1, h2, h3⟩

/-! ### frame: which cache instances an operation can change -/

/-- the cache instances an operation is addressed to -/
def Addresses (fns : List FnSpec) (sys : Sys K V) : SysOp K V → CacheId → Prop
  | .call fn th _, id => ∃ spec, fns[fn]? = some spec ∧ id = cacheIdOf spec fn th
  | .tick _, _ => False
  | .invalidateByTag t, id => id.thread = none ∧ IsTarget fns sys (fun spec => spec.tags.contains t) id.fn
  | .invalidateByEvent e, id => id.thread = none ∧ IsTarget fns sys (fun spec => spec.events.contains e) id.fn
  | .invalidateByDependency d, id => id.thread = none ∧ IsTarget fns sys (fun spec => spec.deps.contains d) id.fn
  | .invalidateCache name, id => id.thread = none ∧ IsTarget fns sys (fun spec => spec.name = name) id.fn
  | .invalidateWith name _, id => id.thread = none ∧ IsRegTarget fns sys (fun spec => spec.name = name) id.fn
  | .invalidateAllWith _, id => id.thread = none ∧ Registered fns sys id.fn
  | .statsGet _, _ => False
  | .statsReset name, id => id.thread = none ∧ IsRegTarget fns sys (fun spec => spec.name = name) id.fn

/-- the time an operation lets pass -/
def tickOf : SysOp K V → Nat
  | .tick ms => ms
  | _ => 0

/-- **Frame lemma.**  An operation leaves every cache instance it is not addressed to unchanged, except
    that a `tick` advances its clock. -/
theorem sysStep_frame (fns : List FnSpec) (tls : Nat → Tlru S) (size : V → Nat) (isOk : V → Bool)
    (rs : List Nat) (sys : Sys K V) (op : SysOp K V) (id : CacheId) (h : ¬ Addresses fns sys op id) :
    (sysStep fns tls size isOk rs sys op).1.getCache id =
      { sys.getCache id with now := (sys.getCache id).now + tickOf op } := by
  have grp : ∀ sel, ¬ (id.thread = none ∧ IsTarget fns sys sel id.fn) →
      (clearAll sys (clearTargets fns sys sel)).getCache id = sys.getCache id := by
    intro sel hh
    exact getCache_foldl_mapFn_neg (fun _ => clear) (fun _ n => clear_fresh n) _ (clearTargets_nodup fns sys sel)
      sys id (by rw [mem_clearTargets]; exact hh)
  cases op with
  | call fn th c =>
    cases hs : fns[fn]? with
    | none => rw [sysStep_call_none _ _ _ _ _ _ _ _ _ hs]; rfl
    | some spec =>
      have hne : id ≠ cacheIdOf spec fn th := fun hh => h ⟨spec, hs, hh⟩
      exact (sysStep_call fns tls size isOk rs sys fn th c hs).2.2.1 id hne
  | tick ms => exact (sysStep_tick fns tls size isOk rs sys ms).1 id
  | invalidateByTag t => exact grp _ h
  | invalidateByEvent t => exact grp _ h
  | invalidateByDependency t => exact grp _ h
  | invalidateCache t => exact grp _ h
  | invalidateWith name p =>
    rw [sysStep_invalidateWith]
    exact getCache_foldl_mapFn_neg (fun _ => invalidateWith p) (fun _ n => invalidateWith_fresh p n) _
      (regTargets_nodup _ _ _) sys id (by rw [mem_regTargets]; exact h)
  | invalidateAllWith p =>
    rw [sysStep_invalidateAllWith]
    exact getCache_foldl_mapFn_neg (allWith fns p) (allWith_fresh fns p) _ (regAll_nodup _ _) sys id
      (by rw [mem_regAll]; exact h)
  | statsGet name => rw [sysStep_statsGet]; rfl
  | statsReset name =>
    rw [sysStep_statsReset]
    exact getCache_foldl_mapFn_neg (fun _ s => { s with hitStat := 0, missStat := 0 })
      (fun _ n => statsReset_fresh n) _ (regTargets_nodup _ _ _) sys id (by rw [mem_regTargets]; exact h)

/-- **Shape lemma.**  Whatever the operation, every cache instance either stays as it is (with its clock
    advanced by a `tick`), is cleared, is conditionally invalidated, has its statistics reset, or is the
    instance of the called function and moves by `callFn`. -/
theorem sysStep_shape (fns : List FnSpec) (tls : Nat → Tlru S) (size : V → Nat) (isOk : V → Bool)
    (rs : List Nat) (sys : Sys K V) (op : SysOp K V) (id : CacheId) :
    let s := sys.getCache id
    let s' := (sysStep fns tls size isOk rs sys op).1.getCache id
    s' = { s with now := s.now + tickOf op } ∨ s' = clear s ∨ (∃ p, s' = invalidateWith p s) ∨
      s' = { s with hitStat := 0, missStat := 0 } ∨
      ∃ fn th c spec, op = .call fn th c ∧ fns[fn]? = some spec ∧ id = cacheIdOf spec fn th ∧
        s' = (callFn spec (tls fn) size isOk rs s c).1 := by
  intro s s'
  by_cases h : Addresses fns sys op id
  · have grp : ∀ sel, (id.thread = none ∧ IsTarget fns sys sel id.fn) →
        (clearAll sys (clearTargets fns sys sel)).getCache id = clear (sys.getCache id) := by
      intro sel hh
      exact getCache_foldl_mapFn_pos (fun _ => clear) (fun _ n => clear_fresh n) _ (clearTargets_nodup fns sys sel)
        sys id (by rw [mem_clearTargets]; exact hh)
    cases op with
    | call fn th c =>
      obtain ⟨spec, hs, hid⟩ := h
      right; right; right; right
      refine ⟨fn, th, c, spec, rfl, hs, hid, ?_⟩
      have := (sysStep_call fns tls size isOk rs sys fn th c hs).2.1
      simp only [s', s]; rw [hid]; exact this
    | tick ms => exact absurd h (fun x => x)
    | invalidateByTag t => right; left; exact grp _ h
    | invalidateByEvent t => right; left; exact grp _ h
    | invalidateByDependency t => right; left; exact grp _ h
    | invalidateCache t => right; left; exact grp _ h
    | invalidateWith name p =>
      right; right; left; refine ⟨p, ?_⟩
      simp only [s', s]
      rw [sysStep_invalidateWith]
      exact getCache_foldl_mapFn_pos (fun _ => invalidateWith p) (fun _ n => invalidateWith_fresh p n) _
        (regTargets_nodup _ _ _) sys id (by rw [mem_regTargets]; exact h)
    | invalidateAllWith p =>
      obtain ⟨h1, spec, h2, h3, h4⟩ := h
      right; right; left; refine ⟨p spec.name, ?_⟩
      simp only [s', s]
      rw [sysStep_invalidateAllWith]
      have := getCache_foldl_mapFn_pos (allWith fns p) (allWith_fresh fns p) _ (regAll_nodup fns sys) sys id
        (by rw [mem_regAll]; exact ⟨h1, spec, h2, h3, h4⟩)
      rw [this]; unfold allWith; rw [h2]
    | statsGet name => exact absurd h (fun x => x)
    | statsReset name =>
      right; right; right; left
      simp only [s', s]
      rw [sysStep_statsReset]
      exact getCache_foldl_mapFn_pos (fun _ s => { s with hitStat := 0, missStat := 0 })
        (fun _ n => statsReset_fresh n) _ (regTargets_nodup _ _ _) sys id (by rw [mem_regTargets]; exact h)
  · left; exact sysStep_frame fns tls size isOk rs sys op id h

/-! ### the generated function on one cache -/

/-- the generated function keeps the store/queue invariant of its cache: it is a lookup followed by at
    most one store -/
theorem callFn_inv (spec : FnSpec) (tl : Tlru S) (size : V → Nat) (isOk : V → Bool) (rs : List Nat)
    (s : State K V) (c : CallIn K V) (h : Inv s) : Inv (callFn spec tl size isOk rs s c).1 := by
  unfold callFn
  have h1 := get_inv spec.cfg s c.key h
  generalize get spec.cfg s c.key = r at h1
  obtain ⟨s1, o⟩ := r
  simp only at h1 ⊢
  have hins : Inv (if spec.useMem then insertMem spec.cfg tl size rs s1 c.key c.bodyVal
      else insert spec.cfg tl (rs.headD 0) s1 c.key c.bodyVal) := by
    split
    · exact insertMem_inv _ _ _ _ _ _ _ h1
    · exact insert_inv _ _ _ _ _ _ h1
  cases o with
  | none => simp only; split <;> assumption
  | some cached =>
    simp only
    split
    · split
      · split <;> assumption
      · exact h1
    · exact h1

/-- **A call on an empty store runs the body**: whatever the arguments, the lookup misses, the body's
    value is returned and the trace records the body execution. -/
theorem callFn_of_store_nil (spec : FnSpec) (tl : Tlru S) (size : V → Nat) (isOk : V → Bool) (rs : List Nat)
    (s : State K V) (c : CallIn K V) (h : s.store = []) :
    (callFn spec tl size isOk rs s c).2.1 = c.bodyVal ∧
    TraceEv.bodyRun ∈ (callFn spec tl size isOk rs s c).2.2 ∧
    TraceEv.returned c.bodyVal false ∈ (callFn spec tl size isOk rs s c).2.2 := by
  unfold callFn
  have hg : get spec.cfg s c.key = ({ s with missStat := s.missStat + 1 }, none) := by
    unfold get; rw [h]; rfl
  rw [hg]
  simp only
  split <;> simp

/-! ### the per-cache invariant, system-wide -/

/-- every cache instance (touched or not) satisfies the store/queue invariant -/
def SysInv (sys : Sys K V) : Prop := ∀ id, Inv (sys.getCache id)

theorem inv_fresh (n : Nat) : Inv (State.fresh n : State K V) := by
  simp [Inv, InvMQ, State.fresh, State.init]

theorem sysInv_init : SysInv (Sys.init : Sys K V) := by
  intro id; exact inv_fresh 0

theorem sysStep_inv (fns : List FnSpec) (tls : Nat → Tlru S) (size : V → Nat) (isOk : V → Bool)
    (rs : List Nat) (sys : Sys K V) (op : SysOp K V) (h : SysInv sys) :
    SysInv (sysStep fns tls size isOk rs sys op).1 := by
  intro id
  have hi := h id
  rcases sysStep_shape fns tls size isOk rs sys op id with e | e | ⟨p, e⟩ | e | ⟨fn, th, c, spec, _, _, _, e⟩
  · rw [e]; exact hi
  · rw [e]; exact clear_inv _
  · rw [e]; exact invalidateWith_inv p _ hi
  · rw [e]; exact hi
  · rw [e]; exact callFn_inv _ _ _ _ _ _ _ hi

theorem sysRun_inv (fns : List FnSpec) (tls : Nat → Tlru S) (size : V → Nat) (isOk : V → Bool)
    (sys : Sys K V) (ops : List (SysOp K V × List Nat)) (h : SysInv sys) :
    SysInv (sysRun fns tls size isOk sys ops).1 := by
  induction ops generalizing sys with
  | nil => exact h
  | cons a ops ih =>
    obtain ⟨op, rs⟩ := a
    simp only [sysRun]
    exact ih _ (sysStep_inv fns tls size isOk rs sys op h)

/-! ### exact shape of a conditional invalidation -/

/-- under the invariant the queue clean-up of the callback (erase the first occurrence of every removed
    key) is the order-preserving filter of the queue -/
theorem invalidateWith_eq (p : K → Bool) (s : State K V) (h : Inv s) :
    invalidateWith p s =
      { s with store := s.store.filter (fun e => !p e.1), queue := s.queue.filter (fun k => !p k) } := by
  unfold invalidateWith
  simp only
  rw [foldl_erase_eq_filter _ h.2.1]
  congr 1
  apply List.filter_congr
  intro x hx
  have hk : x ∈ keys s.store := (h.2.2 x).mp hx
  simp [List.contains_eq_mem, List.mem_filter, hk]

theorem invalidateWith_store (p : K → Bool) (s : State K V) :
    (invalidateWith p s).store = s.store.filter (fun e => !p e.1) := rfl

theorem totalMem_filter_add (size : V → Nat) (q : K × Entry V → Bool) (m : Store K V) :
    totalMem size (m.filter q) + totalMem size (m.filter (fun e => !q e)) = totalMem size m := by
  induction m with
  | nil => rfl
  | cons a m ih =>
    unfold totalMem at ih ⊢
    by_cases ha : q a = true
    · simp only [List.filter_cons, ha, if_true, Bool.not_true, Bool.false_eq_true, if_false, List.map_cons,
        List.sum_cons]
      omega
    · simp only [Bool.not_eq_true] at ha
      simp only [List.filter_cons, ha, Bool.not_false, if_true, List.map_cons, List.sum_cons, Bool.false_eq_true,
        if_false]
      omega

/-- survivors keep value, birth stamp and hit counter; removed and absent keys are absent afterwards -/
theorem lookup_filter_key (p : K → Bool) (m : Store K V) (k : K) :
    lookup k (m.filter (fun e => p e.1)) = if p k then lookup k m else none := by
  induction m with
  | nil => simp [lookup]
  | cons a m ih =>
    obtain ⟨x, e⟩ := a
    by_cases hx : x = k
    · subst hx
      by_cases hp : p x = true
      · simp [List.filter_cons, hp, lookup]
      · simp only [Bool.not_eq_true] at hp
        simp [List.filter_cons, hp, ih]
    · by_cases hp : p x = true
      · simp [List.filter_cons, hp, lookup, hx, ih]
      · simp only [Bool.not_eq_true] at hp
        simp [List.filter_cons, hp, lookup, hx, ih]

/-! ### an empty store stays empty until its own function is called -/

theorem sysStep_store_nil (fns : List FnSpec) (tls : Nat → Tlru S) (size : V → Nat) (isOk : V → Bool)
    (rs : List Nat) (sys : Sys K V) (op : SysOp K V) (id : CacheId)
    (hop : ∀ fn th c spec, op = .call fn th c → fns[fn]? = some spec → id ≠ cacheIdOf spec fn th)
    (h : (sys.getCache id).store = [] ∧ (sys.getCache id).queue = []) :
    ((sysStep fns tls size isOk rs sys op).1.getCache id).store = [] ∧
    ((sysStep fns tls size isOk rs sys op).1.getCache id).queue = [] := by
  rcases sysStep_shape fns tls size isOk rs sys op id with e | e | ⟨p, e⟩ | e | ⟨fn, th, c, spec, e1, e2, e3, _⟩
  · rw [e]; exact h
  · rw [e]; exact ⟨rfl, rfl⟩
  · rw [e]; unfold invalidateWith; simp [h.1, h.2]
  · rw [e]; exact h
  · exact absurd e3 (hop fn th c spec e1 e2)

/-- a history none of whose calls goes to cache instance `id` keeps an empty `id` empty -/
theorem sysRun_store_nil (fns : List FnSpec) (tls : Nat → Tlru S) (size : V → Nat) (isOk : V → Bool)
    (sys : Sys K V) (ops : List (SysOp K V × List Nat)) (id : CacheId)
    (hop : ∀ fn th c rs spec, (SysOp.call fn th c, rs) ∈ ops → fns[fn]? = some spec → id ≠ cacheIdOf spec fn th)
    (h : (sys.getCache id).store = [] ∧ (sys.getCache id).queue = []) :
    ((sysRun fns tls size isOk sys ops).1.getCache id).store = [] ∧
    ((sysRun fns tls size isOk sys ops).1.getCache id).queue = [] := by
  induction ops generalizing sys with
  | nil => exact h
  | cons a ops ih =>
    obtain ⟨op, rs⟩ := a
    simp only [sysRun]
    apply ih
    · intro fn th c rs' spec hm
      exact hop fn th c rs' spec (List.mem_cons_of_mem _ hm)
    · apply sysStep_store_nil _ _ _ _ _ _ _ _ _ h
      intro fn th c spec e
      exact hop fn th c rs spec (by rw [e]; exact List.mem_cons_self)

/-- no operation of the history is addressed to `id` (judged in the state in which it executes) -/
def NotAddressed (fns : List FnSpec) (tls : Nat → Tlru S) (size : V → Nat) (isOk : V → Bool) :
    Sys K V → List (SysOp K V × List Nat) → CacheId → Prop
  | _, [], _ => True
  | sys, (op, rs) :: ops, id =>
    ¬ Addresses fns sys op id ∧ NotAddressed fns tls size isOk (sysStep fns tls size isOk rs sys op).1 ops id

/-- total time a history lets pass -/
def ticksOf : List (SysOp K V × List Nat) → Nat
  | [] => 0
  | (op, _) :: ops => tickOf op + ticksOf ops

/-- **Frame lemma for histories**: operations addressed to other caches leave a cache instance as it
    is; only its clock advances by the ticks of the history. -/
theorem sysRun_frame (fns : List FnSpec) (tls : Nat → Tlru S) (size : V → Nat) (isOk : V → Bool)
    (sys : Sys K V) (ops : List (SysOp K V × List Nat)) (id : CacheId)
    (h : NotAddressed fns tls size isOk sys ops id) :
    (sysRun fns tls size isOk sys ops).1.getCache id =
      { sys.getCache id with now := (sys.getCache id).now + ticksOf ops } := by
  induction ops generalizing sys with
  | nil => rfl
  | cons a ops ih =>
    obtain ⟨op, rs⟩ := a
    simp only [sysRun, ticksOf]
    rw [ih _ h.2, sysStep_frame fns tls size isOk rs sys op id h.1]
    simp only [Nat.add_assoc]

/-! ### group invalidations: matching, targets, effect -/

/-- the request names something the function declares (its tag / event / dependency) or its name -/
def Matches : SysOp K V → FnSpec → Prop
  | .invalidateByTag t, spec => t ∈ spec.tags
  | .invalidateByEvent e, spec => e ∈ spec.events
  | .invalidateByDependency d, spec => d ∈ spec.deps
  | .invalidateCache name, spec => spec.name = name
  | _, _ => False

/-- "such a cache" of C12: an existing global/async function, called at least once, with metadata,
    matching the request -/
def Target (fns : List FnSpec) (sys : Sys K V) (op : SysOp K V) (i : Nat) : Prop :=
  ∃ spec, fns[i]? = some spec ∧ spec.threadScope = false ∧ i ∈ sys.called ∧ HasMeta spec ∧ Matches op spec

theorem groupSel_matches {op : SysOp K V} {sel : FnSpec → Bool} (h : groupSel op = some sel) (spec : FnSpec) :
    sel spec = true ↔ Matches op spec := by
  cases op <;> simp only [groupSel, Option.some.injEq, reduceCtorEq] at h <;> subst h <;>
    simp [Matches]

theorem groupSel_of_matches {op : SysOp K V} {spec : FnSpec} (h : Matches op spec) :
    ∃ sel, groupSel op = some sel := by
  cases op <;> first | exact ⟨_, rfl⟩ | exact absurd h (fun x => x)

theorem isTarget_iff_target {fns : List FnSpec} {sys : Sys K V} {op : SysOp K V} {sel : FnSpec → Bool}
    (h : groupSel op = some sel) (i : Nat) : IsTarget fns sys sel i ↔ Target fns sys op i := by
  unfold IsTarget Target
  constructor
  · rintro ⟨spec, h1, h2, h3, h4, h5⟩; exact ⟨spec, h1, h2, h3, h4, (groupSel_matches h spec).mp h5⟩
  · rintro ⟨spec, h1, h2, h3, h4, h5⟩; exact ⟨spec, h1, h2, h3, h4, (groupSel_matches h spec).mpr h5⟩

/-- effect of a group invalidation on every cache instance: targets are cleared, all others untouched -/
theorem group_getCache (fns : List FnSpec) (tls : Nat → Tlru S) (size : V → Nat) (isOk : V → Bool) (rs : List Nat)
    (sys : Sys K V) {op : SysOp K V} {sel : FnSpec → Bool} (h : groupSel op = some sel) (id : CacheId) :
    (id.thread = none ∧ Target fns sys op id.fn →
      (sysStep fns tls size isOk rs sys op).1.getCache id = clear (sys.getCache id)) ∧
    (¬ (id.thread = none ∧ Target fns sys op id.fn) →
      (sysStep fns tls size isOk rs sys op).1.getCache id = sys.getCache id) := by
  rw [sysStep_group fns tls size isOk rs sys h]
  constructor
  · intro hh
    exact getCache_foldl_mapFn_pos (fun _ => clear) (fun _ n => clear_fresh n) _ (clearTargets_nodup fns sys sel)
      sys id (by rw [mem_clearTargets, isTarget_iff_target h]; exact hh)
  · intro hh
    exact getCache_foldl_mapFn_neg (fun _ => clear) (fun _ n => clear_fresh n) _ (clearTargets_nodup fns sys sel)
      sys id (by rw [mem_clearTargets, isTarget_iff_target h]; exact hh)

/-- the value a group invalidation returns, in terms of its target list -/
theorem group_out (fns : List FnSpec) (tls : Nat → Tlru S) (size : V → Nat) (isOk : V → Bool) (rs : List Nat)
    (sys : Sys K V) {op : SysOp K V} {sel : FnSpec → Bool} (h : groupSel op = some sel) :
    (sysStep fns tls size isOk rs sys op).2 =
      (match op with
       | .invalidateCache _ => .flag (!(clearTargets fns sys sel).isEmpty)
       | _ => .count (clearTargets fns sys sel).length) := by
  cases op <;> simp only [groupSel, Option.some.injEq, reduceCtorEq] at h <;> subst h <;> rfl

theorem isEmpty_eq_false_iff_exists_mem {l : List Nat} : (!l.isEmpty) = true ↔ ∃ i, i ∈ l := by
  cases l with
  | nil => simp
  | cons a l => simp

/-! ### the next overflow after an invalidation -/

theorem length_put_fresh {m : Store K V} {k : K} (hk : k ∉ keys m) (e : Entry V) :
    (put k e m).length = m.length + 1 := by
  simp [put, eraseKey_of_not_mem hk]

/-- **A FIFO/LRU store into a full cache evicts the queue head.**  Consistent state, `limit = n`, exactly
    `n` entries, queue `a :: rest`, fresh key `k`: afterwards the queue is `rest ++ [k]` and the store
    holds the old keys without `a`, then `k`.  All flavours. -/
theorem insert_full_head {cfg : Cfg} (hp : cfg.policy = .fifo ∨ cfg.policy = .lru) (tl : Tlru S) (r : Nat)
    {s : State K V} (h : Inv s) {a : K} {rest : List K} (hq : s.queue = a :: rest) {k : K}
    (hk : k ∉ keys s.store) {n : Nat} (hl : cfg.limit = some n) (hfull : s.store.length = n) (v : V) :
    (insert cfg tl r s k v).queue = rest ++ [k] ∧
    keys (insert cfg tl r s k v).store = (keys s.store).filter (fun x => x ≠ a) ++ [k] := by
  have hkq : k ∉ s.queue := fun hh => hk ((h.2.2 k).mp hh)
  have hak : a ≠ k := by
    intro hh; apply hkq; rw [hq, hh]; exact List.mem_cons_self
  have hlen : s.queue.length = n := by rw [h.length_eq, hfull]
  unfold insert
  cases hf : cfg.flavour <;> simp only
  case async =>
    have hh : hasKey k s.store = false := (hasKey_false_iff k s.store).mpr hk
    simp only [hh, Bool.false_eq_true, if_false]
    have hls : limitStep cfg tl s.now r s.store s.queue = (eraseKey a s.store, rest) := by
      unfold limitStep
      rw [hl]
      have ho : overLimit cfg n s.store s.queue = true := by
        unfold overLimit; rw [hf]; simp [hfull]
      simp only [ho, if_true]
      have hi : InvMQ s.store (a :: rest) := hq ▸ h
      rw [hq, evictLimit_head hp tl s.now r hi]
    rw [hls]
    refine ⟨rfl, ?_⟩
    rw [keys_put, keys_eraseKey, List.filter_filter]
    congr 1
    apply List.filter_congr
    intro x hx
    have : x ≠ k := fun hxk => hk (hxk ▸ hx)
    simp [this]
  all_goals
    have hq0 : erasePush k s.queue = a :: (rest ++ [k]) := by
      unfold erasePush
      rw [List.erase_of_not_mem hkq, hq]; rfl
    have h0 := InvMQ.put_erasePush h k (⟨v, stamp cfg s.now, 0⟩ : Entry V)
    rw [hq0] at h0 ⊢
    have hls : limitStep cfg tl s.now r (put k ⟨v, stamp cfg s.now, 0⟩ s.store) (a :: (rest ++ [k])) =
        (eraseKey a (put k ⟨v, stamp cfg s.now, 0⟩ s.store), rest ++ [k]) := by
      unfold limitStep
      rw [hl]
      have ho : overLimit cfg n (put k ⟨v, stamp cfg s.now, 0⟩ s.store) (a :: (rest ++ [k])) = true := by
        unfold overLimit; rw [hf]
        have : (a :: (rest ++ [k])).length = n + 1 := by
          rw [h0.length_eq, length_put_fresh hk, hfull]
        simp [this]
      simp only [ho, if_true]
      rw [evictLimit_head hp tl s.now r h0]
    rw [hls]
    refine ⟨rfl, ?_⟩
    rw [keys_eraseKey, keys_put, List.filter_append, List.filter_filter]
    have hka : k ≠ a := fun hh => hak hh.symm
    simp only [List.filter_cons, List.filter_nil, ne_eq, hka, not_false_eq_true, decide_true, if_true]
    congr 1
    apply List.filter_congr
    intro x hx
    have : x ≠ k := fun hxk => hk (hxk ▸ hx)
    simp [this]

/-! ### "as if never stored": stores without eviction commute with a later conditional invalidation -/

theorem limitStep_noop {cfg : Cfg} (tl : Tlru S) (now r : Nat) (m : Store K V) (q : List K)
    (h : ∀ n, cfg.limit = some n → overLimit cfg n m q = false) : limitStep cfg tl now r m q = (m, q) := by
  unfold limitStep
  cases hl : cfg.limit with
  | none => rfl
  | some n => simp only [h n hl, Bool.false_eq_true, if_false]

theorem length_put_le (k : K) (e : Entry V) (m : Store K V) : (put k e m).length ≤ m.length + 1 := by
  have := length_eraseKey_le k m
  simp [put]; omega

/-- a plain store that cannot overflow (no limit, or fewer entries than the limit), all flavours:
    the entry is (re)placed at the back of store and queue, nothing else changes -/
theorem insert_noEvict (cfg : Cfg) (tl : Tlru S) (r : Nat) {s : State K V} (h : Inv s) (k : K) (v : V)
    (hne : ∀ n, cfg.limit = some n → s.store.length < n) :
    insert cfg tl r s k v =
      { s with store := put k ⟨v, stamp cfg s.now, 0⟩ s.store, queue := s.queue.filter (fun x => x ≠ k) ++ [k] } := by
  unfold insert
  cases hf : cfg.flavour <;> simp only
  case async =>
    have hm0 : (if hasKey k s.store then (eraseKey k s.store, s.queue.filter (fun x => x ≠ k))
        else (s.store, s.queue)) = (eraseKey k s.store, s.queue.filter (fun x => x ≠ k)) := by
      split
      · rfl
      · rename_i hh
        have hk : k ∉ keys s.store := (hasKey_false_iff k s.store).mp (by simpa using hh)
        have hq : k ∉ s.queue := fun hq => hk ((h.2.2 k).mp hq)
        rw [eraseKey_of_not_mem hk, filter_ne_of_not_mem hq]
    rw [hm0]
    simp only
    rw [limitStep_noop tl s.now r _ _ (by
      intro n hl
      unfold overLimit; rw [hf]
      have := hne n hl
      have := length_eraseKey_le k s.store
      simp; omega)]
    simp only
    have : put k (⟨v, stamp cfg s.now, 0⟩ : Entry V) (eraseKey k s.store) = put k ⟨v, stamp cfg s.now, 0⟩ s.store := by
      simp [put, eraseKey, List.filter_filter]
    rw [this]
  all_goals
    have h0 := InvMQ.put_erasePush h k (⟨v, stamp cfg s.now, 0⟩ : Entry V)
    rw [limitStep_noop tl s.now r _ _ (by
      intro n hl
      unfold overLimit; rw [hf]
      have := hne n hl
      have := length_put_le k (⟨v, stamp cfg s.now, 0⟩ : Entry V) s.store
      have := h0.length_eq
      simp; omega)]
    simp only
    rw [erasePush_eq h.2.1]

/-- store and queue with the keys satisfying `p` deleted -/
def dropKeys (p : K → Bool) (s : State K V) : State K V :=
  { s with store := s.store.filter (fun e => !p e.1), queue := s.queue.filter (fun k => !p k) }

theorem invalidateWith_eq_dropKeys (p : K → Bool) (s : State K V) (h : Inv s) :
    invalidateWith p s = dropKeys p s := invalidateWith_eq p s h

theorem filter_put_of_p (p : K → Bool) (k : K) (e : Entry V) (m : Store K V) (hp : p k = true) :
    (put k e m).filter (fun x => !p x.1) = m.filter (fun x => !p x.1) := by
  unfold put eraseKey
  rw [List.filter_append, List.filter_filter]
  simp only [List.filter_cons, hp, Bool.not_true, Bool.false_eq_true, if_false, List.filter_nil, List.append_nil]
  apply List.filter_congr
  intro x _
  by_cases hx : x.1 = k
  · simp [hx, hp]
  · simp [hx]

theorem filter_put_of_not_p (p : K → Bool) (k : K) (e : Entry V) (m : Store K V) (hp : p k = false) :
    (put k e m).filter (fun x => !p x.1) = put k e (m.filter (fun x => !p x.1)) := by
  unfold put eraseKey
  rw [List.filter_append, List.filter_filter, List.filter_filter]
  simp only [List.filter_cons, hp, Bool.not_false, if_true, List.filter_nil]
  congr 1
  apply List.filter_congr
  intro x _
  exact Bool.and_comm _ _

theorem filter_push_of_p (p : K → Bool) (k : K) (q : List K) (hp : p k = true) :
    (q.filter (fun x => x ≠ k) ++ [k]).filter (fun x => !p x) = q.filter (fun x => !p x) := by
  rw [List.filter_append, List.filter_filter]
  simp only [List.filter_cons, hp, Bool.not_true, Bool.false_eq_true, if_false, List.filter_nil, List.append_nil]
  apply List.filter_congr
  intro x _
  by_cases hx : x = k
  · simp [hx, hp]
  · simp [hx]

theorem filter_push_of_not_p (p : K → Bool) (k : K) (q : List K) (hp : p k = false) :
    (q.filter (fun x => x ≠ k) ++ [k]).filter (fun x => !p x) =
      (q.filter (fun x => !p x)).filter (fun x => x ≠ k) ++ [k] := by
  rw [List.filter_append, List.filter_filter, List.filter_filter]
  simp only [List.filter_cons, hp, Bool.not_false, if_true, List.filter_nil]
  congr 1
  apply List.filter_congr
  intro x _
  exact Bool.and_comm _ _

/-- the histories of the commutation theorem: plain stores and time steps only -/
def StoresOnly : List (Op K V × List Nat) → Prop
  | [] => True
  | (.insert _ _, _) :: ops => StoresOnly ops
  | (.tick _, _) :: ops => StoresOnly ops
  | _ :: _ => False

/-- the history with the stores of keys satisfying `p` left out -/
def withoutKeys (p : K → Bool) : List (Op K V × List Nat) → List (Op K V × List Nat)
  | [] => []
  | (.insert k v, rs) :: ops => if p k then withoutKeys p ops else (.insert k v, rs) :: withoutKeys p ops
  | a :: ops => a :: withoutKeys p ops

/-- number of plain stores in a history -/
def storeCount : List (Op K V × List Nat) → Nat
  | [] => 0
  | (.insert _ _, _) :: ops => storeCount ops + 1
  | _ :: ops => storeCount ops

theorem inv_dropKeys (p : K → Bool) (s : State K V) (h : Inv s) : Inv (dropKeys p s) := by
  rw [← invalidateWith_eq_dropKeys p s h]; exact invalidateWith_inv p s h

/-- **Commutation: invalidated entries behave as if never stored.**  From a consistent state, run a
    history of plain stores and time steps that cannot overflow (no entry limit, or room for every
    store), then delete the keys satisfying `p`: the resulting state — store with values, birth stamps
    and hit counters, order queue, clock, statistics — is exactly the state reached by first deleting
    those keys and then running the history with the stores of such keys left out.  Every flavour,
    every policy (no lookups are involved, so the policy plays no role). -/
theorem dropKeys_run_commute (cfg : Cfg) (tl : Tlru S) (size : V → Nat) (p : K → Bool)
    (ops : List (Op K V × List Nat)) (s : State K V) (h : Inv s) (hso : StoresOnly ops)
    (hroom : ∀ n, cfg.limit = some n → s.store.length + storeCount ops ≤ n) :
    dropKeys p (run cfg tl size s ops).1 = (run cfg tl size (dropKeys p s) (withoutKeys p ops)).1 := by
  induction ops generalizing s with
  | nil => rfl
  | cons a ops ih =>
    obtain ⟨op, rs⟩ := a
    cases op with
    | insert k v =>
      have hne : ∀ n, cfg.limit = some n → s.store.length < n := by
        intro n hl; have := hroom n hl; simp only [storeCount] at this; omega
      have hnf := insert_noEvict cfg tl (rs.headD 0) h k v hne
      have hi1 : Inv (insert cfg tl (rs.headD 0) s k v) := insert_inv cfg tl _ s k v h
      have hroom1 : ∀ n, cfg.limit = some n → (insert cfg tl (rs.headD 0) s k v).store.length + storeCount ops ≤ n := by
        intro n hl
        have := hroom n hl
        rw [hnf]
        have := length_put_le k (⟨v, stamp cfg s.now, 0⟩ : Entry V) s.store
        simp only [storeCount] at *
        omega
      have hrun : (run cfg tl size s ((Op.insert k v, rs) :: ops)).1 =
          (run cfg tl size (insert cfg tl (rs.headD 0) s k v) ops).1 := rfl
      rw [hrun, ih _ hi1 hso hroom1]
      by_cases hp : p k = true
      · have hd : dropKeys p (insert cfg tl (rs.headD 0) s k v) = dropKeys p s := by
          rw [hnf]; unfold dropKeys
          simp only [filter_put_of_p p k _ _ hp, filter_push_of_p p k _ hp]
        rw [hd]
        simp only [withoutKeys, hp, if_true]
      · simp only [Bool.not_eq_true] at hp
        have hid := inv_dropKeys p s h
        have hne' : ∀ n, cfg.limit = some n → (dropKeys p s).store.length < n := by
          intro n hl
          have := hne n hl
          have : (dropKeys p s).store.length ≤ s.store.length := List.length_filter_le _ _
          omega
        have hd : dropKeys p (insert cfg tl (rs.headD 0) s k v) = insert cfg tl (rs.headD 0) (dropKeys p s) k v := by
          rw [hnf, insert_noEvict cfg tl (rs.headD 0) hid k v hne']
          unfold dropKeys
          simp only [filter_put_of_not_p p k _ _ hp, filter_push_of_not_p p k _ hp]
        rw [hd]
        simp only [withoutKeys, hp, Bool.false_eq_true, if_false]
        rfl
    | tick ms =>
      have hroom1 : ∀ n, cfg.limit = some n → s.store.length + storeCount ops ≤ n := by
        intro n hl; have := hroom n hl; simp only [storeCount] at this; omega
      have hrun : (run cfg tl size s ((Op.tick ms, rs) :: ops)).1 =
          (run cfg tl size { s with now := s.now + ms } ops).1 := rfl
      rw [hrun, ih { s with now := s.now + ms } h hso hroom1]
      rfl
    | get k => exact absurd hso (fun x => x)
    | insertMem k v => exact absurd hso (fun x => x)
    | clear => exact absurd hso (fun x => x)
    | invalidateWith q => exact absurd hso (fun x => x)

end Cachelito.SysLemmas
