/-
  Lemmas about `Cachelito.ConcCallsR` (calls with impure outcomes and a conditional store over the
  interleaving model) for the concurrent clauses of C09 / C10 (`Props/C09c.lean`).

  §1  a caller step IS a `ConcData` thread step (or, for the return of a non-storing call, nothing)
  §2  values: a predicate `P` on (key, value) pairs kept by every micro-step — ANY configuration
  §3  the plain configuration (`ConcCalls.Plain`): stage invariant, shape of a step, log invariant, system
  §4  the deterministic instance coincides with `ConcCalls`
-/
import Cachelito.ConcCallsR
import Cachelito.Lemmas.ConcCalls

set_option linter.unusedSectionVars false
set_option linter.unusedSimpArgs false
set_option linter.unusedVariables false

namespace Cachelito.ConcCallsR
open Cachelito Cachelito.ConcData

variable {K V S : Type} [DecidableEq K]

/-! ## §2 Values -/

/-- every stored pair satisfies `P` -/
def PStore (P : K → V → Prop) (m : Store K V) : Prop := ∀ k e, (k, e) ∈ m → P k e.val

/-- the value carried by a hit in progress belongs to key `k` and satisfies `P` -/
def PendP (P : K → V → Prop) (k : K) : Pend K V → Prop
  | .refresh k' v => k' = k ∧ P k v
  | .move k' v => k' = k ∧ P k v
  | .bump k' v => k' = k ∧ P k v
  | _ => True

/-- what a lookup micro-step hands on satisfies `P`: the value it carries on, or the value it reports -/
def ResP (P : K → V → Prop) (k : K) : Res K V → Prop
  | .more p => PendP P k p
  | .fin _ o => ∀ w, o = .val (some w) → P k w

theorem PStore.nil (P : K → V → Prop) : PStore P ([] : Store K V) := by intro k e h; cases h

theorem PStore.sublist {P : K → V → Prop} {m m' : Store K V} (h : PStore P m) (hs : m'.Sublist m) : PStore P m' :=
  fun k e he => h k e (hs.subset he)

theorem PStore.put {P : K → V → Prop} {m : Store K V} (h : PStore P m) (k : K) (v : V) (hv : P k v) (b hits : Nat) :
    PStore P (put k ⟨v, b, hits⟩ m) := by
  intro x e he
  unfold Cachelito.put at he
  rcases List.mem_append.mp he with h1 | h1
  · exact h x e ((eraseKey_sublist k m).subset h1)
  · simp only [List.mem_singleton, Prod.mk.injEq] at h1
    rw [h1.1, h1.2]; exact hv

theorem PStore.bumpHits {P : K → V → Prop} {m : Store K V} (h : PStore P m) (k : K) : PStore P (bumpHits k m) := by
  intro x e he
  rcases mem_modify he with h1 | ⟨e0, h1, h2⟩
  · exact h x e h1
  · rw [h2]; exact h x e0 h1

theorem PStore.insert {P : K → V → Prop} (cfg : Cfg) (tl : Tlru S) (r : Nat) (s : State K V) (k : K) (v : V)
    (hv : P k v) (h : PStore P s.store) : PStore P (Cachelito.insert cfg tl r s k v).store := by
  unfold Cachelito.insert
  cases cfg.flavour <;> simp only
  case async =>
    have h0 := asyncDrop_sublist k s.store s.queue
    generalize (if hasKey k s.store then (eraseKey k s.store, s.queue.filter (fun x => x ≠ k))
      else (s.store, s.queue)) = p at h0
    obtain ⟨m0, q0⟩ := p
    exact (h.sublist ((limitStep_shr cfg tl s.now r m0 q0).store.trans h0)).put k v hv _ _
  all_goals exact (h.put k v hv _ _).sublist (limitStep_shr cfg tl s.now r _ _).store

theorem PStore.insertMem {P : K → V → Prop} (cfg : Cfg) (tl : Tlru S) (size : V → Nat) (rs : List Nat)
    (s : State K V) (k : K) (v : V) (hv : P k v) (h : PStore P s.store) :
    PStore P (Cachelito.insertMem cfg tl size rs s k v).store := by
  unfold Cachelito.insertMem
  cases cfg.flavour <;> simp only
  case async =>
    have h0 := asyncDrop_sublist k s.store s.queue
    generalize (if hasKey k s.store then (eraseKey k s.store, s.queue.filter (fun x => x ≠ k))
      else (s.store, s.queue)) = p at h0
    obtain ⟨m0, q0⟩ := p
    simp only at h0 ⊢
    cases cfg.maxMem with
    | none => exact (h.sublist ((limitStep_shr cfg tl s.now _ m0 q0).store.trans h0)).put k v hv _ _
    | some maxM =>
      simp only
      split
      · exact h.sublist h0
      · have h1 := memLoop_shr cfg tl size s.now maxM (size v) (q0.length + 1) rs m0 q0
        generalize memLoop cfg tl size s.now maxM (size v) (q0.length + 1) rs m0 q0 = r1 at h1
        obtain ⟨m1, q1, rs1⟩ := r1
        exact (h.sublist (((limitStep_shr cfg tl s.now _ m1 q1).store.trans h1.store).trans h0)).put k v hv _ _
  all_goals
    have hp := h.put k v hv (stamp cfg s.now) 0
    cases cfg.maxMem with
    | none => exact hp.sublist (limitStep_shr cfg tl s.now _ _ _).store
    | some maxM =>
      simp only
      split
      · exact hp.sublist (eraseKey_sublist _ _)
      · have h1 := memLoop_shr cfg tl size s.now maxM 0 ((erasePush k s.queue).length + 1) rs
          (Cachelito.put k ⟨v, stamp cfg s.now, 0⟩ s.store) (erasePush k s.queue)
        generalize memLoop cfg tl size s.now maxM 0 ((erasePush k s.queue).length + 1) rs
          (Cachelito.put k ⟨v, stamp cfg s.now, 0⟩ s.store) (erasePush k s.queue) = r1 at h1
        obtain ⟨m1, q1, rs1⟩ := r1
        exact hp.sublist ((limitStep_shr cfg tl s.now _ m1 q1).store.trans h1.store)

/-- the READ micro-step of a lookup keeps `P` on the store and hands on a `P` value of its key -/
theorem first_get_P {P : K → V → Prop} (legacy : Bool) (cfg : Cfg) (tl : Tlru S) (size : V → Nat)
    (s : State K V) (k : K) (rs : List Nat) (hs : PStore P s.store) :
    PStore P (micro legacy cfg tl size s (.get k) rs none).1.store ∧
    ResP P k (micro legacy cfg tl size s (.get k) rs none).2 := by
  simp only [micro, first]
  cases hl : lookup k s.store with
  | none => exact ⟨hs, by intro w ho; cases ho⟩
  | some e =>
    have hev : P k e.val := hs k e (lookup_mem hl)
    simp only
    split
    · refine ⟨hs, ?_⟩
      split <;> exact trivial
    · split
      · have hm1 : PStore P (if cfg.policy.bumps = true then bumpHits k s.store else s.store) := by
          split
          · exact hs.bumpHits k
          · exact hs
        split
        · exact ⟨hm1, rfl, hev⟩
        · refine ⟨hm1, ?_⟩
          intro w ho
          cases ho; exact hev
      · split
        · exact ⟨hs, rfl, hev⟩
        · split
          · exact ⟨hs, rfl, hev⟩
          · refine ⟨hs, ?_⟩
            intro w ho
            cases ho; exact hev

/-- the first micro-step of a store of a `P` pair keeps `P` on the store -/
theorem first_store_P {P : K → V → Prop} (legacy mem : Bool) (cfg : Cfg) (tl : Tlru S) (size : V → Nat)
    (s : State K V) (k : K) (v : V) (rs : List Nat) (hv : P k v) (hs : PStore P s.store) :
    PStore P (micro legacy cfg tl size s (storeOp mem k v) rs none).1.store := by
  cases mem with
  | false =>
    simp only [micro, first, storeOp, Bool.false_eq_true, if_false]
    split
    · exact hs.insert cfg tl _ s k v hv
    · exact hs.put k v hv _ _
  | true =>
    simp only [micro, first, storeOp, if_true]
    split
    · exact hs.insertMem cfg tl size rs s k v hv
    · exact hs.put k v hv _ _

/-- a later micro-step of ANY operation writes no new value: `P` is kept on the store -/
theorem cont_store_P {P : K → V → Prop} (legacy : Bool) (cfg : Cfg) (tl : Tlru S) (size : V → Nat)
    (s : State K V) (op : Op K V) (rs : List Nat) (p : Pend K V) (hs : PStore P s.store) :
    PStore P (micro legacy cfg tl size s op rs (some p)).1.store := by
  have hexp : ∀ k, PStore P (expireStep cfg s k).1.store :=
    fun k => hs.sublist (removeBoth_shr cfg k s.store s.queue).store
  simp only [micro]
  split
  · cases p with
    | expire k => exact hexp k
    | refresh k v => exact hs
    | purge p ks => exact hs.sublist (foldl_eraseKey_sublist ks s.store)
    | legacyClearQueue =>
      simp only [contAsync]
      split <;> exact hs
    | legacyDrop k =>
      simp only [contAsync]
      split
      · exact hs.sublist (eraseKey_sublist k _)
      · exact hs
    | legacyRetain k =>
      simp only [contAsync]
      split <;> exact hs
    | move k v => exact hs
    | bump k v => exact hs
    | track k v r => exact hs
    | trackMem k v rs => exact hs
  · cases p with
    | expire k => exact hexp k
    | move k v =>
      simp only [contSync]
      split <;> exact hs
    | bump k v => exact hs.bumpHits k
    | track k v r => exact hs.sublist (limitStep_shr cfg tl s.now r s.store _).store
    | trackMem k v rs => exact hs.sublist (trackMemStep_shr cfg tl size rs s k).store
    | legacyClearQueue =>
      simp only [contSync]
      split <;> exact hs
    | refresh k v => exact hs
    | purge p ks => exact hs
    | legacyDrop k => exact hs
    | legacyRetain k => exact hs

/-- a later micro-step of a lookup hands on the `P` value of its key it carries -/
theorem cont_get_P {P : K → V → Prop} (legacy : Bool) (cfg : Cfg) (tl : Tlru S) (size : V → Nat)
    (s : State K V) (op : Op K V) (rs : List Nat) (k : K) (p : Pend K V) (hp : PendP P k p) :
    ResP P k (micro legacy cfg tl size s op rs (some p)).2 := by
  have hnoop : ResP P k (noop s : State K V × Res K V).2 := by intro w ho; cases ho
  have hexp : ∀ k', ResP P k (expireStep cfg s k').2 := by intro k' w ho; cases ho
  simp only [micro]
  split
  · cases p with
    | expire k' => exact hexp k'
    | refresh k' v =>
      obtain ⟨rfl, hv⟩ := hp
      intro w ho; cases ho; exact hv
    | purge p ks => intro w ho; cases ho
    | legacyClearQueue =>
      simp only [contAsync]
      split
      · intro w ho; cases ho
      · exact hnoop
    | legacyDrop k' =>
      simp only [contAsync]
      split
      · exact trivial
      · exact hnoop
    | legacyRetain k' =>
      simp only [contAsync]
      split
      · intro w ho; cases ho
      · exact hnoop
    | move k' v => exact hnoop
    | bump k' v => exact hnoop
    | track k' v r => exact hnoop
    | trackMem k' v rs => exact hnoop
  · cases p with
    | expire k' => exact hexp k'
    | move k' v =>
      obtain ⟨rfl, hv⟩ := hp
      simp only [contSync]
      split
      · exact ⟨rfl, hv⟩
      · intro w ho; cases ho; exact hv
    | bump k' v =>
      obtain ⟨rfl, hv⟩ := hp
      intro w ho; cases ho; exact hv
    | track k' v r => intro w ho; cases ho
    | trackMem k' v rs => intro w ho; cases ho
    | legacyClearQueue =>
      simp only [contSync]
      split
      · intro w ho; cases ho
      · exact hnoop
    | refresh k' v => exact hnoop
    | purge p ks => exact hnoop
    | legacyDrop k' => exact hnoop
    | legacyRetain k' => exact hnoop

/-- per-caller part of the values invariant: the storing calls still to run produce `P` values, and the hit
    in progress (if any) carries a `P` value of the current call's key -/
def CallerP (P : K → V → Prop) (c : Caller K V) : Prop :=
  (∀ x, x ∈ c.calls → x.2.2.2 = true → P x.1 x.2.2.1) ∧
  (∀ k rs v st rest p, c.calls = (k, rs, v, st) :: rest → c.stage = .lookup (some p) → PendP P k p)

/-- **Values, one caller step (any configuration, real wrapper).** -/
theorem callerStep_P {P : K → V → Prop} (mem : Bool) (cfg : Cfg) (tl : Tlru S) (size : V → Nat)
    (s s' : State K V) (c c' : Caller K V) (evs : List (Ev K V))
    (hs : PStore P s.store) (hc : CallerP P c)
    (h : callerStep false mem cfg tl size s c = some (s', c', evs)) :
    PStore P s'.store ∧ CallerP P c' ∧ ∀ k w b, Ev.ret k w b ∈ evs → P k w := by
  unfold callerStep at h
  cases hcalls : c.calls with
  | nil => rw [hcalls] at h; cases h
  | cons a rest =>
    obtain ⟨k, rs, v, st⟩ := a
    rw [hcalls] at h
    simp only at h
    have hrest : ∀ x, x ∈ rest → x.2.2.2 = true → P x.1 x.2.2.1 := by
      intro x hx; exact hc.1 x (by rw [hcalls]; exact List.mem_cons_of_mem _ hx)
    have hnext : ∀ (b : List K) (r : List (K × V)),
        CallerP P ({ calls := rest, stage := .lookup none, bodies := b, rets := r } : Caller K V) := by
      intro b r
      refine ⟨hrest, ?_⟩
      intro k' rs' v' st' rest' p _ hst; cases hst
    have hsame : ∀ (stg : Stage K V) (b : List K), (∀ p, stg = .lookup (some p) → PendP P k p) →
        CallerP P ({ calls := (k, rs, v, st) :: rest, stage := stg, bodies := b, rets := c.rets } : Caller K V) := by
      intro stg b hp
      refine ⟨by rw [← hcalls]; exact hc.1, ?_⟩
      intro k' rs' v' st' rest' p hcl hst
      simp only [List.cons.injEq, Prod.mk.injEq] at hcl
      obtain ⟨⟨rfl, _⟩, _⟩ := hcl
      exact hp p hst
    cases hstage : c.stage with
    | lookup p =>
      rw [hstage] at h
      simp only at h
      have hS : PStore P (micro false cfg tl size s (.get k) rs p).1.store := by
        cases p with
        | none => exact (first_get_P false cfg tl size s k rs hs).1
        | some p => exact cont_store_P false cfg tl size s _ rs p hs
      have hR : ResP P k (micro false cfg tl size s (.get k) rs p).2 := by
        cases p with
        | none => exact (first_get_P false cfg tl size s k rs hs).2
        | some p => exact cont_get_P false cfg tl size s _ rs k p (hc.2 k rs v st rest p hcalls hstage)
      generalize micro false cfg tl size s (.get k) rs p = r at h hS hR
      obtain ⟨s1, res⟩ := r
      have hevs : ∀ k' w b, Ev.ret k' w b ∈ (match p with
          | none => [Ev.read k (ConcCalls.found cfg s k)]
          | some _ => ([] : List (Ev K V))) → P k' w := by
        intro k' w b hm
        cases p <;> simp at hm
      cases res with
      | more p' =>
        simp only [Option.some.injEq, Prod.mk.injEq] at h
        obtain ⟨rfl, rfl, rfl⟩ := h
        refine ⟨hS, ?_, hevs⟩
        have := hsame (.lookup (some p')) c.bodies (by intro q hq; cases hq; exact hR)
        exact this
      | fin op o =>
        cases o with
        | unit =>
          simp only [Option.some.injEq, Prod.mk.injEq] at h
          obtain ⟨rfl, rfl, rfl⟩ := h
          refine ⟨hS, hsame (.store none) _ (by intro q hq; cases hq), ?_⟩
          intro k' w b hm
          rcases List.mem_cons.mp hm with hm | hm
          · cases hm
          · exact hevs k' w b hm
        | val ow =>
          cases ow with
          | none =>
            simp only [Option.some.injEq, Prod.mk.injEq] at h
            obtain ⟨rfl, rfl, rfl⟩ := h
            refine ⟨hS, hsame (.store none) _ (by intro q hq; cases hq), ?_⟩
            intro k' w b hm
            rcases List.mem_cons.mp hm with hm | hm
            · cases hm
            · exact hevs k' w b hm
          | some w0 =>
            simp only [Option.some.injEq, Prod.mk.injEq] at h
            obtain ⟨rfl, rfl, rfl⟩ := h
            refine ⟨hS, hnext _ _, ?_⟩
            intro k' w b hm
            rcases List.mem_cons.mp hm with hm | hm
            · cases hm; exact hR w0 rfl
            · exact hevs k' w b hm
    | store p =>
      rw [hstage] at h
      simp only at h
      cases st with
      | false =>
        simp only [Bool.false_eq_true, if_false, Option.some.injEq, Prod.mk.injEq] at h
        obtain ⟨rfl, rfl, rfl⟩ := h
        refine ⟨hs, hnext _ _, ?_⟩
        intro k' w b hm
        simp at hm
      | true =>
        have hv : P k v := hc.1 (k, rs, v, true) (by rw [hcalls]; exact List.mem_cons_self) rfl
        simp only [if_true] at h
        have hS : PStore P (micro false cfg tl size s (storeOp mem k v) rs p).1.store := by
          cases p with
          | none => exact first_store_P false mem cfg tl size s k v rs hv hs
          | some p => exact cont_store_P false cfg tl size s _ rs p hs
        generalize micro false cfg tl size s (storeOp mem k v) rs p = r at h hS
        obtain ⟨s1, res⟩ := r
        have hevs : ∀ k' w b, Ev.ret k' w b ∈ (match p with
            | none => [Ev.write k]
            | some _ => ([] : List (Ev K V))) → P k' w := by
          intro k' w b hm
          cases p <;> simp at hm
        cases res with
        | more p' =>
          simp only [Option.some.injEq, Prod.mk.injEq] at h
          obtain ⟨rfl, rfl, rfl⟩ := h
          exact ⟨hS, hsame (.store (some p')) c.bodies (by intro q hq; cases hq), hevs⟩
        | fin op o =>
          simp only [Option.some.injEq, Prod.mk.injEq] at h
          obtain ⟨rfl, rfl, rfl⟩ := h
          refine ⟨hS, hnext _ _, ?_⟩
          intro k' w b hm
          rcases List.mem_cons.mp hm with hm | hm
          · cases hm; exact hv
          · exact hevs k' w b hm


/-! ## The system: shape of a step, runs -/

theorem callStep_cases {discard mem : Bool} {cfg : Cfg} {tl : Tlru S} {size : V → Nat} {c c' : CallState K V}
    {i : Nat} (h : callStep discard mem cfg tl size c i = some c') :
    ∃ x x' s' evs l1 l2, c.callers[i]? = some x ∧ c.callers = l1 ++ x :: l2 ∧ l1.length = i ∧
      callerStep discard mem cfg tl size c.shared x = some (s', x', evs) ∧
      c' = ⟨s', l1 ++ x' :: l2, evs ++ c.log⟩ := by
  unfold callStep at h
  cases hx : c.callers[i]? with
  | none => rw [hx] at h; cases h
  | some x =>
    rw [hx] at h
    simp only at h
    cases hs : callerStep discard mem cfg tl size c.shared x with
    | none => rw [hs] at h; cases h
    | some r =>
      obtain ⟨s', x', evs⟩ := r
      rw [hs] at h
      simp only [Option.some.injEq] at h
      have hlt : i < c.callers.length := by
        apply Classical.byContradiction; intro hn
        rw [List.getElem?_eq_none (by omega)] at hx; cases hx
      have hxi : c.callers[i] = x := by
        rw [List.getElem?_eq_getElem hlt] at hx; exact Option.some.inj hx
      refine ⟨x, x', s', evs, c.callers.take i, c.callers.drop (i + 1), rfl, ?_, ?_, hs, ?_⟩
      · rw [← hxi]; simp
      · rw [List.length_take]; omega
      · rw [← h]
        congr 1
        rw [List.set_eq_take_append_cons_drop]
        simp [hlt]

/-- an invariant of single steps is an invariant of runs -/
theorem callRunWith_invariant {discard mem : Bool} {cfg : Cfg} {tl : Tlru S} {size : V → Nat}
    (I : CallState K V → Prop)
    (hstep : ∀ c i c', I c → callStep discard mem cfg tl size c i = some c' → I c')
    (sch : List ThreadId) (c : CallState K V) (h : I c) : I (callRunWith discard mem cfg tl size sch c) := by
  induction sch generalizing c with
  | nil => exact h
  | cons i sch ih =>
    simp only [callRunWith]
    cases hs : callStep discard mem cfg tl size c i with
    | none => exact ih c h
    | some c' => exact ih c' (hstep c i c' h hs)

theorem callRunWith_append (discard mem : Bool) (cfg : Cfg) (tl : Tlru S) (size : V → Nat)
    (sch₁ sch₂ : List ThreadId) (c : CallState K V) :
    callRunWith discard mem cfg tl size (sch₁ ++ sch₂) c
      = callRunWith discard mem cfg tl size sch₂ (callRunWith discard mem cfg tl size sch₁ c) := by
  induction sch₁ generalizing c with
  | nil => rfl
  | cons i sch ih =>
    simp only [List.cons_append, callRunWith]
    cases callStep discard mem cfg tl size c i with
    | none => exact ih c
    | some c' => exact ih c'

/-- the values invariant of the call-level system -/
structure InvP (P : K → V → Prop) (c : CallState K V) : Prop where
  store : PStore P c.shared.store
  callers : ∀ x, x ∈ c.callers → CallerP P x
  log : ∀ k w b, Ev.ret k w b ∈ c.log → P k w

theorem callStep_P {P : K → V → Prop} (mem : Bool) (cfg : Cfg) (tl : Tlru S) (size : V → Nat)
    (c : CallState K V) (i : Nat) (c' : CallState K V) (hi : InvP P c)
    (h : callStep false mem cfg tl size c i = some c') : InvP P c' := by
  obtain ⟨x, x', s', evs, l1, l2, _, hl, _, hstep, rfl⟩ := callStep_cases h
  have hxm : x ∈ c.callers := by rw [hl]; simp
  obtain ⟨h1, h2, h3⟩ := callerStep_P mem cfg tl size c.shared s' x x' evs hi.store (hi.callers x hxm) hstep
  refine ⟨h1, ?_, ?_⟩
  · intro y hy
    simp only at hy
    rcases List.mem_append.mp hy with hy | hy
    · exact hi.callers y (by rw [hl]; exact List.mem_append_left _ hy)
    · rcases List.mem_cons.mp hy with hy | hy
      · rw [hy]; exact h2
      · exact hi.callers y (by rw [hl]; exact List.mem_append_right _ (List.mem_cons_of_mem _ hy))
  · intro k w b hm
    rcases List.mem_append.mp hm with hm | hm
    · exact h3 k w b hm
    · exact hi.log k w b hm

theorem invP_start {P : K → V → Prop} (s : State K V) (callss : List (List (Call K V)))
    (hs : PStore P s.store)
    (hc : ∀ calls, calls ∈ callss → ∀ x, x ∈ calls → x.2.2.2 = true → P x.1 x.2.2.1) :
    InvP P (CallState.start s callss) := by
  refine ⟨hs, ?_, ?_⟩
  · intro x hx
    simp only [CallState.start, List.mem_map] at hx
    obtain ⟨calls, hcs, rfl⟩ := hx
    refine ⟨hc calls hcs, ?_⟩
    intro k rs v st rest p _ hst
    simp [Caller.start] at hst
  · intro k w b hm
    simp [CallState.start] at hm

theorem callRun_P {P : K → V → Prop} (mem : Bool) (cfg : Cfg) (tl : Tlru S) (size : V → Nat)
    (sch : List ThreadId) (c : CallState K V) (hi : InvP P c) : InvP P (callRunR mem cfg tl size sch c) :=
  callRunWith_invariant (InvP P) (fun c i c' => callStep_P mem cfg tl size c i c') sch c hi

/-! ## §1 A caller step is a `ConcData` thread step -/

/-- **Lookup stage**: whatever the call's outcome, the caller performs the micro-step of the `ConcData`
    thread `[.get k]` with the same local state; no store-write (and no erase) event is logged; the lookup
    goes on, or is served, or misses (then the body runs). -/
theorem callerStep_lookup (discard mem : Bool) (cfg : Cfg) (tl : Tlru S) (size : V → Nat) (s : State K V)
    (c : Caller K V) (k : K) (rs : List Nat) (v : V) (st : Bool) (rest : List (Call K V)) (p : Option (Pend K V))
    (hc : c.calls = (k, rs, v, st) :: rest) (hst : c.stage = .lookup p) :
    ∃ t' c' evs,
      tstep false cfg tl size s ⟨[(.get k, rs)], p, []⟩ = some ((micro false cfg tl size s (.get k) rs p).1, t') ∧
      callerStep discard mem cfg tl size s c = some ((micro false cfg tl size s (.get k) rs p).1, c', evs) ∧
      (∀ k', Ev.write k' ∉ evs) ∧ (∀ k', Ev.erase k' ∉ evs) ∧
      ((∃ p', t' = ⟨[(.get k, rs)], some p', []⟩ ∧ c' = { c with stage := .lookup (some p') } ∧
          ∀ k', Ev.body k' ∉ evs) ∨
       (∃ op w, t' = ⟨[], none, [(op, .val (some w))]⟩ ∧
          c' = { calls := rest, stage := .lookup none, bodies := c.bodies, rets := c.rets ++ [(k, w)] } ∧
          Ev.ret k w false ∈ evs ∧ ∀ k', Ev.body k' ∉ evs) ∨
       (∃ op o, t' = ⟨[], none, [(op, o)]⟩ ∧ (∀ w, o ≠ .val (some w)) ∧
          c' = { c with stage := .store none, bodies := c.bodies ++ [k] } ∧ Ev.body k ∈ evs)) := by
  unfold callerStep tstep
  rw [hc, hst]
  simp only
  generalize micro false cfg tl size s (.get k) rs p = r
  obtain ⟨s1, res⟩ := r
  have hw : ∀ k', Ev.write k' ∉ (match p with
      | none => [Ev.read k (ConcCalls.found cfg s k)]
      | some _ => ([] : List (Ev K V))) := by
    intro k' hm; cases p <;> simp at hm
  have he : ∀ k', Ev.erase k' ∉ (match p with
      | none => [Ev.read k (ConcCalls.found cfg s k)]
      | some _ => ([] : List (Ev K V))) := by
    intro k' hm; cases p <;> simp at hm
  have hb : ∀ k', Ev.body k' ∉ (match p with
      | none => [Ev.read k (ConcCalls.found cfg s k)]
      | some _ => ([] : List (Ev K V))) := by
    intro k' hm; cases p <;> simp at hm
  cases res with
  | more p' =>
    refine ⟨_, _, _, rfl, rfl, hw, he, Or.inl ⟨p', rfl, ?_, hb⟩⟩
    rw [← hc]
  | fin op o =>
    cases o with
    | unit =>
      refine ⟨_, _, _, rfl, rfl, ?_, ?_, Or.inr (Or.inr ⟨op, .unit, rfl, (by intro w hh; cases hh), ?_, by simp⟩)⟩
      · intro k' hm
        rcases List.mem_cons.mp hm with hm | hm
        · cases hm
        · exact hw k' hm
      · intro k' hm
        rcases List.mem_cons.mp hm with hm | hm
        · cases hm
        · exact he k' hm
      · rw [← hc]
    | val ow =>
      cases ow with
      | none =>
        refine ⟨_, _, _, rfl, rfl, ?_, ?_, Or.inr (Or.inr ⟨op, .val none, rfl, (by intro w hh; cases hh), ?_, by simp⟩)⟩
        · intro k' hm
          rcases List.mem_cons.mp hm with hm | hm
          · cases hm
          · exact hw k' hm
        · intro k' hm
          rcases List.mem_cons.mp hm with hm | hm
          · cases hm
          · exact he k' hm
        · rw [← hc]
      | some w =>
        refine ⟨_, _, _, rfl, rfl, ?_, ?_, Or.inr (Or.inl ⟨op, w, rfl, rfl, by simp, ?_⟩)⟩
        · intro k' hm
          rcases List.mem_cons.mp hm with hm | hm
          · cases hm
          · exact hw k' hm
        · intro k' hm
          rcases List.mem_cons.mp hm with hm | hm
          · cases hm
          · exact he k' hm
        · intro k' hm
          rcases List.mem_cons.mp hm with hm | hm
          · cases hm
          · exact hb k' hm

/-- **Return of a non-storing call** (real wrapper): no cache access at all -/
theorem callerStep_fail_return (mem : Bool) (cfg : Cfg) (tl : Tlru S) (size : V → Nat) (s : State K V)
    (c : Caller K V) (k : K) (rs : List Nat) (v : V) (rest : List (Call K V)) (p : Option (Pend K V))
    (hc : c.calls = (k, rs, v, false) :: rest) (hst : c.stage = .store p) :
    callerStep false mem cfg tl size s c
      = some (s, { calls := rest, stage := .lookup none, bodies := c.bodies, rets := c.rets ++ [(k, v)] },
              [.fail k v]) := by
  unfold callerStep
  rw [hc, hst]
  simp

/-- **Store stage of a storing call**: the caller performs the micro-step of the `ConcData` thread
    `[storeOp k v]` with the same local state -/
theorem callerStep_store (discard mem : Bool) (cfg : Cfg) (tl : Tlru S) (size : V → Nat) (s : State K V)
    (c : Caller K V) (k : K) (rs : List Nat) (v : V) (rest : List (Call K V)) (p : Option (Pend K V))
    (hc : c.calls = (k, rs, v, true) :: rest) (hst : c.stage = .store p) :
    ∃ t' c' evs,
      tstep false cfg tl size s ⟨[(storeOp mem k v, rs)], p, []⟩
        = some ((micro false cfg tl size s (storeOp mem k v) rs p).1, t') ∧
      callerStep discard mem cfg tl size s c
        = some ((micro false cfg tl size s (storeOp mem k v) rs p).1, c', evs) := by
  unfold callerStep tstep
  rw [hc, hst]
  simp only [if_true]
  generalize micro false cfg tl size s (storeOp mem k v) rs p = r
  obtain ⟨s1, res⟩ := r
  cases res with
  | more p' => exact ⟨_, _, _, rfl, rfl⟩
  | fin op o => exact ⟨_, _, _, rfl, rfl⟩

/-- the remaining calls only shrink, and a store-write event belongs to a storing call of the caller -/
theorem callerStep_calls (mem : Bool) (cfg : Cfg) (tl : Tlru S) (size : V → Nat) (s s' : State K V)
    (c c' : Caller K V) (evs : List (Ev K V)) (h : callerStep false mem cfg tl size s c = some (s', c', evs)) :
    (∀ y, y ∈ c'.calls → y ∈ c.calls) ∧
    (∀ k, Ev.write k ∈ evs → ∃ y, y ∈ c.calls ∧ y.1 = k ∧ y.2.2.2 = true) := by
  cases hcalls : c.calls with
  | nil => unfold callerStep at h; rw [hcalls] at h; cases h
  | cons a rest =>
    obtain ⟨k, rs, v, st⟩ := a
    cases hstage : c.stage with
    | lookup p =>
      obtain ⟨t', c1, evs1, _, h2, hw, _, hcase⟩ :=
        callerStep_lookup false mem cfg tl size s c k rs v st rest p hcalls hstage
      rw [h2] at h
      simp only [Option.some.injEq, Prod.mk.injEq] at h
      obtain ⟨_, rfl, rfl⟩ := h
      refine ⟨?_, fun k' hk' => absurd hk' (hw k')⟩
      rcases hcase with ⟨p', _, rfl, _⟩ | ⟨op, w, _, rfl, _⟩ | ⟨op, o, _, _, rfl, _⟩
      · intro y hy; rw [← hcalls]; exact hy
      · intro y hy; exact List.mem_cons_of_mem _ hy
      · intro y hy; rw [← hcalls]; exact hy
    | store p =>
      cases st with
      | false =>
        rw [callerStep_fail_return mem cfg tl size s c k rs v rest p hcalls hstage] at h
        simp only [Option.some.injEq, Prod.mk.injEq] at h
        obtain ⟨_, rfl, rfl⟩ := h
        refine ⟨fun y hy => List.mem_cons_of_mem _ hy, ?_⟩
        intro k' hk'; simp at hk'
      | true =>
        have hy0 : ∃ y, y ∈ (k, rs, v, true) :: rest ∧ y.1 = k ∧ y.2.2.2 = true :=
          ⟨(k, rs, v, true), List.mem_cons_self, rfl, rfl⟩
        have hevs : ∀ k', Ev.write k' ∈ (match p with
            | none => [Ev.write k]
            | some _ => ([] : List (Ev K V))) → k' = k := by
          intro k' hm
          cases p <;> simp at hm
          exact hm
        unfold callerStep at h
        rw [hcalls, hstage] at h
        simp only [if_true] at h
        generalize micro false cfg tl size s (storeOp mem k v) rs p = r at h
        obtain ⟨s1, res⟩ := r
        cases res with
        | more p' =>
          simp only [Option.some.injEq, Prod.mk.injEq] at h
          obtain ⟨_, rfl, rfl⟩ := h
          refine ⟨fun y hy => hy, ?_⟩
          intro k' hk'
          rw [hevs k' hk']; exact hy0
        | fin op o =>
          simp only [Option.some.injEq, Prod.mk.injEq] at h
          obtain ⟨_, rfl, rfl⟩ := h
          refine ⟨fun y hy => List.mem_cons_of_mem _ hy, ?_⟩
          intro k' hk'
          rcases List.mem_cons.mp hk' with hk' | hk'
          · cases hk'
          · rw [hevs k' hk']; exact hy0


/-- **Every caller step is a step of the `ConcData` thread the caller is** (`Caller.thread`), or — the
    return of a non-storing call — no engine step at all. -/
theorem callerStep_thread (mem : Bool) (cfg : Cfg) (tl : Tlru S) (size : V → Nat) (s s' : State K V)
    (c c' : Caller K V) (evs : List (Ev K V)) (h : callerStep false mem cfg tl size s c = some (s', c', evs)) :
    (∃ t', tstep false cfg tl size s (c.thread mem) = some (s', t')) ∨
    (tstep false cfg tl size s (c.thread mem) = none ∧ s' = s ∧ ∃ k v, evs = [Ev.fail k v]) := by
  cases hcalls : c.calls with
  | nil => unfold callerStep at h; rw [hcalls] at h; cases h
  | cons a rest =>
    obtain ⟨k, rs, v, st⟩ := a
    cases hstage : c.stage with
    | lookup p =>
      obtain ⟨t', c1, evs1, h1, h2, _⟩ := callerStep_lookup false mem cfg tl size s c k rs v st rest p hcalls hstage
      rw [h2] at h
      simp only [Option.some.injEq, Prod.mk.injEq] at h
      obtain ⟨rfl, _, _⟩ := h
      left
      refine ⟨t', ?_⟩
      simp only [Caller.thread, hcalls, hstage]
      exact h1
    | store p =>
      cases st with
      | false =>
        rw [callerStep_fail_return mem cfg tl size s c k rs v rest p hcalls hstage] at h
        simp only [Option.some.injEq, Prod.mk.injEq] at h
        obtain ⟨rfl, _, rfl⟩ := h
        right
        refine ⟨?_, rfl, k, v, rfl⟩
        simp [Caller.thread, hcalls, hstage, tstep]
      | true =>
        obtain ⟨t', c1, evs1, h1, h2⟩ := callerStep_store false mem cfg tl size s c k rs v rest p hcalls hstage
        rw [h2] at h
        simp only [Option.some.injEq, Prod.mk.injEq] at h
        obtain ⟨rfl, _, _⟩ := h
        left
        refine ⟨t', ?_⟩
        simp only [Caller.thread, hcalls, hstage, if_true]
        exact h1

/-- **Every step of the call-level system is a step of the interleaving model `ConcData`** on the state the
    call-level state is (`CallState.cstate`), by the same thread — or, for the return of a non-storing call,
    a step that leaves the shared cache untouched. -/
theorem callStep_is_cstep (mem : Bool) (cfg : Cfg) (tl : Tlru S) (size : V → Nat) (c c' : CallState K V) (i : Nat)
    (h : callStep false mem cfg tl size c i = some c') :
    (∃ d, cstep cfg tl size (c.cstate mem) i = some d ∧ d.shared = c'.shared) ∨
    (cstep cfg tl size (c.cstate mem) i = none ∧ c'.shared = c.shared ∧ ∃ k v, c'.log = Ev.fail k v :: c.log) := by
  obtain ⟨x, x', s', evs, l1, l2, hx, _, _, hstep, rfl⟩ := callStep_cases h
  have hth : (c.cstate mem).threads[i]? = some (x.thread mem) := by
    simp only [CallState.cstate, List.getElem?_map, hx, Option.map_some]
  rcases callerStep_thread mem cfg tl size c.shared s' x x' evs hstep with ⟨t', ht⟩ | ⟨ht, rfl, k, v, rfl⟩
  · left
    refine ⟨⟨s', (c.cstate mem).threads.set i t'⟩, ?_, rfl⟩
    simp only [cstep, cstepWith, hth]
    have : (c.cstate mem).shared = c.shared := rfl
    rw [this, ht]
  · right
    refine ⟨?_, rfl, k, v, rfl⟩
    simp only [cstep, cstepWith, hth]
    have : (c.cstate mem).shared = c.shared := rfl
    rw [this, ht]

/-- store-write events of a run belong to storing calls of the original call lists -/
structure WriteInv (all : List (Call K V)) (c : CallState K V) : Prop where
  calls : ∀ x, x ∈ c.callers → ∀ y, y ∈ x.calls → y ∈ all
  writes : ∀ k, Ev.write k ∈ c.log → ∃ y, y ∈ all ∧ y.1 = k ∧ y.2.2.2 = true

theorem callStep_writeInv (all : List (Call K V)) (mem : Bool) (cfg : Cfg) (tl : Tlru S) (size : V → Nat)
    (c : CallState K V) (i : Nat) (c' : CallState K V) (hi : WriteInv all c)
    (h : callStep false mem cfg tl size c i = some c') : WriteInv all c' := by
  obtain ⟨x, x', s', evs, l1, l2, _, hl, _, hstep, rfl⟩ := callStep_cases h
  have hxm : x ∈ c.callers := by rw [hl]; simp
  obtain ⟨h1, h2⟩ := callerStep_calls mem cfg tl size c.shared s' x x' evs hstep
  refine ⟨?_, ?_⟩
  · intro y hy
    simp only at hy
    rcases List.mem_append.mp hy with hy | hy
    · exact hi.calls y (by rw [hl]; exact List.mem_append_left _ hy)
    · rcases List.mem_cons.mp hy with hy | hy
      · rw [hy]; intro z hz; exact hi.calls x hxm z (h1 z hz)
      · exact hi.calls y (by rw [hl]; exact List.mem_append_right _ (List.mem_cons_of_mem _ hy))
  · intro k hm
    rcases List.mem_append.mp hm with hm | hm
    · obtain ⟨y, hy, hk, hst⟩ := h2 k hm
      exact ⟨y, hi.calls x hxm y hy, hk, hst⟩
    · exact hi.writes k hm

theorem writeInv_start (s : State K V) (callss : List (List (Call K V))) :
    WriteInv callss.flatten (CallState.start s callss) := by
  refine ⟨?_, ?_⟩
  · intro x hx y hy
    simp only [CallState.start, List.mem_map] at hx
    obtain ⟨calls, hcs, rfl⟩ := hx
    exact List.mem_flatten.mpr ⟨calls, hcs, hy⟩
  · intro k hm
    simp [CallState.start] at hm


/-! ## §3 The plain configuration (`ConcCalls.Plain`: no limit, no memory bound, no TTL) -/


/-- the step adds exactly key `k` to the key set (it may have been there already) -/
def AddKey (m m' : Store K V) (k : K) : Prop := ∀ x, x ∈ keys m' ↔ (x ∈ keys m ∨ x = k)

theorem put_addKey (k : K) (e : Entry V) (m : Store K V) : AddKey m (put k e m) k := by
  intro x
  rw [keys_put]
  simp only [List.mem_append, List.mem_filter, List.mem_singleton]
  by_cases hxk : x = k
  · simp [hxk]
  · simp [hxk]

theorem insert_addKey_plain {cfg : Cfg} (hp : ConcCalls.Plain cfg) (tl : Tlru S) (r : Nat) (s : State K V) (k : K) (v : V) :
    AddKey s.store (Cachelito.insert cfg tl r s k v).store k := by
  unfold Cachelito.insert
  cases cfg.flavour <;> simp only [ConcCalls.limitStep_plain hp]
  case async =>
    intro x
    rw [keys_put]
    simp only [List.mem_append, List.mem_filter, List.mem_singleton]
    by_cases hxk : x = k
    · simp [hxk]
    · split
      · rw [keys_eraseKey]; simp [hxk]
      · simp [hxk]
  all_goals exact put_addKey k _ s.store

theorem insertMem_addKey_plain {cfg : Cfg} (hp : ConcCalls.Plain cfg) (tl : Tlru S) (size : V → Nat) (rs : List Nat)
    (s : State K V) (k : K) (v : V) : AddKey s.store (Cachelito.insertMem cfg tl size rs s k v).store k := by
  unfold Cachelito.insertMem
  cases cfg.flavour <;> simp only [hp.2.1, ConcCalls.limitStep_plain hp]
  case async =>
    intro x
    rw [keys_put]
    simp only [List.mem_append, List.mem_filter, List.mem_singleton]
    by_cases hxk : x = k
    · simp [hxk]
    · split
      · rw [keys_eraseKey]; simp [hxk]
      · simp [hxk]
  all_goals exact put_addKey k _ s.store

/-- local state of a sync store between its two critical sections -/
def trackPend (mem : Bool) (k : K) (v : V) (rs : List Nat) : Pend K V :=
  if mem then .trackMem k v rs else .track k v (rs.headD 0)

/-- the store-write micro-step in the plain configuration: key `k` is added; async: the store is finished,
    sync: the queue section is left -/
theorem store_first_plain {cfg : Cfg} (hp : ConcCalls.Plain cfg) (mem : Bool) (tl : Tlru S) (size : V → Nat)
    (s : State K V) (k : K) (v : V) (rs : List Nat) :
    AddKey s.store (micro false cfg tl size s (storeOp mem k v) rs none).1.store k ∧
    (((∃ op, (micro false cfg tl size s (storeOp mem k v) rs none).2 = .fin op .unit) ∧ isAsync cfg = true) ∨
     ((micro false cfg tl size s (storeOp mem k v) rs none).2 = .more (trackPend mem k v rs) ∧
        isAsync cfg = false)) := by
  by_cases ha : isAsync cfg = true
  · cases mem with
    | false =>
      simp only [micro, first, storeOp, ha, if_true, Bool.false_eq_true, if_false]
      exact ⟨insert_addKey_plain hp tl _ s k v, Or.inl ⟨⟨_, rfl⟩, trivial⟩⟩
    | true =>
      simp only [micro, first, storeOp, ha, if_true]
      exact ⟨insertMem_addKey_plain hp tl size rs s k v, Or.inl ⟨⟨_, rfl⟩, trivial⟩⟩
  · have ha' : isAsync cfg = false := by simpa using ha
    cases mem with
    | false =>
      simp only [micro, first, storeOp, trackPend, ha', Bool.false_eq_true, if_false]
      exact ⟨put_addKey k _ s.store, Or.inr ⟨(by first | rfl | trivial), (by first | rfl | trivial)⟩⟩
    | true =>
      simp only [micro, first, storeOp, trackPend, ha', if_true, Bool.false_eq_true, if_false]
      exact ⟨put_addKey k _ s.store, Or.inr ⟨(by first | rfl | trivial), (by first | rfl | trivial)⟩⟩

/-- the queue section of a sync store in the plain configuration: the store is untouched, the store op is
    finished -/
theorem store_cont_plain {cfg : Cfg} (hp : ConcCalls.Plain cfg) (ha : isAsync cfg = false) (mem : Bool) (tl : Tlru S)
    (size : V → Nat) (s : State K V) (op : Op K V) (rs : List Nat) (k : K) (v : V) (rs' : List Nat) :
    (micro false cfg tl size s op rs (some (trackPend mem k v rs'))).1.store = s.store ∧
    ∃ op', (micro false cfg tl size s op rs (some (trackPend mem k v rs'))).2 = .fin op' .unit := by
  cases mem with
  | false =>
    simp only [micro, ha, trackPend, contSync, ConcCalls.limitStep_plain hp, Bool.false_eq_true, if_false]
    exact ⟨(by first | rfl | trivial), (by first | exact ⟨_, rfl⟩ | trivial | simp)⟩
  | true =>
    simp only [micro, ha, trackPend, contSync, trackMemStep, hp.2.1, ConcCalls.limitStep_plain hp, Bool.false_eq_true,
      if_false, if_true]
    exact ⟨(by first | rfl | trivial), (by first | exact ⟨_, rfl⟩ | trivial | simp)⟩

/-! ### Per-caller stage invariant and the shape of a caller step -/

/-- continuation of a hit on `k` of the engine at hand, carrying some value -/
def HitPendR (cfg : Cfg) (k : K) (p : Pend K V) : Prop := ∃ w : V, ConcCalls.HitPend (fun _ => w) cfg k p

def StagePred (mem : Bool) (cfg : Cfg) (log : List (Ev K V)) (k : K) (v : V) (st : Bool) : Stage K V → Prop
  | .lookup none => True
  | .lookup (some p) => HitPendR cfg k p ∧ Ev.read k true ∈ log
  | .store none => True
  | .store (some p) => st = true ∧ (∃ rs', p = trackPend mem k v rs') ∧ isAsync cfg = false ∧ Ev.write k ∈ log

/-- the local engine state of a caller fits its current call -/
def StageOK (mem : Bool) (cfg : Cfg) (log : List (Ev K V)) (c : Caller K V) : Prop :=
  ∀ k rs v st rest, c.calls = (k, rs, v, st) :: rest → StagePred mem cfg log k v st c.stage

theorem StageOK.mono {mem : Bool} {cfg : Cfg} {log : List (Ev K V)} {c : Caller K V} (h : StageOK mem cfg log c)
    (evs : List (Ev K V)) : StageOK mem cfg (evs ++ log) c := by
  intro k rs v st rest hc
  have := h k rs v st rest hc
  cases hs : c.stage with
  | lookup p =>
    rw [hs] at this
    cases p with
    | none => exact this
    | some p => exact ⟨this.1, List.mem_append_right _ this.2⟩
  | store p =>
    rw [hs] at this
    cases p with
    | none => exact this
    | some p => exact ⟨this.1, this.2.1, this.2.2.1, List.mem_append_right _ this.2.2.2⟩

/-- what a caller step adds to the log (newest first), to the key set and to the caller's body runs -/
inductive Shape (s s' : State K V) (log : List (Ev K V)) (b b' : List K) : List (Ev K V) → Prop
  | quiet : b' = b → keys s'.store = keys s.store → Shape s s' log b b' []
  | readHit (k : K) : b' = b → keys s'.store = keys s.store → k ∈ keys s.store → Shape s s' log b b' [.read k true]
  | readHitRet (k : K) (w : V) : b' = b → keys s'.store = keys s.store → k ∈ keys s.store →
      Shape s s' log b b' [.ret k w false, .read k true]
  | readMiss (k : K) : b' = b ++ [k] → keys s'.store = keys s.store → k ∉ keys s.store →
      Shape s s' log b b' [.body k, .read k false]
  | hitRet (k : K) (w : V) : b' = b → keys s'.store = keys s.store → Ev.read k true ∈ log →
      Shape s s' log b b' [.ret k w false]
  | write (k : K) : b' = b → AddKey s.store s'.store k → Shape s s' log b b' [.write k]
  | writeRet (k : K) (v : V) : b' = b → AddKey s.store s'.store k → Shape s s' log b b' [.ret k v true, .write k]
  | storeRet (k : K) (v : V) : b' = b → keys s'.store = keys s.store → Ev.write k ∈ log →
      Shape s s' log b b' [.ret k v true]
  | failRet (k : K) (v : V) : b' = b → keys s'.store = keys s.store → Shape s s' log b b' [.fail k v]

theorem stageOK_next (mem : Bool) (cfg : Cfg) (log : List (Ev K V)) (rest : List (Call K V))
    (b : List K) (r : List (K × V)) :
    StageOK mem cfg log ({ calls := rest, stage := .lookup none, bodies := b, rets := r } : Caller K V) := by
  intro k rs v st rest' _; exact trivial

/-- **One caller step in the plain configuration** (real wrapper). -/
theorem callerStep_spec {cfg : Cfg} (hp : ConcCalls.Plain cfg) (mem : Bool) (tl : Tlru S) (size : V → Nat)
    (s s' : State K V) (log : List (Ev K V)) (c c' : Caller K V) (evs : List (Ev K V))
    (hst : StageOK mem cfg log c)
    (h : callerStep false mem cfg tl size s c = some (s', c', evs)) :
    StageOK mem cfg (evs ++ log) c' ∧ Shape s s' log c.bodies c'.bodies evs := by
  unfold callerStep at h
  cases hc : c.calls with
  | nil => rw [hc] at h; cases h
  | cons a rest =>
    obtain ⟨k, rs, v, st⟩ := a
    have hpred := hst k rs v st rest hc
    rw [hc] at h
    simp only at h
    cases hstage : c.stage with
    | lookup p =>
      rw [hstage] at h hpred
      simp only at h
      cases p with
      | none =>
        simp only at h
        cases hl : lookup k s.store with
        | none =>
          have hr : micro false cfg tl size s (.get k) rs none
              = ({ s with missStat := s.missStat + 1 }, .fin (.get k) (.val none)) := by
            simp [micro, first, hl]
          have hfound : ConcCalls.found cfg s k = false := by simp [ConcCalls.found, hl]
          rw [hr, hfound] at h
          simp only [Option.some.injEq, Prod.mk.injEq] at h
          obtain ⟨rfl, rfl, rfl⟩ := h
          refine ⟨?_, Shape.readMiss k rfl rfl ((lookup_eq_none_iff k _).mp hl)⟩
          intro k' rs' v' st' rest' hc'
          exact trivial
        | some e =>
          have hkm : k ∈ keys s.store := by
            apply Classical.byContradiction; intro hn
            rw [(lookup_eq_none_iff _ _).mpr hn] at hl; cases hl
          have hfound : ConcCalls.found cfg s k = true := by simp [ConcCalls.found, hl, ConcCalls.expired_plain hp]
          obtain ⟨hkeys, hres⟩ := ConcCalls.get_first_plain hp tl size s k rs e hl
          rw [hfound] at h
          have hnew : ∀ p', (p' = .refresh k e.val ∧ isAsync cfg = true) ∨ (p' = .move k e.val ∧ isAsync cfg = false) ∨
              (p' = .bump k e.val ∧ isAsync cfg = false) →
              StageOK mem cfg ([Ev.read k true] ++ log)
                ({ calls := (k, rs, v, st) :: rest, stage := .lookup (some p'), bodies := c.bodies,
                   rets := c.rets } : Caller K V) := by
            intro p' hp' k' rs' v' st' rest' hc'
            simp only [List.cons.injEq, Prod.mk.injEq] at hc'
            obtain ⟨⟨rfl, _⟩, _⟩ := hc'
            exact ⟨⟨e.val, hp'⟩, by simp⟩
          rcases hres with hres | ⟨hres, ha⟩ | ⟨hres, ha⟩ | ⟨hres, ha⟩
          · rw [hres] at h
            simp only [Option.some.injEq, Prod.mk.injEq] at h
            obtain ⟨rfl, rfl, rfl⟩ := h
            exact ⟨stageOK_next mem cfg _ rest _ _, Shape.readHitRet k e.val rfl hkeys hkm⟩
          · rw [hres] at h
            simp only [Option.some.injEq, Prod.mk.injEq] at h
            obtain ⟨rfl, rfl, rfl⟩ := h
            exact ⟨hnew _ (Or.inl ⟨rfl, ha⟩), Shape.readHit k rfl hkeys hkm⟩
          · rw [hres] at h
            simp only [Option.some.injEq, Prod.mk.injEq] at h
            obtain ⟨rfl, rfl, rfl⟩ := h
            exact ⟨hnew _ (Or.inr (Or.inl ⟨rfl, ha⟩)), Shape.readHit k rfl hkeys hkm⟩
          · rw [hres] at h
            simp only [Option.some.injEq, Prod.mk.injEq] at h
            obtain ⟨rfl, rfl, rfl⟩ := h
            exact ⟨hnew _ (Or.inr (Or.inr ⟨rfl, ha⟩)), Shape.readHit k rfl hkeys hkm⟩
      | some p =>
        obtain ⟨⟨w, hhp⟩, hread⟩ := hpred
        obtain ⟨hkeys, hres⟩ := ConcCalls.get_cont_plain (fun _ => w) cfg tl size s k rs p hhp
        simp only at h
        rcases hres with hres | ⟨p', hres, hp'⟩
        · rw [hres] at h
          simp only [Option.some.injEq, Prod.mk.injEq] at h
          obtain ⟨rfl, rfl, rfl⟩ := h
          exact ⟨stageOK_next mem cfg _ rest _ _, Shape.hitRet k w rfl hkeys hread⟩
        · rw [hres] at h
          simp only [Option.some.injEq, Prod.mk.injEq] at h
          obtain ⟨rfl, rfl, rfl⟩ := h
          refine ⟨?_, Shape.quiet rfl hkeys⟩
          intro k' rs' v' st' rest' hc'
          simp only [List.cons.injEq, Prod.mk.injEq] at hc'
          obtain ⟨⟨rfl, _⟩, _⟩ := hc'
          exact ⟨⟨w, hp'⟩, by simpa using hread⟩
    | store p =>
      rw [hstage] at h hpred
      simp only at h
      cases st with
      | false =>
        simp only [Bool.false_eq_true, if_false, Option.some.injEq, Prod.mk.injEq] at h
        obtain ⟨rfl, rfl, rfl⟩ := h
        exact ⟨stageOK_next mem cfg _ rest _ _, Shape.failRet k v rfl rfl⟩
      | true =>
        simp only [if_true] at h
        cases p with
        | none =>
          simp only at h
          obtain ⟨hadd, hres⟩ := store_first_plain hp mem tl size s k v rs
          rcases hres with ⟨⟨op, hres⟩, ha⟩ | ⟨hres, ha⟩
          · rw [hres] at h
            simp only [Option.some.injEq, Prod.mk.injEq] at h
            obtain ⟨rfl, rfl, rfl⟩ := h
            exact ⟨stageOK_next mem cfg _ rest _ _, Shape.writeRet k v rfl hadd⟩
          · rw [hres] at h
            simp only [Option.some.injEq, Prod.mk.injEq] at h
            obtain ⟨rfl, rfl, rfl⟩ := h
            refine ⟨?_, Shape.write k rfl hadd⟩
            intro k' rs' v' st' rest' hc'
            simp only [List.cons.injEq, Prod.mk.injEq] at hc'
            obtain ⟨⟨rfl, _, rfl, rfl⟩, _⟩ := hc'
            exact ⟨rfl, ⟨_, rfl⟩, ha, by simp⟩
        | some p =>
          obtain ⟨_, ⟨rs', rfl⟩, ha, hw⟩ := hpred
          simp only at h
          obtain ⟨hstore, op', hres⟩ := store_cont_plain hp ha mem tl size s (storeOp mem k v) rs k v rs'
          rw [hres] at h
          simp only [Option.some.injEq, Prod.mk.injEq] at h
          obtain ⟨rfl, rfl, rfl⟩ := h
          exact ⟨stageOK_next mem cfg _ rest _ _, Shape.storeRet k v rfl (by rw [hstore]) hw⟩


/-! ### The ghost log -/

/-- what the log (newest first) says about the store and about itself (`init k` = "`k` was stored at the start"):
    * a key whose store-write micro-step has executed is stored;
    * a stored key was stored at the start or has been written;
    * no lookup of `k` executed AFTER a store-write of `k` missed, no body ran for `k` after it;
    * a call that reports "I stored `k`" executed its store-write of `k` BEFORE returning;
    * a lookup of `k` that found an entry came AFTER a store-write of `k` (or `k` was stored at the start);
    * a call served from the cache executed a successful read of its key BEFORE returning. -/
structure LogInv (init : K → Prop) (m : Store K V) (log : List (Ev K V)) : Prop where
  written : ∀ k, Ev.write k ∈ log → k ∈ keys m
  origin : ∀ k, k ∈ keys m → init k ∨ Ev.write k ∈ log
  after : ∀ l1 l2 k, log = l1 ++ Ev.write k :: l2 → Ev.read k false ∉ l1 ∧ Ev.body k ∉ l1
  stored : ∀ l1 l2 k v, log = l1 ++ Ev.ret k v true :: l2 → Ev.write k ∈ l2
  hit : ∀ l1 l2 k, log = l1 ++ Ev.read k true :: l2 → init k ∨ Ev.write k ∈ l2
  served : ∀ l1 l2 k w, log = l1 ++ Ev.ret k w false :: l2 → Ev.read k true ∈ l2

theorem LogInv.nil (m : Store K V) : LogInv (fun k => k ∈ keys m) m ([] : List (Ev K V)) := by
  refine ⟨?_, ?_, ?_, ?_, ?_, ?_⟩
  · intro k h; cases h
  · intro k h; exact Or.inl h
  · intro l1 l2 k h; cases l1 <;> cases h
  · intro l1 l2 k v h; cases l1 <;> cases h
  · intro l1 l2 k h; cases l1 <;> cases h
  · intro l1 l2 k w h; cases l1 <;> cases h

/-- one more event, possibly with a change of the key set -/
theorem LogInv.cons {init : K → Prop} {m : Store K V} {log : List (Ev K V)} (h : LogInv init m log)
    (e : Ev K V) (m' : Store K V)
    (hK : ∀ x, x ∈ keys m' ↔ (x ∈ keys m ∨ e = .write x))
    (hA1 : ∀ k, e = .read k false → k ∉ keys m)
    (hA2 : ∀ k, e = .body k → k ∉ keys m)
    (hR : ∀ k v, e = .ret k v true → Ev.write k ∈ log)
    (hH : ∀ k, e = .read k true → k ∈ keys m)
    (hS : ∀ k w, e = .ret k w false → Ev.read k true ∈ log) : LogInv init m' (e :: log) := by
  refine ⟨?_, ?_, ?_, ?_, ?_, ?_⟩
  · intro k hk
    rcases List.mem_cons.mp hk with hk | hk
    · exact (hK k).mpr (Or.inr hk.symm)
    · exact (hK k).mpr (Or.inl (h.written k hk))
  · intro k hk
    rcases (hK k).mp hk with hk | hk
    · rcases h.origin k hk with h1 | h1
      · exact Or.inl h1
      · exact Or.inr (List.mem_cons_of_mem _ h1)
    · right; rw [hk]; exact List.mem_cons_self
  · intro l1 l2 k hl
    cases l1 with
    | nil => exact ⟨(by intro hh; cases hh), (by intro hh; cases hh)⟩
    | cons a l1 =>
      simp only [List.cons_append, List.cons.injEq] at hl
      obtain ⟨rfl, hl⟩ := hl
      have hw : Ev.write k ∈ log := by rw [hl]; simp
      have hkm := h.written k hw
      obtain ⟨h1, h2⟩ := h.after l1 l2 k hl
      refine ⟨?_, ?_⟩
      · intro hh
        rcases List.mem_cons.mp hh with hh | hh
        · exact hA1 k hh.symm hkm
        · exact h1 hh
      · intro hh
        rcases List.mem_cons.mp hh with hh | hh
        · exact hA2 k hh.symm hkm
        · exact h2 hh
  · intro l1 l2 k v hl
    cases l1 with
    | nil =>
      simp only [List.nil_append, List.cons.injEq] at hl
      obtain ⟨rfl, rfl⟩ := hl
      exact hR k v rfl
    | cons a l1 =>
      simp only [List.cons_append, List.cons.injEq] at hl
      exact h.stored l1 l2 k v hl.2
  · intro l1 l2 k hl
    cases l1 with
    | nil =>
      simp only [List.nil_append, List.cons.injEq] at hl
      obtain ⟨rfl, rfl⟩ := hl
      exact h.origin k (hH k rfl)
    | cons a l1 =>
      simp only [List.cons_append, List.cons.injEq] at hl
      exact h.hit l1 l2 k hl.2
  · intro l1 l2 k w hl
    cases l1 with
    | nil =>
      simp only [List.nil_append, List.cons.injEq] at hl
      obtain ⟨rfl, rfl⟩ := hl
      exact hS k w rfl
    | cons a l1 =>
      simp only [List.cons_append, List.cons.injEq] at hl
      exact h.served l1 l2 k w hl.2

theorem sameKeys_iff {m m' : Store K V} (hk : keys m' = keys m) (e : Ev K V) (hne : ∀ x, e ≠ .write x) :
    ∀ x, x ∈ keys m' ↔ (x ∈ keys m ∨ e = .write x) := by
  intro x; rw [hk]
  constructor
  · intro h; exact Or.inl h
  · intro h
    rcases h with h | h
    · exact h
    · exact absurd h (hne x)

theorem addKey_iff {m m' : Store K V} {k : K} (hk : AddKey m m' k) :
    ∀ x, x ∈ keys m' ↔ (x ∈ keys m ∨ (Ev.write k : Ev K V) = .write x) := by
  intro x; rw [hk x]
  constructor
  · intro h
    rcases h with h | h
    · exact Or.inl h
    · exact Or.inr (by rw [h])
  · intro h
    rcases h with h | h
    · exact Or.inl h
    · cases h; exact Or.inr rfl

/-- the events of a caller step keep the log invariant -/
theorem LogInv.shape {init : K → Prop} {s s' : State K V} {log : List (Ev K V)} {b b' : List K}
    {evs : List (Ev K V)} (h : LogInv init s.store log) (hs : Shape s s' log b b' evs) :
    LogInv init s'.store (evs ++ log) := by
  cases hs with
  | quiet _ hk =>
    exact ⟨fun k hw => by rw [hk]; exact h.written k hw, fun k hm => h.origin k (by rw [← hk]; exact hm),
      h.after, h.stored, h.hit, h.served⟩
  | readHit k _ hk hkm =>
    exact h.cons _ _ (sameKeys_iff hk _ (by intro x hh; cases hh))
      (by intro k' hh; cases hh) (by intro k' hh; cases hh) (by intro k' v hh; cases hh)
      (by intro k' hh; cases hh; exact hkm) (by intro k' w hh; cases hh)
  | readHitRet k w _ hk hkm =>
    have h1 : LogInv init s.store (Ev.read k true :: log) :=
      h.cons _ _ (sameKeys_iff rfl _ (by intro x hh; cases hh))
        (by intro k' hh; cases hh) (by intro k' hh; cases hh) (by intro k' v hh; cases hh)
        (by intro k' hh; cases hh; exact hkm) (by intro k' w hh; cases hh)
    exact h1.cons _ _ (sameKeys_iff hk _ (by intro x hh; cases hh))
      (by intro k' hh; cases hh) (by intro k' hh; cases hh) (by intro k' v hh; cases hh)
      (by intro k' hh; cases hh) (by intro k' w' hh; cases hh; exact List.mem_cons_self)
  | readMiss k _ hk hkm =>
    have h1 : LogInv init s.store (Ev.read k false :: log) :=
      h.cons _ _ (sameKeys_iff rfl _ (by intro x hh; cases hh))
        (by intro k' hh; cases hh; exact hkm) (by intro k' hh; cases hh) (by intro k' v hh; cases hh)
        (by intro k' hh; cases hh) (by intro k' w hh; cases hh)
    exact h1.cons _ _ (sameKeys_iff hk _ (by intro x hh; cases hh))
      (by intro k' hh; cases hh) (by intro k' hh; cases hh; exact hkm) (by intro k' v hh; cases hh)
      (by intro k' hh; cases hh) (by intro k' w' hh; cases hh)
  | hitRet k w _ hk hr =>
    exact h.cons _ _ (sameKeys_iff hk _ (by intro x hh; cases hh))
      (by intro k' hh; cases hh) (by intro k' hh; cases hh) (by intro k' v hh; cases hh)
      (by intro k' hh; cases hh) (by intro k' w' hh; cases hh; exact hr)
  | write k _ hk =>
    exact h.cons _ _ (addKey_iff hk)
      (by intro k' hh; cases hh) (by intro k' hh; cases hh) (by intro k' v hh; cases hh)
      (by intro k' hh; cases hh) (by intro k' w' hh; cases hh)
  | writeRet k v _ hk =>
    have h1 : LogInv init s'.store (Ev.write k :: log) :=
      h.cons _ _ (addKey_iff hk)
        (by intro k' hh; cases hh) (by intro k' hh; cases hh) (by intro k' v hh; cases hh)
        (by intro k' hh; cases hh) (by intro k' w' hh; cases hh)
    exact h1.cons _ _ (sameKeys_iff rfl _ (by intro x hh; cases hh))
      (by intro k' hh; cases hh) (by intro k' hh; cases hh) (by intro k' v' hh; cases hh; exact List.mem_cons_self)
      (by intro k' hh; cases hh) (by intro k' w' hh; cases hh)
  | storeRet k v _ hk hw =>
    exact h.cons _ _ (sameKeys_iff hk _ (by intro x hh; cases hh))
      (by intro k' hh; cases hh) (by intro k' hh; cases hh) (by intro k' v' hh; cases hh; exact hw)
      (by intro k' hh; cases hh) (by intro k' w' hh; cases hh)
  | failRet k v _ hk =>
    exact h.cons _ _ (sameKeys_iff hk _ (by intro x hh; cases hh))
      (by intro k' hh; cases hh) (by intro k' hh; cases hh) (by intro k' v' hh; cases hh)
      (by intro k' hh; cases hh) (by intro k' w' hh; cases hh)

/-- a caller step never removes a key -/
theorem shape_keys_mono {s s' : State K V} {log : List (Ev K V)} {b b' : List K} {evs : List (Ev K V)}
    (hs : Shape s s' log b b' evs) : ∀ x, x ∈ keys s.store → x ∈ keys s'.store := by
  intro x hx
  cases hs with
  | quiet _ hk => rw [hk]; exact hx
  | readHit k _ hk _ => rw [hk]; exact hx
  | readHitRet k w _ hk _ => rw [hk]; exact hx
  | readMiss k _ hk _ => rw [hk]; exact hx
  | hitRet k w _ hk _ => rw [hk]; exact hx
  | write k _ hk => exact (hk x).mpr (Or.inl hx)
  | writeRet k v _ hk => exact (hk x).mpr (Or.inl hx)
  | storeRet k v _ hk _ => rw [hk]; exact hx
  | failRet k v _ hk => rw [hk]; exact hx

/-- body runs of a caller step = body events it logged = missed lookups it logged -/
theorem shape_bodies {s s' : State K V} {log : List (Ev K V)} {b b' : List K} {evs : List (Ev K V)}
    (hs : Shape s s' log b b' evs) (k : K) :
    b'.count k = b.count k + evs.countP (isBody k) ∧ evs.countP (isBody k) = evs.countP (isMiss k) := by
  cases hs with
  | quiet hb _ => rw [hb]; exact ⟨rfl, rfl⟩
  | readHit k' hb _ _ => rw [hb]; simp [isBody, isMiss]
  | readHitRet k' w hb _ _ => rw [hb]; simp [isBody, isMiss]
  | readMiss k' hb _ _ =>
    rw [hb, List.count_append]
    by_cases hk : k' = k <;> simp [isBody, isMiss, hk, List.count_cons]
  | hitRet k' w hb _ _ => rw [hb]; simp [isBody, isMiss]
  | write k' hb _ => rw [hb]; simp [isBody, isMiss]
  | writeRet k' v hb _ => rw [hb]; simp [isBody, isMiss]
  | storeRet k' v hb _ _ => rw [hb]; simp [isBody, isMiss]
  | failRet k' v hb _ => rw [hb]; simp [isBody, isMiss]

/-- a caller step does not run the body for a key that is stored -/
theorem shape_bodies_stored {s s' : State K V} {log : List (Ev K V)} {b b' : List K}
    {evs : List (Ev K V)} (hs : Shape s s' log b b' evs) (k : K) (hk : k ∈ keys s.store) :
    b'.count k = b.count k := by
  rw [(shape_bodies hs k).1]
  cases hs with
  | readMiss k' hb _ hk' =>
    have : k' ≠ k := fun hh => hk' (hh ▸ hk)
    simp [isBody, this]
  | quiet hb _ => rfl
  | readHit k' hb _ _ => simp [isBody]
  | readHitRet k' w hb _ _ => simp [isBody]
  | hitRet k' w hb _ _ => simp [isBody]
  | write k' hb _ => simp [isBody]
  | writeRet k' v hb _ => simp [isBody]
  | storeRet k' v hb _ _ => simp [isBody]
  | failRet k' v hb _ => simp [isBody]

/-! ### The system -/

/-- the invariant of the call-level system in the plain configuration -/
structure CallInv (mem : Bool) (cfg : Cfg) (init : K → Prop) (c : CallState K V) : Prop where
  stages : ∀ x, x ∈ c.callers → StageOK mem cfg c.log x
  logInv : LogInv init c.shared.store c.log
  bodies : ∀ k, totalBodies k c.callers = c.log.countP (isBody k)
  paired : ∀ k, c.log.countP (isBody k) = c.log.countP (isMiss k)

theorem totalBodies_mid (k : K) (l1 l2 : List (Caller K V)) (x : Caller K V) :
    totalBodies k (l1 ++ x :: l2) = totalBodies k l1 + x.bodies.count k + totalBodies k l2 := by
  simp only [totalBodies, List.map_append, List.map_cons, List.sum_append, List.sum_cons]; omega

/-- **One step of the system** keeps the invariant, never removes a key, does not run the body for a key
    that is stored, and only extends the log. -/
theorem callStep_inv {cfg : Cfg} (hp : ConcCalls.Plain cfg) (mem : Bool) (tl : Tlru S) (size : V → Nat)
    (init : K → Prop) (c : CallState K V) (i : Nat) (c' : CallState K V) (hi : CallInv mem cfg init c)
    (h : callStep false mem cfg tl size c i = some c') :
    CallInv mem cfg init c' ∧ (∀ x, x ∈ keys c.shared.store → x ∈ keys c'.shared.store) ∧
    (∀ k, k ∈ keys c.shared.store → totalBodies k c'.callers = totalBodies k c.callers) ∧
    (∃ evs, c'.log = evs ++ c.log) := by
  obtain ⟨x, x', s', evs, l1, l2, _, hl, _, hstep, rfl⟩ := callStep_cases h
  have hxm : x ∈ c.callers := by rw [hl]; simp
  obtain ⟨hstage, hshape⟩ := callerStep_spec hp mem tl size c.shared s' c.log x x' evs (hi.stages x hxm) hstep
  refine ⟨⟨?_, hi.logInv.shape hshape, ?_, ?_⟩, shape_keys_mono hshape, ?_, ⟨evs, rfl⟩⟩
  · intro y hy
    simp only at hy ⊢
    rcases List.mem_append.mp hy with hy | hy
    · exact (hi.stages y (by rw [hl]; exact List.mem_append_left _ hy)).mono evs
    · rcases List.mem_cons.mp hy with hy | hy
      · rw [hy]; exact hstage
      · exact (hi.stages y (by rw [hl]; exact List.mem_append_right _ (List.mem_cons_of_mem _ hy))).mono evs
  · intro k
    have := hi.bodies k
    rw [hl, totalBodies_mid] at this
    simp only [totalBodies_mid, List.countP_append, (shape_bodies hshape k).1]
    omega
  · intro k
    have := hi.paired k
    simp only [List.countP_append, (shape_bodies hshape k).2]
    omega
  · intro k hk
    simp only
    rw [hl, totalBodies_mid, totalBodies_mid, shape_bodies_stored hshape k hk]

theorem callInv_start (mem : Bool) (cfg : Cfg) (s : State K V) (callss : List (List (Call K V))) :
    CallInv mem cfg (fun k => k ∈ keys s.store) (CallState.start s callss) := by
  refine ⟨?_, LogInv.nil _, ?_, ?_⟩
  · intro x hx
    simp only [CallState.start, List.mem_map] at hx
    obtain ⟨calls, _, rfl⟩ := hx
    intro k rs v st rest _
    exact trivial
  · intro k
    simp only [CallState.start, totalBodies, List.map_map, List.countP_nil]
    have : ∀ l : List (List (Call K V)),
        (l.map ((fun c : Caller K V => c.bodies.count k) ∘ Caller.start)).sum = 0 := by
      intro l
      induction l with
      | nil => rfl
      | cons a l ih => simp only [List.map_cons, List.sum_cons, ih]; rfl
    exact this callss
  · intro k; rfl

/-- **Any schedule** keeps the invariant, never removes a key, does not run the body for a key that was
    stored at the start, and only extends the log. -/
theorem callRun_inv {cfg : Cfg} (hp : ConcCalls.Plain cfg) (mem : Bool) (tl : Tlru S) (size : V → Nat)
    (init : K → Prop) (sch : List ThreadId) (c : CallState K V) (hi : CallInv mem cfg init c) :
    CallInv mem cfg init (callRunR mem cfg tl size sch c) ∧
    (∀ x, x ∈ keys c.shared.store → x ∈ keys (callRunR mem cfg tl size sch c).shared.store) ∧
    (∀ k, k ∈ keys c.shared.store →
      totalBodies k (callRunR mem cfg tl size sch c).callers = totalBodies k c.callers) ∧
    (∃ evs, (callRunR mem cfg tl size sch c).log = evs ++ c.log) := by
  induction sch generalizing c with
  | nil => exact ⟨hi, fun x hx => hx, fun k _ => rfl, ⟨[], rfl⟩⟩
  | cons i sch ih =>
    simp only [callRunR, callRunWith]
    cases hs : callStep false mem cfg tl size c i with
    | none => exact ih c hi
    | some c' =>
      obtain ⟨h1, h2, h3, ⟨e1, h4⟩⟩ := callStep_inv hp mem tl size init c i c' hi hs
      obtain ⟨g1, g2, g3, ⟨e2, g4⟩⟩ := ih c' h1
      refine ⟨g1, fun x hx => g2 x (h2 x hx), fun k hk => ?_, ⟨e2 ++ e1, ?_⟩⟩
      · have := g3 k (h2 k hk)
        simp only [callRunR] at this
        rw [this, h3 k hk]
      · have := g4
        simp only [callRunR] at this
        rw [this, h4, List.append_assoc]

/-- a missed lookup is a lookup; without a successful lookup of `k` every lookup of `k` missed -/
theorem countP_isMiss_le_isRead (k : K) (l : List (Ev K V)) : l.countP (isMiss k) ≤ l.countP (isRead k) := by
  induction l with
  | nil => exact Nat.le_refl _
  | cons e l ih =>
    simp only [List.countP_cons]
    have : (if isMiss k e = true then 1 else 0) ≤ (if isRead k e = true then 1 else 0) := by
      cases e with
      | read k' b => cases b <;> simp [isMiss, isRead]
      | body k' => simp [isMiss]
      | write k' => simp [isMiss]
      | ret k' v b => simp [isMiss]
      | fail k' v => simp [isMiss]
      | erase k' => simp [isMiss]
    omega

theorem countP_isMiss_eq_isRead (k : K) (l : List (Ev K V)) (h : Ev.read k true ∉ l) :
    l.countP (isMiss k) = l.countP (isRead k) := by
  induction l with
  | nil => rfl
  | cons e l ih =>
    simp only [List.countP_cons]
    rw [ih (fun hh => h (List.mem_cons_of_mem _ hh))]
    have : isMiss k e = isRead k e := by
      cases e with
      | read k' b =>
        cases b with
        | false => rfl
        | true =>
          simp only [isMiss, isRead]
          by_cases hk : k' = k
          · subst hk; exact absurd List.mem_cons_self h
          · simp [hk]
      | body k' => rfl
      | write k' => rfl
      | ret k' v b => rfl
      | fail k' v => rfl
      | erase k' => rfl
    rw [this]


/-! ## §4 The deterministic instance is `ConcCalls` -/

/-- every remaining call produces `f` of its key and stores it -/
def DetCaller (f : K → V) (c : Caller K V) : Prop := ∀ x, x ∈ c.calls → x.2.2 = (f x.1, true)

/-- on a deterministic, always-storing caller the step of this model IS the step of `ConcCalls` (up to the
    events `ConcCalls` does not log) -/
theorem callerStep_det (f : K → V) (cfg : Cfg) (tl : Tlru S) (size : V → Nat) (s : State K V) (c : Caller K V)
    (hd : DetCaller f c) :
    (callerStep false false cfg tl size s c).map (fun r => (r.1, r.2.1.toCalls, r.2.2.filterMap Ev.toCalls?))
      = ConcCalls.callerStep f cfg tl size s c.toCalls := by
  unfold callerStep ConcCalls.callerStep
  cases hc : c.calls with
  | nil => simp [Caller.toCalls, hc]
  | cons a rest =>
    obtain ⟨k, rs, v, st⟩ := a
    have := hd (k, rs, v, st) (by rw [hc]; exact List.mem_cons_self)
    simp only [Prod.mk.injEq] at this
    obtain ⟨rfl, rfl⟩ := this
    simp only [Caller.toCalls, hc, List.map_cons]
    cases hstage : c.stage with
    | lookup p =>
      simp only
      generalize micro false cfg tl size s (.get k) rs p = r
      obtain ⟨s1, res⟩ := r
      cases res with
      | more p' => cases p <;> simp [Ev.toCalls?, hc, List.filterMap_cons]
      | fin op o =>
        cases o with
        | unit => cases p <;> simp [Ev.toCalls?, hc, List.filterMap_cons]
        | val ow =>
          cases ow with
          | none => cases p <;> simp [Ev.toCalls?, hc, List.filterMap_cons]
          | some w => cases p <;> simp [Ev.toCalls?, hc, List.filterMap_cons]
    | store p =>
      simp only [if_true, storeOp, Bool.false_eq_true, if_false]
      generalize micro false cfg tl size s (.insert k (f k)) rs p = r
      obtain ⟨s1, res⟩ := r
      cases res with
      | more p' => cases p <;> simp [Ev.toCalls?, hc, List.filterMap_cons]
      | fin op o => cases p <;> simp [Ev.toCalls?, hc, List.filterMap_cons]

theorem callStep_det (f : K → V) (cfg : Cfg) (tl : Tlru S) (size : V → Nat) (c : CallState K V) (i : Nat)
    (hd : ∀ x, x ∈ c.callers → DetCaller f x) :
    (callStep false false cfg tl size c i).map CallState.toCalls
      = ConcCalls.callStep f cfg tl size c.toCalls i := by
  unfold callStep ConcCalls.callStep
  simp only [CallState.toCalls, List.getElem?_map]
  cases hx : c.callers[i]? with
  | none => rfl
  | some x =>
    simp only [Option.map_some]
    rw [← callerStep_det f cfg tl size c.shared x (hd x (mem_of_getElem?_eq_some hx))]
    cases callerStep false false cfg tl size c.shared x with
    | none => rfl
    | some r =>
      obtain ⟨s', x', evs⟩ := r
      simp [CallState.toCalls, List.map_set, List.filterMap_append]

theorem callStep_detCallers (f : K → V) (cfg : Cfg) (tl : Tlru S) (size : V → Nat) (c c' : CallState K V) (i : Nat)
    (hd : ∀ x, x ∈ c.callers → DetCaller f x) (h : callStep false false cfg tl size c i = some c') :
    ∀ x, x ∈ c'.callers → DetCaller f x := by
  obtain ⟨x, x', s', evs, l1, l2, _, hl, _, hstep, rfl⟩ := callStep_cases h
  have hxm : x ∈ c.callers := by rw [hl]; simp
  obtain ⟨h1, _⟩ := callerStep_calls false cfg tl size c.shared s' x x' evs hstep
  intro y hy
  simp only at hy
  rcases List.mem_append.mp hy with hy | hy
  · exact hd y (by rw [hl]; exact List.mem_append_left _ hy)
  · rcases List.mem_cons.mp hy with hy | hy
    · rw [hy]; intro z hz; exact hd x hxm z (h1 z hz)
    · exact hd y (by rw [hl]; exact List.mem_append_right _ (List.mem_cons_of_mem _ hy))

/-- **runs coincide** -/
theorem callRun_det (f : K → V) (cfg : Cfg) (tl : Tlru S) (size : V → Nat) (sch : List ThreadId)
    (c : CallState K V) (hd : ∀ x, x ∈ c.callers → DetCaller f x) :
    (callRunR false cfg tl size sch c).toCalls = ConcCalls.callRun f cfg tl size sch c.toCalls := by
  induction sch generalizing c with
  | nil => rfl
  | cons i sch ih =>
    simp only [callRunR, callRunWith, ConcCalls.callRun]
    rw [← callStep_det f cfg tl size c i hd]
    cases hs : callStep false false cfg tl size c i with
    | none => exact ih c hd
    | some c' => exact ih c' (callStep_detCallers f cfg tl size c c' i hd hs)

theorem detCalls_proj (f : K → V) (calls : List (K × List Nat)) :
    (detCalls f calls).map (fun x => (x.1, x.2.1)) = calls := by
  simp [detCalls, List.map_map, Function.comp_def]

theorem start_det (f : K → V) (s : State K V) (callss : List (List (K × List Nat))) :
    (CallState.start s (callss.map (detCalls f))).toCalls = ConcCalls.CallState.start s callss ∧
    ∀ x, x ∈ (CallState.start s (callss.map (detCalls f))).callers → DetCaller f x := by
  refine ⟨?_, ?_⟩
  · simp only [CallState.toCalls, CallState.start, ConcCalls.CallState.start, List.map_map, List.filterMap_nil]
    congr 1
    apply List.map_congr_left
    intro calls _
    simp [Caller.toCalls, Caller.start, ConcCalls.Caller.start, detCalls_proj]
  · intro x hx
    simp only [CallState.start, List.mem_map] at hx
    obtain ⟨calls, ⟨calls0, _, rfl⟩, rfl⟩ := hx
    intro y hy
    simp only [Caller.start, detCalls, List.mem_map] at hy
    obtain ⟨z, _, rfl⟩ := hy
    rfl


end Cachelito.ConcCallsR
