#!/usr/bin/env python3
"""Development-time soak: run every quick check on the UNCHANGED tree with many seeds in a private slot (copy of /verif + worktree
of /repo, see mutate.py) and log every alarm — each one is a false alarm of the machinery (or a genuine defect) to investigate.
usage: soak.py <slot> <first seed> <last seed> [props...]"""
import sys, os, json, time
sys.path.insert(0, os.path.dirname(os.path.abspath(__file__)))
import mutate
slot, a, b = sys.argv[1], int(sys.argv[2]), int(sys.argv[3])
props = sys.argv[4:] or mutate.PROPS
repo, verif = mutate.setup_slot(slot)
env = dict(mutate.ENV, VERIF_REPO=repo)
log = f"/tmp/mut/soak_{slot}.jsonl"
for seed in range(a, b + 1):
    for p in props:
        t = time.time()
        rc, o = mutate.sh(f"./check {p} --tier quick --seed {seed}", cwd=verif, timeout=3000, env=env)
        vio = [l for l in o.splitlines() if l.startswith("VIOLATION")]
        rec = {"seed": seed, "prop": p, "rc": rc, "s": round(time.time() - t), "vio": vio[:3]}
        if rc != 0 or vio:
            rec["tail"] = o[-3000:]
            try:
                rp = vio[0].split("replay=")[1].split(" ")[0]
                keep = f"/tmp/mut/soak_{slot}_{p}_{seed}.replay"
                os.system(f"cp {os.path.join(verif, rp)} {keep}")
                rec["replay"] = keep
            except Exception:
                pass
            print("ALARM", seed, p, vio[:1], flush=True)
        with open(log, "a") as fh:
            fh.write(json.dumps(rec) + "\n")
    print("seed", seed, "done", flush=True)
