/-
  Cachelito.ConcDriver — ties the lock skeletons of `Cachelito.Conc.Table` to the REAL lock events
  recorded by the H1 hooks under the deterministic scheduler (`harness/src/bin/sched.rs`).

    T|<op kind>|<policy class>|<cache of the call or ->|<sync cache numbers>|<async cache numbers>|<trace tokens>

  op kind ∈ call_sync call_async tag event dep cache with allwith stats;
  trace tokens `acq.M.0.r`, `rel.O.1`, … (see `Conc.Table.parseEv`).
  Answers `ok`, or `DIFF …` when the real trace is not a path of the operation's skeleton, or
  `MON C17 …` when the real trace itself is not rank-ordered and balanced (the premise of the
  deadlock-freedom theorem, checked directly on the implementation's events).
-/
import Cachelito.Conc

namespace Cachelito.ConcDriver
open Cachelito.Conc Cachelito.Conc.Table

def natList (s : String) : List Nat := if s.isEmpty then [] else (s.splitOn ",").filterMap String.toNat?

def polClass : String → PolClass
  | "lru" => .lru | "lfu" => .lfu | "arcTlru" => .arcTlru | _ => .fifoRandom

def skelOf (kind pc : String) (c : Nat) (syncs asyncs : List Nat) : Option Skel :=
  match kind with
  | "call_sync" => some (.seq (syncGet c (polClass pc)) (Skel.alts [.done, syncInsert c, syncInsertMem c]))
  | "call_async" => some (.seq (asyncGet false c) (Skel.alts [.done, asyncInsert false c, asyncInsertMem false c]))
  | "tag" => some (invalidateBy Rt (clearCbs false syncs asyncs))
  | "event" => some (invalidateBy Re (clearCbs false syncs asyncs))
  | "dep" => some (invalidateBy Rd (clearCbs false syncs asyncs))
  | "cache" => some (invalidateCache (Skel.alts (clearCbs false syncs asyncs)))
  | "with" => some (invalidateWith (Skel.alts (condCbs false syncs asyncs)))
  | "allwith" => some (invalidateAllWith (condCbs false syncs asyncs))
  | "stats" => some statsQuery
  | _ => none

def handleConcLine (line : String) : String :=
  match line.splitOn "|" with
  | ["T", kind, pc, c, syncs, asyncs, toks] =>
    match parseTrace toks, skelOf kind pc (c.toNat?.getD 0) (natList syncs) (natList asyncs) with
    | some tr, some sk =>
      let ranked := checkTrace [] tr
      let acc := accepts sk tr
      if ranked && acc then "ok"
      else
        let a := if ranked then [] else
          [s!"MON C17 real lock trace of `{kind}` is not rank-ordered/balanced (acquires a lock while holding one of equal or higher rank, or leaks a guard): {toks}"]
        let b := if acc then [] else
          [s!"DIFF the real lock trace of `{kind}` ({pc}) is not a path of the model's skeleton: {toks}"]
        " ;; ".intercalate (b ++ a)
    | none, _ => s!"BAD trace tokens {toks}"
    | _, none => s!"BAD op kind {kind}"
  | _ => s!"BAD shape {line}"

end Cachelito.ConcDriver
