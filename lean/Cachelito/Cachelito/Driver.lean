/-
  Cachelito.Driver — line protocol between the Rust harness (real engines) and the model.

  L1 line (`core_diff`), fields separated by `|`:

    S|<cfg>|<pre-state>|<op>|<out>|<post-state>

  cfg        `<flavour> <policy> <limit|-> <maxmem|-> <ttl|-> <fw bits as decimal u64|->`
  state      `<entries>#<queue>#<hits>,<misses>`; entries `k=vid,size,age,hits` joined by `;`,
             queue keys joined by `,`.  `age` in ms (async: whole seconds × 1000).
  op         `get k` | `ins k vid size` | `insm k vid size` | `clear` | `inv k1,k2,…` | `tick ms`
  out        `some vid,size` | `none` | `unit` | `panic <msg>`

  The driver runs `Cachelito.step` FROM THE IMPLEMENTATION'S PRE-STATE and compares the result with
  the implementation's post-state and output (per-step simulation check).
-/
import Cachelito.Core

namespace Cachelito.Driver
open Cachelito

structure Val where
  id : String
  size : Nat
  deriving DecidableEq, Repr

abbrev St := State String Val

/-- the `f64` TLRU score of the implementation, transcribed (sync `utils.rs:463-515`, async
    `async_global_cache.rs:583-630`) -/
def tlruFloat (fw : Option Float) : Tlru Float where
  lt a b := a < b
  score cfg hits elapsedMs rank :=
    let f := hits.toFloat
    let pw := rank.toFloat
    let af := match cfg.ttl with
      | none => 1.0
      | some t =>
        -- sync: `entry.inserted_at.elapsed()` is read once PER ENTRY while the queue is scanned, so entries
        -- scanned later (smaller rank) see a slightly larger elapsed time; the driver mirrors that drift
        -- (100 ns per position) so that exact score ties break the way they do on the real clock.
        -- Theorems never depend on it (they quantify over every scorer).
        let el := match cfg.flavour with
          | .async => (elapsedMs / 1000).toFloat
          | _ => elapsedMs.toFloat / 1000.0 + 1e-7 * (64 - min rank 64).toFloat
        max (1.0 - min (el / t.toFloat) 1.0) 0.0
    let fc := match fw with
      | none => f
      | some w =>
        match cfg.flavour with
        | .async => if f > 0.0 then Float.pow f w else 0.0
        | _ => f * w
    fc * pw * af

/-! ### Parsing -/

def parseOptNat (s : String) : Option (Option Nat) :=
  if s = "-" then some none else s.toNat?.map some

def parseFlavour : String → Option Flavour
  | "global" => some .global | "thread" => some .threadLocal | "async" => some .async | _ => none

def parsePolicy : String → Option Policy
  | "fifo" => some .fifo | "lru" => some .lru | "lfu" => some .lfu
  | "arc" => some .arc | "random" => some .random | "tlru" => some .tlru | _ => none

def parseCfg (s : String) : Option (Cfg × Option Float) :=
  match s.splitOn " " with
  | [f, p, l, m, t, w] => do
    let f ← parseFlavour f
    let p ← parsePolicy p
    let l ← parseOptNat l
    let m ← parseOptNat m
    let t ← parseOptNat t
    let w ← parseOptNat w
    pure (⟨f, p, l, m, t⟩, w.map (fun b => Float.ofBits b.toUInt64))
  | _ => none

def base : Nat := 1000000000500

def birthOfAge (cfg : Cfg) (age : Nat) : Nat :=
  match cfg.flavour with
  | .async => (base / 1000 - age / 1000) * 1000
  | _ => base - age

def ageOf (cfg : Cfg) (now birth : Nat) : Nat := elapsedMs cfg now birth

def parseEntry (cfg : Cfg) (s : String) : Option (String × Entry Val) :=
  match s.splitOn "=" with
  | [k, r] =>
    match r.splitOn "," with
    | [vid, sz, age, hits] => do
      let sz ← sz.toNat?
      let age ← age.toNat?
      let hits ← hits.toNat?
      pure (k, ⟨⟨vid, sz⟩, birthOfAge cfg age, hits⟩)
    | _ => none
  | _ => none

def splitNonEmpty (s : String) (sep : String) : List String :=
  if s.isEmpty then [] else s.splitOn sep

def parseState (cfg : Cfg) (s : String) : Option St :=
  match s.splitOn "#" with
  | [es, q, st] => do
    let es ← (splitNonEmpty es ";").mapM (parseEntry cfg)
    let q := splitNonEmpty q ","
    match st.splitOn "," with
    | [h, m] => do
      let h ← h.toNat?
      let m ← m.toNat?
      pure ⟨es, q, base, h, m⟩
    | _ => none
  | _ => none

def parseOp (s : String) : Option (Op String Val) :=
  match s.splitOn " " with
  | ["get", k] => some (.get k)
  | ["ins", k, vid, sz] => sz.toNat?.map (fun n => .insert k ⟨vid, n⟩)
  | ["insm", k, vid, sz] => sz.toNat?.map (fun n => .insertMem k ⟨vid, n⟩)
  | ["clear"] => some .clear
  | ["inv"] => some (.invalidateWith (fun _ => false))
  | ["inv", ks] => let l := ks.splitOn ","; some (.invalidateWith (fun k => l.contains k))
  | ["tick", ms] => ms.toNat?.map .tick
  | _ => none

inductive ImplOut
  | val (o : Option Val)
  | unit
  | panic (msg : String)
  deriving Repr

def parseOut (s : String) : Option ImplOut :=
  match s.splitOn " " with
  | ["none"] => some (.val none)
  | ["unit"] => some .unit
  | ["some", r] =>
    match r.splitOn "," with
    | [vid, sz] => sz.toNat?.map (fun n => .val (some ⟨vid, n⟩))
    | _ => none
  | "panic" :: rest => some (.panic (" ".intercalate rest))
  | _ => none

/-! ### Canonical rendering (store sorted by key) -/

def insertSorted (x : String × String) : List (String × String) → List (String × String)
  | [] => [x]
  | y :: ys => if x.1 < y.1 then x :: y :: ys else y :: insertSorted x ys

def renderState (cfg : Cfg) (s : St) : String :=
  let es := s.store.map (fun (k, e) =>
    (k, s!"{k}={e.val.id},{e.val.size},{ageOf cfg s.now e.birth},{e.hits}"))
  let es := es.foldl (fun acc x => insertSorted x acc) []
  ";".intercalate (es.map (·.2)) ++ "#" ++ ",".intercalate s.queue ++ s!"#{s.hitStat},{s.missStat}"

def renderOut : Out Val → String
  | .val none => "none"
  | .val (some v) => s!"some {v.id},{v.size}"
  | .unit => "unit"

def renderImplOut : ImplOut → String
  | .val none => "none"
  | .val (some v) => s!"some {v.id},{v.size}"
  | .unit => "unit"
  | .panic m => s!"panic {m}"

/-! ### Random draws: the model is run with every vector of draws the implementation could have made -/

def vectors (base : Nat) : Nat → List (List Nat)
  | 0 => [[]]
  | n + 1 => (vectors base n).flatMap (fun v => (List.range base).map (fun r => r :: v))

structure StepResult where
  ok : Bool
  modelPost : String
  modelOut : String
  tries : Nat

def runStep (cfg : Cfg) (fw : Option Float) (pre : St) (op : Op String Val)
    (implOut : String) (implPost : String) : StepResult :=
  let tl := tlruFloat fw
  let try1 (rs : List Nat) : Bool × String × String :=
    let (s', o) := step cfg tl Val.size rs pre op
    let post := renderState cfg s'
    let out := renderOut o
    (post == implPost && out == implOut, post, out)
  let first := try1 []
  if first.1 || cfg.policy ≠ .random then ⟨first.1, first.2.1, first.2.2, 1⟩
  else
    let L := pre.queue.length + 1
    let rec go (d : Nat) (fuel : Nat) (tries : Nat) : StepResult :=
      match fuel with
      | 0 => ⟨false, first.2.1, first.2.2, tries⟩
      | fuel + 1 =>
        let vs := vectors L d
        if vs.any (fun v => (try1 v).1) then ⟨true, implPost, implOut, tries + vs.length⟩
        else go (d + 1) fuel (tries + vs.length)
    let blind := go 1 4 1
    if blind.ok then blind
    else
      -- more than four draws (memory loop over a queue with orphan slots): directed search.  Every draw removes ONE queue
      -- slot, and only slots that are absent from the implementation's final queue can have been drawn; enumerate the
      -- orders in which those slots can go (position in the CURRENT abstract queue = the draw), from each of the queues
      -- the engines can start the eviction with.
      let implQ : List String := match (implPost.splitOn "#") with
        | _ :: q :: _ => q.splitOn ","
        | _ => []
      let k := match op with
        | .insert k _ => k
        | .insertMem k _ => k
        | _ => ""
      let starts : List (List String) := [pre.queue.erase k ++ [k], pre.queue.erase k, pre.queue]
      let rec dfs (q : List String) (acc : List Nat) (fuel : Nat) : Bool :=
        match fuel with
        | 0 => false
        | fuel + 1 =>
          (List.range q.length).any (fun i =>
            match q[i]? with
            | some x =>
              if implQ.contains x then false
              else
                let v := acc ++ [i]
                (try1 v).1 || dfs (q.eraseIdx i) v fuel
            | none => false)
      if starts.any (fun q => dfs q [] 8) then ⟨true, implPost, implOut, blind.tries + 1⟩ else blind

end Cachelito.Driver
