/-
  Cachelito.Registry — the invalidation registry AS A DATA STRUCTURE
  (`cachelito-core/src/invalidation.rs:70-470`): three association tables
  `tag / event / dependency → set of cache names`, the metadata table, and the two callback tables
  (clear callbacks, conditional-invalidation callbacks), with every public operation of
  `InvalidationRegistry`.

  `Cachelito.System` abstracts the registry away (a cache "has a clear callback" iff its function was
  called and declares metadata).  This file models what the code stores, so that
    * the abstraction used by `System` can be PROVED to be what the tables compute for the registration
      sequences the macros produce (`Cachelito.C12r`), and
    * the real `InvalidationRegistry` can be driven directly (private instance, arbitrary registration
      histories incl. re-registration and `clear`) and compared with this model (`reg_diff`, driver `reg`).

  `HashMap` / `HashSet` are lists without duplicate keys / elements; iteration order is not modelled
  (outputs are compared as sorted lists).  A callback is represented by the identifier the registering
  party gave it; "invoking" a callback means reporting that identifier.
-/
namespace Cachelito.Registry

structure Meta where
  tags : List String
  events : List String
  deps : List String
  deriving DecidableEq, Repr

/-- `HashMap<String, HashSet<String>>` -/
abbrev Table := List (String × List String)

def Table.get (t : Table) (k : String) : List String :=
  match t.find? (fun p => p.1 = k) with
  | some p => p.2
  | none => []

/-- `entry(k).or_insert_with(HashSet::new).insert(name)` -/
def Table.add : Table → String → String → Table
  | [], k, name => [(k, [name])]
  | (k', ns) :: t, k, name =>
    if k' = k then (k', if ns.contains name then ns else ns ++ [name]) :: t
    else (k', ns) :: Table.add t k name

def Table.addAll (t : Table) (ks : List String) (name : String) : Table :=
  ks.foldl (fun t k => t.add k name) t

/-- `HashMap<String, T>::insert` -/
def setKey {α : Type} : List (String × α) → String → α → List (String × α)
  | [], k, v => [(k, v)]
  | (k', v') :: t, k, v => if k' = k then (k, v) :: t else (k', v') :: setKey t k v

def getKey {α : Type} (l : List (String × α)) (k : String) : Option α :=
  (l.find? (fun p => p.1 = k)).map (·.2)

structure Reg where
  tags : Table := []
  events : Table := []
  deps : Table := []
  metas : List (String × Meta) := []
  clearCb : List (String × Nat) := []     -- cache name → identifier of its clear callback
  condCb : List (String × Nat) := []      -- cache name → identifier of its conditional-invalidation callback
  deriving Repr

inductive Op
  | register (name : String) (m : Meta)
  | registerCallback (name : String) (id : Nat)
  | registerCond (name : String) (id : Nat)
  | byTag (t : String)
  | byEvent (e : String)
  | byDep (d : String)
  | byName (n : String)
  | withPred (n : String)
  | allWith
  | getByTag (t : String)
  | getByEvent (e : String)
  | getDependents (d : String)
  | clear
  deriving Repr

inductive Out
  | unit
  | count (n : Nat) (invoked : List Nat)     -- return value, identifiers of the callbacks that ran
  | flag (b : Bool) (invoked : List Nat)
  | names (l : List String)
  deriving Repr, DecidableEq

/-- `invalidate_caches`: run the clear callback of every name of the set that has one -/
def invokeAll (r : Reg) (names : List String) : List Nat :=
  names.filterMap (fun n => getKey r.clearCb n)

def step (r : Reg) : Op → Reg × Out
  | .register name m =>
    ({ r with tags := r.tags.addAll m.tags name, events := r.events.addAll m.events name,
              deps := r.deps.addAll m.deps name, metas := setKey r.metas name m }, .unit)
  | .registerCallback name id => ({ r with clearCb := setKey r.clearCb name id }, .unit)
  | .registerCond name id => ({ r with condCb := setKey r.condCb name id }, .unit)
  | .byTag t => let l := invokeAll r (r.tags.get t); (r, .count l.length l)
  | .byEvent e => let l := invokeAll r (r.events.get e); (r, .count l.length l)
  | .byDep d => let l := invokeAll r (r.deps.get d); (r, .count l.length l)
  | .byName n =>
    match getKey r.clearCb n with
    | some id => (r, .flag true [id])
    | none => (r, .flag false [])
  | .withPred n =>
    match getKey r.condCb n with
    | some id => (r, .flag true [id])
    | none => (r, .flag false [])
  | .allWith => let l := r.condCb.map (·.2); (r, .count l.length l)
  | .getByTag t => (r, .names (r.tags.get t))
  | .getByEvent e => (r, .names (r.events.get e))
  | .getDependents d => (r, .names (r.deps.get d))
  | .clear => ({}, .unit)

def run : Reg → List Op → Reg × List Out
  | r, [] => (r, [])
  | r, op :: ops =>
    let (r1, o) := step r op
    let (r2, os) := run r1 ops
    (r2, o :: os)

def runState (r : Reg) (ops : List Op) : Reg := ops.foldl (fun r op => (step r op).1) r

/-! ### What the macros do on the first call of a global / async function
    (`cachelito-macros/src/lib.rs:300-370`, `cachelito-async-macros/src/lib.rs:430-500`) -/

/-- the registration operations of one cached function; callback identifiers are the function's index -/
def firstCallOps (i : Nat) (name : String) (m : Meta) : List Op :=
  (if m.tags.isEmpty && m.events.isEmpty && m.deps.isEmpty then []
   else [.register name m, .registerCallback name i]) ++ [.registerCond name i]

end Cachelito.Registry
