/-
  Helper lemmas for `Props/T01.lean` (translator tie of the pure helper code): the library meanings of
  `RustLite.lean` against the list functions of the model, and the `if score < best { best = score; key = k }`
  fold of the translated scans against `firstMin`.
-/
import Cachelito.RustLite

set_option linter.unusedSimpArgs false
set_option linter.unusedVariables false
set_option linter.unusedSectionVars false

namespace Cachelito.SourceLemmas
open Cachelito Cachelito.RustLite

variable {K V S : Type} [DecidableEq K]

/-! ### `position` / `eraseIdx` vs `∈` / `erase` -/

theorem position_none (k : K) : ∀ q : List K, position (fun x => decide (x = k)) q = none → k ∉ q
  | [], _ => by simp
  | x :: xs, h => by
      simp only [position] at h
      by_cases hx : x = k
      · simp [hx] at h
      · simp [hx] at h
        have := position_none k xs h
        simp [this, Ne.symm hx]

theorem position_some (k : K) : ∀ (q : List K) (i : Nat), position (fun x => decide (x = k)) q = some i →
    k ∈ q ∧ q.eraseIdx i = q.erase k ∧ q[i]? = some k
  | [], i, h => by simp [position] at h
  | x :: xs, i, h => by
      simp only [position] at h
      by_cases hx : x = k
      · simp [hx] at h
        subst h; subst hx
        simp
      · simp [hx] at h
        obtain ⟨j, hj, rfl⟩ := h
        have ih := position_some k xs j hj
        refine ⟨by simp [ih.1], ?_, by simpa using ih.2.2⟩
        simp [List.eraseIdx, ih.2.1, List.erase_cons, hx]

/-! ### enumerate -/

theorem enumerateFrom_length {α : Type} : ∀ (i : Nat) (l : List α), (enumerateFrom i l).length = l.length
  | _, [] => rfl
  | i, x :: xs => by simp [enumerateFrom, enumerateFrom_length (i + 1) xs]

theorem enumerate_length {α : Type} (l : List α) : (enumerate l).length = l.length := enumerateFrom_length 0 l

/-! ### the translated scan vs `firstMin` -/

/-- the scan of the translated code over a list of scored candidates: state = (best score, best key) -/
def scan (lt : S → S → Bool) : S × Option K → List (K × S) → S × Option K
  | st, [] => st
  | st, c :: cs => if lt c.2 st.1 then scan lt (c.2, some c.1) cs else scan lt st cs

theorem scan_some (lt : S → S → Bool) : ∀ (cs : List (K × S)) (b : K × S),
    (scan lt (b.2, some b.1) cs).2 = some (firstMinAux lt b cs).1
  | [], b => rfl
  | c :: cs, b => by
      simp only [scan, firstMinAux]
      by_cases h : lt c.2 b.2 = true
      · simp [h, scan_some lt cs c]
      · simp [h, scan_some lt cs b]

/-- started from `MAX`, the scan returns the FIRST minimum — provided the first candidate is below `MAX` -/
theorem scan_max (lt : S → S → Bool) (mx : S) (cs : List (K × S)) (hmx : ∀ c, c ∈ cs → lt c.2 mx = true) :
    (scan lt (mx, none) cs).2 = firstMin lt cs := by
  cases cs with
  | nil => rfl
  | cons c cs =>
    simp only [scan, firstMin]
    have := hmx c (by simp)
    simp [this, scan_some lt cs c]

/-- the loop of the translated finders, over the (index, key) pairs of the queue, is `scan` over `candsFrom` -/
theorem fold_eq_scan (lt : S → S → Bool) (score : Entry V → Nat → Nat → S) (m : Store K V) (len : Nat) :
    ∀ (q : List K) (i : Nat) (st : S × Option K),
      List.foldl (fun (st : S × Option K) (p : Nat × K) =>
          match lookup p.2 m with
          | some e => if lt (score e p.1 len) st.1 then (score e p.1 len, some p.2) else st
          | none => st) st (enumerateFrom i q)
        = scan lt st (candsFrom score m len i q)
  | [], i, st => rfl
  | k :: q, i, st => by
      simp only [enumerateFrom, List.foldl, candsFrom]
      cases h : lookup k m with
      | none => simpa [h] using fold_eq_scan lt score m len q (i + 1) st
      | some e =>
        by_cases hl : lt (score e i len) st.1 = true
        · simp [h, hl, scan, fold_eq_scan lt score m len q (i + 1)]
        · simp [h, hl, scan, fold_eq_scan lt score m len q (i + 1)]

/-- two loop bodies that agree on every state and element give the same loop -/
theorem foldl_congr' {α β : Type} {f g : β → α → β} (h : ∀ b a, f b a = g b a) :
    ∀ (l : List α) (b : β), List.foldl f b l = List.foldl g b l
  | [], _ => rfl
  | a :: l, b => by simp [List.foldl, h, foldl_congr' h l]

/-- the same for a loop over the keys alone (a score that does not depend on the position) -/
theorem fold_keys_eq_scan (lt : S → S → Bool) (sc : Entry V → S) (m : Store K V) (len : Nat) :
    ∀ (q : List K) (i : Nat) (st : S × Option K),
      List.foldl (fun (st : S × Option K) (k : K) =>
          match lookup k m with
          | some e => if lt (sc e) st.1 then (sc e, some k) else st
          | none => st) st q
        = scan lt st (candsFrom (fun e _ _ => sc e) m len i q)
  | [], i, st => rfl
  | k :: q, i, st => by
      simp only [List.foldl, candsFrom]
      cases h : lookup k m with
      | none => simpa [h] using fold_keys_eq_scan lt sc m len q (i + 1) st
      | some e =>
        by_cases hl : lt (sc e) st.1 = true
        · simp [h, hl, scan, fold_keys_eq_scan lt sc m len q (i + 1)]
        · simp [h, hl, scan, fold_keys_eq_scan lt sc m len q (i + 1)]

/-- every candidate's score is a score of a stored entry -/
theorem mem_candsFrom (score : Entry V → Nat → Nat → S) (m : Store K V) (len : Nat) :
    ∀ (q : List K) (i : Nat) (c : K × S), c ∈ candsFrom score m len i q →
      ∃ e j, lookup c.1 m = some e ∧ c.2 = score e j len
  | [], _, c, h => by simp [candsFrom] at h
  | k :: q, i, c, h => by
      simp only [candsFrom] at h
      cases hk : lookup k m with
      | none => simp [hk] at h; exact mem_candsFrom score m len q (i + 1) c h
      | some e =>
        simp [hk] at h
        rcases h with rfl | h
        · exact ⟨e, i, hk, rfl⟩
        · exact mem_candsFrom score m len q (i + 1) c h

/-- `firstMin` only looks at the order of the scores: an order-preserving re-scoring does not change the victim -/
theorem firstMinAux_map (lt : S → S → Bool) {T : Type} (lt' : T → T → Bool) (f : S → T)
    (hf : ∀ a b, lt' (f a) (f b) = lt a b) : ∀ (cs : List (K × S)) (b : K × S),
    (firstMinAux lt' (b.1, f b.2) (cs.map (fun c => (c.1, f c.2)))).1 = (firstMinAux lt b cs).1
  | [], b => rfl
  | c :: cs, b => by
      simp only [List.map, firstMinAux, hf]
      by_cases h : lt c.2 b.2 = true
      · simp [h, firstMinAux_map lt lt' f hf cs c]
      · simp [h, firstMinAux_map lt lt' f hf cs b]

theorem firstMin_map (lt : S → S → Bool) {T : Type} (lt' : T → T → Bool) (f : S → T)
    (hf : ∀ a b, lt' (f a) (f b) = lt a b) (cs : List (K × S)) :
    firstMin lt' (cs.map (fun c => (c.1, f c.2))) = firstMin lt cs := by
  cases cs with
  | nil => rfl
  | cons c cs => simp [firstMin, firstMinAux_map lt lt' f hf cs c]

theorem candsFrom_map {T : Type} (f : S → T) (score : Entry V → Nat → Nat → S) (m : Store K V) (len : Nat) :
    ∀ (q : List K) (i : Nat),
      candsFrom (fun e i len => f (score e i len)) m len i q = (candsFrom score m len i q).map (fun c => (c.1, f c.2))
  | [], _ => rfl
  | k :: q, i => by
      simp only [candsFrom]
      cases lookup k m <;> simp [candsFrom_map f score m len q (i + 1)]

end Cachelito.SourceLemmas
