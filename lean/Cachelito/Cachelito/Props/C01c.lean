/-
  C01 (c) — A cached call returns exactly what the uncached function returns FOR THE SAME ARGUMENTS.

  C01 (b) (`Props/C01b.lean`) is stated over keys: a function deterministic in its KEY returns
  `f key`.  C02 (`Props/C02.lean`) shows that the key determines the argument tuple.  This file puts
  the two together and states C01 over ARGUMENTS, which is what a user of `#[cache]` reads it as.

  Setting.  A decorated function `i` has a signature `sg : Sig` (optional receiver type, argument
  types, over the whole type grammar of `Keys.lean`) and a deterministic body
  `g : receiver → arguments → V`.  Every call of `i` in the history is a call with some well-typed
  receiver/argument tuple `(r, a)`: its key is `keyOf fm r a` (what both macro key builders generate) and
  its body, if it runs, returns `g r a`.  Everything else is arbitrary: the other cached functions (any
  keys, impure bodies), the configuration of every function (flavour, scope, policy, limit, TTL, memory
  bound, `cache_if`, `invalidate_on`, `Result` filtering), score algebras, sizes, random draws, the
  verdicts of the user predicates, ticks, invalidations, statistics operations, threads.
  The hypothesis is `CallsHaveArgs fm sg g i ops` (`Lemmas/Extra.lean`):
    `∀ p ∈ ops, ∀ th c, p.1 = .call i th c → ∃ r a, sg.wt r a = true ∧ c.key = keyOf fm r a ∧ c.bodyVal = g r a`.

  Assumptions, exactly those of C02, explicit in every statement:
  * `FloatOK fm.float` — the (unmodelled) float printer is injective and prints a non-empty string over
    the float alphabet (for `f64`/`f32`: all NaNs identified; see `C02.key_injective_up_to_float_text`
    for what remains without injectivity);
  * `fm.esc` — the Unicode escape predicate of `{:?}` — is ARBITRARY (universally quantified);
  * keys are built by `keyOf` from `Debug` renderings (user-written `CacheableKey` impls are outside).
-/
import Cachelito.Props.C01b
import Cachelito.Props.C02
import Cachelito.Lemmas.Extra

set_option linter.unusedSectionVars false
set_option linter.unusedSimpArgs false
set_option linter.unusedVariables false

namespace Cachelito.C01c
open Cachelito Cachelito.Calls Cachelito.Keys Cachelito.Extra
variable {V S F : Type}

section
variable (fns : List FnSpec) (tls : Nat → Tlru S) (size : V → Nat) (isOk : V → Bool)

/-- **C01 over arguments, whole histories.**  If every call of function `i` in the history is a call
    with well-typed arguments whose body returns `g` of the arguments, then every call of `i` with
    (well-typed) receiver `r` and arguments `a` returns exactly `g r a` — whether the value comes from the
    body or from the cache, whatever was cached for OTHER arguments, by other functions, and whatever
    was evicted, expired or invalidated in between. -/
theorem returns_body_value_of_args (fm : Fmt F) (hf : FloatOK fm.float) (sg : Sig)
    (g : Option (Val F) → List (Val F) → V) (i : Nat) (ops : List (SysOp Text V × List Nat))
    (hcalls : CallsHaveArgs fm sg g i ops)
    (j th : Nat) (c : CallIn Text V) (rs : List Nat) (hj : ops[j]? = some (.call i th c, rs))
    (r : Option (Val F)) (a : List (Val F)) (hw : sg.wt r a = true) (hk : c.key = keyOf fm r a)
    (v : V) (tr : List (TraceEv Text V))
    (hout : (sysRun fns tls size isOk (Sys.init : Sys Text V) ops).2[j]? = some (.ret v tr)) : v = g r a := by
  have hdec : ∀ r' a', sg.wt r' a' = true → decode fm sg g v (keyOf fm r' a') = g r' a' := fun r' a' hw' =>
    decode_keyOf fm sg g v r' a' hw'
      (fun r'' a'' hw'' hkk => C02.key_injective fm hf sg r'' r' a'' a' hw'' hw' hkk)
  have hdet : ∀ p ∈ ops, ∀ th c, p.1 = SysOp.call i th c → c.bodyVal = decode fm sg g v c.key := by
    intro p hp th c hc
    obtain ⟨r', a', hw', hk', hb'⟩ := hcalls p hp th c hc
    rw [hk', hb', hdec r' a' hw']
  have := C01b.returns_body_value fns tls size isOk i (decode fm sg g v) ops hdet j th c rs hj v tr hout
  rw [this, hk, hdec r a hw]

/-- **C01 over arguments, one call after any history.**  After any history `pre` in which function `i`
    was only called with well-typed arguments (body = `g` of the arguments), a call of `i` with
    well-typed `(r, a)` — built by `argCall`: key `keyOf fm r a`, body value `g r a`, arbitrary predicate
    oracles — returns `g r a`. -/
theorem call_returns_body_value_of_args (fm : Fmt F) (hf : FloatOK fm.float) (sg : Sig)
    (g : Option (Val F) → List (Val F) → V) (i : Nat) (pre : List (SysOp Text V × List Nat))
    (hcalls : CallsHaveArgs fm sg g i pre)
    (th : Nat) (r : Option (Val F)) (a : List (Val F)) (hw : sg.wt r a = true)
    (cacheIf invalidateOn : Text → V → Bool) (rs : List Nat) (v : V) (tr : List (TraceEv Text V))
    (hout : (sysStep fns tls size isOk rs (sysRun fns tls size isOk (Sys.init : Sys Text V) pre).1
      (.call i th (argCall fm g r a cacheIf invalidateOn))).2 = .ret v tr) : v = g r a := by
  have hdec : ∀ r' a', sg.wt r' a' = true → decode fm sg g v (keyOf fm r' a') = g r' a' := fun r' a' hw' =>
    decode_keyOf fm sg g v r' a' hw'
      (fun r'' a'' hw'' hkk => C02.key_injective fm hf sg r'' r' a'' a' hw'' hw' hkk)
  have hdet : ∀ p ∈ pre, ∀ th c, p.1 = SysOp.call i th c → c.bodyVal = decode fm sg g v c.key := by
    intro p hp th c hc
    obtain ⟨r', a', hw', hk', hb'⟩ := hcalls p hp th c hc
    rw [hk', hb', hdec r' a' hw']
  have := C01b.call_returns_body_value fns tls size isOk i (decode fm sg g v) pre hdet th
    (argCall fm g r a cacheIf invalidateOn) rs (by simp only [argCall]; exact (hdec r a hw).symm) v tr hout
  rw [this]
  exact hdec r a hw

/-- **Never a value stored for other arguments** (no determinism of the body needed).  If a call of `i`
    with well-typed `(r, a)` is answered from the cache, the value it returns was produced by the body in
    an EARLIER call of the same function whose argument tuple — any well-typed tuple that renders to that
    call's key — is exactly `(r, a)`. -/
theorem served_value_same_arguments {spec : FnSpec} {i : Nat} (hspec : fns[i]? = some spec)
    (fm : Fmt F) (hf : FloatOK fm.float) (sg : Sig) (pre : List (SysOp Text V × List Nat))
    (th : Nat) (c : CallIn Text V) (rs : List Nat)
    (r : Option (Val F)) (a : List (Val F)) (hw : sg.wt r a = true) (hk : c.key = keyOf fm r a)
    (v : V) (tr : List (TraceEv Text V))
    (hout : (sysStep fns tls size isOk rs (sysRun fns tls size isOk (Sys.init : Sys Text V) pre).1
      (.call i th c)).2 = .ret v tr)
    (hserved : TraceEv.returned v true ∈ tr) :
    ∃ p ∈ pre, ∃ th' c', p.1 = SysOp.call i th' c' ∧ c'.bodyVal = v ∧ c'.key = keyOf fm r a ∧
      ∀ r' a', sg.wt r' a' = true → c'.key = keyOf fm r' a' → r' = r ∧ a' = a := by
  obtain ⟨_, h2, _⟩ := C01b.served_value_provenance fns tls size isOk hspec pre th c rs v tr hout
  obtain ⟨c', _, hkey, hval, p, hp, th', hcall⟩ := h2 hserved
  refine ⟨p, hp, th', c', hcall, hval, hkey.trans hk, ?_⟩
  intro r' a' hw' hk'
  exact C02.key_injective fm hf sg r' r a' a hw' hw (by rw [← hk', hkey, hk])

/-- Calls with DIFFERENT (well-typed) arguments never serve each other: if the call with `(r, a)` is
    answered from the cache, no call with other arguments `(r', a')` produced the served entry — stated
    as: the producing call's key differs from the key of every other well-typed tuple. -/
theorem served_value_not_from_other_arguments {spec : FnSpec} {i : Nat} (hspec : fns[i]? = some spec)
    (fm : Fmt F) (hf : FloatOK fm.float) (sg : Sig) (pre : List (SysOp Text V × List Nat))
    (th : Nat) (c : CallIn Text V) (rs : List Nat)
    (r : Option (Val F)) (a : List (Val F)) (hw : sg.wt r a = true) (hk : c.key = keyOf fm r a)
    (v : V) (tr : List (TraceEv Text V))
    (hout : (sysStep fns tls size isOk rs (sysRun fns tls size isOk (Sys.init : Sys Text V) pre).1
      (.call i th c)).2 = .ret v tr)
    (hserved : TraceEv.returned v true ∈ tr) :
    ∃ p ∈ pre, ∃ th' c', p.1 = SysOp.call i th' c' ∧ c'.bodyVal = v ∧
      ∀ r' a', sg.wt r' a' = true → (r' ≠ r ∨ a' ≠ a) → c'.key ≠ keyOf fm r' a' := by
  obtain ⟨p, hp, th', c', h1, h2, _, h4⟩ :=
    served_value_same_arguments fns tls size isOk hspec fm hf sg pre th c rs r a hw hk v tr hout hserved
  refine ⟨p, hp, th', c', h1, h2, ?_⟩
  intro r' a' hw' hne hk'
  obtain ⟨e1, e2⟩ := h4 r' a' hw' hk'
  rcases hne with hne | hne
  · exact hne e1
  · exact hne e2

end

/-! ### Non-vacuity

`fn f(x: String, y: String) -> usize` with body `x.len()`, cached globally (LRU, limit 8).  The argument
pairs `("a|b", "c")` and `("a", "b|c")` differ only in where the separator character sits; they get
different keys, different entries, and each call — first from the body, then from the cache — returns
the body's value for ITS arguments: 3 and 1. -/

def exSig : Sig := ⟨none, [.str, .str]⟩
/-- the body: length of the first string argument -/
def exBody : Option (Val Nat) → List (Val Nat) → Nat
  | _, .str s :: _ => s.length
  | _, _ => 0
def args1 : List (Val Nat) := [.str "a|b".toList, .str "c".toList]
def args2 : List (Val Nat) := [.str "a".toList, .str "b|c".toList]
def exSpec : FnSpec := ⟨"f", false, false, ⟨.global, .lru, some 8, none, none⟩, false, false, false, false, [], [], []⟩
def exCall (a : List (Val Nat)) : CallIn Text Nat :=
  argCall C02.exFmt exBody none a (fun _ _ => true) (fun _ _ => false)
def exOps : List (SysOp Text Nat × List Nat) :=
  [(.call 0 0 (exCall args1), []), (.call 0 1 (exCall args2), []),
   (.call 0 1 (exCall args1), []), (.call 0 0 (exCall args2), [])]
def exTl : Tlru Nat := ⟨fun a b => decide (a < b), fun _ h _ r => h * r⟩
def exRun := sysRun [exSpec] (fun _ => exTl) (fun v => v) (fun _ => true) (Sys.init : Sys Text Nat) exOps
/-- (value returned, body runs, served from cache) -/
def summary (o : SysOut Text Nat) : Nat × Nat × Bool :=
  match o with | .ret v tr => (v, bodyRuns tr, lookupHit tr) | _ => (0, 0, false)

/-- both tuples inhabit the signature, the body distinguishes them, and so do the keys -/
example : exSig.wt none args1 = true ∧ exSig.wt none args2 = true ∧
    exBody none args1 = 3 ∧ exBody none args2 = 1 ∧
    keyOf C02.exFmt none args1 = "\"a|b\"|\"c\"".toList ∧ keyOf C02.exFmt none args2 = "\"a\"|\"b|c\"".toList := by
  decide

/-- the hypothesis `CallsHaveArgs` holds for the example history (and `FloatOK` for its formatter:
    `C02.floatOK_example`) -/
example : CallsHaveArgs C02.exFmt exSig exBody 0 exOps := by
  intro p hp th c hc
  simp only [exOps, List.mem_cons, List.mem_nil_iff, or_false] at hp
  rcases hp with rfl | rfl | rfl | rfl <;> cases hc
  · exact ⟨none, args1, by decide, rfl, rfl⟩
  · exact ⟨none, args2, by decide, rfl, rfl⟩
  · exact ⟨none, args1, by decide, rfl, rfl⟩
  · exact ⟨none, args2, by decide, rfl, rfl⟩

/-- two misses (body runs: 3, then 1), then two HITS, each serving the value of its own arguments —
    `("a|b","c")` gets 3 and `("a","b|c")` gets 1, never the other's -/
example : exRun.2.map summary = [(3, 1, false), (1, 1, false), (3, 0, true), (1, 0, true)] := by decide

/-- the theorem applied to the example: the third operation (a hit) returns `exBody none args1` -/
example (v : Nat) (tr : List (TraceEv Text Nat)) (h : exRun.2[2]? = some (.ret v tr)) : v = 3 :=
  returns_body_value_of_args [exSpec] (fun _ => exTl) (fun v => v) (fun _ => true) C02.exFmt
    C02.floatOK_example exSig exBody 0 exOps
    (by
      intro p hp th c hc
      simp only [exOps, List.mem_cons, List.mem_nil_iff, or_false] at hp
      rcases hp with rfl | rfl | rfl | rfl <;> cases hc
      · exact ⟨none, args1, by decide, rfl, rfl⟩
      · exact ⟨none, args2, by decide, rfl, rfl⟩
      · exact ⟨none, args1, by decide, rfl, rfl⟩
      · exact ⟨none, args2, by decide, rfl, rfl⟩)
    2 1 (exCall args1) [] rfl none args1 (by decide) rfl v tr h

/-- **The key hypothesis matters** (the C02 mutant): with keys built WITHOUT the separator,
    `f(1, 23)` and `f(12, 3)` of `fn f(u32, u32)` share the key `123`; the second call is answered from
    the first call's entry and returns 1 although its own body would return 12. -/
def firstNat : Option (Val Nat) → List (Val Nat) → Nat
  | _, .nat n :: _ => n
  | _, _ => 0
def mutCall (a : List (Val Nat)) : CallIn Text Nat :=
  ⟨keyOfNoSep C02.exFmt none a, firstNat none a, fun _ _ => true, fun _ _ => false⟩
example :
    (sysRun [exSpec] (fun _ => exTl) (fun v => v) (fun _ => true) (Sys.init : Sys Text Nat)
      [(.call 0 0 (mutCall [.nat 1, .nat 23]), []), (.call 0 0 (mutCall [.nat 12, .nat 3]), [])]).2.map summary
      = [(1, 1, false), (1, 0, true)] ∧ firstNat none [.nat 12, .nat 3] = 12 := by decide

end Cachelito.C01c
