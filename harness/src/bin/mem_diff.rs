//! C05(a) correspondence stream: the REAL `MemoryEstimator::estimate_memory()` of cachelito-core on
//! random values of a fixed family of Rust types, next to (1) the value's shape in the encoding of
//! `lean/Cachelito/Cachelito/MemDriver.lean` (with the real `size_of` of every composite type) and
//! (2) a footprint computed independently by walking the value (`size_of_val` + every OWNED heap
//! buffer: `capacity * size_of::<T>()`, pointee of Box/Arc/Rc; borrowed data counts 0; user types
//! count what their estimator reports).
//!
//!   mem_diff <seed> <cases-per-type> [under=1]
//!
//! Line format (fields separated by `|`):
//!
//!   M|<str> <fatref> <vec> <ptr> <shape tokens…>|<estimate or `PANIC <msg>`>|<footprint>|<rust type>
//!
//! layout prefix   `size_of::<String>() size_of::<&str>() size_of::<Vec<u8>>() size_of::<Box<u8>>()`
//! shape tokens    prefix notation, space separated:
//!   `p <inl>`                     default-method type (primitive)        `u <inl> <est>`  user estimator
//!   `s <cap>`                     String                                 `r <len>`        &str
//!   `l <n> <shape>*n`             &[T]
//!   `v <elemInl> <cap> <n> <shape>*n`   Vec<T>
//!   `on <inl>` / `os <inl> <shape>`     Option<T>::None / Some
//!   `ok <inl> <shape>` / `er <inl> <shape>`   Result<T,E>
//!   `t2 <inl> <a> <b>` / `t3 <inl> <a> <b> <c>`   tuples
//!   `b <shape>` / `a <shape>` / `c <shape>`       Box / Arc / Rc
//!   `e <inl> <shape>`             CacheEntry<R>
//!
//! Every estimator call runs under `catch_unwind`; the crate is built with `overflow-checks = true`,
//! so an underflowing `est - size_of_val` shows up as `PANIC attempt to subtract with overflow`.
//! `under=1` adds types whose user estimator reports LESS than `size_of::<Self>()` (a contract the
//! trait does not state); without it every generated value is well-formed.

use cachelito_core::{CacheEntry, MemoryEstimator};
use std::collections::BTreeMap;
use std::io::Write;
use std::mem::{size_of, size_of_val};
use std::panic::{catch_unwind, AssertUnwindSafe};
use std::rc::Rc;
use std::sync::Arc;
use verif_harness::{panic_msg, Rng};

/// Independent walk of a value: owned heap bytes and shape encoding.
trait Foot: MemoryEstimator {
    /// heap bytes owned by `self` (not counting `size_of_val(self)`)
    fn heap(&self) -> usize;
    fn shape(&self, out: &mut String);
    /// top-level constructor tag (for statistics)
    fn tag(&self) -> &'static str;
}

macro_rules! prim {
    ($($t:ty),*) => {$(
        impl Foot for $t {
            fn heap(&self) -> usize { 0 }
            fn shape(&self, out: &mut String) { out.push_str(&format!("p {}", size_of::<$t>())); }
            fn tag(&self) -> &'static str { "prim" }
        }
    )*};
}
prim!(u8, u16, u32, u64, u128, i8, i32, i64, i128, usize, f32, f64, bool, char, ());

impl Foot for String {
    fn heap(&self) -> usize {
        self.capacity()
    }
    fn shape(&self, out: &mut String) {
        out.push_str(&format!("s {}", self.capacity()));
    }
    fn tag(&self) -> &'static str {
        "str"
    }
}

impl Foot for &'static str {
    fn heap(&self) -> usize {
        0 // borrowed
    }
    fn shape(&self, out: &mut String) {
        out.push_str(&format!("r {}", self.len()));
    }
    fn tag(&self) -> &'static str {
        "strRef"
    }
}

impl<T: Foot> Foot for &'static [T] {
    fn heap(&self) -> usize {
        0 // borrowed
    }
    fn shape(&self, out: &mut String) {
        out.push_str(&format!("l {}", self.len()));
        for x in self.iter() {
            out.push(' ');
            x.shape(out);
        }
    }
    fn tag(&self) -> &'static str {
        "sliceRef"
    }
}

impl<T: Foot> Foot for Vec<T> {
    fn heap(&self) -> usize {
        self.capacity() * size_of::<T>() + self.iter().map(|x| x.heap()).sum::<usize>()
    }
    fn shape(&self, out: &mut String) {
        out.push_str(&format!("v {} {} {}", size_of::<T>(), self.capacity(), self.len()));
        for x in self.iter() {
            out.push(' ');
            x.shape(out);
        }
    }
    fn tag(&self) -> &'static str {
        "vec"
    }
}

impl<T: Foot> Foot for Option<T> {
    fn heap(&self) -> usize {
        match self {
            Some(x) => x.heap(),
            None => 0,
        }
    }
    fn shape(&self, out: &mut String) {
        match self {
            Some(x) => {
                out.push_str(&format!("os {} ", size_of::<Self>()));
                x.shape(out);
            }
            None => out.push_str(&format!("on {}", size_of::<Self>())),
        }
    }
    fn tag(&self) -> &'static str {
        "opt"
    }
}

impl<T: Foot, E: Foot> Foot for Result<T, E> {
    fn heap(&self) -> usize {
        match self {
            Ok(x) => x.heap(),
            Err(x) => x.heap(),
        }
    }
    fn shape(&self, out: &mut String) {
        match self {
            Ok(x) => {
                out.push_str(&format!("ok {} ", size_of::<Self>()));
                x.shape(out);
            }
            Err(x) => {
                out.push_str(&format!("er {} ", size_of::<Self>()));
                x.shape(out);
            }
        }
    }
    fn tag(&self) -> &'static str {
        "res"
    }
}

impl<A: Foot, B: Foot> Foot for (A, B) {
    fn heap(&self) -> usize {
        self.0.heap() + self.1.heap()
    }
    fn shape(&self, out: &mut String) {
        out.push_str(&format!("t2 {} ", size_of::<Self>()));
        self.0.shape(out);
        out.push(' ');
        self.1.shape(out);
    }
    fn tag(&self) -> &'static str {
        "tup2"
    }
}

impl<A: Foot, B: Foot, C: Foot> Foot for (A, B, C) {
    fn heap(&self) -> usize {
        self.0.heap() + self.1.heap() + self.2.heap()
    }
    fn shape(&self, out: &mut String) {
        out.push_str(&format!("t3 {} ", size_of::<Self>()));
        self.0.shape(out);
        out.push(' ');
        self.1.shape(out);
        out.push(' ');
        self.2.shape(out);
    }
    fn tag(&self) -> &'static str {
        "tup3"
    }
}

macro_rules! ptr {
    ($p:ident, $code:expr, $tag:expr) => {
        impl<T: Foot> Foot for $p<T> {
            fn heap(&self) -> usize {
                // the pointee lives on the heap (its reference-count header, for Arc/Rc, is not
                // part of the property's definition and not counted here either)
                size_of_val::<T>(&**self) + (**self).heap()
            }
            fn shape(&self, out: &mut String) {
                out.push_str($code);
                out.push(' ');
                (**self).shape(out);
            }
            fn tag(&self) -> &'static str {
                $tag
            }
        }
    };
}
ptr!(Box, "b", "box");
ptr!(Arc, "a", "arc");
ptr!(Rc, "c", "rc");

impl<T: Foot> Foot for CacheEntry<T> {
    fn heap(&self) -> usize {
        self.value.heap()
    }
    fn shape(&self, out: &mut String) {
        out.push_str(&format!("e {} ", size_of::<Self>()));
        self.value.shape(out);
    }
    fn tag(&self) -> &'static str {
        "entry"
    }
}

/// user type following the trait documentation's recipe (`size_of::<Self>() + capacities`)
struct Good {
    name: String,
    data: Vec<u8>,
}
impl MemoryEstimator for Good {
    fn estimate_memory(&self) -> usize {
        size_of::<Self>() + self.name.capacity() + self.data.capacity()
    }
}
/// user type whose estimator counts the payload only — less than `size_of::<Self>()` when short
struct Under {
    data: Vec<u8>,
}
impl MemoryEstimator for Under {
    fn estimate_memory(&self) -> usize {
        self.data.len()
    }
}
macro_rules! user {
    ($($t:ty),*) => {$(
        impl Foot for $t {
            // "what its MemoryEstimator reports", beyond the inline size
            fn heap(&self) -> usize { self.estimate_memory().saturating_sub(size_of::<Self>()) }
            fn shape(&self, out: &mut String) {
                out.push_str(&format!("u {} {}", size_of::<Self>(), self.estimate_memory()));
            }
            fn tag(&self) -> &'static str { "user" }
        }
    )*};
}
user!(Good, Under);

// ------------------------------------------------------------------------------------------------
// generators

fn cap(r: &mut Rng) -> usize {
    const C: [usize; 12] = [0, 0, 1, 2, 3, 5, 8, 16, 17, 64, 100, 1000];
    if r.chance(1, 4) {
        r.below(300) as usize
    } else {
        *r.pick(&C)
    }
}

trait Gen: Sized {
    fn gen(r: &mut Rng) -> Self;
}

macro_rules! gen_int {
    ($($t:ty),*) => {$( impl Gen for $t { fn gen(r: &mut Rng) -> Self { r.next() as $t } } )*};
}
gen_int!(u8, u16, u32, u64, u128, i8, i32, i64, i128, usize);
impl Gen for f64 {
    fn gen(r: &mut Rng) -> Self {
        r.next() as f64 / 7.0
    }
}
impl Gen for bool {
    fn gen(r: &mut Rng) -> Self {
        r.chance(1, 2)
    }
}
impl Gen for char {
    fn gen(r: &mut Rng) -> Self {
        *r.pick(&['a', 'Z', 'é', '漢', '🦀'])
    }
}
impl Gen for () {
    fn gen(_: &mut Rng) -> Self {}
}
impl Gen for String {
    fn gen(r: &mut Rng) -> Self {
        match r.below(4) {
            // exact request, partially filled
            0 | 1 => {
                let c = cap(r);
                let mut s = String::with_capacity(c);
                let n = r.below(c as u64 + 1) as usize;
                for _ in 0..n {
                    s.push('x');
                }
                s
            }
            // amortised growth
            2 => {
                let mut s = String::new();
                for _ in 0..cap(r) {
                    s.push('y');
                }
                s
            }
            // multi-byte content, shrunk
            _ => {
                let mut s = String::new();
                for _ in 0..r.below(20) {
                    s.push(char::gen(r));
                }
                if r.chance(1, 2) {
                    s.shrink_to_fit();
                }
                s
            }
        }
    }
}
impl Gen for &'static str {
    fn gen(r: &mut Rng) -> Self {
        let s: String = String::gen(r);
        Box::leak(s.into_boxed_str())
    }
}
impl<T: Gen> Gen for &'static [T] {
    fn gen(r: &mut Rng) -> Self {
        let n = r.below(5) as usize;
        let v: Vec<T> = (0..n).map(|_| T::gen(r)).collect();
        Box::leak(v.into_boxed_slice())
    }
}
impl<T: Gen> Gen for Vec<T> {
    fn gen(r: &mut Rng) -> Self {
        let n = r.below(6) as usize;
        let mut v = match r.below(3) {
            0 => Vec::new(), // amortised growth
            _ => Vec::with_capacity(n + if r.chance(1, 2) { cap(r) } else { 0 }),
        };
        for _ in 0..n {
            v.push(T::gen(r));
        }
        if r.chance(1, 8) {
            v.shrink_to_fit();
        }
        v
    }
}
impl<T: Gen> Gen for Option<T> {
    fn gen(r: &mut Rng) -> Self {
        if r.chance(1, 4) {
            None
        } else {
            Some(T::gen(r))
        }
    }
}
impl<T: Gen, E: Gen> Gen for Result<T, E> {
    fn gen(r: &mut Rng) -> Self {
        if r.chance(1, 2) {
            Ok(T::gen(r))
        } else {
            Err(E::gen(r))
        }
    }
}
impl<A: Gen, B: Gen> Gen for (A, B) {
    fn gen(r: &mut Rng) -> Self {
        (A::gen(r), B::gen(r))
    }
}
impl<A: Gen, B: Gen, C: Gen> Gen for (A, B, C) {
    fn gen(r: &mut Rng) -> Self {
        (A::gen(r), B::gen(r), C::gen(r))
    }
}
impl<T: Gen> Gen for Box<T> {
    fn gen(r: &mut Rng) -> Self {
        Box::new(T::gen(r))
    }
}
impl<T: Gen> Gen for Arc<T> {
    fn gen(r: &mut Rng) -> Self {
        Arc::new(T::gen(r))
    }
}
impl<T: Gen> Gen for Rc<T> {
    fn gen(r: &mut Rng) -> Self {
        Rc::new(T::gen(r))
    }
}
impl<T: Gen> Gen for CacheEntry<T> {
    fn gen(r: &mut Rng) -> Self {
        CacheEntry::new(T::gen(r))
    }
}
impl Gen for Good {
    fn gen(r: &mut Rng) -> Self {
        Good {
            name: String::gen(r),
            data: Vec::gen(r),
        }
    }
}
impl Gen for Under {
    fn gen(r: &mut Rng) -> Self {
        // len 0..40 around size_of::<Under>() = 24: both under- and over-reporting occur
        let n = r.below(40) as usize;
        Under { data: vec![7u8; n] }
    }
}

// ------------------------------------------------------------------------------------------------

#[derive(Default)]
struct Stats {
    per_type: BTreeMap<String, (u64, u64)>, // cases, panics
    per_tag: BTreeMap<&'static str, u64>,
    tokens: BTreeMap<&'static str, u64>,
    cases: u64,
    panics: u64,
    est_ne_foot: u64,
    est_lt_inline: u64,
    max_tokens: usize,
}

fn layout() -> String {
    format!(
        "{} {} {} {}",
        size_of::<String>(),
        size_of::<&str>(),
        size_of::<Vec<u8>>(),
        size_of::<Box<u8>>()
    )
}

fn run<T: Gen + Foot>(name: &str, n: u64, r: &mut Rng, st: &mut Stats, out: &mut impl Write) {
    // layouts that the model takes from one `Layout` record must not depend on the parameter
    assert_eq!(size_of::<Vec<T>>(), size_of::<Vec<u8>>());
    assert_eq!(size_of::<Box<T>>(), size_of::<Box<u8>>());
    assert_eq!(size_of::<Arc<T>>(), size_of::<Box<u8>>());
    assert_eq!(size_of::<Rc<T>>(), size_of::<Box<u8>>());
    assert_eq!(size_of::<&[T]>(), size_of::<&str>());
    for _ in 0..n {
        let v = T::gen(r);
        let mut sh = String::new();
        v.shape(&mut sh);
        let foot = size_of_val(&v) + v.heap();
        let est = catch_unwind(AssertUnwindSafe(|| v.estimate_memory()));
        let e = st.per_type.entry(name.to_string()).or_default();
        e.0 += 1;
        st.cases += 1;
        *st.per_tag.entry(v.tag()).or_default() += 1;
        let toks: Vec<&str> = sh.split(' ').collect();
        st.max_tokens = st.max_tokens.max(toks.len());
        for t in &toks {
            let k = match *t {
                "p" => "prim",
                "u" => "user",
                "s" => "str",
                "r" => "strRef",
                "l" => "sliceRef",
                "v" => "vec",
                "on" => "optNone",
                "os" => "optSome",
                "ok" => "resOk",
                "er" => "resErr",
                "t2" => "tup2",
                "t3" => "tup3",
                "b" => "box",
                "a" => "arc",
                "c" => "rc",
                "e" => "entry",
                _ => continue,
            };
            *st.tokens.entry(k).or_default() += 1;
        }
        let est_s = match est {
            Ok(x) => {
                if x != foot {
                    st.est_ne_foot += 1;
                }
                if x < size_of_val(&v) {
                    st.est_lt_inline += 1;
                }
                x.to_string()
            }
            Err(p) => {
                e.1 += 1;
                st.panics += 1;
                format!("PANIC {}", panic_msg(p))
            }
        };
        writeln!(out, "M|{} {}|{}|{}|{}", layout(), sh, est_s, foot, name).unwrap();
    }
}

macro_rules! family {
    ($n:expr, $r:expr, $st:expr, $out:expr; $($t:ty),* $(,)?) => {$(
        run::<$t>(stringify!($t), $n, $r, $st, $out);
    )*};
}

fn main() {
    let args: Vec<String> = std::env::args().collect();
    if args.len() < 3 {
        eprintln!("usage: mem_diff <seed> <cases-per-type> [under=1]");
        std::process::exit(2);
    }
    let seed: u64 = args[1].parse().expect("seed");
    let n: u64 = args[2].parse().expect("cases");
    let under = args.iter().any(|a| a == "under=1");
    std::panic::set_hook(Box::new(|_| {}));
    let stdout = std::io::stdout();
    let mut out = std::io::BufWriter::new(stdout.lock());
    let mut r = Rng::new(seed);
    let mut st = Stats::default();
    writeln!(out, "# mem_diff seed={} cases_per_type={} under={} layout=[{}]", seed, n, under, layout()).unwrap();

    family!(n, &mut r, &mut st, &mut out;
        // primitives (default method)
        u8, u64, i128, bool, char, (), f64, u32,
        // strings
        String, &'static str,
        // vectors
        Vec<u8>, Vec<u64>, Vec<String>, Vec<Vec<u32>>, Vec<()>, Vec<i128>,
        // Option / Result
        Option<String>, Option<u64>, Option<Vec<u8>>, Option<u8>, Option<()>,
        Result<String, String>, Result<u64, String>, Result<(), u8>, Result<Vec<u64>, u8>,
        // tuples
        (u8, String), (String, u64, Vec<u8>), (u8, u8), ((), String), (u64, u8, u32),
        // pointers
        Box<String>, Box<u64>, Arc<String>, Rc<Vec<u8>>, Box<()>, Arc<u8>,
        // nested combinations
        Vec<Option<String>>, Vec<(u8, String)>, Vec<Result<String, Vec<u8>>>, Vec<Vec<Vec<u8>>>,
        Vec<Box<String>>, Vec<Arc<Vec<String>>>,
        Option<Option<String>>, Option<Box<Vec<String>>>, Option<(String, u64, Vec<u8>)>,
        Option<Result<String, u8>>, Option<Arc<String>>, Option<Rc<Vec<u8>>>,
        Result<Vec<u8>, (String, u64)>, Result<Option<String>, Box<String>>,
        Result<(u8, String), Vec<Option<u64>>>,
        (Option<String>, Result<u64, String>), (Vec<String>, Option<Vec<u8>>, Box<String>),
        ((u8, String), (String, u64, Vec<u8>)), (Arc<String>, Rc<String>),
        Box<Option<Arc<String>>>, Box<Box<Vec<Option<String>>>>, Arc<Vec<(u8, String)>>,
        Rc<Result<String, Vec<u8>>>, Arc<Arc<String>>, Box<(u8, String)>,
        // CacheEntry
        CacheEntry<String>, CacheEntry<u64>, CacheEntry<Vec<String>>, CacheEntry<Option<Arc<String>>>,
        CacheEntry<Result<String, String>>, CacheEntry<(String, u64, Vec<u8>)>, Vec<CacheEntry<String>>,
        Option<CacheEntry<Vec<u8>>>,
        // borrowed data
        Vec<&'static str>, Option<&'static str>, (&'static str, String), Box<&'static str>,
        &'static [u64], &'static [String], Vec<&'static [String]>, CacheEntry<&'static str>,
        Option<&'static [&'static str]>,
        // user type with a documented-style estimator
        Good, Option<Good>, Vec<Good>, (Good, String), Result<Good, u8>, Box<Good>, CacheEntry<Good>,
    );
    if under {
        family!(n, &mut r, &mut st, &mut out;
            Under, Option<Under>, Result<Under, String>, Result<u8, Under>, (Under, u8), (u8, Under),
            (u8, u8, Under), Vec<Under>, Box<Under>, CacheEntry<Under>, Vec<Option<Under>>,
            Option<Vec<Under>>, Arc<(Under, String)>,
        );
    }

    writeln!(
        out,
        "#STAT cases={} types={} panics={} est_ne_footprint={} est_lt_inline={} max_tokens={}",
        st.cases,
        st.per_type.len(),
        st.panics,
        st.est_ne_foot,
        st.est_lt_inline,
        st.max_tokens
    )
    .unwrap();
    let tags: Vec<String> = st.per_tag.iter().map(|(k, v)| format!("{}={}", k, v)).collect();
    writeln!(out, "#STAT top-level {}", tags.join(" ")).unwrap();
    let toks: Vec<String> = st.tokens.iter().map(|(k, v)| format!("{}={}", k, v)).collect();
    writeln!(out, "#STAT nodes {}", toks.join(" ")).unwrap();
    for (k, (c, p)) in &st.per_type {
        if *p > 0 {
            writeln!(out, "#STAT panics type=[{}] cases={} panics={}", k, c, p).unwrap();
        }
    }
    out.flush().unwrap();
}
