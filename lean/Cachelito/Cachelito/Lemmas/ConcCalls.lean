/-
  Lemmas about `Cachelito.ConcCalls` (calls of the generated wrapper over the interleaving model) for
  C03's concurrent clause.  Configuration `Plain`: no limit, no memory bound, no TTL (and callers only
  call, so there is no clear / conditional invalidation).
-/
import Cachelito.ConcCalls
import Cachelito.Lemmas.ConcData

set_option linter.unusedSectionVars false
set_option linter.unusedSimpArgs false
set_option linter.unusedVariables false

namespace Cachelito.ConcCalls
open Cachelito Cachelito.ConcData

variable {K V S : Type} [DecidableEq K]

/-- the configuration C03 speaks about: no limit, no memory bound, no TTL -/
def Plain (cfg : Cfg) : Prop := cfg.limit = none ∧ cfg.maxMem = none ∧ cfg.ttl = none

theorem expired_plain {cfg : Cfg} (hp : Plain cfg) (now : Nat) (e : Entry V) : expired cfg now e = false := by
  unfold expired; rw [hp.2.2]

theorem found_plain {cfg : Cfg} (hp : Plain cfg) (s : State K V) (k : K) : found cfg s k = hasKey k s.store := by
  unfold found hasKey
  cases lookup k s.store <;> simp [expired_plain hp]

theorem limitStep_plain {cfg : Cfg} (hp : Plain cfg) (tl : Tlru S) (now r : Nat) (m : Store K V) (q : List K) :
    limitStep cfg tl now r m q = (m, q) := by
  unfold limitStep; rw [hp.1]

/-- without a limit a plain store keeps every key and holds its own key afterwards -/
theorem insert_keys_plain {cfg : Cfg} (hp : Plain cfg) (tl : Tlru S) (r : Nat) (s : State K V) (k : K) (v : V) :
    ∀ x, x ∈ keys s.store ∨ x = k → x ∈ keys (Cachelito.insert cfg tl r s k v).store := by
  intro x hx
  unfold Cachelito.insert
  cases cfg.flavour <;> simp only [limitStep_plain hp]
  case async =>
    rw [keys_put]
    simp only [List.mem_append, List.mem_filter, List.mem_singleton]
    by_cases hxk : x = k
    · right; exact hxk
    · left
      rcases hx with hx | hx
      · refine ⟨?_, by simpa using hxk⟩
        split
        · rw [keys_eraseKey]; exact List.mem_filter.mpr ⟨hx, by simpa using hxk⟩
        · exact hx
      · exact absurd hx hxk
  all_goals
    rw [keys_put]
    simp only [List.mem_append, List.mem_filter, List.mem_singleton]
    by_cases hxk : x = k
    · right; exact hxk
    · left
      rcases hx with hx | hx
      · exact ⟨hx, by simpa using hxk⟩
      · exact absurd hx hxk

/-! ### The read micro-step and the continuations of a hit -/

/-- continuation of a hit on `k` that carries `f k`, of the engine at hand -/
def HitPend (f : K → V) (cfg : Cfg) (k : K) (p : Pend K V) : Prop :=
  (p = .refresh k (f k) ∧ isAsync cfg = true) ∨ (p = .move k (f k) ∧ isAsync cfg = false) ∨
  (p = .bump k (f k) ∧ isAsync cfg = false)

/-- the read micro-step when the key is stored (no TTL): same keys, and the lookup is a hit on that entry -/
theorem get_first_plain {cfg : Cfg} (hp : Plain cfg) (tl : Tlru S) (size : V → Nat) (s : State K V) (k : K)
    (rs : List Nat) (e : Entry V) (hl : lookup k s.store = some e) :
    keys (micro false cfg tl size s (.get k) rs none).1.store = keys s.store ∧
    ((micro false cfg tl size s (.get k) rs none).2 = .fin (.get k) (.val (some e.val)) ∨
     ((micro false cfg tl size s (.get k) rs none).2 = .more (.refresh k e.val) ∧ isAsync cfg = true) ∨
     ((micro false cfg tl size s (.get k) rs none).2 = .more (.move k e.val) ∧ isAsync cfg = false) ∨
     ((micro false cfg tl size s (.get k) rs none).2 = .more (.bump k e.val) ∧ isAsync cfg = false)) := by
  simp only [micro, first, hl, expired_plain hp, Bool.false_eq_true, if_false]
  by_cases ha : isAsync cfg = true
  · simp only [ha, if_true]
    have hk : keys (if cfg.policy.bumps = true then bumpHits k s.store else s.store) = keys s.store := by
      split
      · exact keys_bumpHits k s.store
      · rfl
    split
    · exact ⟨hk, Or.inr (Or.inl ⟨(by first | rfl | trivial), (by first | rfl | trivial)⟩)⟩
    · exact ⟨hk, Or.inl (by first | rfl | trivial)⟩
  · have ha' : isAsync cfg = false := by simpa using ha
    simp only [ha', Bool.false_eq_true, if_false]
    split
    · exact ⟨(by first | rfl | trivial), Or.inr (Or.inr (Or.inl ⟨(by first | rfl | trivial), (by first | rfl | trivial)⟩))⟩
    · split
      · exact ⟨(by first | rfl | trivial), Or.inr (Or.inr (Or.inr ⟨(by first | rfl | trivial), (by first | rfl | trivial)⟩))⟩
      · exact ⟨(by first | rfl | trivial), Or.inl (by first | rfl | trivial)⟩

/-- a later micro-step of a hit: same keys; the lookup finishes with `f k` or goes on as a hit -/
theorem get_cont_plain (f : K → V) (cfg : Cfg) (tl : Tlru S) (size : V → Nat) (s : State K V) (k : K)
    (rs : List Nat) (p : Pend K V) (hp : HitPend f cfg k p) :
    keys (micro false cfg tl size s (.get k) rs (some p)).1.store = keys s.store ∧
    ((micro false cfg tl size s (.get k) rs (some p)).2 = .fin (.get k) (.val (some (f k))) ∨
     ∃ p', (micro false cfg tl size s (.get k) rs (some p)).2 = .more p' ∧ HitPend f cfg k p') := by
  rcases hp with ⟨rfl, ha⟩ | ⟨rfl, ha⟩ | ⟨rfl, ha⟩
  · simp only [micro, ha, if_true, contAsync]
    exact ⟨(by first | rfl | trivial), Or.inl (by first | rfl | trivial)⟩
  · simp only [micro, ha, Bool.false_eq_true, if_false, contSync]
    split
    · exact ⟨(by first | rfl | trivial), Or.inr ⟨_, (by first | rfl | trivial), Or.inr (Or.inr ⟨rfl, ha⟩)⟩⟩
    · exact ⟨(by first | rfl | trivial), Or.inl (by first | rfl | trivial)⟩
  · simp only [micro, ha, Bool.false_eq_true, if_false, contSync]
    exact ⟨keys_bumpHits k s.store, Or.inl (by first | rfl | trivial)⟩

/-! ### Per-caller stage invariant and the shape of a caller step -/

def StagePred (f : K → V) (cfg : Cfg) (log : List (Ev K V)) (k : K) : Stage K V → Prop
  | .lookup none => True
  | .lookup (some p) => HitPend f cfg k p
  | .store none => True
  | .store (some p) => (∃ r, p = .track k (f k) r) ∧ isAsync cfg = false ∧ Ev.write k ∈ log

/-- the local engine state of a caller fits its current call -/
def StageOK (f : K → V) (cfg : Cfg) (log : List (Ev K V)) (c : Caller K V) : Prop :=
  ∀ k rs rest, c.calls = (k, rs) :: rest → StagePred f cfg log k c.stage

theorem StageOK.mono {f : K → V} {cfg : Cfg} {log : List (Ev K V)} {c : Caller K V} (h : StageOK f cfg log c)
    (evs : List (Ev K V)) : StageOK f cfg (evs ++ log) c := by
  intro k rs rest hc
  have := h k rs rest hc
  cases hs : c.stage with
  | lookup p => rw [hs] at this; cases p <;> exact this
  | store p =>
    rw [hs] at this
    cases p with
    | none => exact this
    | some p => exact ⟨this.1, this.2.1, List.mem_append_right _ this.2.2⟩

/-- what a caller step adds to the log (newest first) and to the caller's body runs -/
inductive Shape (f : K → V) (s s' : State K V) (log : List (Ev K V)) (b b' : List K) : List (Ev K V) → Prop
  | quiet : b' = b → Shape f s s' log b b' []
  | readHit (k : K) : b' = b → k ∈ keys s.store → Shape f s s' log b b' [.read k true]
  | readHitRet (k : K) : b' = b → k ∈ keys s.store → Shape f s s' log b b' [.ret k (f k) false, .read k true]
  | readMiss (k : K) : b' = b ++ [k] → k ∉ keys s.store → Shape f s s' log b b' [.read k false]
  | hitRet (k : K) : b' = b → Shape f s s' log b b' [.ret k (f k) false]
  | write (k : K) : b' = b → k ∈ keys s'.store → Shape f s s' log b b' [.write k]
  | writeRet (k : K) : b' = b → k ∈ keys s'.store → Shape f s s' log b b' [.ret k (f k) true, .write k]
  | storeRet (k : K) : b' = b → Ev.write k ∈ log → Shape f s s' log b b' [.ret k (f k) true]

theorem stageOK_next (f : K → V) (cfg : Cfg) (log : List (Ev K V)) (rest : List (K × List Nat))
    (b : List K) (r : List (K × V)) :
    StageOK f cfg log ({ calls := rest, stage := .lookup none, bodies := b, rets := r } : Caller K V) := by
  intro k rs rest' _; exact trivial

/-- **One caller step in the plain configuration.** -/
theorem callerStep_spec (f : K → V) {cfg : Cfg} (hp : Plain cfg) (tl : Tlru S) (size : V → Nat)
    (s s' : State K V) (log : List (Ev K V)) (c c' : Caller K V) (evs : List (Ev K V))
    (hv : ValOK f s.store) (hst : StageOK f cfg log c)
    (h : callerStep f cfg tl size s c = some (s', c', evs)) :
    ValOK f s'.store ∧ (∀ x, x ∈ keys s.store → x ∈ keys s'.store) ∧ StageOK f cfg (evs ++ log) c' ∧
    Shape f s s' log c.bodies c'.bodies evs := by
  unfold callerStep at h
  cases hc : c.calls with
  | nil => rw [hc] at h; cases h
  | cons a rest =>
    obtain ⟨k, rs⟩ := a
    have hpred := hst k rs rest hc
    rw [hc] at h
    simp only at h
    cases hstage : c.stage with
    | lookup p =>
      rw [hstage] at h hpred
      simp only at h
      cases p with
      | none =>
        simp only at h
        cases hl : lookup k s.store with
        | none =>
          have hr : micro false cfg tl size s (.get k) rs none
              = ({ s with missStat := s.missStat + 1 }, .fin (.get k) (.val none)) := by
            simp [micro, first, hl]
          have hfound : found cfg s k = false := by simp [found, hl]
          rw [hr, hfound] at h
          simp only [Option.some.injEq, Prod.mk.injEq] at h
          obtain ⟨rfl, rfl, rfl⟩ := h
          refine ⟨hv, fun x hx => hx, ?_, Shape.readMiss k rfl ((lookup_eq_none_iff k _).mp hl)⟩
          intro k' rs' rest' hc'
          simp only at hc' ⊢
          exact trivial
        | some e =>
          have hev : e.val = f k := hv k e (lookup_mem hl)
          have hkm : k ∈ keys s.store := by
            apply Classical.byContradiction; intro hn
            rw [(lookup_eq_none_iff _ _).mpr hn] at hl; cases hl
          have hfound : found cfg s k = true := by simp [found, hl, expired_plain hp]
          have hval := (micro_val (f := f) false cfg tl size s (.get k) rs none hv trivial
            (by intro p hh; cases hh)).1
          obtain ⟨hkeys, hres⟩ := get_first_plain hp tl size s k rs e hl
          rw [hev] at hres
          have hmono : ∀ x, x ∈ keys s.store → x ∈ keys (micro false cfg tl size s (.get k) rs none).1.store := by
            intro x hx; rw [hkeys]; exact hx
          rw [hfound] at h
          rcases hres with hres | ⟨hres, ha⟩ | ⟨hres, ha⟩ | ⟨hres, ha⟩
          · rw [hres] at h
            simp only [Option.some.injEq, Prod.mk.injEq] at h
            obtain ⟨rfl, rfl, rfl⟩ := h
            exact ⟨hval, hmono, stageOK_next f cfg _ rest _ _, Shape.readHitRet k rfl hkm⟩
          · rw [hres] at h
            simp only [Option.some.injEq, Prod.mk.injEq] at h
            obtain ⟨rfl, rfl, rfl⟩ := h
            refine ⟨hval, hmono, ?_, Shape.readHit k rfl hkm⟩
            intro k' rs' rest' hc'
            simp only [hc, List.cons.injEq, Prod.mk.injEq] at hc'
            obtain ⟨⟨rfl, _⟩, _⟩ := hc'
            exact Or.inl ⟨rfl, ha⟩
          · rw [hres] at h
            simp only [Option.some.injEq, Prod.mk.injEq] at h
            obtain ⟨rfl, rfl, rfl⟩ := h
            refine ⟨hval, hmono, ?_, Shape.readHit k rfl hkm⟩
            intro k' rs' rest' hc'
            simp only [hc, List.cons.injEq, Prod.mk.injEq] at hc'
            obtain ⟨⟨rfl, _⟩, _⟩ := hc'
            exact Or.inr (Or.inl ⟨rfl, ha⟩)
          · rw [hres] at h
            simp only [Option.some.injEq, Prod.mk.injEq] at h
            obtain ⟨rfl, rfl, rfl⟩ := h
            refine ⟨hval, hmono, ?_, Shape.readHit k rfl hkm⟩
            intro k' rs' rest' hc'
            simp only [hc, List.cons.injEq, Prod.mk.injEq] at hc'
            obtain ⟨⟨rfl, _⟩, _⟩ := hc'
            exact Or.inr (Or.inr ⟨rfl, ha⟩)
      | some p =>
        have hhp : HitPend f cfg k p := hpred
        have hpok : ∀ p', some p = some p' → PendOK f p' := by
          intro p' hh
          cases hh
          rcases hhp with ⟨rfl, _⟩ | ⟨rfl, _⟩ | ⟨rfl, _⟩ <;> rfl
        have hval := (micro_val (f := f) false cfg tl size s (.get k) rs (some p) hv trivial hpok).1
        obtain ⟨hkeys, hres⟩ := get_cont_plain f cfg tl size s k rs p hhp
        have hmono : ∀ x, x ∈ keys s.store → x ∈ keys (micro false cfg tl size s (.get k) rs (some p)).1.store := by
          intro x hx; rw [hkeys]; exact hx
        simp only at h
        rcases hres with hres | ⟨p', hres, hp'⟩
        · rw [hres] at h
          simp only [Option.some.injEq, Prod.mk.injEq] at h
          obtain ⟨rfl, rfl, rfl⟩ := h
          exact ⟨hval, hmono, stageOK_next f cfg _ rest _ _, Shape.hitRet k rfl⟩
        · rw [hres] at h
          simp only [Option.some.injEq, Prod.mk.injEq] at h
          obtain ⟨rfl, rfl, rfl⟩ := h
          refine ⟨hval, hmono, ?_, Shape.quiet rfl⟩
          intro k' rs' rest' hc'
          simp only [hc, List.cons.injEq, Prod.mk.injEq] at hc'
          obtain ⟨⟨rfl, _⟩, _⟩ := hc'
          exact hp'
    | store p =>
      rw [hstage] at h hpred
      simp only at h
      cases p with
      | none =>
        simp only at h
        have hval := (micro_val (f := f) false cfg tl size s (.insert k (f k)) rs none hv rfl
          (by intro p hh; cases hh)).1
        by_cases ha : isAsync cfg = true
        · have hr : micro false cfg tl size s (.insert k (f k)) rs none
              = (Cachelito.insert cfg tl (rs.headD 0) s k (f k), .fin (.insert k (f k)) .unit) := by
            simp [micro, first, ha]
          rw [hr] at h hval
          simp only [Option.some.injEq, Prod.mk.injEq] at h
          obtain ⟨rfl, rfl, rfl⟩ := h
          have hk := insert_keys_plain hp tl (rs.headD 0) s k (f k)
          exact ⟨hval, fun x hx => hk x (Or.inl hx), stageOK_next f cfg _ rest _ _,
                 Shape.writeRet k rfl (hk k (Or.inr rfl))⟩
        · have ha' : isAsync cfg = false := by simpa using ha
          have hr : micro false cfg tl size s (.insert k (f k)) rs none
              = ({ s with store := put k ⟨f k, stamp cfg s.now, 0⟩ s.store }, .more (.track k (f k) (rs.headD 0))) := by
            simp [micro, first, ha']
          rw [hr] at h hval
          simp only [Option.some.injEq, Prod.mk.injEq] at h
          obtain ⟨rfl, rfl, rfl⟩ := h
          have hk : ∀ x, x ∈ keys s.store ∨ x = k → x ∈ keys (put k (⟨f k, stamp cfg s.now, 0⟩ : Entry V) s.store) := by
            intro x hx
            rw [keys_put]
            simp only [List.mem_append, List.mem_filter, List.mem_singleton]
            by_cases hxk : x = k
            · right; exact hxk
            · left
              rcases hx with hx | hx
              · exact ⟨hx, by simpa using hxk⟩
              · exact absurd hx hxk
          refine ⟨hval, fun x hx => hk x (Or.inl hx), ?_, Shape.write k rfl (hk k (Or.inr rfl))⟩
          intro k' rs' rest' hc'
          simp only [hc, List.cons.injEq, Prod.mk.injEq] at hc'
          obtain ⟨⟨rfl, _⟩, _⟩ := hc'
          exact ⟨⟨_, rfl⟩, ha', by simp⟩
      | some p =>
        obtain ⟨⟨r, rfl⟩, ha, hw⟩ := hpred
        simp only at h
        have hr : micro false cfg tl size s (.insert k (f k)) rs (some (.track k (f k) r))
            = ({ s with store := s.store, queue := erasePush k s.queue }, .fin (.insert k (f k)) .unit) := by
          simp [micro, ha, contSync, limitStep_plain hp]
        rw [hr] at h
        simp only [Option.some.injEq, Prod.mk.injEq] at h
        obtain ⟨rfl, rfl, rfl⟩ := h
        exact ⟨hv, fun x hx => hx, stageOK_next f cfg _ rest _ _, Shape.storeRet k rfl hw⟩

/-! ### The ghost log -/

/-- what the log (newest first) says about the store and about itself:
    * a key whose store-write micro-step has executed is stored;
    * no lookup of `k` executed AFTER a store-write of `k` missed;
    * a call that reports "I stored `k`" executed its store-write of `k` BEFORE returning;
    * every returned value is `f` of the call's key. -/
structure LogInv (f : K → V) (m : Store K V) (log : List (Ev K V)) : Prop where
  written : ∀ k, Ev.write k ∈ log → k ∈ keys m
  after : ∀ l1 l2 k, log = l1 ++ Ev.write k :: l2 → Ev.read k false ∉ l1
  stored : ∀ l1 l2 k v, log = l1 ++ Ev.ret k v true :: l2 → Ev.write k ∈ l2
  value : ∀ k v b, Ev.ret k v b ∈ log → v = f k

theorem LogInv.nil (f : K → V) (m : Store K V) : LogInv f m [] := by
  refine ⟨?_, ?_, ?_, ?_⟩
  · intro k h; cases h
  · intro l1 l2 k h; cases l1 <;> cases h
  · intro l1 l2 k v h; cases l1 <;> cases h
  · intro k v b h; cases h

theorem LogInv.mono {f : K → V} {m m' : Store K V} {log : List (Ev K V)} (h : LogInv f m log)
    (hm : ∀ x, x ∈ keys m → x ∈ keys m') : LogInv f m' log :=
  ⟨fun k hk => hm k (h.written k hk), h.after, h.stored, h.value⟩

theorem LogInv.cons {f : K → V} {m : Store K V} {log : List (Ev K V)} (h : LogInv f m log) (e : Ev K V)
    (hW : ∀ k, e = .write k → k ∈ keys m)
    (hA : ∀ k, e = .read k false → Ev.write k ∉ log)
    (hR : ∀ k v, e = .ret k v true → Ev.write k ∈ log)
    (hV : ∀ k v b, e = .ret k v b → v = f k) : LogInv f m (e :: log) := by
  refine ⟨?_, ?_, ?_, ?_⟩
  · intro k hk
    rcases List.mem_cons.mp hk with hk | hk
    · exact hW k hk.symm
    · exact h.written k hk
  · intro l1 l2 k hl
    cases l1 with
    | nil => intro hh; cases hh
    | cons a l1 =>
      simp only [List.cons_append, List.cons.injEq] at hl
      obtain ⟨rfl, hl⟩ := hl
      intro hh
      rcases List.mem_cons.mp hh with hh | hh
      · exact hA k hh.symm (by rw [hl]; simp)
      · exact h.after l1 l2 k hl hh
  · intro l1 l2 k v hl
    cases l1 with
    | nil =>
      simp only [List.nil_append, List.cons.injEq] at hl
      obtain ⟨rfl, rfl⟩ := hl
      exact hR k v rfl
    | cons a l1 =>
      simp only [List.cons_append, List.cons.injEq] at hl
      exact h.stored l1 l2 k v hl.2
  · intro k v b hk
    rcases List.mem_cons.mp hk with hk | hk
    · exact hV k v b hk.symm
    · exact h.value k v b hk

/-- the events of a caller step keep the log invariant -/
theorem LogInv.shape {f : K → V} {s s' : State K V} {log : List (Ev K V)} {b b' : List K} {evs : List (Ev K V)}
    (h : LogInv f s.store log) (hm : ∀ x, x ∈ keys s.store → x ∈ keys s'.store)
    (hs : Shape f s s' log b b' evs) : LogInv f s'.store (evs ++ log) := by
  have h' := h.mono hm
  cases hs with
  | quiet _ => exact h'
  | readHit k _ _ =>
    exact h'.cons _ (by intro k' hh; cases hh) (by intro k' hh; cases hh) (by intro k' v hh; cases hh)
      (by intro k' v b hh; cases hh)
  | readHitRet k _ _ =>
    refine LogInv.cons (LogInv.cons h' _ (by intro k' hh; cases hh) (by intro k' hh; cases hh)
      (by intro k' v hh; cases hh) (by intro k' v b hh; cases hh)) _ (by intro k' hh; cases hh)
      (by intro k' hh; cases hh) (by intro k' v hh; cases hh) (by intro k' v b hh; cases hh; rfl)
  | readMiss k _ hk =>
    refine h'.cons _ (by intro k' hh; cases hh) ?_ (by intro k' v hh; cases hh) (by intro k' v b hh; cases hh)
    intro k' hh hw
    cases hh
    exact hk (h.written k hw)
  | hitRet k _ =>
    exact h'.cons _ (by intro k' hh; cases hh) (by intro k' hh; cases hh) (by intro k' v hh; cases hh)
      (by intro k' v b hh; cases hh; rfl)
  | write k _ hk =>
    exact h'.cons _ (by intro k' hh; cases hh; exact hk) (by intro k' hh; cases hh) (by intro k' v hh; cases hh)
      (by intro k' v b hh; cases hh)
  | writeRet k _ hk =>
    refine LogInv.cons (LogInv.cons h' _ (by intro k' hh; cases hh; exact hk) (by intro k' hh; cases hh)
      (by intro k' v hh; cases hh) (by intro k' v b hh; cases hh)) _ (by intro k' hh; cases hh)
      (by intro k' hh; cases hh) (by intro k' v hh; cases hh; simp) (by intro k' v b hh; cases hh; rfl)
  | storeRet k _ hw =>
    exact h'.cons _ (by intro k' hh; cases hh) (by intro k' hh; cases hh) (by intro k' v hh; cases hh; exact hw)
      (by intro k' v b hh; cases hh; rfl)

/-- body runs of a caller step = missed lookups it logged -/
theorem shape_bodies {f : K → V} {s s' : State K V} {log : List (Ev K V)} {b b' : List K} {evs : List (Ev K V)}
    (hs : Shape f s s' log b b' evs) (k : K) : b'.count k = b.count k + evs.countP (isMiss k) := by
  cases hs with
  | quiet hb => rw [hb]; rfl
  | readHit k' hb _ => rw [hb]; simp [isMiss]
  | readHitRet k' hb _ => rw [hb]; simp [isMiss]
  | readMiss k' hb _ =>
    rw [hb, List.count_append]
    by_cases hk : k' = k <;> simp [isMiss, hk, List.count_cons]
  | hitRet k' hb => rw [hb]; simp [isMiss]
  | write k' hb _ => rw [hb]; simp [isMiss]
  | writeRet k' hb _ => rw [hb]; simp [isMiss]
  | storeRet k' hb _ => rw [hb]; simp [isMiss]

/-- a caller step does not run the body for a key that is stored -/
theorem shape_bodies_stored {f : K → V} {s s' : State K V} {log : List (Ev K V)} {b b' : List K}
    {evs : List (Ev K V)} (hs : Shape f s s' log b b' evs) (k : K) (hk : k ∈ keys s.store) :
    b'.count k = b.count k := by
  rw [shape_bodies hs k]
  cases hs with
  | readMiss k' hb hk' =>
    have : k' ≠ k := fun hh => hk' (hh ▸ hk)
    simp [isMiss, this]
  | quiet hb => rfl
  | readHit k' hb _ => simp [isMiss]
  | readHitRet k' hb _ => simp [isMiss]
  | hitRet k' hb => simp [isMiss]
  | write k' hb _ => simp [isMiss]
  | writeRet k' hb _ => simp [isMiss]
  | storeRet k' hb _ => simp [isMiss]

/-! ### The system -/

/-- the invariant of the call-level system in the plain configuration -/
structure CallInv (f : K → V) (cfg : Cfg) (c : CallState K V) : Prop where
  val : ValOK f c.shared.store
  stages : ∀ x, x ∈ c.callers → StageOK f cfg c.log x
  logInv : LogInv f c.shared.store c.log
  bodies : ∀ k, totalBodies k c.callers = c.log.countP (isMiss k)

theorem callStep_cases {f : K → V} {cfg : Cfg} {tl : Tlru S} {size : V → Nat} {c c' : CallState K V} {i : Nat}
    (h : callStep f cfg tl size c i = some c') :
    ∃ x x' s' evs l1 l2, c.callers = l1 ++ x :: l2 ∧ callerStep f cfg tl size c.shared x = some (s', x', evs) ∧
      c' = ⟨s', l1 ++ x' :: l2, evs ++ c.log⟩ := by
  unfold callStep at h
  cases hx : c.callers[i]? with
  | none => rw [hx] at h; cases h
  | some x =>
    rw [hx] at h
    simp only at h
    cases hs : callerStep f cfg tl size c.shared x with
    | none => rw [hs] at h; cases h
    | some r =>
      obtain ⟨s', x', evs⟩ := r
      rw [hs] at h
      simp only [Option.some.injEq] at h
      obtain ⟨l1, l2, hl, hset⟩ := set_decomp hx x'
      exact ⟨x, x', s', evs, l1, l2, hl, hs, by rw [← h, hset]⟩

theorem totalBodies_mid (k : K) (l1 l2 : List (Caller K V)) (x : Caller K V) :
    totalBodies k (l1 ++ x :: l2) = totalBodies k l1 + x.bodies.count k + totalBodies k l2 := by
  simp only [totalBodies, List.map_append, List.map_cons, List.sum_append, List.sum_cons]; omega

/-- **One step of the system** keeps the invariant, never removes a key, and does not run the body for a
    key that is stored. -/
theorem callStep_inv (f : K → V) {cfg : Cfg} (hp : Plain cfg) (tl : Tlru S) (size : V → Nat)
    (c : CallState K V) (i : Nat) (c' : CallState K V) (hi : CallInv f cfg c)
    (h : callStep f cfg tl size c i = some c') :
    CallInv f cfg c' ∧ (∀ x, x ∈ keys c.shared.store → x ∈ keys c'.shared.store) ∧
    (∀ k, k ∈ keys c.shared.store → totalBodies k c'.callers = totalBodies k c.callers) ∧
    (∃ evs, c'.log = evs ++ c.log) := by
  obtain ⟨x, x', s', evs, l1, l2, hl, hstep, rfl⟩ := callStep_cases h
  have hxm : x ∈ c.callers := by rw [hl]; simp
  obtain ⟨hval, hmono, hstage, hshape⟩ :=
    callerStep_spec f hp tl size c.shared s' c.log x x' evs hi.val (hi.stages x hxm) hstep
  refine ⟨⟨hval, ?_, hi.logInv.shape hmono hshape, ?_⟩, hmono, ?_, ⟨evs, rfl⟩⟩
  · intro y hy
    simp only at hy ⊢
    rcases List.mem_append.mp hy with hy | hy
    · exact (hi.stages y (by rw [hl]; exact List.mem_append_left _ hy)).mono evs
    · rcases List.mem_cons.mp hy with hy | hy
      · rw [hy]; exact hstage
      · exact (hi.stages y (by rw [hl]; exact List.mem_append_right _ (List.mem_cons_of_mem _ hy))).mono evs
  · intro k
    have := hi.bodies k
    rw [hl, totalBodies_mid] at this
    simp only [totalBodies_mid, List.countP_append, shape_bodies hshape k]
    omega
  · intro k hk
    simp only
    rw [hl, totalBodies_mid, totalBodies_mid, shape_bodies_stored hshape k hk]

theorem callInv_start (f : K → V) (cfg : Cfg) (s : State K V) (callss : List (List (K × List Nat)))
    (hs : ValOK f s.store) : CallInv f cfg (CallState.start s callss) := by
  refine ⟨hs, ?_, LogInv.nil f _, ?_⟩
  · intro x hx
    simp only [CallState.start, List.mem_map] at hx
    obtain ⟨calls, _, rfl⟩ := hx
    intro k rs rest _
    exact trivial
  · intro k
    simp only [CallState.start, totalBodies, List.map_map, List.countP_nil]
    have : ∀ l : List (List (K × List Nat)),
        (l.map ((fun c : Caller K V => c.bodies.count k) ∘ Caller.start)).sum = 0 := by
      intro l
      induction l with
      | nil => rfl
      | cons a l ih => simp only [List.map_cons, List.sum_cons, ih]; rfl
    exact this callss

/-- **Any schedule** keeps the invariant, never removes a key, does not run the body for a key that was
    stored at the start, and only extends the log. -/
theorem callRun_inv (f : K → V) {cfg : Cfg} (hp : Plain cfg) (tl : Tlru S) (size : V → Nat)
    (sch : List ThreadId) (c : CallState K V) (hi : CallInv f cfg c) :
    CallInv f cfg (callRun f cfg tl size sch c) ∧
    (∀ x, x ∈ keys c.shared.store → x ∈ keys (callRun f cfg tl size sch c).shared.store) ∧
    (∀ k, k ∈ keys c.shared.store →
      totalBodies k (callRun f cfg tl size sch c).callers = totalBodies k c.callers) ∧
    (∃ evs, (callRun f cfg tl size sch c).log = evs ++ c.log) := by
  induction sch generalizing c with
  | nil => exact ⟨hi, fun x hx => hx, fun k _ => rfl, ⟨[], rfl⟩⟩
  | cons i sch ih =>
    simp only [callRun]
    cases hs : callStep f cfg tl size c i with
    | none => exact ih c hi
    | some c' =>
      obtain ⟨h1, h2, h3, ⟨e1, h4⟩⟩ := callStep_inv f hp tl size c i c' hi hs
      obtain ⟨g1, g2, g3, ⟨e2, g4⟩⟩ := ih c' h1
      refine ⟨g1, fun x hx => g2 x (h2 x hx), fun k hk => ?_, ⟨e2 ++ e1, by rw [g4, h4, List.append_assoc]⟩⟩
      rw [g3 k (h2 k hk), h3 k hk]

/-- a missed lookup is a lookup -/
theorem countP_isMiss_le_isRead (k : K) (l : List (Ev K V)) : l.countP (isMiss k) ≤ l.countP (isRead k) := by
  induction l with
  | nil => exact Nat.le_refl _
  | cons e l ih =>
    simp only [List.countP_cons]
    have : (if isMiss k e = true then 1 else 0) ≤ (if isRead k e = true then 1 else 0) := by
      cases e with
      | read k' b => cases b <;> simp [isMiss, isRead]
      | write k' => simp [isMiss]
      | ret k' v b => simp [isMiss]
    omega

end Cachelito.ConcCalls
