/-
  C17 — Concurrent calls and invalidations never deadlock.

  "Any number of threads may concurrently call cached functions and any invalidation or statistics function
   on the same caches, and every such call returns.  No interleaving leaves two callers waiting on each other."

  Model (`Cachelito/Conc.lean`): data is abstracted away, an operation is its lock skeleton (`Skel`), a thread
  is a list of operations whose choices it resolves itself (so its behaviour is ANY event list `Runs` allows),
  a system is any number of such threads, a step lets one enabled thread perform one lock event
  (reader/writer semantics: `enabledB`; with parking_lot's writer preference: `enabledWPB`).

    T1  `wf_runs_wellRanked_balanced`   runs of rank-disciplined skeletons are rank-ordered and balanced
    T2  `deadlock_free`, `no_stuck_state`, `deadlock_free_from`          (no reachable state is stuck)
    T3  `every_call_returns`, `run_length`, `maximal_run_finished`       (every scheduler terminates)
    T4  `deadlock_free_wp`, `every_call_returns_wp`                      (writer preference)
    T5  `opTable_wf`, `opTableFull_wf`, `opTableOf_wf`, `cachelito_deadlock_free`, `cachelito_every_call_returns`
        and the regression witness of F5: `legacyCondCb_not_wf`, `legacy_deadlock`
    C20 (a)  `suspended_holds_nothing`, `progress_despite_suspended`

  Not modelled (see DESIGN.md §7 C17): user predicates/bodies that call back into the same cache while a
  callback holds its locks; fairness (a thread may be overtaken for ever — but the system as a whole always
  finishes, because every thread's event list is finite).
-/
import Cachelito.Lemmas.Conc

set_option linter.unusedSectionVars false
set_option linter.unusedSimpArgs false
set_option linter.unusedVariables false

namespace Cachelito.C17
open Cachelito.Conc

/-! ## T1 -/

/-- **T1.**  Every event list of a skeleton that respects the rank discipline (`wf []`) is *well ranked*
    (each acquisition is of a lock ranked strictly above everything held at that moment, so in particular a
    held lock is never re-acquired) and *balanced* (only held locks are released, and nothing is held at the
    end). -/
theorem wf_runs_wellRanked_balanced {s : Skel} (hwf : s.wf [] = true) {t : List Ev} (hr : Runs s t) :
    WellRanked t ∧ Balanced t := by
  have := runs_wfFrom hr [] [] (by simpa using hwf) (by simp [WfFrom])
  rw [List.append_nil] at this
  exact (wfFrom_iff [] t).1 this

/-- T1 for the executable monitor: such an event list passes `checkTrace`. -/
theorem wf_runs_checkTrace {s : Skel} (hwf : s.wf [] = true) {t : List Ev} (hr : Runs s t) :
    checkTrace [] t = true := by
  have := runs_wfFrom hr [] [] (by simpa using hwf) (by simp [WfFrom])
  rw [List.append_nil] at this
  exact (checkTrace_iff [] t).2 this

/-- The trace matcher used by the correspondence check is exact. -/
theorem accepts_exact (s : Skel) (t : List Ev) : accepts s t = true ↔ Runs s t := accepts_iff s t

/-! ## T2 — deadlock freedom -/

/-- **T2 (core).**  In ANY state whose threads all follow the rank discipline (each thread's remaining events
    are rank-ordered and balanced from what it holds): if some thread is unfinished, some thread is enabled. -/
theorem deadlock_free_from {s : State} (hwf : AllWf s) (hun : allFinished s = false) :
    ∃ i, enabledB s i = true :=
  progress workConserving_enabledB hwf hun

/-- **T2.**  Any number of threads, thread `k` running the operations `progs[k]` one after the other, every
    operation a `wf []` skeleton, every thread resolving its own choices (`paths[k]` is any event list its
    program can produce), any interleaving: in every reachable state in which some thread is unfinished, some
    thread is enabled.  No state has all unfinished threads blocked. -/
theorem deadlock_free (progs : List (List Skel)) (hwf : ∀ ops ∈ progs, ∀ o ∈ ops, o.wf [] = true)
    (paths : List (List Ev)) (hrun : IsRunOf progs paths)
    (s : State) (hreach : Reach (State.init paths) s) (hun : allFinished s = false) :
    ∃ i, enabledB s i = true :=
  deadlock_free_from ((allWf_of_isRunOf hwf hrun).reach hreach) hun

/-- T2 in terms of replayed schedules: whatever schedule `sched` has been replayed so far, the state reached
    is not stuck. -/
theorem no_stuck_state (progs : List (List Skel)) (hwf : ∀ ops ∈ progs, ∀ o ∈ ops, o.wf [] = true)
    (paths : List (List Ev)) (hrun : IsRunOf progs paths)
    (sched : List ThreadId) (s : State) (h : runSchedule sched (State.init paths) = some s) :
    stuck s = false := by
  cases hf : allFinished s
  · obtain ⟨i, hi⟩ := deadlock_free progs hwf paths hrun s (runScheduleWith_reach h) hf
    have hlt : i < s.length := by
      obtain ⟨th, hth, _⟩ := workConserving_enabledB.unfinished s i hi
      exact (List.getElem?_eq_some_iff.1 hth).1
    have hmem : i ∈ enabledThreads s := by
      simp only [enabledThreads, List.mem_filter, List.mem_range]
      exact ⟨hlt, hi⟩
    simp only [stuck, hf, Bool.not_false, Bool.true_and, List.isEmpty_iff]
    cases he : enabledThreads s with
    | nil => rw [he] at hmem; cases hmem
    | cons _ _ => rfl
  · simp [stuck, hf]

/-! ## T3 — termination: every call returns -/

/-- Every step performs exactly one lock event, so a run of `n` steps from `s` leaves `remaining s - n`
    events: no run is longer than `remaining s`. -/
theorem run_length {sched : List ThreadId} {s s' : State} (h : runSchedule sched s = some s') :
    remaining s' + sched.length = remaining s :=
  remaining_runScheduleWith workConserving_enabledB h

/-- A run that cannot be extended (no thread enabled) has finished every thread. -/
theorem maximal_run_finished (progs : List (List Skel)) (hwf : ∀ ops ∈ progs, ∀ o ∈ ops, o.wf [] = true)
    (paths : List (List Ev)) (hrun : IsRunOf progs paths)
    (s : State) (hreach : Reach (State.init paths) s) (hmax : ∀ i, enabledB s i = false) :
    allFinished s = true := by
  cases hf : allFinished s
  · obtain ⟨i, hi⟩ := deadlock_free progs hwf paths hrun s hreach hf
    rw [hmax i] at hi; cases hi
  · rfl

/-- **T3.**  Every scheduler — any function choosing the next thread, as long as it chooses an enabled thread
    whenever there is one; it need not be fair — drives the system to the state in which all threads have
    finished, in exactly as many steps as there are lock events: every call returns. -/
theorem every_call_returns (progs : List (List Skel)) (hwf : ∀ ops ∈ progs, ∀ o ∈ ops, o.wf [] = true)
    (paths : List (List Ev)) (hrun : IsRunOf progs paths)
    (pick : State → ThreadId) (hpick : ∀ s, (∃ i, enabledB s i = true) → enabledB s (pick s) = true) :
    ∃ s', runPick pick (remaining (State.init paths)) (State.init paths) = some s' ∧ allFinished s' = true :=
  let ⟨s', h1, h2, _⟩ := runPickWith_finishes workConserving_enabledB pick hpick _ _
    (allWf_of_isRunOf hwf hrun) (Nat.le_refl _)
  ⟨s', h1, h2⟩

/-! ## T4 — writer preference -/

/-- **T4.**  T2 under writer preference (a new reader is refused while another thread is waiting to
    write-lock the same lock): still no reachable state with all unfinished threads blocked. -/
theorem deadlock_free_wp (progs : List (List Skel)) (hwf : ∀ ops ∈ progs, ∀ o ∈ ops, o.wf [] = true)
    (paths : List (List Ev)) (hrun : IsRunOf progs paths)
    (s : State) (hreach : ReachWP (State.init paths) s) (hun : allFinished s = false) :
    ∃ i, enabledWPB s i = true :=
  progress workConserving_enabledWPB ((allWf_of_isRunOf hwf hrun).reach hreach) hun

/-- T3 under writer preference. -/
theorem every_call_returns_wp (progs : List (List Skel)) (hwf : ∀ ops ∈ progs, ∀ o ∈ ops, o.wf [] = true)
    (paths : List (List Ev)) (hrun : IsRunOf progs paths)
    (pick : State → ThreadId) (hpick : ∀ s, (∃ i, enabledWPB s i = true) → enabledWPB s (pick s) = true) :
    ∃ s', runPickWith enabledWPB pick (remaining (State.init paths)) (State.init paths) = some s' ∧
      allFinished s' = true :=
  let ⟨s', h1, h2, _⟩ := runPickWith_finishes workConserving_enabledWPB pick hpick _ _
    (allWf_of_isRunOf hwf hrun) (Nat.le_refl _)
  ⟨s', h1, h2⟩

/-- T2/T4 for ANY work-conserving lock-granting policy (hand-off to a designated waiter, FIFO queues, …):
    whatever the lock implementation does, as long as a free lock wanted by somebody is granted to somebody. -/
theorem deadlock_free_any_policy {E : State → ThreadId → Bool} (hE : WorkConserving E)
    (progs : List (List Skel)) (hwf : ∀ ops ∈ progs, ∀ o ∈ ops, o.wf [] = true)
    (paths : List (List Ev)) (hrun : IsRunOf progs paths)
    (s : State) (hreach : ReachWith E (State.init paths) s) (hun : allFinished s = false) :
    ∃ i, E s i = true :=
  progress hE ((allWf_of_isRunOf hwf hrun).reach hreach) hun

/-! ## T5 — the skeleton table of cachelito -/

open Table

/-- **T5.**  Every operation of the library (hook level: registry locks, queue mutex, store lock; two sync
    caches and one async cache) respects the lock ranks. -/
theorem opTable_wf : ∀ p ∈ opTable, p.2.wf [] = true := by decide

/-- The same with the `Once` cells of the first-call registrations and the DashMap shard guards shown. -/
theorem opTableFull_wf : ∀ p ∈ opTableFull, p.2.wf [] = true := by decide

/-- The conditional-invalidation callback as it was before the fix (store lock, then queue mutex inside)
    violates the rank discipline, for every cache … -/
theorem legacyCondCb_not_wf (c : Nat) : (legacyCondCb c).wf [] = false := by
  simp [legacyCondCb, wr, Skel.wf, M, O]

/-- … and so do the operations that run it. -/
theorem legacy_invalidate_with_not_wf (c : Nat) : (invalidateWith (legacyCondCb c)).wf [] = false := by
  simp [invalidateWith, Skel.opt, legacyCondCb, wr, Skel.wf, M, O, Rk]

/-- T5 for ANY universe of caches (any lists of sync and async cache numbers) and either level of detail:
    ranks depend on the kind of lock only, and no operation holds locks of two caches at once. -/
theorem opTableOf_wf (full : Bool) (syncs asyncs : List Nat) :
    ∀ p ∈ opTableOf full syncs asyncs, p.2.wf [] = true :=
  Table.opTableOf_wf full syncs asyncs

/-- **C17 for cachelito.**  Any number of threads, each running any sequence of operations taken from the
    table (calls under every policy, both insert variants, expired lookups, first-call registrations, group and
    conditional invalidations, statistics queries — on any caches of the universe), any interleaving: no
    reachable state has all unfinished threads blocked … -/
theorem cachelito_deadlock_free (full : Bool) (syncs asyncs : List Nat) (progs : List (List Skel))
    (hops : ∀ ops ∈ progs, ∀ o ∈ ops, o ∈ (opTableOf full syncs asyncs).map (·.2))
    (paths : List (List Ev)) (hrun : IsRunOf progs paths)
    (s : State) (hreach : Reach (State.init paths) s) (hun : allFinished s = false) :
    ∃ i, enabledB s i = true := by
  refine deadlock_free progs ?_ paths hrun s hreach hun
  intro ops ho o hoo
  obtain ⟨p, hp, rfl⟩ := List.mem_map.1 (hops ops ho o hoo)
  exact opTableOf_wf full syncs asyncs p hp

/-- … and every scheduler brings every call to its return (also under writer preference:
    `every_call_returns_wp` applies in the same way). -/
theorem cachelito_every_call_returns (full : Bool) (syncs asyncs : List Nat) (progs : List (List Skel))
    (hops : ∀ ops ∈ progs, ∀ o ∈ ops, o ∈ (opTableOf full syncs asyncs).map (·.2))
    (paths : List (List Ev)) (hrun : IsRunOf progs paths)
    (pick : State → ThreadId) (hpick : ∀ s, (∃ i, enabledB s i = true) → enabledB s (pick s) = true) :
    ∃ s', runPick pick (remaining (State.init paths)) (State.init paths) = some s' ∧ allFinished s' = true := by
  refine every_call_returns progs ?_ paths hrun pick hpick
  intro ops ho o hoo
  obtain ⟨p, hp, rfl⟩ := List.mem_map.1 (hops ops ho o hoo)
  exact opTableOf_wf full syncs asyncs p hp

/-! ## C20 (a) — a suspended call holds nothing and blocks nobody -/

/-- After ANY complete operation (in particular after the `lookup` phase of an async call, i.e. at every await
    boundary) the thread holds no lock. -/
theorem suspended_holds_nothing {s : Skel} (hwf : s.wf [] = true) {t : List Ev} (hr : Runs s t) :
    heldAfterAll [] t = [] := by
  have := runs_wfFrom hr [] [] (by simpa using hwf) (by simp [WfFrom])
  rw [List.append_nil] at this
  exact heldAfterAll_of_wfFrom this

/-- Threads that hold nothing and are never scheduled (`susp` — calls parked at an await, or dropped there)
    cannot block the others: while some other thread is unfinished, some other thread is enabled. -/
theorem progress_despite_suspended (progs : List (List Skel)) (hwf : ∀ ops ∈ progs, ∀ o ∈ ops, o.wf [] = true)
    (paths : List (List Ev)) (hrun : IsRunOf progs paths)
    (s : State) (hreach : Reach (State.init paths) s) (susp : ThreadId → Prop)
    (hs : ∀ (i : ThreadId) (th : Thread), s[i]? = some th → susp i → th.held = [])
    (hun : ∃ (i : ThreadId) (th : Thread), s[i]? = some th ∧ ¬ susp i ∧ th.todo ≠ []) :
    ∃ i, ¬ susp i ∧ enabledB s i = true :=
  progress_suspended ((allWf_of_isRunOf hwf hrun).reach hreach) susp hs hun

/-! ## Non-vacuity and the regression witness for F5 -/

section Examples

open Cachelito.Conc.Sample

/-- the three programs are made of table entries -/
example : ∀ ops ∈ progs3, ∀ o ∈ ops, o ∈ opTable.map (·.2) := by decide

/-- the three event lists are runs of the three programs: the hypotheses of T2/T3 hold for `sys3` -/
example : IsRunOf progs3 [pathCall, pathInvalidateWith, pathStats] :=
  ⟨(accepts_iff _ _).1 (by decide), (accepts_iff _ _).1 (by decide), (accepts_iff _ _).1 (by decide), trivial⟩

/-- the traces pass the monitor -/
example : checkTrace [] pathCall = true ∧ checkTrace [] pathInvalidateWith = true := by decide

/-- A replayed interleaving with real contention: A does its lookup and store-write and takes the queue mutex;
    B takes the registry lock and is then BLOCKED on the queue mutex (A holds it); C runs; A finishes its
    eviction; B proceeds; everybody finishes after exactly `remaining sys3 = 16` steps. -/
example :
    (runSchedule [0, 0, 0, 0, 0, 1] sys3).map (fun s => (enabledB s 1, enabledB s 0, stuck s))
      = some (false, true, false) ∧
    (runSchedule [0, 0, 0, 0, 0, 1, 2, 0, 0, 2, 0, 1, 1, 1, 1, 1] sys3).map allFinished = some true ∧
    remaining sys3 = 16 := by decide

/-- the whole state space of a 3-thread system (a hit with its recency update, an `invalidate_with`, a
    statistics query), every interleaving explored by the kernel: no reachable state is stuck; likewise for
    the evicting call against `invalidate_with` -/
example : explore (remaining sys3') sys3' = true := by decide +kernel
example : explore 14 (State.init [pathCall, pathInvalidateWith]) = true := by decide +kernel

/-- the same under writer preference for one schedule -/
example :
    (runScheduleWP [0, 0, 0, 0, 0, 1, 2, 0, 0, 2, 0, 1, 1, 1, 1, 1] sys3).map allFinished = some true := by
  decide

/-- writer preference really is more restrictive: while thread 0 reads STATS and thread 1 (a first call
    registering its statistics) waits to write it, a NEW reader (thread 2) may enter under plain semantics
    but is refused under writer preference — and the system still is not stuck (thread 0 can release) -/
example :
    let s : State := [⟨[(STATS, .shared)], [.rel STATS]⟩, ⟨[], [.acq STATS .excl, .rel STATS]⟩, ⟨[], pathStats⟩]
    runSchedule [0] (State.init [pathStats, [.acq STATS .excl, .rel STATS], pathStats]) = some s ∧
    (enabledB s 2, enabledWPB s 2, enabledWPB s 1, enabledWPB s 0) = (true, false, false, true) ∧
    (runScheduleWP [0, 1, 1, 2, 2] s).map allFinished = some true := by decide

/-- the matcher rejects a trace that is not a run: the legacy lock order is not a run of the fixed callback -/
example : accepts (invalidateWith (syncCondCb 0)) pathLegacyInvalidateWith = false ∧
    accepts (invalidateWith (legacyCondCb 0)) pathLegacyInvalidateWith = true := by decide

/-- every enumerated path of the most complicated skeleton is accepted (and there are several) -/
example : (Skel.paths 2 (syncInsertMem 0)).all (accepts (syncInsertMem 0)) = true ∧
    (Skel.paths 1 (syncInsertMem 0)).length = 11 := by decide

/-- **Regression witness for F5.**  With the legacy callback (which `legacyCondCb_not_wf` rejects) two threads
    deadlock: A writes the store and takes the queue mutex, B takes the registry lock and the store lock; now
    A waits for the store lock held by B, B waits for the queue mutex held by A — both unfinished, nobody
    enabled.  The exhaustive search finds exactly this schedule; the fixed system has no stuck state. -/
theorem legacy_deadlock :
    (runSchedule [0, 0, 0, 1, 1] sysLegacy).map (fun s => (allFinished s, enabledB s 0, enabledB s 1, stuck s))
      = some (false, false, false, true) ∧
    findStuck (remaining sysLegacy) sysLegacy = some [0, 0, 0, 1, 1] ∧
    explore (remaining sysLegacy) sysLegacy = false ∧
    explore 12 (State.init [pathCall.drop 2, pathInvalidateWith]) = true := by decide

end Examples

end Cachelito.C17
