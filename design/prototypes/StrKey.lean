namespace Keys

/-- chars with a one-letter escape -/
def esc1 : Char → Option Char
  | '"' => some '"' | '\\' => some '\\' | '\n' => some 'n' | '\r' => some 'r' | '\t' => some 't' | '\x00' => some '0'
  | _ => none

def unesc1 : Char → Option Char
  | '"' => some '"' | '\\' => some '\\' | 'n' => some '\n' | 'r' => some '\r' | 't' => some '\t' | '0' => some '\x00'
  | _ => none

theorem unesc1_esc1 (c e : Char) (h : esc1 c = some e) : unesc1 e = some c := by
  unfold esc1 at h
  split at h <;> simp at h <;> subst h <;> simp [unesc1]

theorem esc1_none_ne (c : Char) (h : esc1 c = none) : c ≠ '"' ∧ c ≠ '\\' := by
  constructor <;> (intro hc; subst hc; simp [esc1] at h)

def renderBody : List Char → List Char
  | [] => []
  | c :: cs => match esc1 c with
    | some e => '\\' :: e :: renderBody cs
    | none => c :: renderBody cs

def renderStr (s : List Char) : List Char := '"' :: (renderBody s ++ ['"'])

/-- parse the body up to the closing quote; fuel = input length -/
def parseBody : List Char → Option (List Char × List Char)
  | [] => none
  | '"' :: rest => some ([], rest)
  | '\\' :: e :: rest =>
      match unesc1 e, parseBody rest with
      | some c, some (s, r) => some (c :: s, r)
      | _, _ => none
  | '\\' :: [] => none
  | c :: rest =>
      match parseBody rest with
      | some (s, r) => some (c :: s, r)
      | none => none

def parseStr : List Char → Option (List Char × List Char)
  | '"' :: rest => parseBody rest
  | _ => none

theorem parseBody_render (s rest : List Char) :
    parseBody (renderBody s ++ '"' :: rest) = some (s, rest) := by
  induction s with
  | nil => simp [renderBody, parseBody]
  | cons c cs ih =>
    simp only [renderBody]
    cases h : esc1 c with
    | some e =>
      have hu := unesc1_esc1 c e h
      simp [parseBody, hu, ih]
    | none =>
      obtain ⟨h1, h2⟩ := esc1_none_ne c h
      simp only [List.cons_append]
      rw [parseBody.eq_def]
      split
      · rename_i heq; simp at heq
      · rename_i heq; simp at heq; exact absurd heq.1 h1
      · rename_i heq; simp at heq; exact absurd heq.1 h2
      · rename_i heq; simp at heq
      · rename_i heq; simp at heq
        obtain ⟨hc, hr⟩ := heq
        subst hc; subst hr
        simp [ih]

theorem parseStr_render (s rest : List Char) : parseStr (renderStr s ++ rest) = some (s, rest) := by
  simp [renderStr, parseStr, parseBody_render]

theorem renderStr_injective (a b : List Char) (h : renderStr a = renderStr b) : a = b := by
  have ha := parseStr_render a []
  have hb := parseStr_render b []
  rw [h] at ha; rw [ha] at hb; simpa using hb

/-- two string arguments joined by '|' never collide -/
theorem key2_injective (a b c d : List Char)
    (h : renderStr a ++ '|' :: renderStr b = renderStr c ++ '|' :: renderStr d) : a = c ∧ b = d := by
  have h1 := parseStr_render a ('|' :: renderStr b)
  have h2 := parseStr_render c ('|' :: renderStr d)
  rw [h] at h1; rw [h1] at h2
  simp at h2
  exact ⟨h2.1, renderStr_injective _ _ h2.2⟩

example : renderStr "a|b".toList ++ '|' :: renderStr "c".toList ≠ renderStr "a".toList ++ '|' :: renderStr "b|c".toList := by decide
end Keys
