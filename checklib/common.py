"""Orchestration shared by all property checks (see ../check and DESIGN.md §6)."""
import os, re, sys, json, time, subprocess, shutil, random
from concurrent.futures import ThreadPoolExecutor

ROOT = os.path.dirname(os.path.dirname(os.path.abspath(__file__)))
LEAN = os.path.join(ROOT, "lean", "Cachelito")
HARNESS = os.path.join(ROOT, "harness")
DRIVER = os.path.join(LEAN, ".lake", "build", "bin", "driver")
BIN = os.path.join(HARNESS, "target", "release")
WORK = os.path.join(ROOT, "work")
REPLAYS = os.path.join(ROOT, "replays")
EVIDENCE = os.path.join(ROOT, "evidence")
JOBS = max(2, min(14, (os.cpu_count() or 4) - 2))
ALLOWED_AXIOMS = {"propext", "Classical.choice", "Quot.sound"}
FORBIDDEN = re.compile(r"\bsorry\b|\badmit\b|^\s*axiom\s|native_decide|bv_decide|implemented_by|\bunsafe\s|maxHeartbeats\s+0|\bextern\b", re.M)

ENV = dict(os.environ)
ENV["CARGO_NET_OFFLINE"] = "true"
ENV.setdefault("CARGO_TERM_COLOR", "never")

from registry import PROPS, NOT_APPLICABLE, TRUSTED_BASE  # noqa: E402


def sh(cmd, cwd=None, timeout=3600, inp=None):
    t = time.time()
    p = subprocess.run(cmd, cwd=cwd, env=ENV, input=inp, stdout=subprocess.PIPE, stderr=subprocess.STDOUT,
                       timeout=timeout, text=True, shell=isinstance(cmd, str))
    return p.returncode, p.stdout, time.time() - t


# ------------------------------------------------------------------------------------------------
# Lean side: build, audit

def lean_sources():
    out = []
    for d, _, fs in os.walk(LEAN):
        if ".lake" in d:
            continue
        for f in fs:
            if f.endswith(".lean") and not f.startswith(".audit"):
                out.append(os.path.join(d, f))
    return sorted(out)


def strip_comments(src):
    # nested block comments /- ... -/ and line comments --
    out, i, depth = [], 0, 0
    while i < len(src):
        if src.startswith("/-", i):
            depth += 1; i += 2; continue
        if src.startswith("-/", i) and depth > 0:
            depth -= 1; i += 2; continue
        if depth == 0:
            if src.startswith("--", i):
                j = src.find("\n", i)
                i = len(src) if j < 0 else j
                continue
            out.append(src[i])
        elif src[i] == "\n":
            out.append("\n")
        i += 1
    return "".join(out)


def forbidden_tokens():
    hits = []
    for f in lean_sources():
        code = strip_comments(open(f).read())
        # string literals may mention the words (e.g. messages); drop them
        code = re.sub(r'"(?:[^"\\]|\\.)*"', '""', code)
        for m in FORBIDDEN.finditer(code):
            line = code.count("\n", 0, m.start()) + 1
            hits.append(f"{os.path.relpath(f, ROOT)}:{line}: {m.group(0).strip()}")
    return hits


def theorems_of(module):
    """names of the theorems declared in a Props module (the obligations of the property)"""
    path = os.path.join(LEAN, module.replace(".", "/") + ".lean")
    src = strip_comments(open(path).read())
    ns = []
    names = []
    for line in src.splitlines():
        m = re.match(r"\s*namespace\s+(\S+)", line)
        if m:
            ns.append(m.group(1)); continue
        m = re.match(r"\s*end\s+(\S+)", line)
        if m and ns and ns[-1] == m.group(1):
            ns.pop(); continue
        m = re.match(r"\s*(?:private\s+|protected\s+)?theorem\s+(\S+)", line)
        if m:
            names.append(".".join(ns + [m.group(1)]))
    return names


def lake_build(targets, timeout=3000):
    rc, out, dt = sh(["lake", "build"] + targets, cwd=LEAN, timeout=timeout)
    return rc == 0, out, dt


def audit(module, names):
    """`#print axioms` of every property theorem; returns {name: (ok, axioms|error)}"""
    tmp = os.path.join(LEAN, f".audit_{module.split('.')[-1]}_{os.getpid()}.lean")
    with open(tmp, "w") as f:
        f.write(f"import {module}\n")
        for n in names:
            f.write(f"#print axioms {n}\n")
    rc, out, _ = sh(["lake", "env", "lean", tmp], cwd=LEAN, timeout=1200)
    os.unlink(tmp)
    res = {}
    flat = re.sub(r"\s+", " ", out)
    for n in names:
        m = re.search(r"'" + re.escape(n) + r"' depends on axioms: \[([^\]]*)\]", flat)
        if m:
            ax = {a.strip() for a in m.group(1).split(",") if a.strip()}
            res[n] = (ax <= ALLOWED_AXIOMS, sorted(ax))
        elif re.search(r"'" + re.escape(n) + r"' does not depend on any axioms", flat):
            res[n] = (True, [])
        else:
            res[n] = (False, ["<not checked: " + out.strip()[-300:] + ">"])
    return res


TRANSLATOR_INFO = {}


def lean_obligations(prop):
    """(a) of the verdict: theorems compile, pass the axiom audit, no forbidden constructs"""
    spec = PROPS[prop]
    mods = spec["lean_modules"]
    problems = []
    if any(m.endswith(("C17s", "C16s")) for m in mods):
        # translator tie: regenerate the Generated/*.lean model fragments from /repo's CURRENT source; the theorems of
        # C17s / C16s are then re-checked against what the code says now
        try:
            import static_scopes
            info = static_scopes.regenerate()
            TRANSLATOR_INFO.clear(); TRANSLATOR_INFO.update(info)
            for pr in info["lock_problems"] + info["borrow_problems"]:
                problems.append("translator: " + pr)
        except Exception as e:  # the translator could not read the source: the obligation is not established
            problems.append(f"translator failed on the current source: {e!r}")
    if any(re.search(r"\.(T\d\d[a-z]?|S\d\d)$", m) for m in mods):
        # translator tie for the pure helper code: Generated/Pure*.lean are regenerated from /repo's CURRENT source and the
        # theorems of Props/T01..T05 re-proved against them
        try:
            import rust2lean
            pinfo = rust2lean.regenerate()
            TRANSLATOR_INFO["pure"] = {k: v for k, v in pinfo.items() if k != "problems"}
            for pr in pinfo["problems"]:
                problems.append("translator (pure helpers): " + pr)
        except Exception as e:
            problems.append(f"translator (pure helpers) failed on the current source: {e!r}")
    ok, out, dt = lake_build(mods + ["driver"])
    obligations = []
    if not ok:
        errs = [l for l in out.splitlines() if "error" in l][:8]
        problems.append("lake build failed: " + " | ".join(errs))
    mod_ok = {m: ok for m in mods}
    if not ok:
        # which modules still build?  (a broken translator tie must not hide that the other theorems still check)
        for m in mods:
            mod_ok[m] = lake_build([m])[0]
        mod_ok["driver"] = lake_build(["driver"])[0]
        if not mod_ok["driver"]:
            mod_ok = {m: False for m in mods}
    for mod in mods:
        try:
            names = theorems_of(mod)
        except FileNotFoundError:
            problems.append(f"missing module {mod}"); continue
        if mod_ok[mod]:
            res = audit(mod, names)
        else:
            res = {n: (False, ["<build failed>"]) for n in names}
        for n in names:
            good, ax = res[n]
            obligations.append({"theorem": n, "discharged": bool(good), "axioms": ax})
            if not good:
                problems.append(f"theorem {n} not discharged: {ax}")
    bad = forbidden_tokens()
    if bad:
        problems.append("forbidden constructs: " + "; ".join(bad[:5]))
    return obligations, problems, dt


def leanchecker(mods):
    rc, out, dt = sh(["lake", "env", "leanchecker"] + mods, cwd=LEAN, timeout=3000)
    return rc == 0, out[-500:], dt


# ------------------------------------------------------------------------------------------------
# Rust side

def build_harness():
    import macro_stream
    macro_stream.ensure_corpus()
    rc, out, dt = sh(["cargo", "build", "--release", "--offline"], cwd=HARNESS, timeout=3000)
    if rc != 0:
        errs = [l for l in out.splitlines() if l.startswith("error")][:6]
        return False, "harness does not build against /repo: " + " | ".join(errs), dt
    return True, "", dt


def setup():
    os.makedirs(WORK, exist_ok=True)
    t = time.time()
    try:
        import static_scopes
        static_scopes.regenerate()
        import rust2lean
        rust2lean.regenerate()
    except Exception as e:
        print("SETUP: translator failed:", e)
    ok, out, _ = lake_build(["Cachelito", "driver"] + sorted({m for p in PROPS.values() for m in p["lean_modules"]}))
    print(out[-2000:])
    if not ok:
        print("SETUP: lake build failed"); return 1
    ok2, msg, _ = build_harness()
    if not ok2:
        print("SETUP:", msg); return 1
    # warm the compile corpus' own target directory (C19 compile stream)
    try:
        import compile_stream
        compile_stream.run_compile_stream("C19", {}, "quick", 1, WORK)
    except Exception as e:
        print("SETUP: compile corpus warm-up failed:", e)
    print(f"SETUP ok in {time.time() - t:.0f}s")
    return 0


# ------------------------------------------------------------------------------------------------
# episodes (L1) — parsing, running, shrinking

def parse_episodes(text):
    eps, cur = [], None
    for line in text.splitlines():
        line = line.strip()
        if not line or line.startswith("#"):
            continue
        if line.startswith("E "):
            cur = {"head": line, "ops": []}
            eps.append(cur)
        elif cur is not None:
            cur["ops"].append(line)
    return eps


def render_episodes(eps):
    return "".join(e["head"] + "\n" + "".join(o + "\n" for o in e["ops"]) for e in eps)


VERDICT_RE = re.compile(r"^(DIFF|MON (\S+)|BAD)\b.*?(?:episode=(\d+) step=(\d+))?")


def run_core_chunk(path):
    """run one episode file through the real engines and the model; returns (lines_path, verdict_text)"""
    lines = path + ".lines"
    with open(lines, "w") as f:
        p = subprocess.run([os.path.join(BIN, "core_diff"), "run", path], stdout=f, stderr=subprocess.PIPE, env=ENV, text=True)
    if p.returncode == 3 and "HANG " in p.stderr:
        # an engine operation never returned: run the lines produced so far through the driver, then report
        where = p.stderr[p.stderr.index("HANG ") + 5:].strip().splitlines()[0]
        with open(lines) as f:
            q = subprocess.run([DRIVER, "core"], stdin=f, stdout=subprocess.PIPE, stderr=subprocess.STDOUT, env=ENV, text=True)
        return lines, q.stdout + f"MON C17 {where} :: the operation never returned (it spins or blocks while holding the cache's locks: every other caller of this cache would wait behind it for ever)\n" \
                               + f"MON C16 {where} :: the operation never returned\n" \
                               + f"BAD {where} the operation never returned; the rest of this chunk of episodes was not run\n"
    if p.returncode != 0:
        return lines, f"BAD harness exit {p.returncode}: {p.stderr[-300:]}\n"
    with open(lines) as f:
        q = subprocess.run([DRIVER, "core"], stdin=f, stdout=subprocess.PIPE, stderr=subprocess.STDOUT, env=ENV, text=True)
    return lines, q.stdout


def parse_verdicts(text):
    out = []
    for l in text.splitlines():
        if l.startswith("DIFF"):
            m = re.search(r"episode=(\d+) step=(\d+)", l)
            out.append({"kind": "DIFF", "id": None, "episode": int(m.group(1)), "step": int(m.group(2)), "text": l})
        elif l.startswith("MON "):
            m = re.match(r"MON (\S+) episode=(\d+) step=(\d+)", l)
            out.append({"kind": "MON", "id": m.group(1), "episode": int(m.group(2)), "step": int(m.group(3)), "text": l})
        elif l.startswith("BAD"):
            out.append({"kind": "BAD", "id": None, "episode": 0, "step": 0, "text": l})
    return out


def episode_fails(ep, want, workdir, tag="shrink"):
    """does this single episode still produce a verdict matching `want` = (kind, id)?"""
    path = os.path.join(workdir, f"{tag}.ep")
    with open(path, "w") as f:
        f.write(render_episodes([ep]))
    _, vt = run_core_chunk(path)
    for v in parse_verdicts(vt):
        if v["kind"] == want[0] and (want[1] is None or v["id"] == want[1]):
            return v
    return None


def shrink_episode(ep, want, workdir, budget=400):
    """delta debugging on the operation list"""
    ops = list(ep["ops"])
    n = 2
    trials = 0
    while len(ops) >= 2 and trials < budget:
        chunk = max(1, len(ops) // n)
        reduced = False
        for i in range(0, len(ops), chunk):
            cand = ops[:i] + ops[i + chunk:]
            trials += 1
            if cand and episode_fails({"head": ep["head"], "ops": cand}, want, workdir):
                ops = cand
                n = max(n - 1, 2)
                reduced = True
                break
        if not reduced:
            if chunk == 1:
                break
            n = min(n * 2, len(ops))
    return {"head": ep["head"], "ops": ops}


def write_replay(prop, seed, kind, what, ep=None, extra=None, raw_lines=None):
    os.makedirs(REPLAYS, exist_ok=True)
    path = os.path.join(REPLAYS, f"{prop}-{seed}-{kind}.txt")
    n = 1
    while os.path.exists(path) and (time.time() - os.path.getmtime(path)) < 600:
        n += 1
        path = os.path.join(REPLAYS, f"{prop}-{seed}-{kind}-{n}.txt")
    with open(path, "w") as f:
        f.write(f"# property={prop} kind={kind}\n")
        for l in what.splitlines():
            f.write(f"# {l}\n")
        if extra:
            for l in extra:
                f.write(f"# {l}\n")
        if ep:
            f.write(render_episodes([ep]))
        if raw_lines:
            f.write("\n".join(raw_lines) + "\n")
    return os.path.relpath(path, ROOT)


# ------------------------------------------------------------------------------------------------
# known findings

def known_findings():
    p = os.path.join(ROOT, "known_findings.json")
    if not os.path.exists(p):
        return []
    return json.load(open(p))["findings"]


def match_known(prop, text):
    for k in known_findings():
        if k.get("property") == prop and k.get("status") == "known" and re.search(k["signature"], text):
            return k
    return None


# ------------------------------------------------------------------------------------------------
# statistics over S lines (what the run covered)

def parse_state(s):
    es, q, st = s.split("#")
    entries = {}
    if es:
        for e in es.split(";"):
            k, r = e.split("=")
            vid, sz, age, hits = r.split(",")
            entries[k] = (vid, int(sz), int(age), int(hits))
    return entries, (q.split(",") if q else []), tuple(int(x) for x in st.split(","))


def classify(fields):
    """events of one S line, used for the non-triviality rules and the distribution in the evidence"""
    _, cfg, pre, op, out, post = fields
    c = cfg.split(" ")
    pe, pq, _ = parse_state(pre)
    qe, qq, _ = parse_state(post)
    o = op.split(" ")
    ev = set()
    ev.add("op:" + o[0])
    removed = [k for k in pe if k not in qe]
    if any(k not in pe for k in pq):
        ev.add("orphan-queue-key-in-pre-state")
    if o[0] in ("ins", "insm"):
        k = o[1]
        others_removed = [x for x in removed if x != k]
        if others_removed or (k not in qe):
            ev.add("eviction")
        if len(others_removed) + (0 if k in qe else 1) > 1:
            ev.add("multi-eviction")
        if k in pe:
            ev.add("re-store")
        if o[0] == "insm" and c[3] != "-" and int(o[3]) > int(c[3]):
            ev.add("oversize")
        if o[0] == "insm" and c[3] != "-":
            ev.add("memory-store")
    if o[0] == "get":
        k = o[1]
        if out.startswith("some"):
            ev.add("hit")
        elif k in pe:
            ev.add("expiry")
        else:
            ev.add("miss")
        if k in pe and c[4] != "-":
            age, t = pe[k][2], int(c[4]) * 1000
            if abs(age - t) <= 1000:
                ev.add("ttl-boundary")
    if out.startswith("panic"):
        ev.add("panic")
    return ev


def stats_of_lines(lines_path, nontrivial_events, acc):
    with open(lines_path) as f:
        for line in f:
            if not line.startswith("S|"):
                if line.startswith("#ABORT"):
                    acc["aborted_episodes"] = acc.get("aborted_episodes", 0) + 1
                continue
            fields = line.rstrip("\n").split("|")
            if len(fields) != 6:
                continue
            acc["steps"] += 1
            try:
                ev = classify(fields)
            except Exception:
                continue
            for e in ev:
                acc["events"][e] = acc["events"].get(e, 0) + 1
            cfgk = fields[1].split(" ")
            acc["configs"].add(fields[1])
            key = cfgk[0] + "/" + cfgk[1]
            acc["by_flavour_policy"][key] = acc["by_flavour_policy"].get(key, 0) + 1
            if ev & nontrivial_events:
                acc["nontrivial"].add(hash((fields[1], fields[2], fields[3])))
                if len(acc["samples"]) < 3:
                    acc["samples"].append(line.rstrip("\n"))


# ------------------------------------------------------------------------------------------------
# core stream

def run_core_stream(prop, stream, tier, seed, workdir, scale=1):
    spec = stream
    episodes = spec["episodes"][tier] * scale
    lo, hi = spec["ops"][tier]
    filters = spec.get("filters", [[]])
    texts = []
    for i, flt in enumerate(filters):
        n = max(1, episodes // len(filters))
        rc, out, _ = sh([os.path.join(BIN, "core_diff"), "gen", str(seed + 7919 * i), str(n), str(lo), str(hi)] + flt)
        if rc != 0:
            return {"error": "generator failed: " + out[-300:]}
        texts.append(out)
    eps = [e for t in texts for e in parse_episodes(t)]
    # regression corpus first
    corpus = []
    cdir = os.path.join(ROOT, "corpus", "core")
    if os.path.isdir(cdir):
        for fn in sorted(os.listdir(cdir)):
            corpus += parse_episodes(open(os.path.join(cdir, fn)).read())
    if tier == "thorough" and spec.get("enumerate"):
        for (fl, pol, lim, depth) in spec["enumerate"]:
            rc, out, _ = sh([os.path.join(BIN, "core_diff"), "enum", fl, pol, str(lim), str(depth)], timeout=600)
            if rc == 0:
                eps += parse_episodes(out)
    eps = corpus + eps
    nchunks = max(1, min(JOBS, len(eps) // 8 or 1))
    chunks = [eps[i::nchunks] for i in range(nchunks)]
    paths = []
    for i, ch in enumerate(chunks):
        p = os.path.join(workdir, f"core-{i}.ep")
        with open(p, "w") as f:
            f.write(render_episodes(ch))
        paths.append(p)
    with ThreadPoolExecutor(max_workers=JOBS) as ex:
        results = list(ex.map(run_core_chunk, paths))
    acc = {"steps": 0, "events": {}, "configs": set(), "by_flavour_policy": {}, "nontrivial": set(), "samples": []}
    verdicts = []
    model_runs = 0
    for i, (lines, vt) in enumerate(results):
        stats_of_lines(lines, set(spec.get("nontrivial", [])), acc)
        for v in parse_verdicts(vt):
            if v["episode"] >= 1 and v["episode"] <= len(chunks[i]):
                v["ep"] = chunks[i][v["episode"] - 1]
            verdicts.append(v)
        m = re.search(r"SUMMARY .*model_runs=(\d+)", vt)
        if m:
            model_runs += int(m.group(1))
        elif "SUMMARY" not in vt:
            verdicts.append({"kind": "BAD", "id": None, "episode": 0, "step": 0, "text": "driver produced no summary: " + vt[-200:]})
    return {"episodes": len(eps), "corpus_episodes": len(corpus), "acc": acc, "verdicts": verdicts, "model_runs": model_runs}


# ------------------------------------------------------------------------------------------------
# the decision procedure

def decide(prop, tier, seed):
    t0 = time.time()
    spec = PROPS[prop]
    os.makedirs(EVIDENCE, exist_ok=True)
    workdir = os.path.join(WORK, f"{prop}-{os.getpid()}")
    shutil.rmtree(workdir, ignore_errors=True)
    os.makedirs(workdir)
    out_lines = []
    violations = []       # (replay_path, suffix)
    known_printed = set()

    # (a) proof obligations
    obligations, oproblems, lean_dt = lean_obligations(prop)
    if tier == "thorough" and not oproblems:
        ok, msg, _ = leanchecker(spec["lean_modules"])
        if not ok:
            oproblems.append("leanchecker rejected the compiled module: " + msg)

    # (b)+(c) correspondence streams and monitors on the real code
    ok, msg, cargo_dt = build_harness()
    stream_results = []
    cproblems = []
    mon_fail = []
    if not ok:
        cproblems.append(msg)
    else:
        for st in spec["streams"]:
            r = STREAM_RUNNERS[st["kind"]](prop, st, tier, seed, workdir)
            stream_results.append((st, r))
            if "error" in r:
                cproblems.append(f"stream {st['kind']}: {r['error']}")
                continue
            for v in r["verdicts"]:
                if v["kind"] == "MON" and v["id"] in spec["monitors"]:
                    mon_fail.append((st, v))
                elif v["kind"] in ("DIFF", "BAD"):
                    cproblems.append(f"stream {st['kind']}: {v['text'][:600]}")

    def report_monitor(st, v):
        what = v["text"]
        k = match_known(prop, what)
        if k:
            if k["signature"] not in known_printed:
                known_printed.add(k["signature"])
                out_lines.append(f"KNOWN-FINDING: property={prop} {k['what']}")
            return
        ep = v.get("ep")
        if ep is not None and st["kind"] == "core":
            ep = {"head": ep["head"], "ops": ep["ops"][:v["step"]]}
            ep = shrink_episode(ep, ("MON", v["id"]), workdir)
            still = episode_fails(ep, ("MON", v["id"]), workdir)
            if still:
                what = still["text"]
        raw = None
        if v.get("line_text"):
            raw = [v["line_text"]]
        if v.get("raw"):
            raw = v["raw"]
        if v.get("ep_text"):
            import macro_stream
            raw = macro_stream.episode_inputs(v["ep_text"], upto=v["step"])
        path = write_replay(prop, seed, "monitor", "the property is false on the real code:\n" + what, ep,
                            extra=v.get("extra"), raw_lines=raw)
        violations.append((path, ""))

    seen_sig = set()
    for st, v in mon_fail:
        sig = re.sub(r"episode=\d+ step=\d+", "", v["text"])[:120]
        if sig in seen_sig or len(violations) >= 3:
            continue
        seen_sig.add(sig)
        report_monitor(st, v)

    searched = 0
    if (oproblems or cproblems) and not violations and ok:
        # a proof obligation or the correspondence broke while the monitors are silent: search the
        # implementation for a concrete failing input with a larger budget
        for st in spec["streams"]:
            runner = STREAM_RUNNERS[st["kind"]]
            for rnd in range(1, 4):
                r = runner(prop, st, tier, seed + 1000003 * rnd, workdir, scale=4)
                if "error" in r:
                    break
                searched += r["episodes"]
                hits = [v for v in r["verdicts"] if v["kind"] == "MON" and v["id"] in spec["monitors"]]
                if hits:
                    report_monitor(st, hits[0])
                    break
            if violations:
                break
        if not violations:
            # shrink the first disagreement to make the replay file useful
            ep = None
            first = None
            for st, r in stream_results:
                for v in r.get("verdicts", []):
                    if v["kind"] == "DIFF" and v.get("ep") is not None:
                        first = v; break
                if first:
                    break
            if first and first.get("ep") and st["kind"] == "core":
                ep = {"head": first["ep"]["head"], "ops": first["ep"]["ops"][:first["step"]]}
                ep = shrink_episode(ep, ("DIFF", None), workdir)
                again = episode_fails(ep, ("DIFF", None), workdir)
                if again:
                    cproblems.insert(0, "minimised disagreement: " + again["text"][:900])
            raw = None
            if ep is None:
                for st2, r2 in stream_results:
                    for v2 in r2.get("verdicts", []):
                        if v2["kind"] == "DIFF" and v2.get("ep_text"):
                            import macro_stream
                            raw = macro_stream.episode_inputs(v2["ep_text"], upto=v2["step"])
                            break
                    if raw:
                        break
            what = "no concrete failing input was found, but the property is no longer shown to hold:\n" + \
                   "\n".join(["OBLIGATION " + p for p in oproblems] + ["CORRESPONDENCE " + p for p in cproblems[:6]]) + \
                   f"\nfailing-input search: {searched} further episodes, monitors {spec['monitors']} silent"
            path = write_replay(prop, seed, "unproved", what, ep, raw_lines=raw)
            violations.append((path, " no-failing-input-found"))

    # evidence
    n_obl = len(obligations)
    n_dis = sum(1 for o in obligations if o["discharged"]) if not [p for p in oproblems if "forbidden" in p] else 0
    cov = {
        "obligations": n_obl,
        "discharged": n_dis,
        "checker_cmd": "cd lean/Cachelito && lake build " + " ".join(spec["lean_modules"]) +
                       " && lake env lean <generated `#print axioms` file>" + (" && lake env leanchecker " + " ".join(spec["lean_modules"]) if tier == "thorough" else ""),
        "trusted_base": TRUSTED_BASE + spec.get("trusted_extra", []),
        "theorems": obligations,
        "obligation_problems": oproblems,
        "correspondence_problems": cproblems[:10],
        "lean_build_s": round(lean_dt, 1),
    }
    if TRANSLATOR_INFO:
        what = []
        if any(k != "pure" for k in TRANSLATOR_INFO):
            what.append("checklib/static_scopes.py regenerated lean/Cachelito/Cachelito/Generated/{LockNesting,BorrowNesting}.lean from /repo's current source before the build; the C17s / C16s theorems were checked against it")
        if "pure" in TRANSLATOR_INFO:
            what.append("checklib/rust2lean.py regenerated lean/Cachelito/Cachelito/Generated/Pure{Mem,Utils,Entry,Stats,Policy,Async,Global,Thread,Wrap,WrapAsync,Registry,StatsRegistry,Keys}.lean (shallow translation of memory_estimator.rs, utils.rs, cache_entry.rs, stats.rs, eviction_policy.rs and of the victim scans and the store path of async_global_cache.rs) from /repo's current source before the build; the theorems of Props/T01..T22 (translated function = model definition) were re-proved against it")
        cov["translator"] = dict(TRANSLATOR_INFO, what="; ".join(what))
    evaluations = 0
    validated = 0
    nontrivial = 0
    samples = []
    streams_cov = []
    for st, r in stream_results:
        if "error" in r:
            continue
        a = r["acc"]
        evaluations += a["steps"]
        if st["kind"] not in ("hammer", "compile", "static"):
            validated += a["steps"]
        nontrivial += len(a["nontrivial"])
        samples += a["samples"]
        d = {
            "stream": st["kind"], "what": st.get("what", ""), "episodes": r["episodes"], "corpus_episodes": r["corpus_episodes"],
            "steps_compared_with_model": a["steps"], "model_executions": r["model_runs"],
            "distinct_configurations": len(a["configs"]), "events": dict(sorted(a["events"].items())),
            "steps_by_flavour_policy": dict(sorted(a["by_flavour_policy"].items())),
            "disagreements": sum(1 for v in r["verdicts"] if v["kind"] in ("DIFF", "BAD")),
            "monitor_failures": sum(1 for v in r["verdicts"] if v["kind"] == "MON" and v["id"] in spec["monitors"]),
        }
        for extra_key in ("extra",):
            if extra_key in r:
                d.update(r[extra_key])
        streams_cov.append(d)
    cov.update({
        "evaluations": evaluations,
        "distinct_nontrivial": nontrivial,
        "rule": spec.get("rule", ""),
        "samples": samples[:6] if samples else [o["theorem"] for o in obligations[:3]],
        "traces_validated_against_impl": validated,
        "streams": streams_cov,
        "failing_input_search_episodes": searched,
        "exhaustive": False,
    })
    ev = {
        "property_id": prop, "tier": tier, "seed": seed, "level": "proof", "coverage": cov,
        "assumptions": spec.get("assumptions", []),
        "wall_s": round(time.time() - t0, 1), "violations": len(violations),
    }
    with open(os.path.join(EVIDENCE, f"{prop}.json"), "w") as f:
        json.dump(ev, f, indent=1, default=str)
    shutil.rmtree(workdir, ignore_errors=True)

    for l in out_lines:
        print(l)
    print(f"{prop} {tier}: theorems {n_dis}/{n_obl} discharged; {evaluations} implementation steps observed ({validated} compared with the model), "
          f"{nontrivial} distinct non-trivial; obligations {'ok' if not oproblems else 'BROKEN'}; "
          f"correspondence {'ok' if not cproblems else 'BROKEN'}; monitor failures {len(mon_fail)}; {time.time() - t0:.0f}s")
    for p in oproblems[:5]:
        print("  obligation:", p[:300])
    for p in cproblems[:5]:
        print("  correspondence:", p[:300])
    if violations:
        for path, suffix in violations:
            print(f"VIOLATION property={prop} replay={path}{suffix}")
        return 1
    return 0


def replay(prop, path):
    spec = PROPS[prop]
    full = path if os.path.isabs(path) else os.path.join(ROOT, path)
    text = open(full).read()
    print(text if len(text) < 4000 else text[:4000])
    body = [l for l in text.splitlines() if l.strip() and not l.startswith("#")]
    if body and body[0].startswith("E|"):
        return replay_macro(prop, full)
    if body and body[0].startswith("P|"):
        return replay_sched(prop, full)
    if body and body[0][:2] in ("M|", "K|", "A|", "R|", "T|"):
        print("one-line case of a `lines` stream; re-run it through the driver mode named in the registry")
    eps = parse_episodes(text)
    if not eps:
        print("replay file names a broken obligation/correspondence, no concrete input to run")
        return 1
    ok, out, _ = lake_build(["driver"])
    ok2, msg, _ = build_harness()
    if not (ok and ok2):
        print("cannot build:", msg or out[-500:]); return 2
    workdir = os.path.join(WORK, f"replay-{os.getpid()}")
    os.makedirs(workdir, exist_ok=True)
    p = os.path.join(workdir, "replay.ep")
    open(p, "w").write(render_episodes(eps))
    lines, vt = run_core_chunk(p)
    print(open(lines).read())
    print(vt)
    bad = [v for v in parse_verdicts(vt) if v["kind"] in ("DIFF", "BAD") or (v["kind"] == "MON" and v["id"] in spec["monitors"])]
    shutil.rmtree(workdir, ignore_errors=True)
    return 1 if bad else 0


def run_macro_stream(prop, stream, tier, seed, workdir, scale=1):
    import macro_stream
    return macro_stream.run_macro_stream(prop, stream, tier, seed, workdir, scale)


def replay_sched(prop, full):
    import sched_stream, macro_stream
    spec = PROPS[prop]
    ok, out, _ = lake_build(["driver"])
    ok2, msg, _ = build_harness()
    if not (ok and ok2):
        print("cannot build:", msg or out[-500:]); return 2
    p = subprocess.run([os.path.join(BIN, "sched"), "replay", full], stdout=subprocess.PIPE, stderr=subprocess.PIPE, env=ENV, text=True, timeout=120)
    _, sp = macro_stream.specs()
    sites = sched_stream.load_sites()
    fails = []
    cur = x = v = None
    for line in p.stdout.splitlines():
        if not line.startswith("F|"):
            print(line[:600])
        if line.startswith("P|"):
            _, fl, pt = line.split("|", 2)
            cur = sched_stream.RunAnalysis(sp, sites, [int(i) for i in fl.split(",")], [q.split(";") for q in pt.split("||")])
        elif line.startswith("X|"):
            x = line
        elif line.startswith("V|"):
            v = line
            if "result=ok" not in x:
                cur.analyse(x, v, None, lambda pid, m, rp: fails.append((pid, m)), [], lambda e: None)
        elif line.startswith("Q|"):
            cur.analyse(x, v, line, lambda pid, m, rp: fails.append((pid, m)), [], lambda e: None)
    for pid, m in fails:
        print("MON", pid, "::", m)
    return 1 if [f for f in fails if f[0] in spec["monitors"]] else 0


def replay_macro(prop, full):
    import macro_stream
    spec = PROPS[prop]
    macro_stream.ensure_corpus()
    ok, out, _ = lake_build(["driver"])
    ok2, msg, _ = build_harness()
    if not (ok and ok2):
        print("cannot build:", msg or out[-500:]); return 2
    p = subprocess.run([os.path.join(BIN, "macro_diff"), "replay", full], stdout=subprocess.PIPE, stderr=subprocess.PIPE, env=ENV, text=True)
    spec_text, sp = macro_stream.specs()
    q = subprocess.run([DRIVER, "macro"], input=spec_text + p.stdout, stdout=subprocess.PIPE, stderr=subprocess.STDOUT, env=ENV, text=True)
    for l in p.stdout.splitlines():
        print(l[:300])
    print(q.stdout[-3000:])
    fails, _ = macro_stream.analyse(p.stdout, sp, [], set())
    bad = [f for f in fails if f["kind"] == "BAD" or f["id"] in spec["monitors"]]
    for f in bad:
        print(f["text"])
    diffs = [l for l in q.stdout.splitlines() if l.startswith("DIFF") or l.startswith("BAD")]
    return 1 if (bad or diffs) else 0


def run_lines_stream(prop, stream, tier, seed, workdir, scale=1):
    """generic one-case-per-line stream: a harness binary prints cases computed with the REAL code, the Lean
    driver mode answers ok / DIFF / MON / BAD per line"""
    n = stream["n"][tier] * scale
    cmd = [os.path.join(BIN, stream["bin"])] + [a.format(seed=seed, n=n) for a in stream["args"]]
    p = subprocess.run(cmd, stdout=subprocess.PIPE, stderr=subprocess.PIPE, env=ENV, text=True)
    if p.returncode != 0:
        return {"error": f"{stream['bin']} exited {p.returncode}: {p.stderr[-300:]}"}
    q = subprocess.run([DRIVER, stream["mode"]], input=p.stdout, stdout=subprocess.PIPE, stderr=subprocess.STDOUT, env=ENV, text=True)
    acc = {"steps": 0, "events": {}, "configs": set(), "by_flavour_policy": {}, "nontrivial": set(), "samples": []}
    nre = re.compile(stream.get("nontrivial_re", "."))
    for line in p.stdout.splitlines():
        if line.startswith("#STAT"):
            for tok in line.split()[1:]:
                if "=" in tok:
                    k, _, v = tok.partition("=")
                    if v.isdigit():
                        acc["events"][k] = acc["events"].get(k, 0) + int(v)
            continue
        if not line or line.startswith("#"):
            continue
        acc["steps"] += 1
        if nre.search(line):
            acc["nontrivial"].add(hash(line))
            if len(acc["samples"]) < 3:
                acc["samples"].append(line[:300])
    verdicts = []
    for l in q.stdout.splitlines():
        for part in l.split(" ;; "):
            if part.startswith("DIFF"):
                verdicts.append({"kind": "DIFF", "id": None, "episode": 0, "step": 0, "text": part[:900], "line_text": l[:2000]})
            elif part.startswith("MON "):
                verdicts.append({"kind": "MON", "id": part.split()[1], "episode": 0, "step": 0, "text": part[:900], "line_text": l[:2000]})
            elif part.startswith("BAD"):
                verdicts.append({"kind": "BAD", "id": None, "episode": 0, "step": 0, "text": part[:900]})
    m = re.search(r"SUMMARY lines=(\d+)", q.stdout)
    if not m:
        verdicts.append({"kind": "BAD", "id": None, "episode": 0, "step": 0, "text": "driver produced no summary: " + q.stdout[-300:]})
    return {"episodes": acc["steps"], "corpus_episodes": 0, "acc": acc, "verdicts": verdicts,
            "model_runs": int(m.group(1)) if m else 0}


HAMMER_TIMEOUT = 150


def run_hammer_stream(prop, stream, tier, seed, workdir, scale=1):
    """free-running real threads on plain generated functions whose results are stored: any body execution or
    wrong value is a violation (holds for every schedule); silence proves nothing"""
    ok, msg, _ = build_harness()
    if not ok:
        return {"error": msg}
    reps, threads, rounds = stream["budget"][tier]
    acc = {"steps": 0, "events": {}, "configs": set(), "by_flavour_policy": {}, "nontrivial": set(), "samples": []}
    verdicts = []
    for r in range(reps * scale):
        try:
            p = subprocess.run([os.path.join(BIN, "hammer"), str(seed + r), str(threads), str(rounds)], stdout=subprocess.PIPE,
                               stderr=subprocess.PIPE, env=ENV, text=True, timeout=HAMMER_TIMEOUT)
        except subprocess.TimeoutExpired:
            # a normal run takes seconds; a run that does not finish is a deadlock / livelock of the real code (some call never
            # returns).  One is enough: the remaining repetitions would only wait for the same timeout again.
            for pid in ("C17", "C20"):
                verdicts.append({"kind": "MON", "id": pid, "episode": 0, "step": 0, "raw": [f"# hammer {seed + r} {threads} {rounds}"],
                                 "text": f"MON {pid} :: free-running threads calling cached functions (incl. expired lookups racing with stores) and invalidating them did not finish within {HAMMER_TIMEOUT} s: some call never returns (deadlock or livelock)"})
            verdicts.append({"kind": "BAD", "id": None, "episode": 0, "step": 0, "text": f"hammer did not finish within {HAMMER_TIMEOUT} s"})
            break
        if p.returncode != 0:
            verdicts.append({"kind": "BAD", "id": None, "episode": 0, "step": 0, "text": f"hammer exited {p.returncode}: {p.stderr[-300:]}"})
            continue
        for line in p.stdout.splitlines():
            f = line.split("|")
            if f[0] == "HP":
                try:
                    pmsg = bytes.fromhex(f[4]).decode("utf8", "replace")
                except Exception:
                    pmsg = f[4]
                verdicts.append({"kind": "MON", "id": "C16", "episode": 0, "step": 0, "raw": [f"# hammer {seed + r} {threads} {rounds}", line],
                                 "text": f"MON C16 :: a thread panicked in phase '{f[3]}' on cache {f[2]} under free-running concurrent use: {pmsg[:300]}"})
                continue
            if f[0] == "HM":
                calls, m, over, worst, incons = int(f[3]), int(f[4]), int(f[5]), int(f[6]), int(f[7])
                acc["steps"] += calls
                acc["events"]["parallel-memory-aware-stores"] = acc["events"].get("parallel-memory-aware-stores", 0) + calls
                acc["nontrivial"].add(hash((r, "HM", f[1])))
                rp = [f"# hammer {seed + r} {threads} {rounds}", line]
                if over:
                    for pid in ("C05", "C18"):
                        verdicts.append({"kind": "MON", "id": pid, "episode": 0, "step": 0, "raw": rp,
                                         "text": f"MON {pid} :: after parallel memory-aware stores into {f[2]} (all callers returned) the cache held up to {worst} bytes with max_memory {m} ({over} quiescent points over the bound; free-running threads)"})
                if incons:
                    for pid in ("C18", "C20", "C05"):
                        verdicts.append({"kind": "MON", "id": pid, "episode": 0, "step": 0, "raw": rp,
                                         "text": f"MON {pid} :: after parallel memory-aware stores into {f[2]} a stored key has no queue slot (or a slot is duplicated) at {incons} quiescent points: it can never be evicted and keeps the cache over its bound"})
                continue
            if f[0] == "HL":
                calls, wrong = int(f[3]), int(f[4])
                acc["steps"] += calls
                acc["events"]["hits-under-queue-contention"] = acc["events"].get("hits-under-queue-contention", 0) + calls
                acc["nontrivial"].add(hash((r, "HL", f[1])))
                if wrong:
                    for pid in ("C07", "C18"):
                        verdicts.append({"kind": "MON", "id": pid, "episode": 0, "step": 0, "raw": [f"# hammer {seed + r} {threads} {rounds}", line],
                                         "text": f"MON {pid} :: async LRU cache {f[2]}: after a thread alternated hits on two entries (ending with the second) while another thread kept the queue mutex busy, "
                                                 f"the queue lists the entry hit LAST before the other one in {wrong} round(s): a hit did not refresh recency, the next overflow evicts the most recently used entry (free-running threads)"})
                continue
            if f[0] == "HI":
                calls, stale_left, reexec = int(f[3]), int(f[4]), int(f[5])
                acc["steps"] += calls
                acc["events"]["parallel-refreshes-of-stale-entries"] = acc["events"].get("parallel-refreshes-of-stale-entries", 0) + calls
                acc["nontrivial"].add(hash((r, "HI", f[1])))
                if stale_left or reexec:
                    for pid in ("C11", "C01"):
                        verdicts.append({"kind": "MON", "id": pid, "episode": 0, "step": 0, "raw": [f"# hammer {seed + r} {threads} {rounds}", line],
                                         "text": f"MON {pid} :: {f[2]}: after parallel calls that all found their entry stale (invalidate_on) and recomputed it, {stale_left} key(s) still hold the value "
                                                 f"from BEFORE the refreshes and {reexec} had to be computed again: a refreshed value was not stored under contention (free-running threads)"})
                continue
            if f[0] == "HK":
                calls, lost, isres = int(f[3]), int(f[4]), f[5] == "1"
                acc["steps"] += calls
                acc["events"]["parallel-fitting-memory-aware-stores"] = acc["events"].get("parallel-fitting-memory-aware-stores", 0) + calls
                acc["nontrivial"].add(hash((r, "HK", f[1])))
                if lost:
                    for pid in (["C09"] if isres else []) + ["C03", "C05", "C14"]:
                        verdicts.append({"kind": "MON", "id": pid, "episode": 0, "step": 0, "raw": [f"# hammer {seed + r} {threads} {rounds}", line],
                                         "text": f"MON {pid} :: after parallel calls of {f[2]} (max_memory configured, all values fit together, every caller returned) {lost} of the six keys had to be computed again: a computed{' Ok' if isres else ''} result was not stored (or was evicted needlessly) under contention (free-running threads)"})
                continue
            if f[0] == "HR":
                reps_, bad = int(f[3]), int(f[4])
                acc["steps"] += reps_
                acc["events"]["concurrent-resets"] = acc["events"].get("concurrent-resets", 0) + reps_
                acc["nontrivial"].add(hash((r, "HR", f[1])))
                if bad:
                    verdicts.append({"kind": "MON", "id": "C15", "episode": 0, "step": 0, "raw": [f"# hammer {seed + r} {threads} {rounds}", line],
                                     "text": f"MON C15 :: after concurrent stats_registry::reset({f[2]}) calls with no lookup in between the counters read hits+misses = {f[5]} instead of 0+0 ({bad} of {reps_} rounds; free-running threads)"})
                continue
            if f[0] == "HS":
                calls, execs = int(f[3]), int(f[4])
                acc["steps"] += calls
                acc["events"]["parallel-calls-racing-with-invalidation"] = acc["events"].get("parallel-calls-racing-with-invalidation", 0) + calls
                acc["nontrivial"].add(hash((r, "HS", f[1])))
                rp = [f"# hammer {seed + r} {threads} {rounds}", line]
                if f[5] == "-":
                    verdicts.append({"kind": "MON", "id": "C15", "episode": 0, "step": 0, "raw": rp,
                                     "text": f"MON C15 :: no statistics registered for {f[2]} after {calls} calls"})
                else:
                    h, m_ = (int(x) for x in f[5].split(","))
                    if h + m_ != calls:
                        verdicts.append({"kind": "MON", "id": "C15", "episode": 0, "step": 0, "raw": rp,
                                         "text": f"MON C15 :: {calls} completed calls of {f[2]} racing with invalidations, but hits+misses = {h}+{m_} = {h + m_} (free-running threads)"})
                if len(f) > 7:
                    wrong = int(f[6])
                    if wrong:
                        verdicts.append({"kind": "MON", "id": "C18", "episode": 0, "step": 0, "raw": rp,
                                         "text": f"MON C18 :: {wrong} of {calls} calls of {f[2]} racing with invalidations returned a value different from the function's value for their arguments"})
                    if f[7] != "-":
                        untracked, orphans, dups, over, held_n = (int(x) for x in f[7].split(","))
                        if untracked or orphans or dups or over:
                            msg = (f"MON C18 :: after free-running calls of {f[2]} racing with invalidations the cache is inconsistent at quiescence: {untracked} stored key(s) not in the eviction queue, "
                                   f"{orphans} queue slot(s) without entry (async), {dups} duplicate slot(s), {'over' if over else 'within'} its limit ({held_n} entries)")
                            verdicts.append({"kind": "MON", "id": "C18", "episode": 0, "step": 0, "raw": rp, "text": msg})
                            verdicts.append({"kind": "MON", "id": "C20", "episode": 0, "step": 0, "raw": rp, "text": msg.replace("MON C18", "MON C20")})
                            if untracked or over:
                                verdicts.append({"kind": "MON", "id": "C04", "episode": 0, "step": 0, "raw": rp, "text": msg.replace("MON C18", "MON C04")})
                if f[5] != "-":
                    h, m_ = (int(x) for x in f[5].split(","))
                    if h + m_ == calls and m_ != execs:
                        verdicts.append({"kind": "MON", "id": "C15", "episode": 0, "step": 0, "raw": rp,
                                         "text": f"MON C15 :: {f[2]}: {m_} misses counted but the body ran {execs} times among {calls} calls racing with invalidations"})
                continue
            if f[0] != "H":
                continue
            calls, execs, wrong = int(f[3]), int(f[4]), int(f[5])
            acc["steps"] += calls
            acc["events"]["parallel-calls"] = acc["events"].get("parallel-calls", 0) + calls
            acc["nontrivial"].add(hash((r, f[1])))
            if len(acc["samples"]) < 2:
                acc["samples"].append(line)
            rp = [f"# hammer {seed + r} {threads} {rounds}", line]
            if execs > 0:
                verdicts.append({"kind": "MON", "id": "C03", "episode": 0, "step": 0, "raw": rp,
                                 "text": f"MON C03 :: {execs} body executions of {f[2]} among {calls} parallel calls for arguments whose result was already stored (free-running threads)"})
                verdicts.append({"kind": "MON", "id": "C14", "episode": 0, "step": 0, "raw": rp,
                                 "text": f"MON C14 :: a result of {f[2]} stored by one thread was not served to another: {execs} body executions among {calls} parallel calls (global / async scope shares one cache)"})
            if wrong > 0:
                verdicts.append({"kind": "MON", "id": "C18", "episode": 0, "step": 0, "raw": rp,
                                 "text": f"MON C18 :: {wrong} of {calls} parallel calls of {f[2]} returned a value different from the stored result of the function"})
    return {"episodes": reps * scale, "corpus_episodes": 0, "acc": acc, "verdicts": verdicts, "model_runs": 0}


def run_sched_stream(prop, stream, tier, seed, workdir, scale=1):
    import sched_stream
    return sched_stream.run_sched_stream(prop, stream, tier, seed, workdir, scale)


def run_compile_stream(prop, stream, tier, seed, workdir, scale=1):
    import compile_stream
    return compile_stream.run_compile_stream(prop, stream, tier, seed, workdir, scale)


def run_static_stream(prop, stream, tier, seed, workdir, scale=1):
    import static_sites
    return static_sites.run_static_stream(prop, stream, tier, seed, workdir, scale)


STREAM_RUNNERS = {"static": run_static_stream, "compile": run_compile_stream, "core": run_core_stream, "macro": run_macro_stream, "lines": run_lines_stream, "sched": run_sched_stream,
                  "hammer": run_hammer_stream}


# ------------------------------------------------------------------------------------------------
# MANIFEST

def write_manifest():
    checks = []
    for pid in sorted(PROPS):
        s = PROPS[pid]
        checks.append({
            "property_id": pid,
            "quick_cmd": f"./check {pid} --tier quick",
            "thorough_cmd": f"./check {pid} --tier thorough",
            "evidence_file": f"evidence/{pid}.json",
            "replay_cmd_template": f"./check {pid} --replay {{path}}",
            "engine": "lean-proof+correspondence",
            "level_claimed": {"category": "proof", "text": s["level_text"], "design_ref": s.get("design_ref", "DESIGN.md §7")},
            "level_note": s["level_note"],
            "technique": s["technique"],
        })
    man = {
        "version": 1,
        "setup_cmd": "./check --setup",
        "hooks": {
            "guard": "cargo feature `verif` (cachelito-core, cachelito-macros, cachelito-async-macros; forwarded by cachelito and cachelito-async)",
            "enable": "the harness crate /verif/harness depends on /repo's crates by path with features = [\"verif\"] where a stream needs hooks; L1 streams need none",
            "baseline_off_cmd": "cd /repo && cargo nextest run --workspace --no-fail-fast --offline --test-threads 8 || cargo test --workspace --no-fail-fast --offline",
            "source_commits": HOOK_COMMITS,
            "add_only": True,
        },
        "engines": [
            {"name": "lean-proof+correspondence", "path": "lean/Cachelito, harness, check, checklib",
             "serves_properties": sorted(PROPS),
             "kind_free_text": "Lean 4 theorems about a hand-written executable model; per-step correspondence of the model with the real code; property monitors on the real code's observations"}
        ],
        "checks": checks,
        "notes": "See DESIGN.md. Every check: (a) lake build of the property's theorem module + #print axioms audit, (b) correspondence streams real code vs model, (c) property monitors on the implementation.",
        "not_applicable": [{"property_id": k, "reason": v} for k, v in sorted(NOT_APPLICABLE.items()) if k not in PROPS],
    }
    with open(os.path.join(ROOT, "MANIFEST.json"), "w") as f:
        json.dump(man, f, indent=1)
    print("MANIFEST.json written:", len(checks), "checks,", len(man["not_applicable"]), "not applicable")
    return 0


HOOK_COMMITS = []
try:
    from registry import HOOK_COMMITS  # noqa: F811
except Exception:
    pass
