/-
  C09 / C10 (concurrent clause) — "An Err / a rejected result is never stored and never served: a failing call
  only LOOKS UP; the first Ok (accepted) result that is stored is then served without running the body — under
  ANY interleaving of any number of callers, whatever failing calls run concurrently and finish later."

  Model: `Cachelito.ConcCallsR` — any number of caller threads over ONE shared cache of the data-carrying
  interleaving model `Cachelito.ConcData`.  Every call `(k, rs, v, st)` carries its own outcome (an IMPURE
  body): `v` = what the body produces if it runs in this call, `st` = whether the wrapper hands it to the
  engine (`Wrapper.shouldStore`: `Ok` for a `Result` function, the verdict of `cache_if`, …).  A call is
      lookup (`get k`, its micro-steps) ; hit ⇒ return the cached value ;
      miss ⇒ body ; `st = true`: store (`insert k v` / `mem`: `insert_with_memory k v`, its micro-steps) ; return `v`
                    `st = false`: return `v` (a step of its own that does not touch the cache).
  Both engines (`isAsync cfg`), every policy, ANY schedule `sch : List ThreadId` (`callRunR`), any call lists.
  Ghost log, NEWEST FIRST: `read k found` / `body k` / `write k` / `ret k v stored` / `fail k v`, so
  "`e` happened after `e'`" reads "`log = later ++ e' :: earlier` and `e ∈ later`".

    (a) `nonstoring_call_is_lookup_only`, `nonstoring_step_is_get_step`, `every_step_is_an_engine_step`,
        `writes_come_from_storing_calls`                                     — ANY configuration
    (b) `served_values_come_from_storing_calls`, `err_never_served`, `err_never_served_except`,
        `served_value_was_produced_by_a_storing_call`                        — ANY configuration
    (c) `stored_ok_stays`, `no_body_after_ok_storing_call_returned`, `no_more_body_runs_once_stored`,
        `failing_calls_always_run_body_until_first_write`, `hit_only_after_write`,
        `all_failing_calls_run_body`, `body_runs_eq_missed_lookups`          — `ConcCalls.Plain cfg`
        (no limit, no memory bound, no TTL; callers only call)
    (d) `deterministic_instance`                                             — model sanity
  Nothing is partial.  Helper lemmas: `Cachelito/Lemmas/ConcCallsR.lean`.
  The hypothetical variant `discard = true` ("discard on Err") of the model is used only in the last example,
  which shows that (c) fails for it.
-/
import Cachelito.Lemmas.ConcCallsR

set_option linter.unusedSectionVars false
set_option linter.unusedSimpArgs false
set_option linter.unusedVariables false

namespace Cachelito.C09c
open Cachelito Cachelito.ConcData Cachelito.ConcCallsR

variable {K V S : Type} [DecidableEq K]

/-! ## (a) A non-storing call only looks up -/

/-- **A call whose result is not stored (`Err` / rejected) performs exactly the micro-steps of the engine
    operation `get k`** — on ANY shared state `s` (so: at every point of every interleaving), for any caller
    `c` whose current call is `(k, rs, v, false)`:
    * while it is in its lookup (local engine state `p`), its step exists, changes the shared state exactly
      as `ConcData.micro … (.get k) rs p` does — it IS the step (`ConcData.tstep`) of a thread running the
      program `[.get k]` with local state `p` — and logs no store-write event;
    * once the lookup has missed and the body has run, its only remaining step is the return: the shared
      state is untouched and the only event is `fail k v`. -/
theorem nonstoring_call_is_lookup_only (mem : Bool) (cfg : Cfg) (tl : Tlru S) (size : V → Nat) (s : State K V)
    (c : Caller K V) (k : K) (rs : List Nat) (v : V) (rest : List (Call K V))
    (hc : c.calls = (k, rs, v, false) :: rest) :
    (∀ p, c.stage = .lookup p →
      ∃ t' c' evs,
        tstep false cfg tl size s ⟨[(.get k, rs)], p, []⟩ = some ((micro false cfg tl size s (.get k) rs p).1, t') ∧
        callerStep false mem cfg tl size s c = some ((micro false cfg tl size s (.get k) rs p).1, c', evs) ∧
        (∀ k', Ev.write k' ∉ evs) ∧
        -- the lookup goes on / is served / has missed (then the body has run and only the return is left)
        ((∃ p', t'.pend = some p' ∧ c' = { c with stage := .lookup (some p') }) ∨
         (∃ op w, t'.done = [(op, .val (some w))] ∧ c'.calls = rest ∧ Ev.ret k w false ∈ evs) ∨
         (t'.prog = [] ∧ c' = { c with stage := .store none, bodies := c.bodies ++ [k] } ∧ Ev.body k ∈ evs))) ∧
    (∀ p, c.stage = .store p →
      callerStep false mem cfg tl size s c
        = some (s, { calls := rest, stage := .lookup none, bodies := c.bodies, rets := c.rets ++ [(k, v)] },
                [.fail k v])) := by
  refine ⟨?_, fun p hst => callerStep_fail_return mem cfg tl size s c k rs v rest p hc hst⟩
  intro p hst
  obtain ⟨t', c', evs, h1, h2, hw, _, hcase⟩ := callerStep_lookup false mem cfg tl size s c k rs v false rest p hc hst
  refine ⟨t', c', evs, h1, h2, hw, ?_⟩
  rcases hcase with ⟨p', rfl, rfl, _⟩ | ⟨op, w, rfl, rfl, hr, _⟩ | ⟨op, o, rfl, _, rfl, hb⟩
  · exact Or.inl ⟨p', rfl, rfl⟩
  · exact Or.inr (Or.inl ⟨op, w, rfl, rfl, hr⟩)
  · exact Or.inr (Or.inr ⟨rfl, rfl, hb⟩)

/-- **System form of (a), for every state and every caller**: let caller `i` of ANY call-level state `c` be
    in a call whose result is not stored.  In the interleaving model `ConcData` (on the state `c` IS:
    `c.cstate`), thread `i` is then a thread running `[.get k]` (in its lookup) or a thread with nothing to
    do (about to return).  Its next step exists; in the lookup it is the `ConcData.cstep` of thread `i`
    (same new shared state), otherwise `ConcData` has no step for it and the shared state is untouched; in
    both cases no store-write event is added to the log. -/
theorem nonstoring_step_is_get_step (mem : Bool) (cfg : Cfg) (tl : Tlru S) (size : V → Nat) (c : CallState K V)
    (i : Nat) (x : Caller K V) (k : K) (rs : List Nat) (v : V) (rest : List (Call K V))
    (hx : c.callers[i]? = some x) (hc : x.calls = (k, rs, v, false) :: rest) :
    ((∃ p, x.stage = .lookup p ∧ (c.cstate mem).threads[i]? = some ⟨[(.get k, rs)], p, []⟩) ∨
     (∃ p, x.stage = .store p ∧ (c.cstate mem).threads[i]? = some ⟨[], none, []⟩)) ∧
    ∃ c', callStep false mem cfg tl size c i = some c' ∧
      (∀ p, x.stage = .lookup p →
        c'.shared = (micro false cfg tl size c.shared (.get k) rs p).1 ∧
        ∃ d, cstep cfg tl size (c.cstate mem) i = some d ∧ d.shared = c'.shared) ∧
      (∀ p, x.stage = .store p →
        c'.shared = c.shared ∧ cstep cfg tl size (c.cstate mem) i = none ∧ c'.log = .fail k v :: c.log) ∧
      (∀ k', Ev.write k' ∈ c'.log → Ev.write k' ∈ c.log) := by
  have hth : (c.cstate mem).threads[i]? = some (x.thread mem) := by
    simp only [CallState.cstate, List.getElem?_map, hx, Option.map_some]
  cases hst : x.stage with
  | lookup p =>
    obtain ⟨t', x', evs, h1, h2, hw, _, _⟩ := callerStep_lookup false mem cfg tl size c.shared x k rs v false rest p hc hst
    have hstep : callStep false mem cfg tl size c i
        = some ⟨(micro false cfg tl size c.shared (.get k) rs p).1, c.callers.set i x', evs ++ c.log⟩ := by
      simp only [callStep, hx, h2]
    refine ⟨Or.inl ⟨p, rfl, ?_⟩, _, hstep, ?_, ?_, ?_⟩
    · rw [hth]; simp only [Caller.thread, hc, hst]
    · intro p' hp'
      cases hp'
      refine ⟨rfl, ⟨(micro false cfg tl size c.shared (.get k) rs p).1, (c.cstate mem).threads.set i t'⟩, ?_, rfl⟩
      simp only [cstep, cstepWith, hth]
      have hc' : (c.cstate mem).shared = c.shared := rfl
      rw [hc']
      simp only [Caller.thread, hc, hst]
      rw [h1]
    · intro p' hp'; cases hp'
    · intro k' hk'
      rcases List.mem_append.mp hk' with hk' | hk'
      · exact absurd hk' (hw k')
      · exact hk'
  | store p =>
    have h2 := callerStep_fail_return mem cfg tl size c.shared x k rs v rest p hc hst
    have hstep : callStep false mem cfg tl size c i
        = some ⟨c.shared, c.callers.set i
            { calls := rest, stage := .lookup none, bodies := x.bodies, rets := x.rets ++ [(k, v)] },
            [.fail k v] ++ c.log⟩ := by
      simp only [callStep, hx, h2]
    refine ⟨Or.inr ⟨p, rfl, ?_⟩, _, hstep, ?_, ?_, ?_⟩
    · rw [hth]; simp [Caller.thread, hc, hst]
    · intro p' hp'; cases hp'
    · intro p' _
      refine ⟨rfl, ?_, rfl⟩
      simp only [cstep, cstepWith, hth]
      simp [Caller.thread, hc, hst, tstep]
    · intro k' hk'
      rcases List.mem_append.mp hk' with hk' | hk'
      · simp at hk'
      · exact hk'

/-- **Every step of the call-level system is a step of the interleaving model `ConcData`** by the same
    thread on the state the call-level state is — so every invariant of `ConcData` runs (C18: bounds,
    store/queue consistency, …) holds for the shared cache at every point of every call-level run — or it is
    the return of a non-storing call, which leaves the shared cache untouched. -/
theorem every_step_is_an_engine_step (mem : Bool) (cfg : Cfg) (tl : Tlru S) (size : V → Nat)
    (c c' : CallState K V) (i : Nat) (h : callStep false mem cfg tl size c i = some c') :
    (∃ d, cstep cfg tl size (c.cstate mem) i = some d ∧ d.shared = c'.shared) ∨
    (cstep cfg tl size (c.cstate mem) i = none ∧ c'.shared = c.shared ∧ ∃ k v, c'.log = Ev.fail k v :: c.log) :=
  callStep_is_cstep mem cfg tl size c c' i h

/-- **Only storing calls write**: under any schedule, a store-write of `k` has executed only if some call
    for `k` with `st = true` is among the calls of the callers.  (So if every call for `k` fails, nothing is
    ever written for `k`.) -/
theorem writes_come_from_storing_calls (mem : Bool) (cfg : Cfg) (tl : Tlru S) (size : V → Nat) (s0 : State K V)
    (callss : List (List (Call K V))) (sch : List ThreadId) (k : K)
    (hw : Ev.write k ∈ (callRunR mem cfg tl size sch (CallState.start s0 callss)).log) :
    ∃ calls, calls ∈ callss ∧ ∃ y, y ∈ calls ∧ y.1 = k ∧ y.2.2.2 = true := by
  have hi := callRunWith_invariant (WriteInv callss.flatten)
    (fun c i c' => callStep_writeInv callss.flatten mem cfg tl size c i c') sch _ (writeInv_start s0 callss)
  obtain ⟨y, hy, hk, hst⟩ := hi.writes k hw
  obtain ⟨calls, hcs, hyc⟩ := List.mem_flatten.mp hy
  exact ⟨calls, hcs, y, hyc, hk, hst⟩

/-! ## (b) What is stored and what is served comes from storing calls — ANY configuration -/

/-- **Served values come from storing calls.**  For ANY configuration (limit, memory bound, TTL, policy,
    engine), any callers and any schedule: if every pair of the initial store satisfies `P` and every call
    whose result is stored (`st = true`) produces a value satisfying `P`, then at every point every stored
    pair satisfies `P` and every value a call was SERVED from the cache (`ret k w false`) satisfies `P` — and
    so does every value returned by a storing call. -/
theorem served_values_come_from_storing_calls (P : K → V → Prop) (mem : Bool) (cfg : Cfg) (tl : Tlru S)
    (size : V → Nat) (s0 : State K V) (callss : List (List (Call K V))) (sch : List ThreadId)
    (hs0 : ∀ k e, (k, e) ∈ s0.store → P k e.val)
    (hcalls : ∀ calls, calls ∈ callss → ∀ x, x ∈ calls → x.2.2.2 = true → P x.1 x.2.2.1) :
    (∀ k e, (k, e) ∈ (callRunR mem cfg tl size sch (CallState.start s0 callss)).shared.store → P k e.val) ∧
    (∀ k w, Ev.ret k w false ∈ (callRunR mem cfg tl size sch (CallState.start s0 callss)).log → P k w) ∧
    (∀ k w, Ev.ret k w true ∈ (callRunR mem cfg tl size sch (CallState.start s0 callss)).log → P k w) := by
  have hi := callRun_P mem cfg tl size sch _ (invP_start (P := P) s0 callss hs0 hcalls)
  exact ⟨hi.store, fun k w h => hi.log k w false h, fun k w h => hi.log k w true h⟩

/-- **An `Err` is never served, under any interleaving.**  `ok : V → Bool` classifies the results (`is_ok()`;
    with `cache_if`: any property the predicate guarantees).  If the wrapper stores only `ok` results
    (`st = true → ok v`; for a `Result` function without `cache_if`, `st = ok v`) and the initial store holds
    only `ok` values, then at every point the store holds only `ok` values and no call is ever served a
    value that is not `ok` — for every configuration, both engines, plain and memory-aware store. -/
theorem err_never_served (ok : V → Bool) (mem : Bool) (cfg : Cfg) (tl : Tlru S)
    (size : V → Nat) (s0 : State K V) (callss : List (List (Call K V))) (sch : List ThreadId)
    (hs0 : ∀ k e, (k, e) ∈ s0.store → ok e.val = true)
    (hcalls : ∀ calls, calls ∈ callss → ∀ x, x ∈ calls → x.2.2.2 = true → ok x.2.2.1 = true) :
    (∀ k e, (k, e) ∈ (callRunR mem cfg tl size sch (CallState.start s0 callss)).shared.store → ok e.val = true) ∧
    (∀ k w, Ev.ret k w false ∈ (callRunR mem cfg tl size sch (CallState.start s0 callss)).log → ok w = true) := by
  have h := served_values_come_from_storing_calls (fun _ v => ok v = true) mem cfg tl size s0 callss sch hs0 hcalls
  exact ⟨h.1, h.2.1⟩

/-- the same for `V = Except ε α` (Rust `Result`), from the empty cache, with `st = is_ok()`: no call is
    ever served an `Err`, and no `Err` is ever in the store -/
theorem err_never_served_except {ε α : Type} (mem : Bool) (cfg : Cfg) (tl : Tlru S)
    (size : Except ε α → Nat) (callss : List (List (Call K (Except ε α)))) (sch : List ThreadId)
    (hcalls : ∀ calls, calls ∈ callss → ∀ x, x ∈ calls → x.2.2.2 = x.2.2.1.toBool) (k : K) (err : ε) :
    Ev.ret k (.error err) false ∉ (callRunR mem cfg tl size sch (CallState.init callss)).log ∧
    ∀ e, (k, e) ∈ (callRunR mem cfg tl size sch (CallState.init callss)).shared.store → e.val ≠ .error err := by
  have h := err_never_served (K := K) (fun v : Except ε α => v.toBool) mem cfg tl size State.init callss sch
    (by intro k e he; cases he)
    (by intro calls hc x hx hst; rw [← hcalls calls hc x hx]; exact hst)
  refine ⟨?_, ?_⟩
  · intro hm
    have := h.2 k _ hm
    simp [Except.toBool] at this
  · intro e he heq
    have := h.1 k e he
    rw [heq] at this
    simp [Except.toBool] at this

/-- **A served value was produced by a storing call for the same key** (or was in the cache at the start):
    whatever is served for `k` is the outcome `v` of some call `(k, _, v, true)` of some caller — never the
    outcome of a failing / rejected call. -/
theorem served_value_was_produced_by_a_storing_call (mem : Bool) (cfg : Cfg) (tl : Tlru S)
    (size : V → Nat) (s0 : State K V) (callss : List (List (Call K V))) (sch : List ThreadId) (k : K) (w : V)
    (h : Ev.ret k w false ∈ (callRunR mem cfg tl size sch (CallState.start s0 callss)).log) :
    (∃ e, (k, e) ∈ s0.store ∧ e.val = w) ∨
    (∃ calls, calls ∈ callss ∧ ∃ x, x ∈ calls ∧ x.1 = k ∧ x.2.2.1 = w ∧ x.2.2.2 = true) := by
  exact (served_values_come_from_storing_calls
    (fun k w => (∃ e, (k, e) ∈ s0.store ∧ e.val = w) ∨
      (∃ calls, calls ∈ callss ∧ ∃ x, x ∈ calls ∧ x.1 = k ∧ x.2.2.1 = w ∧ x.2.2.2 = true))
    mem cfg tl size s0 callss sch
    (fun k e he => Or.inl ⟨e, he, rfl⟩)
    (fun calls hc x hx hst => Or.inr ⟨calls, hc, x, hx, rfl, rfl, hst⟩)).2.1 k w h

/-! ## (c) Plain configuration: the first stored Ok stays and is served -/

/-- **A stored Ok stays**: once the store-write micro-step of a storing call for `k` has executed
    (`write k` in the log after `sch₁`), `k` is stored at that point and after every further schedule `sch₂`
    — whatever the other callers (failing or not) do — and every lookup of `k` whose read executes after
    that write finds it: no missed lookup of `k` and no body run for `k` is logged after a `write k`. -/
theorem stored_ok_stays (mem : Bool) (cfg : Cfg) (hp : ConcCalls.Plain cfg) (tl : Tlru S) (size : V → Nat)
    (s0 : State K V) (callss : List (List (Call K V))) (sch₁ sch₂ : List ThreadId) (k : K)
    (hw : Ev.write k ∈ (callRunR mem cfg tl size sch₁ (CallState.start s0 callss)).log) :
    k ∈ keys (callRunR mem cfg tl size sch₁ (CallState.start s0 callss)).shared.store ∧
    k ∈ keys (callRunR mem cfg tl size sch₂
      (callRunR mem cfg tl size sch₁ (CallState.start s0 callss))).shared.store ∧
    ∀ later earlier,
      (callRunR mem cfg tl size sch₂ (callRunR mem cfg tl size sch₁ (CallState.start s0 callss))).log
        = later ++ Ev.write k :: earlier →
      Ev.read k false ∉ later ∧ Ev.body k ∉ later := by
  have h1 := (callRun_inv hp mem tl size _ sch₁ _ (callInv_start mem cfg s0 callss)).1
  have h2 := callRun_inv hp mem tl size _ sch₂ _ h1
  have hk := h1.logInv.written k hw
  exact ⟨hk, h2.2.1 k hk, fun later earlier hl => h2.1.logInv.after later earlier k hl⟩

/-- **Never again once an Ok-storing call has returned**: after the return of a call for `k` that ran the
    body and stored its result (`ret k v true`), `k` is in the store, no lookup of `k` misses and no body
    runs for `k` — so every call that STARTS after that return is served from the cache — WHATEVER calls
    with `st = false` (Err / rejected) run concurrently, missed before and finish later: their return does
    not touch the cache. -/
theorem no_body_after_ok_storing_call_returned (mem : Bool) (cfg : Cfg) (hp : ConcCalls.Plain cfg) (tl : Tlru S)
    (size : V → Nat) (s0 : State K V) (callss : List (List (Call K V))) (sch : List ThreadId)
    (k : K) (v : V) (later earlier : List (Ev K V))
    (hlog : (callRunR mem cfg tl size sch (CallState.start s0 callss)).log = later ++ Ev.ret k v true :: earlier) :
    Ev.read k false ∉ later ∧ Ev.body k ∉ later ∧
    k ∈ keys (callRunR mem cfg tl size sch (CallState.start s0 callss)).shared.store := by
  have hi := (callRun_inv hp mem tl size _ sch _ (callInv_start mem cfg s0 callss)).1
  have hw := hi.logInv.stored later earlier k v hlog
  obtain ⟨e1, e2, he⟩ := List.append_of_mem hw
  have hlog' : (callRunR mem cfg tl size sch (CallState.start s0 callss)).log
      = (later ++ Ev.ret k v true :: e1) ++ Ev.write k :: e2 := by
    rw [hlog, he]; simp
  obtain ⟨h1, h2⟩ := hi.logInv.after _ _ k hlog'
  exact ⟨fun hh => h1 (List.mem_append_left _ hh), fun hh => h2 (List.mem_append_left _ hh),
    hi.logInv.written k (by rw [hlog']; simp)⟩

/-- **State form of "never again"**: from any reachable point at which `k` is in the store, no further
    schedule runs the body for `k` — the number of body runs for `k` is frozen, whatever outcomes (`Err`
    included) the remaining calls for `k` carry. -/
theorem no_more_body_runs_once_stored (mem : Bool) (cfg : Cfg) (hp : ConcCalls.Plain cfg) (tl : Tlru S)
    (size : V → Nat) (s0 : State K V) (callss : List (List (Call K V))) (sch₁ sch₂ : List ThreadId) (k : K)
    (hk : k ∈ keys (callRunR mem cfg tl size sch₁ (CallState.start s0 callss)).shared.store) :
    totalBodies k (callRunR mem cfg tl size sch₂
        (callRunR mem cfg tl size sch₁ (CallState.start s0 callss))).callers
      = totalBodies k (callRunR mem cfg tl size sch₁ (CallState.start s0 callss)).callers := by
  have h1 := (callRun_inv hp mem tl size _ sch₁ _ (callInv_start mem cfg s0 callss)).1
  exact (callRun_inv hp mem tl size _ sch₂ _ h1).2.2.1 k hk

/-- in the plain configuration the body runs for `k` exactly as often as a lookup of `k` missed (and every
    body run is logged: `body k`) -/
theorem body_runs_eq_missed_lookups (mem : Bool) (cfg : Cfg) (hp : ConcCalls.Plain cfg) (tl : Tlru S)
    (size : V → Nat) (s0 : State K V) (callss : List (List (Call K V))) (sch : List ThreadId) (k : K) :
    totalBodies k (callRunR mem cfg tl size sch (CallState.start s0 callss)).callers
      = (callRunR mem cfg tl size sch (CallState.start s0 callss)).log.countP (isBody k) ∧
    (callRunR mem cfg tl size sch (CallState.start s0 callss)).log.countP (isBody k)
      = (callRunR mem cfg tl size sch (CallState.start s0 callss)).log.countP (isMiss k) := by
  have hi := (callRun_inv hp mem tl size _ sch _ (callInv_start mem cfg s0 callss)).1
  exact ⟨hi.bodies k, hi.paired k⟩

/-- **A lookup finds `k` only after a store-write of `k`** (when `k` was not in the cache at the start), and a
    call is served only after such a successful lookup. -/
theorem hit_only_after_write (mem : Bool) (cfg : Cfg) (hp : ConcCalls.Plain cfg) (tl : Tlru S)
    (size : V → Nat) (s0 : State K V) (callss : List (List (Call K V))) (sch : List ThreadId) (k : K)
    (hk0 : k ∉ keys s0.store) (later earlier : List (Ev K V)) :
    ((callRunR mem cfg tl size sch (CallState.start s0 callss)).log = later ++ Ev.read k true :: earlier →
      Ev.write k ∈ earlier) ∧
    (∀ w, (callRunR mem cfg tl size sch (CallState.start s0 callss)).log = later ++ Ev.ret k w false :: earlier →
      Ev.read k true ∈ earlier ∧ Ev.write k ∈ earlier) := by
  have hi := (callRun_inv hp mem tl size _ sch _ (callInv_start mem cfg s0 callss)).1
  refine ⟨?_, ?_⟩
  · intro hl
    rcases hi.logInv.hit later earlier k hl with h | h
    · exact absurd h hk0
    · exact h
  · intro w hl
    have hr := hi.logInv.served later earlier k w hl
    refine ⟨hr, ?_⟩
    obtain ⟨e1, e2, he⟩ := List.append_of_mem hr
    have hl' : (callRunR mem cfg tl size sch (CallState.start s0 callss)).log
        = (later ++ Ev.ret k w false :: e1) ++ Ev.read k true :: e2 := by
      rw [hl, he]; simp
    rcases hi.logInv.hit _ e2 k hl' with h | h
    · exact absurd h hk0
    · rw [he]; exact List.mem_append_right _ (List.mem_cons_of_mem _ h)

/-- **Failing calls always run the body until the first write**: `k` not in the cache at the start.  While no
    store-write of `k` has executed — e.g. while every call for `k` so far has failed — `k` is not stored,
    every lookup of `k` that has executed missed, no call for `k` was served from the cache, and the body ran
    once for every lookup of `k`: every (failing) call for `k` ran the body again. -/
theorem failing_calls_always_run_body_until_first_write (mem : Bool) (cfg : Cfg) (hp : ConcCalls.Plain cfg)
    (tl : Tlru S) (size : V → Nat) (s0 : State K V) (callss : List (List (Call K V))) (sch : List ThreadId) (k : K)
    (hk0 : k ∉ keys s0.store)
    (hnw : Ev.write k ∉ (callRunR mem cfg tl size sch (CallState.start s0 callss)).log) :
    k ∉ keys (callRunR mem cfg tl size sch (CallState.start s0 callss)).shared.store ∧
    Ev.read k true ∉ (callRunR mem cfg tl size sch (CallState.start s0 callss)).log ∧
    (∀ w, Ev.ret k w false ∉ (callRunR mem cfg tl size sch (CallState.start s0 callss)).log) ∧
    totalBodies k (callRunR mem cfg tl size sch (CallState.start s0 callss)).callers
      = (callRunR mem cfg tl size sch (CallState.start s0 callss)).log.countP (isRead k) := by
  have hi := (callRun_inv hp mem tl size _ sch _ (callInv_start mem cfg s0 callss)).1
  have hnr : Ev.read k true ∉ (callRunR mem cfg tl size sch (CallState.start s0 callss)).log := by
    intro hm
    obtain ⟨l1, l2, hl⟩ := List.append_of_mem hm
    rcases hi.logInv.hit l1 l2 k hl with h | h
    · exact hk0 h
    · exact hnw (by rw [hl]; exact List.mem_append_right _ (List.mem_cons_of_mem _ h))
  refine ⟨?_, hnr, ?_, ?_⟩
  · intro hk
    rcases hi.logInv.origin k hk with h | h
    · exact hk0 h
    · exact hnw h
  · intro w hm
    obtain ⟨l1, l2, hl⟩ := List.append_of_mem hm
    have := hi.logInv.served l1 l2 k w hl
    exact hnr (by rw [hl]; exact List.mem_append_right _ (List.mem_cons_of_mem _ this))
  · rw [hi.bodies k, hi.paired k]
    exact countP_isMiss_eq_isRead k _ hnr

/-- **If every call for `k` fails, every call for `k` runs the body** (C09: "every call that fails runs the
    body again"; C10: a rejected result is not served to the next call): when no call for `k` is a storing
    call and `k` is not in the cache at the start, then under every schedule `k` is never stored, no call
    for `k` is served, and the body ran once for every lookup of `k`. -/
theorem all_failing_calls_run_body (mem : Bool) (cfg : Cfg) (hp : ConcCalls.Plain cfg)
    (tl : Tlru S) (size : V → Nat) (s0 : State K V) (callss : List (List (Call K V))) (sch : List ThreadId) (k : K)
    (hk0 : k ∉ keys s0.store)
    (hfail : ∀ calls, calls ∈ callss → ∀ y, y ∈ calls → y.1 = k → y.2.2.2 = false) :
    k ∉ keys (callRunR mem cfg tl size sch (CallState.start s0 callss)).shared.store ∧
    (∀ w, Ev.ret k w false ∉ (callRunR mem cfg tl size sch (CallState.start s0 callss)).log) ∧
    totalBodies k (callRunR mem cfg tl size sch (CallState.start s0 callss)).callers
      = (callRunR mem cfg tl size sch (CallState.start s0 callss)).log.countP (isRead k) := by
  have hnw : Ev.write k ∉ (callRunR mem cfg tl size sch (CallState.start s0 callss)).log := by
    intro hw
    obtain ⟨calls, hc, y, hy, hyk, hst⟩ := writes_come_from_storing_calls mem cfg tl size s0 callss sch k hw
    rw [hfail calls hc y hy hyk] at hst
    cases hst
  obtain ⟨h1, _, h3, h4⟩ :=
    failing_calls_always_run_body_until_first_write mem cfg hp tl size s0 callss sch k hk0 hnw
  exact ⟨h1, h3, h4⟩

/-! ## (d) Model sanity: the deterministic, always-storing instance is `ConcCalls` -/

/-- **With `v = f k` and `st = true` for all calls the model coincides with `ConcCalls.callRun`** (the model
    behind C03's concurrent clause): same shared cache state, same callers (remaining calls, stage, body
    runs, returned values), same log up to the events `ConcCalls` does not have (`body`, `fail`). -/
theorem deterministic_instance (f : K → V) (cfg : Cfg) (tl : Tlru S) (size : V → Nat) (s0 : State K V)
    (callss : List (List (K × List Nat))) (sch : List ThreadId) :
    (callRunR false cfg tl size sch (CallState.start s0 (callss.map (detCalls f)))).toCalls
      = ConcCalls.callRun f cfg tl size sch (ConcCalls.CallState.start s0 callss) ∧
    (callRunR false cfg tl size sch (CallState.start s0 (callss.map (detCalls f)))).shared
      = (ConcCalls.callRun f cfg tl size sch (ConcCalls.CallState.start s0 callss)).shared ∧
    (callRunR false cfg tl size sch (CallState.start s0 (callss.map (detCalls f)))).log.filterMap Ev.toCalls?
      = (ConcCalls.callRun f cfg tl size sch (ConcCalls.CallState.start s0 callss)).log := by
  obtain ⟨h1, h2⟩ := start_det f s0 callss
  have h := callRun_det f cfg tl size sch _ h2
  rw [h1] at h
  exact ⟨h, by rw [← h]; rfl, by rw [← h]; rfl⟩

/-! ## Non-vacuity -/

def exTl : Tlru Nat := ⟨fun a b => decide (a < b), fun _ h _ r => h * r⟩
def cfgSync : Cfg := ⟨.global, .lru, none, none, none⟩
def cfgAsync : Cfg := ⟨.async, .lru, none, none, none⟩

/-- caller A (0): key 1, the body produces `100` = Ok, stored.  caller B (1): key 1, the body produces `7` =
    Err, not stored.  caller C (2): key 1 (would produce `300`, stored — but it is served). -/
def abc : List (List (Call Nat Nat)) := [[(1, [], 100, true)], [(1, [], 7, false)], [(1, [], 300, true)]]

/-- `Ok` = at least 100 -/
def exOk (v : Nat) : Bool := decide (100 ≤ v)

/-- readable form of an event: read 0 / body 1 / write 2 / ret 3 / fail 4 / erase 5 -/
def Ev.code : Ev Nat Nat → Nat × Nat × Nat
  | .read k b => (0, k, if b then 1 else 0)
  | .body k => (1, k, 0)
  | .write k => (2, k, 0)
  | .ret k v b => (3, k, v * 2 + (if b then 1 else 0))
  | .fail k v => (4, k, v)
  | .erase k => (5, k, 0)

/-- the hypotheses of (b) hold for this instance: the wrapper stores exactly the Ok results -/
example : ∀ calls, calls ∈ abc → ∀ x, x ∈ calls → x.2.2.2 = exOk x.2.2.1 := by decide

/-- sync engine, the schedule "B misses; A misses, stores Ok, returns; B's Err finishes; C is served":
    chronological log  B:read-miss, B:body, A:read-miss, A:body, A:write, A:ret(100, stored), B:fail(7),
    C:read-hit, C:ret(100, served).  Two body runs (A, B), none for C; C is served A's Ok, not B's Err and not
    its own outcome; the cache holds key 1 with value 100. -/
example :
    allReturnedB (callRunR false cfgSync exTl (fun _ => 0) [1, 0, 0, 0, 1, 2, 2] (CallState.init abc)) = true ∧
    totalBodies 1 (callRunR false cfgSync exTl (fun _ => 0) [1, 0, 0, 0, 1, 2, 2] (CallState.init abc)).callers = 2 ∧
    (callRunR false cfgSync exTl (fun _ => 0) [1, 0, 0, 0, 1, 2, 2] (CallState.init abc)).callers.map (·.rets)
      = [[(1, 100)], [(1, 7)], [(1, 100)]] ∧
    (callRunR false cfgSync exTl (fun _ => 0) [1, 0, 0, 0, 1, 2, 2] (CallState.init abc)).callers.map (·.bodies)
      = [[1], [1], []] ∧
    (callRunR false cfgSync exTl (fun _ => 0) [1, 0, 0, 0, 1, 2, 2] (CallState.init abc)).log.reverse.map Ev.code
      = [(0, 1, 0), (1, 1, 0), (0, 1, 0), (1, 1, 0), (2, 1, 0), (3, 1, 201), (4, 1, 7), (0, 1, 1), (3, 1, 200)] ∧
    (callRunR false cfgSync exTl (fun _ => 0) [1, 0, 0, 0, 1, 2, 2] (CallState.init abc)).shared.store.map
        (fun p => (p.1, p.2.val)) = [(1, 100)] := by
  decide

/-- async engine, the same story (the store is one micro-step; the LRU hit is read + refresh — no bound is
    configured, so the hit is a single micro-step here) -/
example :
    allReturnedB (callRunR false cfgAsync exTl (fun _ => 0) [1, 0, 0, 1, 2] (CallState.init abc)) = true ∧
    totalBodies 1 (callRunR false cfgAsync exTl (fun _ => 0) [1, 0, 0, 1, 2] (CallState.init abc)).callers = 2 ∧
    (callRunR false cfgAsync exTl (fun _ => 0) [1, 0, 0, 1, 2] (CallState.init abc)).callers.map (·.rets)
      = [[(1, 100)], [(1, 7)], [(1, 100)]] ∧
    (callRunR false cfgAsync exTl (fun _ => 0) [1, 0, 0, 1, 2] (CallState.init abc)).log.reverse.map Ev.code
      = [(0, 1, 0), (1, 1, 0), (0, 1, 0), (1, 1, 0), (2, 1, 0), (3, 1, 201), (4, 1, 7), (0, 1, 1), (3, 1, 200)] := by
  decide

/-- memory-aware store (`insert_with_memory`), sync engine: same log -/
example :
    (callRunR true cfgSync exTl (fun _ => 0) [1, 0, 0, 0, 1, 2, 2] (CallState.init abc)).log.reverse.map Ev.code
      = [(0, 1, 0), (1, 1, 0), (0, 1, 0), (1, 1, 0), (2, 1, 0), (3, 1, 201), (4, 1, 7), (0, 1, 1), (3, 1, 200)] := by
  decide

/-- all calls fail (three callers, key 1, `Err`): three lookups, three body runs, nothing stored, nobody served -/
example :
    totalBodies 1 (callRunR false cfgSync exTl (fun _ => 0) [0, 1, 0, 2, 1, 2]
      (CallState.init [[(1, [], 7, false)], [(1, [], 8, false)], [(1, [], 9, false)]])).callers = 3 ∧
    (callRunR false cfgSync exTl (fun _ => 0) [0, 1, 0, 2, 1, 2]
      (CallState.init [[(1, [], 7, false)], [(1, [], 8, false)], [(1, [], 9, false)]])).shared.store.length = 0 ∧
    (callRunR false cfgSync exTl (fun _ => 0) [0, 1, 0, 2, 1, 2]
      (CallState.init [[(1, [], 7, false)], [(1, [], 8, false)], [(1, [], 9, false)]])).callers.map (·.rets)
      = [[(1, 7)], [(1, 8)], [(1, 9)]] := by
  decide

/-- **The conclusion of `no_body_after_ok_storing_call_returned` FAILS for the hypothetical "discard on Err"
    variant** (`discard = true`: a failing call removes the entry of its key when it finishes).  Same callers,
    same schedule: B's late Err erases A's Ok, so C — which starts after A has returned — misses and runs the
    body (three body runs; a `body 1` event is logged AFTER `ret 1 100 true`).
    Chronological log: B:read-miss, B:body, A:read-miss, A:body, A:write, A:ret(100, stored), B:erase,
    B:fail(7), C:read-MISS, C:body, C:write, C:ret(300, stored). -/
example :
    totalBodies 1 (callRunWith true false cfgSync exTl (fun _ => 0) [1, 0, 0, 0, 1, 2, 2, 2]
      (CallState.init abc)).callers = 3 ∧
    (callRunWith true false cfgSync exTl (fun _ => 0) [1, 0, 0, 0, 1, 2, 2, 2] (CallState.init abc)).log.reverse.map Ev.code
      = [(0, 1, 0), (1, 1, 0), (0, 1, 0), (1, 1, 0), (2, 1, 0), (3, 1, 201), (5, 1, 0), (4, 1, 7),
         (0, 1, 0), (1, 1, 0), (2, 1, 0), (3, 1, 601)] ∧
    (callRunWith true false cfgSync exTl (fun _ => 0) [1, 0, 0, 0, 1, 2, 2, 2] (CallState.init abc)).callers.map (·.rets)
      = [[(1, 100)], [(1, 7)], [(1, 300)]] := by
  decide

/-- the same refutation, literally: in the "discard on Err" variant the log splits as
    `later ++ ret 1 100 true :: earlier` with a body run for key 1 (and a missed lookup of key 1) in `later` —
    the negation of the conclusion of `no_body_after_ok_storing_call_returned` -/
example :
    ∃ later earlier,
      (callRunWith true false cfgSync exTl (fun _ => 0) [1, 0, 0, 0, 1, 2, 2, 2] (CallState.init abc)).log
        = later ++ Ev.ret 1 100 true :: earlier ∧
      Ev.body 1 ∈ later ∧ Ev.read 1 false ∈ later :=
  ⟨[.ret 1 300 true, .write 1, .body 1, .read 1 false, .fail 1 7, .erase 1],
   [.write 1, .body 1, .read 1 false, .body 1, .read 1 false], by decide⟩

/-- whereas in the real wrapper (same callers, same schedule) nothing but C's hit follows A's return -/
example :
    (callRunR false cfgSync exTl (fun _ => 0) [1, 0, 0, 0, 1, 2, 2, 2] (CallState.init abc)).log
      = [.ret 1 100 false, .read 1 true, .fail 1 7] ++ Ev.ret 1 100 true ::
        [.write 1, .body 1, .read 1 false, .body 1, .read 1 false] := by
  decide

end Cachelito.C09c
