/-
  Cachelito.ConcCalls — CALLS of the generated wrapper on top of the data-carrying interleaving model
  `Cachelito.ConcData` (core Lean only; purely additive, `ConcData` is unchanged).

  A caller thread runs a list of calls `f(args)`, each identified by its cache key `k` (C02).  One call is
      lookup  : `get k`            — the micro-steps of `ConcData.micro` for `.get k`
      if it returned a value, return it (the body does not run)
      body    : compute `f k`      — no cache access
      store   : `insert k (f k)`   — the micro-steps of `ConcData.micro` for `.insert k (f k)`
      return `f k`
  (`cachelito-macros` / `cachelito-async-macros`: `if let Some(c) = cache.get(&key) { return c } ;
   let r = body ; cache.insert(&key, r.clone()) ; r` — the plain variant: no `cache_if`, no `invalidate_on`,
   no `max_memory`.)

  Ghost state, for stating C03's concurrent clause: per caller the keys for which it has run the body
  (`bodies`) and the values it has returned (`rets`); globally a log of events, NEWEST FIRST:
      `read k found`   the READ micro-step of a lookup of `k` executed (found = an unexpired entry was there)
      `write k`        the STORE-WRITE micro-step of `insert k _` executed (sync: `[M.w: put]`; async: the
                       whole `[O]` section)
      `ret k v stored` a call for `k` returned `v`; `stored` = it ran the body and stored the result
-/
import Cachelito.ConcData

namespace Cachelito.ConcCalls
open Cachelito Cachelito.ConcData

variable {K V S : Type} [DecidableEq K]

/-- events of the ghost log -/
inductive Ev (K V : Type)
  | read (k : K) (found : Bool)
  | write (k : K)
  | ret (k : K) (v : V) (stored : Bool)

/-- where a caller is in its current call; the `Option (Pend K V)` is the local state of the engine
    operation in progress (`none` = that operation has not started) -/
inductive Stage (K V : Type)
  | lookup (p : Option (Pend K V))
  | store (p : Option (Pend K V))

/-- a caller thread: remaining calls (key, random draws; the head is the current call), stage, ghosts -/
structure Caller (K V : Type) where
  calls : List (K × List Nat)
  stage : Stage K V
  bodies : List K
  rets : List (K × V)

structure CallState (K V : Type) where
  shared : State K V
  callers : List (Caller K V)
  log : List (Ev K V)

/-- an unexpired entry for `k` is stored -/
def found (cfg : Cfg) (s : State K V) (k : K) : Bool :=
  match lookup k s.store with
  | some e => !expired cfg s.now e
  | none => false

/-- one micro-step of a caller on the shared state; returns the new events, newest first -/
def callerStep (f : K → V) (cfg : Cfg) (tl : Tlru S) (size : V → Nat) (s : State K V) (c : Caller K V) :
    Option (State K V × Caller K V × List (Ev K V)) :=
  match c.calls with
  | [] => none
  | (k, rs) :: rest =>
    match c.stage with
    | .lookup p =>
      let r := micro false cfg tl size s (.get k) rs p
      let evs : List (Ev K V) := match p with
        | none => [.read k (found cfg s k)]
        | some _ => []
      match r.2 with
      | .more p' => some (r.1, { c with stage := .lookup (some p') }, evs)
      | .fin _ (.val (some v)) =>
        some (r.1, { calls := rest, stage := .lookup none, bodies := c.bodies, rets := c.rets ++ [(k, v)] },
              .ret k v false :: evs)
      | .fin _ _ =>
        -- miss: the body runs now (no cache access), the store follows
        some (r.1, { c with stage := .store none, bodies := c.bodies ++ [k] }, evs)
    | .store p =>
      let r := micro false cfg tl size s (.insert k (f k)) rs p
      let evs : List (Ev K V) := match p with
        | none => [.write k]
        | some _ => []
      match r.2 with
      | .more p' => some (r.1, { c with stage := .store (some p') }, evs)
      | .fin _ _ =>
        some (r.1, { calls := rest, stage := .lookup none, bodies := c.bodies, rets := c.rets ++ [(k, f k)] },
              .ret k (f k) true :: evs)

/-- the next micro-step of caller `i`; `none` when there is no such caller or it has finished -/
def callStep (f : K → V) (cfg : Cfg) (tl : Tlru S) (size : V → Nat) (c : CallState K V) (i : ThreadId) :
    Option (CallState K V) :=
  match c.callers[i]? with
  | none => none
  | some caller =>
    match callerStep f cfg tl size c.shared caller with
    | none => none
    | some (s', caller', evs) => some ⟨s', c.callers.set i caller', evs ++ c.log⟩

/-- run a schedule (entries naming a finished or non-existent caller are skipped) -/
def callRun (f : K → V) (cfg : Cfg) (tl : Tlru S) (size : V → Nat) : List ThreadId → CallState K V → CallState K V
  | [], c => c
  | i :: sch, c =>
    match callStep f cfg tl size c i with
    | none => callRun f cfg tl size sch c
    | some c' => callRun f cfg tl size sch c'

def Caller.start (calls : List (K × List Nat)) : Caller K V := ⟨calls, .lookup none, [], []⟩

def CallState.start (s : State K V) (callss : List (List (K × List Nat))) : CallState K V :=
  ⟨s, callss.map Caller.start, []⟩

def CallState.init (callss : List (List (K × List Nat))) : CallState K V := CallState.start State.init callss

/-- all callers have returned from all their calls -/
def allReturnedB (c : CallState K V) : Bool := c.callers.all (fun x => x.calls.isEmpty)

/-- how many times the body has been run for key `k`, over all callers -/
def totalBodies (k : K) (cs : List (Caller K V)) : Nat := (cs.map (fun c => c.bodies.count k)).sum

/-- a lookup of `k` that found nothing (the body then runs) -/
def isMiss (k : K) : Ev K V → Bool
  | .read k' false => decide (k' = k)
  | _ => false

/-- a lookup of `k` -/
def isRead (k : K) : Ev K V → Bool
  | .read k' _ => decide (k' = k)
  | _ => false

end Cachelito.ConcCalls
