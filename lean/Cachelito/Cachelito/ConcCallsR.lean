/-
  Cachelito.ConcCallsR — CALLS WITH IMPURE OUTCOMES AND A CONDITIONAL STORE on top of the data-carrying
  interleaving model `Cachelito.ConcData` (core Lean only; purely additive: `ConcData` and `ConcCalls` are
  unchanged).  This generalises `Cachelito.ConcCalls` (deterministic body `f`, unconditional store) to the
  wrappers the macros generate for
    * functions returning `Result`  (sync: `insert_result*` stores only `Ok`, `global_cache.rs`
      `insert_result` / `insert_result_with_memory`; async: `if __result.is_ok() { insert }`), and
    * functions with `cache_if`     (`if pred(&key, &result) { insert }`),
  whose bodies may be driven by the outside world: two calls with the same key may produce different
  outcomes.  Every call therefore carries ITS OWN outcome:

      `(k, rs, v, st)`  =  cache key, random draws of its engine operations, the value `v` the body produces
                           IF it runs in this call, and `st` = "the wrapper hands `v` to the engine"
                           (`true`: Ok / accepted;  `false`: Err / rejected) — `st` is `Wrapper.shouldStore`.

  One call is
      lookup  : `get k`                — the micro-steps of `ConcData.micro` for `.get k`
      if it returned a value, return it (the body does not run)
      body    : produces `v`           — no cache access; logged (`body k`) in the micro-step that finished the
                                         lookup with a miss
      st = true : store `insert k v` (`mem = true`: `insert_with_memory k v`) — the micro-steps of `ConcData.micro`;
                  return `v`
      st = false: return `v`           — its own step (the body may finish arbitrarily late), NO cache access:
                                         the shared state is untouched.

  `discard = true` is a HYPOTHETICAL variant ("discard on Err": a failing call removes the entry of its key,
  engine operation `.invalidateWith (· = k)`) which the real code does NOT have; it exists only so that the
  property file can show that its theorems fail for it.  Every theorem is about `discard = false`.

  Ghost state: per caller the keys for which it ran the body (`bodies`) and what it returned (`rets`);
  globally a log of events, NEWEST FIRST:
      `read k found`    the READ micro-step of a lookup of `k` executed (found = an unexpired entry was there)
      `body k`          the body ran for `k` (in the micro-step that finished the lookup with a miss)
      `write k`         the STORE-WRITE micro-step of the store of `k` executed (sync: `[M.w: put]`; async: the
                        whole `[O]` section)
      `ret k v stored`  a call for `k` returned `v`; `stored = false`: served from the cache (no body run);
                        `stored = true`: it ran the body and stored the result
      `fail k v`        a call for `k` ran the body, did NOT store (Err / rejected) and returned `v`
      `erase k`         (discard variant only) the first micro-step of the removal of `k` executed
-/
import Cachelito.ConcCalls

namespace Cachelito.ConcCallsR
open Cachelito Cachelito.ConcData

variable {K V S : Type} [DecidableEq K]

/-- events of the ghost log -/
inductive Ev (K V : Type)
  | read (k : K) (found : Bool)
  | body (k : K)
  | write (k : K)
  | ret (k : K) (v : V) (stored : Bool)
  | fail (k : K) (v : V)
  | erase (k : K)
  deriving DecidableEq

/-- where a caller is in its current call (`ConcCalls.Stage`): `.lookup p` = in the lookup, `.store p` = the
    body has run, the store (or, for a non-storing call, the plain return) is next -/
abbrev Stage := ConcCalls.Stage

/-- one call: key, random draws, the body's outcome in this call, "is it stored" -/
abbrev Call (K V : Type) := K × List Nat × V × Bool

/-- a caller thread: remaining calls (the head is the current call), stage, ghosts -/
structure Caller (K V : Type) where
  calls : List (Call K V)
  stage : Stage K V
  bodies : List K
  rets : List (K × V)

structure CallState (K V : Type) where
  shared : State K V
  callers : List (Caller K V)
  log : List (Ev K V)

/-- the engine operation of a storing call: `insert` or (`mem`) `insert_with_memory` -/
def storeOp (mem : Bool) (k : K) (v : V) : Op K V := if mem then .insertMem k v else .insert k v

/-- the engine operation of the hypothetical "discard on Err" variant -/
def discardOp (k : K) : Op K V := .invalidateWith (fun x => decide (x = k))

/-- one micro-step of a caller on the shared state; returns the new events, newest first -/
def callerStep (discard mem : Bool) (cfg : Cfg) (tl : Tlru S) (size : V → Nat) (s : State K V) (c : Caller K V) :
    Option (State K V × Caller K V × List (Ev K V)) :=
  match c.calls with
  | [] => none
  | (k, rs, v, st) :: rest =>
    match c.stage with
    | .lookup p =>
      let r := micro false cfg tl size s (.get k) rs p
      let evs : List (Ev K V) := match p with
        | none => [.read k (ConcCalls.found cfg s k)]
        | some _ => []
      match r.2 with
      | .more p' => some (r.1, { c with stage := .lookup (some p') }, evs)
      | .fin _ (.val (some w)) =>
        some (r.1, { calls := rest, stage := .lookup none, bodies := c.bodies, rets := c.rets ++ [(k, w)] },
              .ret k w false :: evs)
      | .fin _ _ =>
        -- miss: the body runs now (no cache access); the store / the plain return follows
        some (r.1, { c with stage := .store none, bodies := c.bodies ++ [k] }, .body k :: evs)
    | .store p =>
      if st then
        let r := micro false cfg tl size s (storeOp mem k v) rs p
        let evs : List (Ev K V) := match p with
          | none => [.write k]
          | some _ => []
        match r.2 with
        | .more p' => some (r.1, { c with stage := .store (some p') }, evs)
        | .fin _ _ =>
          some (r.1, { calls := rest, stage := .lookup none, bodies := c.bodies, rets := c.rets ++ [(k, v)] },
                .ret k v true :: evs)
      else if discard then
        let r := micro false cfg tl size s (discardOp k) rs p
        let evs : List (Ev K V) := match p with
          | none => [.erase k]
          | some _ => []
        match r.2 with
        | .more p' => some (r.1, { c with stage := .store (some p') }, evs)
        | .fin _ _ =>
          some (r.1, { calls := rest, stage := .lookup none, bodies := c.bodies, rets := c.rets ++ [(k, v)] },
                .fail k v :: evs)
      else
        -- Err / rejected: nothing is handed to the engine; the call returns
        some (s, { calls := rest, stage := .lookup none, bodies := c.bodies, rets := c.rets ++ [(k, v)] },
              [.fail k v])

/-- the next micro-step of caller `i`; `none` when there is no such caller or it has finished -/
def callStep (discard mem : Bool) (cfg : Cfg) (tl : Tlru S) (size : V → Nat) (c : CallState K V) (i : ThreadId) :
    Option (CallState K V) :=
  match c.callers[i]? with
  | none => none
  | some caller =>
    match callerStep discard mem cfg tl size c.shared caller with
    | none => none
    | some (s', caller', evs) => some ⟨s', c.callers.set i caller', evs ++ c.log⟩

/-- run a schedule (entries naming a finished or non-existent caller are skipped) -/
def callRunWith (discard mem : Bool) (cfg : Cfg) (tl : Tlru S) (size : V → Nat) :
    List ThreadId → CallState K V → CallState K V
  | [], c => c
  | i :: sch, c =>
    match callStep discard mem cfg tl size c i with
    | none => callRunWith discard mem cfg tl size sch c
    | some c' => callRunWith discard mem cfg tl size sch c'

/-- run a schedule of the REAL wrapper (a failing call does not touch the cache) -/
def callRunR (mem : Bool) (cfg : Cfg) (tl : Tlru S) (size : V → Nat) (sch : List ThreadId) (c : CallState K V) :
    CallState K V :=
  callRunWith false mem cfg tl size sch c

def Caller.start (calls : List (Call K V)) : Caller K V := ⟨calls, .lookup none, [], []⟩

def CallState.start (s : State K V) (callss : List (List (Call K V))) : CallState K V :=
  ⟨s, callss.map Caller.start, []⟩

def CallState.init (callss : List (List (Call K V))) : CallState K V := CallState.start State.init callss

/-- all callers have returned from all their calls -/
def allReturnedB (c : CallState K V) : Bool := c.callers.all (fun x => x.calls.isEmpty)

/-- how many times the body has been run for key `k`, over all callers -/
def totalBodies (k : K) (cs : List (Caller K V)) : Nat := (cs.map (fun c => c.bodies.count k)).sum

/-- a lookup of `k` that found nothing -/
def isMiss (k : K) : Ev K V → Bool
  | .read k' false => decide (k' = k)
  | _ => false

/-- a lookup of `k` -/
def isRead (k : K) : Ev K V → Bool
  | .read k' _ => decide (k' = k)
  | _ => false

/-- a body run for `k` -/
def isBody (k : K) : Ev K V → Bool
  | .body k' => decide (k' = k)
  | _ => false

/-! ### Projections used by the theorems -/

/-- the `ConcData` thread a caller IS while it executes an engine operation: the lookup of its current call,
    or the store of a storing call; a caller that is about to return from a non-storing call (and a finished
    caller) is a thread with nothing to do. -/
def Caller.thread (mem : Bool) (c : Caller K V) : Thread K V :=
  match c.calls with
  | [] => ⟨[], none, []⟩
  | (k, rs, v, st) :: _ =>
    match c.stage with
    | .lookup p => ⟨[(.get k, rs)], p, []⟩
    | .store p => if st then ⟨[(storeOp mem k v, rs)], p, []⟩ else ⟨[], none, []⟩

/-- the interleaving-model state a call-level state IS -/
def CallState.cstate (mem : Bool) (c : CallState K V) : CState K V := ⟨c.shared, c.callers.map (Caller.thread mem)⟩

/-- forget the events `ConcCalls` does not have -/
def Ev.toCalls? : Ev K V → Option (ConcCalls.Ev K V)
  | .read k b => some (.read k b)
  | .write k => some (.write k)
  | .ret k v b => some (.ret k v b)
  | _ => none

/-- forget the per-call outcomes -/
def Caller.toCalls (c : Caller K V) : ConcCalls.Caller K V :=
  ⟨c.calls.map (fun x => (x.1, x.2.1)), c.stage, c.bodies, c.rets⟩

def CallState.toCalls (c : CallState K V) : ConcCalls.CallState K V :=
  ⟨c.shared, c.callers.map Caller.toCalls, c.log.filterMap Ev.toCalls?⟩

/-- the calls of a deterministic function `f` whose results are always stored -/
def detCalls (f : K → V) (calls : List (K × List Nat)) : List (Call K V) :=
  calls.map (fun x => (x.1, x.2, f x.1, true))

end Cachelito.ConcCallsR
