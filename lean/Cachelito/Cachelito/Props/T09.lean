/-
  T09 — TRANSLATOR TIE, global_cache.rs: the LOOKUP PATH of the sync global engine (`get`, `increment_frequency`)
  — C01, C06, C07, C08, C15

  `Generated/PureGlobal.lean` is regenerated from /repo's CURRENT source on every check (with the `stats` feature's
  statements included); the theorems are re-proved against whatever was generated.  Sequential reading of the function
  (see `Props/T08.lean`).  `get_eq`: for every cache content, configuration, key and clock the translated
  `GlobalCache::get` returns what the model's `Cachelito.get` returns and leaves exactly its store, queue and counters:
  absent → miss; expired (whole seconds of age ≥ ttl) → removed from map and queue, miss; otherwise the stored value,
  a hit, and the policy's bookkeeping (LRU / ARC / TLRU: key to the back; LFU / ARC / TLRU: frequency + 1).
-/
import Cachelito.Props.T08
import Cachelito.Props.T03
import Cachelito.Props.T04

set_option linter.unusedSimpArgs false
set_option linter.unusedVariables false

namespace Cachelito.T09
open Cachelito Cachelito.RustLite Cachelito.Generated Cachelito.SourceLemmas Cachelito.T08
open Cachelito.Generated.Global

variable {K V F : Type} [DecidableEq K]

/-- `GlobalCache::increment_frequency` is the model's `bumpHits` (hit counters below `u64::MAX`) -/
theorem increment_frequency_eq (c : GlobalCache K V F) (k : K) (h : ∀ p, p ∈ c.map → p.2.hits < u64Max) :
    Global.increment_frequency c k = { c with map := bumpHits k c.map } := by
  obtain ⟨map, order, limit, mm, policy, ttl, fw, st⟩ := c
  unfold Global.increment_frequency
  simp only []
  congr 1
  unfold bumpHits
  induction map with
  | nil => simp [lookup, modify]
  | cons p m ih =>
    obtain ⟨k', e⟩ := p
    have he := h (k', e) (by simp)
    have ih' := ih (fun p hp => h p (by simp [hp]))
    by_cases hk : k' = k
    · simp [lookup, modify, mapSet, hk, T03.increment_frequency_eq e he]
    · simp only [lookup, hk, if_false, modify] at ih' ⊢
      cases hl : lookup k m with
      | none => simp [hl] at ih' ⊢; exact ih'
      | some e2 => simp [hl, mapSet, modify, hk] at ih' ⊢; exact ih'

/-- **The sync global engine's `get` is the model's `get`**: same returned value, same store, queue and counters, for
    every cache content, configuration, key and clock. -/
theorem get_eq (c : GlobalCache K V F) (now : Nat) (k : K) (hmax : ∀ p, p ∈ c.map → p.2.hits < u64Max) :
    Global.get ⟨fun b => now - b, now⟩ c k =
      ((Cachelito.get (cfgOf c) ⟨c.map, c.order, now, c.stats.hits, c.stats.misses⟩ k).2,
       { c with
         map := (Cachelito.get (cfgOf c) ⟨c.map, c.order, now, c.stats.hits, c.stats.misses⟩ k).1.store,
         order := (Cachelito.get (cfgOf c) ⟨c.map, c.order, now, c.stats.hits, c.stats.misses⟩ k).1.queue,
         stats := ⟨(Cachelito.get (cfgOf c) ⟨c.map, c.order, now, c.stats.hits, c.stats.misses⟩ k).1.hitStat,
                   (Cachelito.get (cfgOf c) ⟨c.map, c.order, now, c.stats.hits, c.stats.misses⟩ k).1.missStat⟩ }) := by
  obtain ⟨map, order, limit, mm, policy, ttl, fw, ⟨sh, sm⟩⟩ := c
  have hexp : ∀ e : Entry V, Entry.is_expired ⟨fun b => now - b, now⟩ e ttl =
      expired (⟨.global, policy, limit, mm, ttl⟩ : Cfg) now e :=
    fun e => T03.is_expired_eq ⟨.global, policy, limit, mm, ttl⟩ (by simp) now e
  unfold Global.get Cachelito.get
  simp only [cfgOf]
  cases hl : lookup k map with
  | none =>
    simp [hl, Stats.record_miss, fetchAdd]
  | some e =>
    by_cases hx : expired (⟨.global, policy, limit, mm, ttl⟩ : Cfg) now e = true
    · simp [hl, hexp, hx, (T02.remove_key_eq _ _ _).1, removeBoth, Stats.record_miss, fetchAdd]
    · have hinc : ∀ (o : List K), Global.increment_frequency (GlobalCache.mk map o limit mm policy ttl fw ⟨sh + 1, sm⟩) k =
          GlobalCache.mk (bumpHits k map) o limit mm policy ttl fw ⟨sh + 1, sm⟩ :=
        fun o => increment_frequency_eq _ k hmax
      cases policy <;>
        simp [hl, hexp, hx, Stats.record_hit, fetchAdd, hitUpdate, Policy.bumps, Policy.refreshes,
          T02.move_key_to_end_eq, hinc]

end Cachelito.T09
