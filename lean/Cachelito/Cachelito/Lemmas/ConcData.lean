/-
  Lemmas about the data-carrying interleaving model `Cachelito.ConcData` (C18).

  §1  shape of `tstep` / `cstepWith`, lifting of invariants along schedules
  §2  "shrinking" steps: every eviction (with or WITHOUT the sequential invariant, i.e. with orphan
      queue keys and untracked stored keys present) removes a sub-list of the store and of the queue and
      never un-tracks a key that stays stored
  §3  values: every stored pair is `(k, f k)`
  §4  async engine: every micro-step preserves `Inv` and the entry / memory bounds
  §5  sync engine: the invariant with in-flight stores
  §6  sequential use from a state with orphan queue keys
  §7  sync engine: the memory bound with stores in flight
  §8  whole histories / schedules, faithful bookkeeping of the finished-operation records
  §9  a one-thread system is exactly the sequential model `Cachelito.run`
-/
import Cachelito.ConcData
import Cachelito.Lemmas.Inv
import Cachelito.Lemmas.Mem
import Cachelito.Props.C04
import Cachelito.Props.C05

set_option linter.unusedSectionVars false
set_option linter.unusedSimpArgs false
set_option linter.unusedVariables false

namespace Cachelito.ConcData
open Cachelito

variable {K V S : Type} [DecidableEq K]

/-! ## §1 Shape of a step -/

/-- what a successful thread step looks like -/
theorem tstep_some {legacy : Bool} {cfg : Cfg} {tl : Tlru S} {size : V → Nat} {s s' : State K V}
    {t t' : Thread K V} (h : tstep legacy cfg tl size s t = some (s', t')) :
    ∃ op rs rest, t.prog = (op, rs) :: rest ∧
      ((∃ p, micro legacy cfg tl size s op rs t.pend = (s', .more p) ∧ t' = { t with pend := some p }) ∨
       (∃ op' o, micro legacy cfg tl size s op rs t.pend = (s', .fin op' o) ∧
          t' = { prog := rest, pend := none, done := t.done ++ [(op', o)] })) := by
  unfold tstep at h
  cases hp : t.prog with
  | nil => rw [hp] at h; cases h
  | cons a rest =>
    obtain ⟨op, rs⟩ := a
    rw [hp] at h
    simp only at h
    refine ⟨op, rs, rest, rfl, ?_⟩
    generalize micro legacy cfg tl size s op rs t.pend = mr at h
    obtain ⟨s1, r⟩ := mr
    cases r with
    | more p =>
      simp only [Option.some.injEq, Prod.mk.injEq] at h
      left; exact ⟨p, by rw [h.1], h.2.symm⟩
    | fin op' o =>
      simp only [Option.some.injEq, Prod.mk.injEq] at h
      right; exact ⟨op', o, by rw [h.1], h.2.symm⟩

theorem cstepWith_some {legacy : Bool} {cfg : Cfg} {tl : Tlru S} {size : V → Nat} {c c' : CState K V} {i : Nat}
    (h : cstepWith legacy cfg tl size c i = some c') :
    ∃ t s' t', c.threads[i]? = some t ∧ tstep legacy cfg tl size c.shared t = some (s', t') ∧
      c' = ⟨s', c.threads.set i t'⟩ := by
  unfold cstepWith at h
  cases ht : c.threads[i]? with
  | none => rw [ht] at h; cases h
  | some t =>
    rw [ht] at h
    simp only at h
    cases hs : tstep legacy cfg tl size c.shared t with
    | none => rw [hs] at h; cases h
    | some r =>
      obtain ⟨s', t'⟩ := r
      rw [hs] at h
      simp only [Option.some.injEq] at h
      exact ⟨t, s', t', rfl, hs, h.symm⟩

/-- an invariant of the whole state kept by every enabled step is kept by every schedule -/
theorem crunWith_invariant {legacy : Bool} {cfg : Cfg} {tl : Tlru S} {size : V → Nat} (P : CState K V → Prop)
    (hstep : ∀ c i c', P c → cstepWith legacy cfg tl size c i = some c' → P c')
    (sch : List ThreadId) (c : CState K V) (h : P c) : P (crunWith legacy cfg tl size sch c) := by
  induction sch generalizing c with
  | nil => exact h
  | cons i sch ih =>
    simp only [crunWith]
    cases hs : cstepWith legacy cfg tl size c i with
    | none => exact ih c h
    | some c' => exact ih c' (hstep c i c' h hs)

theorem mem_of_getElem?_eq_some {α : Type} {l : List α} {i : Nat} {a : α} (h : l[i]? = some a) : a ∈ l :=
  List.mem_of_getElem? h

/-- the threads after thread `i` (currently `t`) has been replaced by `t'` -/
theorem mem_set_cases {α : Type} {l : List α} {i : Nat} {t t' x : α} (hi : l[i]? = some t)
    (hx : x ∈ l.set i t') : x = t' ∨ x ∈ l := by
  rcases List.mem_or_eq_of_mem_set hx with h | h
  · right; exact h
  · left; exact h

/-- decomposition of the thread list around the stepping thread -/
theorem set_decomp {α : Type} {l : List α} {i : Nat} {t : α} (hi : l[i]? = some t) (t' : α) :
    ∃ l1 l2, l = l1 ++ t :: l2 ∧ l.set i t' = l1 ++ t' :: l2 := by
  have hlt : i < l.length := by
    apply Classical.byContradiction; intro hn
    rw [List.getElem?_eq_none (by omega)] at hi; cases hi
  refine ⟨l.take i, l.drop (i + 1), ?_, ?_⟩
  · have hget : l[i] = t := by
      rw [List.getElem?_eq_getElem hlt] at hi; exact Option.some.inj hi
    rw [← hget]
    exact (List.take_append_drop i l).symm.trans (by rw [List.drop_eq_getElem_cons hlt])
  · rw [List.set_eq_take_append_cons_drop, if_pos hlt]

/-! ## §2 Shrinking steps -/

/-- `(m', q')` is obtained from `(m, q)` by removing entries and queue slots only, and no key that
    stays stored loses its queue slot.  Holds for every eviction primitive of every engine, in ANY
    state (orphan queue keys, untracked stored keys, even duplicates). -/
structure Shr (m : Store K V) (q : List K) (m' : Store K V) (q' : List K) : Prop where
  store : m'.Sublist m
  queue : q'.Sublist q
  keep : ∀ x, x ∈ keys m' → x ∈ q → x ∈ q'

theorem Shr.refl (m : Store K V) (q : List K) : Shr m q m q :=
  ⟨List.Sublist.refl _, List.Sublist.refl _, fun _ _ h => h⟩

theorem keys_sublist {m' m : Store K V} (h : m'.Sublist m) : (keys m').Sublist (keys m) :=
  List.Sublist.map _ h

theorem Shr.trans {m m1 m2 : Store K V} {q q1 q2 : List K} (h1 : Shr m q m1 q1) (h2 : Shr m1 q1 m2 q2) :
    Shr m q m2 q2 :=
  ⟨h2.store.trans h1.store, h2.queue.trans h1.queue,
   fun x hx hq => h2.keep x hx (h1.keep x ((keys_sublist h2.store).subset hx) hq)⟩

theorem Shr.length_le {m m' : Store K V} {q q' : List K} (h : Shr m q m' q') : m'.length ≤ m.length :=
  h.store.length_le

theorem Shr.queue_length_le {m m' : Store K V} {q q' : List K} (h : Shr m q m' q') : q'.length ≤ q.length :=
  h.queue.length_le

theorem Shr.keys_nodup {m m' : Store K V} {q q' : List K} (h : Shr m q m' q') (hn : (keys m).Nodup) :
    (keys m').Nodup := List.Nodup.sublist (keys_sublist h.store) hn

theorem Shr.queue_nodup {m m' : Store K V} {q q' : List K} (h : Shr m q m' q') (hn : q.Nodup) : q'.Nodup :=
  List.Nodup.sublist h.queue hn

theorem Shr.keys_sub {m m' : Store K V} {q q' : List K} (h : Shr m q m' q') :
    ∀ x, x ∈ keys m' → x ∈ keys m := fun x hx => (keys_sublist h.store).subset hx

theorem eraseKey_sublist (k : K) (m : Store K V) : (eraseKey k m).Sublist m := List.filter_sublist

/-- removing one key from the store and ANY set of queue slots that does not contain a key that stays stored -/
theorem Shr.eraseKey_of {m : Store K V} {q q' : List K} (k : K) (hq : q'.Sublist q)
    (hkeep : ∀ x, x ≠ k → x ∈ keys m → x ∈ q → x ∈ q') : Shr m q (eraseKey k m) q' := by
  refine ⟨eraseKey_sublist k m, hq, ?_⟩
  intro x hx hxq
  rw [keys_eraseKey] at hx
  have := List.mem_filter.mp hx
  exact hkeep x (by simpa using this.2) this.1 hxq

theorem popStored_shr (m : Store K V) (q : List K) : Shr m q (popStored m q).1 (popStored m q).2.1 := by
  induction q with
  | nil => exact Shr.refl _ _
  | cons a q ih =>
    simp only [popStored]
    by_cases ha : hasKey a m = true
    · simp only [ha, if_true]
      refine Shr.eraseKey_of a (List.sublist_cons_self a q) ?_
      intro x hxa _ hxq
      rcases List.mem_cons.mp hxq with h | h
      · exact absurd h hxa
      · exact h
    · simp only [ha, if_false, Bool.false_eq_true]
      refine ⟨ih.store, ih.queue.trans (List.sublist_cons_self a q), ?_⟩
      intro x hx hxq
      rcases List.mem_cons.mp hxq with h | h
      · subst h
        have hxm : x ∈ keys m := ih.keys_sub x hx
        exact absurd ((hasKey_iff x m).mpr hxm) ha
      · exact ih.keep x hx h

theorem popOne_shr (m : Store K V) (q : List K) : Shr m q (popOne m q).1 (popOne m q).2.1 := by
  cases q with
  | nil => exact Shr.refl _ _
  | cons a q =>
    simp only [popOne]
    refine Shr.eraseKey_of a (List.sublist_cons_self a q) ?_
    intro x hxa _ hxq
    rcases List.mem_cons.mp hxq with h | h
    · exact absurd h hxa
    · exact h

theorem mem_eraseIdx_of_ne {q : List K} {i : Nat} {k x : K} (hi : q[i]? = some k) (hx : x ∈ q) (hne : x ≠ k) :
    x ∈ q.eraseIdx i := by
  rw [List.mem_eraseIdx_iff_getElem]
  obtain ⟨j, hj, hjx⟩ := List.getElem_of_mem hx
  refine ⟨j, hj, ?_, hjx⟩
  intro hji
  subst hji
  rw [List.getElem?_eq_getElem hj] at hi
  exact hne (hjx ▸ Option.some.inj hi)

theorem evictRandom_shr (r : Nat) (m : Store K V) (q : List K) :
    Shr m q (evictRandom r m q).1 (evictRandom r m q).2.1 := by
  unfold evictRandom
  cases hq : q[r % q.length]? with
  | none => exact Shr.refl _ _
  | some k =>
    simp only
    refine Shr.eraseKey_of k (List.eraseIdx_sublist _ _) ?_
    intro x hxk _ hxq
    exact mem_eraseIdx_of_ne hq hxq hxk

theorem removeBoth_shr (cfg : Cfg) (k : K) (m : Store K V) (q : List K) :
    Shr m q (removeBoth cfg k m q).1 (removeBoth cfg k m q).2 := by
  unfold removeBoth
  cases cfg.flavour <;> simp only
  · exact Shr.eraseKey_of k List.erase_sublist (fun x hxk _ hxq => (List.mem_erase_of_ne hxk).mpr hxq)
  · exact Shr.eraseKey_of k List.erase_sublist (fun x hxk _ hxq => (List.mem_erase_of_ne hxk).mpr hxq)
  · exact Shr.eraseKey_of k List.filter_sublist
      (fun x hxk _ hxq => List.mem_filter.mpr ⟨hxq, by simpa using hxk⟩)

theorem evictScored_shr (cfg : Cfg) (tl : Tlru S) (now : Nat) (m : Store K V) (q : List K) :
    Shr m q (evictScored cfg tl now m q).1 (evictScored cfg tl now m q).2.1 := by
  unfold evictScored
  cases victim cfg tl now m q with
  | none => exact Shr.refl _ _
  | some k => exact removeBoth_shr cfg k m q

theorem evictLimit_shr (cfg : Cfg) (tl : Tlru S) (now r : Nat) (m : Store K V) (q : List K) :
    Shr m q (evictLimit cfg tl now r m q).1 (evictLimit cfg tl now r m q).2.1 := by
  unfold evictLimit
  cases cfg.policy <;> simp only
  · exact popStored_shr m q
  · exact popStored_shr m q
  · exact evictScored_shr cfg tl now m q
  · exact evictScored_shr cfg tl now m q
  · exact evictRandom_shr r m q
  · exact evictScored_shr cfg tl now m q

theorem evictMem_shr (cfg : Cfg) (tl : Tlru S) (now r : Nat) (m : Store K V) (q : List K) :
    Shr m q (evictMem cfg tl now r m q).1 (evictMem cfg tl now r m q).2.1 := by
  unfold evictMem
  cases cfg.policy <;> simp only
  · cases cfg.flavour <;> simp only
    · exact popStored_shr m q
    · exact popOne_shr m q
    · exact popOne_shr m q
  · cases cfg.flavour <;> simp only
    · exact popStored_shr m q
    · exact popOne_shr m q
    · exact popOne_shr m q
  · exact evictScored_shr cfg tl now m q
  · exact evictScored_shr cfg tl now m q
  · exact evictRandom_shr r m q
  · exact evictScored_shr cfg tl now m q

theorem limitStep_shr (cfg : Cfg) (tl : Tlru S) (now r : Nat) (m : Store K V) (q : List K) :
    Shr m q (limitStep cfg tl now r m q).1 (limitStep cfg tl now r m q).2 := by
  unfold limitStep
  cases cfg.limit with
  | none => exact Shr.refl _ _
  | some n =>
    simp only
    split
    · exact evictLimit_shr cfg tl now r m q
    · exact Shr.refl _ _

theorem memLoop_shr (cfg : Cfg) (tl : Tlru S) (size : V → Nat) (now maxM extra : Nat)
    (fuel : Nat) (rs : List Nat) (m : Store K V) (q : List K) :
    Shr m q (memLoop cfg tl size now maxM extra fuel rs m q).1 (memLoop cfg tl size now maxM extra fuel rs m q).2.1 := by
  induction fuel generalizing rs m q with
  | zero => exact Shr.refl _ _
  | succ fuel ih =>
    simp only [memLoop]
    split
    · exact Shr.refl _ _
    · have hs := evictMem_shr cfg tl now (rs.headD 0) m q
      generalize evictMem cfg tl now (rs.headD 0) m q = r at hs
      obtain ⟨m', q', ev⟩ := r
      simp only
      cases ev
      · exact hs
      · exact hs.trans (ih rs.tail m' q')

theorem erasePush_dropLast_sublist (k : K) (q : List K) : (q.erase k).Sublist (erasePush k q) := by
  unfold erasePush; exact List.sublist_append_left _ _

/-- the queue section of the sync `insert_with_memory` only shrinks (relative to the re-queued state) -/
theorem trackMemStep_shr (cfg : Cfg) (tl : Tlru S) (size : V → Nat) (rs : List Nat) (s : State K V) (k : K) :
    Shr s.store (erasePush k s.queue) (trackMemStep cfg tl size rs s k).store (trackMemStep cfg tl size rs s k).queue := by
  unfold trackMemStep
  cases cfg.maxMem with
  | none => exact limitStep_shr cfg tl s.now _ s.store _
  | some maxM =>
    simp only
    split
    · rw [dropLast_erasePush]
      refine Shr.eraseKey_of k (erasePush_dropLast_sublist k s.queue) ?_
      intro x hxk _ hxq
      rcases mem_erasePush.mp hxq with h | h
      · exact (List.mem_erase_of_ne hxk).mpr h
      · exact absurd h hxk
    · have h1 := memLoop_shr cfg tl size s.now maxM 0 ((erasePush k s.queue).length + 1) rs s.store (erasePush k s.queue)
      generalize memLoop cfg tl size s.now maxM 0 ((erasePush k s.queue).length + 1) rs s.store (erasePush k s.queue) = r1 at h1
      obtain ⟨m1, q1, rs1⟩ := r1
      exact h1.trans (limitStep_shr cfg tl s.now _ m1 q1)

theorem foldl_eraseKey_sublist (ks : List K) (m : Store K V) : (ks.foldl (fun m k => eraseKey k m) m).Sublist m := by
  induction ks generalizing m with
  | nil => exact List.Sublist.refl _
  | cons k ks ih => exact (ih (eraseKey k m)).trans (eraseKey_sublist k m)

theorem foldl_erase_sublist (ks : List K) (q : List K) : (ks.foldl (fun q k => q.erase k) q).Sublist q := by
  induction ks generalizing q with
  | nil => exact List.Sublist.refl _
  | cons k ks ih => exact (ih (q.erase k)).trans List.erase_sublist

/-- the async prologue (drop an existing entry of `k`) only shrinks -/
theorem asyncDrop_sublist (k : K) (m : Store K V) (q : List K) :
    (if hasKey k m then (eraseKey k m, q.filter (fun x => x ≠ k)) else (m, q)).1.Sublist m := by
  split
  · exact eraseKey_sublist k m
  · exact List.Sublist.refl _

/-! ## §3 Values -/

/-- every stored pair is `(k, f k)` -/
def ValOK (f : K → V) (m : Store K V) : Prop := ∀ k e, (k, e) ∈ m → e.val = f k

/-- a store operation of the program writes the function's value for its key -/
def OpOK (f : K → V) : Op K V → Prop
  | .insert k v => v = f k
  | .insertMem k v => v = f k
  | _ => True

/-- a value carried by an operation in progress is the function's value for its key -/
def PendOK (f : K → V) : Pend K V → Prop
  | .refresh k v => v = f k
  | .move k v => v = f k
  | .bump k v => v = f k
  | .track k v _ => v = f k
  | .trackMem k v _ => v = f k
  | _ => True

/-- a finished lookup that returned a value returned the function's value for its key -/
def RecOK (f : K → V) (op : Op K V) (o : Out V) : Prop := ∀ k v, op = .get k → o = .val (some v) → v = f k

def ResOK (f : K → V) : Res K V → Prop
  | .more p => PendOK f p
  | .fin op o => RecOK f op o

theorem ValOK.nil (f : K → V) : ValOK f ([] : Store K V) := by intro k e h; cases h

theorem ValOK.sublist {f : K → V} {m m' : Store K V} (h : ValOK f m) (hs : m'.Sublist m) : ValOK f m' :=
  fun k e he => h k e (hs.subset he)

theorem ValOK.put {f : K → V} {m : Store K V} (h : ValOK f m) (k : K) (b hits : Nat) :
    ValOK f (put k ⟨f k, b, hits⟩ m) := by
  intro x e he
  unfold Cachelito.put at he
  rcases List.mem_append.mp he with h1 | h1
  · exact h x e ((eraseKey_sublist k m).subset h1)
  · simp only [List.mem_singleton, Prod.mk.injEq] at h1
    rw [h1.1, h1.2]

theorem mem_modify {k x : K} {g : Entry V → Entry V} {m : Store K V} {e : Entry V} (h : (x, e) ∈ modify k g m) :
    (x, e) ∈ m ∨ ∃ e0, (x, e0) ∈ m ∧ e = g e0 := by
  induction m with
  | nil => simp [modify] at h
  | cons a m ih =>
    obtain ⟨y, e1⟩ := a
    rw [modify_cons] at h
    split at h
    · rcases List.mem_cons.mp h with h1 | h1
      · simp only [Prod.mk.injEq] at h1
        right; refine ⟨e1, by rw [h1.1]; exact List.mem_cons_self, h1.2⟩
      · left; exact List.mem_cons_of_mem _ h1
    · rcases List.mem_cons.mp h with h1 | h1
      · left; rw [h1]; exact List.mem_cons_self
      · rcases ih h1 with h2 | ⟨e0, h2, h3⟩
        · left; exact List.mem_cons_of_mem _ h2
        · right; exact ⟨e0, List.mem_cons_of_mem _ h2, h3⟩

theorem ValOK.bumpHits {f : K → V} {m : Store K V} (h : ValOK f m) (k : K) : ValOK f (bumpHits k m) := by
  intro x e he
  rcases mem_modify he with h1 | ⟨e0, h1, h2⟩
  · exact h x e h1
  · rw [h2]; exact h x e0 h1

theorem ValOK.insert {f : K → V} (cfg : Cfg) (tl : Tlru S) (r : Nat) (s : State K V) (k : K)
    (h : ValOK f s.store) : ValOK f (Cachelito.insert cfg tl r s k (f k)).store := by
  unfold Cachelito.insert
  cases cfg.flavour <;> simp only
  case async =>
    have h0 := asyncDrop_sublist k s.store s.queue
    generalize (if hasKey k s.store then (eraseKey k s.store, s.queue.filter (fun x => x ≠ k))
      else (s.store, s.queue)) = p at h0
    obtain ⟨m0, q0⟩ := p
    exact (h.sublist ((limitStep_shr cfg tl s.now r m0 q0).store.trans h0)).put k _ _
  all_goals exact (h.put k _ _).sublist (limitStep_shr cfg tl s.now r _ _).store

theorem ValOK.insertMem {f : K → V} (cfg : Cfg) (tl : Tlru S) (size : V → Nat) (rs : List Nat) (s : State K V) (k : K)
    (h : ValOK f s.store) : ValOK f (Cachelito.insertMem cfg tl size rs s k (f k)).store := by
  unfold Cachelito.insertMem
  cases cfg.flavour <;> simp only
  case async =>
    have h0 := asyncDrop_sublist k s.store s.queue
    generalize (if hasKey k s.store then (eraseKey k s.store, s.queue.filter (fun x => x ≠ k))
      else (s.store, s.queue)) = p at h0
    obtain ⟨m0, q0⟩ := p
    simp only at h0 ⊢
    cases cfg.maxMem with
    | none => exact (h.sublist ((limitStep_shr cfg tl s.now _ m0 q0).store.trans h0)).put k _ _
    | some maxM =>
      simp only
      split
      · exact h.sublist h0
      · have h1 := memLoop_shr cfg tl size s.now maxM (size (f k)) (q0.length + 1) rs m0 q0
        generalize memLoop cfg tl size s.now maxM (size (f k)) (q0.length + 1) rs m0 q0 = r1 at h1
        obtain ⟨m1, q1, rs1⟩ := r1
        exact (h.sublist (((limitStep_shr cfg tl s.now _ m1 q1).store.trans h1.store).trans h0)).put k _ _
  all_goals
    have hp := h.put k (stamp cfg s.now) 0
    cases cfg.maxMem with
    | none => exact hp.sublist (limitStep_shr cfg tl s.now _ _ _).store
    | some maxM =>
      simp only
      split
      · exact hp.sublist (eraseKey_sublist _ _)
      · have h1 := memLoop_shr cfg tl size s.now maxM 0 ((erasePush k s.queue).length + 1) rs
          (Cachelito.put k ⟨f k, stamp cfg s.now, 0⟩ s.store) (erasePush k s.queue)
        generalize memLoop cfg tl size s.now maxM 0 ((erasePush k s.queue).length + 1) rs
          (Cachelito.put k ⟨f k, stamp cfg s.now, 0⟩ s.store) (erasePush k s.queue) = r1 at h1
        obtain ⟨m1, q1, rs1⟩ := r1
        exact hp.sublist ((limitStep_shr cfg tl s.now _ m1 q1).store.trans h1.store)

theorem ValOK.invalidateWith {f : K → V} (p : K → Bool) (s : State K V) (h : ValOK f s.store) :
    ValOK f (Cachelito.invalidateWith p s).store := by
  unfold Cachelito.invalidateWith; exact h.sublist List.filter_sublist

theorem ValOK.removeBoth {f : K → V} (cfg : Cfg) (k : K) {m : Store K V} (q : List K) (h : ValOK f m) :
    ValOK f (removeBoth cfg k m q).1 := h.sublist (removeBoth_shr cfg k m q).store

/-- **Values, one micro-step** (fixed and legacy code alike): if every stored pair is `(k, f k)`, the
    current operation writes `f` of its key and the value carried by the operation in progress is `f` of
    its key, then the same holds after the micro-step, and a lookup finishing in this micro-step reports
    `f` of its key. -/
theorem micro_val {f : K → V} (legacy : Bool) (cfg : Cfg) (tl : Tlru S) (size : V → Nat) (s : State K V)
    (op : Op K V) (rs : List Nat) (pend : Option (Pend K V))
    (hs : ValOK f s.store) (hop : OpOK f op) (hp : ∀ p, pend = some p → PendOK f p) :
    ValOK f (micro legacy cfg tl size s op rs pend).1.store ∧ ResOK f (micro legacy cfg tl size s op rs pend).2 := by
  cases pend with
  | none =>
    simp only [micro]
    cases op with
    | get k =>
      simp only [first]
      cases hl : lookup k s.store with
      | none => exact ⟨hs, by intro k' v _ ho; cases ho⟩
      | some e =>
        have hev : e.val = f k := hs k e (lookup_mem hl)
        simp only
        split
        · refine ⟨hs, ?_⟩
          split <;> exact trivial
        · split
          · have hm1 : ValOK f (if cfg.policy.bumps = true then bumpHits k s.store else s.store) := by
              split
              · exact hs.bumpHits k
              · exact hs
            split
            · exact ⟨hm1, hev⟩
            · refine ⟨hm1, ?_⟩
              intro k' v hk ho
              cases hk; cases ho; exact hev
          · split
            · exact ⟨hs, hev⟩
            · split
              · exact ⟨hs, hev⟩
              · refine ⟨hs, ?_⟩
                intro k' v hk ho
                cases hk; cases ho; exact hev
    | insert k v =>
      simp only [OpOK] at hop
      subst hop
      simp only [first]
      split
      · exact ⟨hs.insert cfg tl _ s k, by intro k' v hk; cases hk⟩
      · exact ⟨hs.put k _ _, rfl⟩
    | insertMem k v =>
      simp only [OpOK] at hop
      subst hop
      simp only [first]
      split
      · exact ⟨hs.insertMem cfg tl size rs s k, by intro k' v hk; cases hk⟩
      · exact ⟨hs.put k _ _, rfl⟩
    | clear =>
      simp only [first]
      split
      · exact ⟨ValOK.nil f, trivial⟩
      · exact ⟨ValOK.nil f, by intro k' v hk; cases hk⟩
    | invalidateWith p =>
      simp only [first]
      split
      · exact ⟨hs, trivial⟩
      · exact ⟨hs.invalidateWith p s, by intro k' v hk; cases hk⟩
    | tick ms => exact ⟨hs, by intro k' v hk; cases hk⟩
  | some p =>
    have hpp := hp p rfl
    have hnoop : ValOK f (noop s).1.store ∧ ResOK f (noop s : State K V × Res K V).2 :=
      ⟨hs, by intro k' v hk; cases hk⟩
    have hexp : ∀ k, ValOK f (expireStep cfg s k).1.store ∧ ResOK f (expireStep cfg s k).2 :=
      fun k => ⟨hs.removeBoth cfg k s.queue, by intro k' v _ ho; cases ho⟩
    simp only [micro]
    split
    · cases p with
      | expire k => exact hexp k
      | refresh k v =>
        refine ⟨hs, ?_⟩
        intro k' v' hk ho; cases hk; cases ho; exact hpp
      | purge p ks =>
        exact ⟨hs.sublist (foldl_eraseKey_sublist ks s.store), by intro k' v hk; cases hk⟩
      | legacyClearQueue =>
        simp only [contAsync]
        split
        · exact ⟨hs, by intro k' v hk; cases hk⟩
        · exact hnoop
      | legacyDrop k =>
        simp only [contAsync]
        split
        · exact ⟨hs.sublist (eraseKey_sublist k _), trivial⟩
        · exact hnoop
      | legacyRetain k =>
        simp only [contAsync]
        split
        · exact ⟨hs, by intro k' v _ ho; cases ho⟩
        · exact hnoop
      | move k v => exact hnoop
      | bump k v => exact hnoop
      | track k v r => exact hnoop
      | trackMem k v rs => exact hnoop
    · cases p with
      | expire k => exact hexp k
      | move k v =>
        simp only [contSync]
        split
        · exact ⟨hs, hpp⟩
        · refine ⟨hs, ?_⟩
          intro k' v' hk ho; cases hk; cases ho; exact hpp
      | bump k v =>
        refine ⟨hs.bumpHits k, ?_⟩
        intro k' v' hk ho; cases hk; cases ho; exact hpp
      | track k v r =>
        exact ⟨hs.sublist (limitStep_shr cfg tl s.now r s.store _).store, by intro k' v hk; cases hk⟩
      | trackMem k v rs =>
        exact ⟨hs.sublist (trackMemStep_shr cfg tl size rs s k).store, by intro k' v hk; cases hk⟩
      | legacyClearQueue =>
        simp only [contSync]
        split
        · exact ⟨hs, by intro k' v hk; cases hk⟩
        · exact hnoop
      | refresh k v => exact hnoop
      | purge p ks => exact hnoop
      | legacyDrop k => exact hnoop
      | legacyRetain k => exact hnoop

/-- **Master shape lemma**: a step of the system = one micro-step of one thread `t` (at the head of its
    program) on the shared state; the thread list changes at that thread only. -/
theorem cstepWith_cases {legacy : Bool} {cfg : Cfg} {tl : Tlru S} {size : V → Nat} {c c' : CState K V} {i : Nat}
    (h : cstepWith legacy cfg tl size c i = some c') :
    ∃ t op rs rest l1 l2, c.threads = l1 ++ t :: l2 ∧ t.prog = (op, rs) :: rest ∧
      c'.shared = (micro legacy cfg tl size c.shared op rs t.pend).1 ∧
      ((∃ p, (micro legacy cfg tl size c.shared op rs t.pend).2 = .more p ∧
          c'.threads = l1 ++ { t with pend := some p } :: l2) ∨
       (∃ op' o, (micro legacy cfg tl size c.shared op rs t.pend).2 = .fin op' o ∧
          c'.threads = l1 ++ { prog := rest, pend := none, done := t.done ++ [(op', o)] } :: l2)) := by
  obtain ⟨t, s', t', hi, hts, hc⟩ := cstepWith_some h
  obtain ⟨op, rs, rest, hprog, hcase⟩ := tstep_some hts
  obtain ⟨l1, l2, hl, hset⟩ := set_decomp hi t'
  refine ⟨t, op, rs, rest, l1, l2, hl, hprog, ?_, ?_⟩
  · rcases hcase with ⟨p, hm, _⟩ | ⟨op', o, hm, _⟩ <;> rw [hc, hm]
  · rcases hcase with ⟨p, hm, ht'⟩ | ⟨op', o, hm, ht'⟩
    · left; refine ⟨p, by rw [hm], ?_⟩
      rw [hc]; simp only; rw [hset, ht']
    · right; refine ⟨op', o, by rw [hm], ?_⟩
      rw [hc]; simp only; rw [hset, ht']

/-- the thread-local part of the values invariant -/
def ThreadOK (f : K → V) (t : Thread K V) : Prop :=
  (∀ x, x ∈ t.prog → OpOK f x.1) ∧ (∀ p, t.pend = some p → PendOK f p) ∧ (∀ r, r ∈ t.done → RecOK f r.1 r.2)

/-- the values invariant of the interleaving model -/
def ValInv (f : K → V) (c : CState K V) : Prop :=
  ValOK f c.shared.store ∧ ∀ t, t ∈ c.threads → ThreadOK f t

theorem cstepWith_val {f : K → V} {legacy : Bool} {cfg : Cfg} {tl : Tlru S} {size : V → Nat}
    (c : CState K V) (i : Nat) (c' : CState K V) (hv : ValInv f c)
    (h : cstepWith legacy cfg tl size c i = some c') : ValInv f c' := by
  obtain ⟨t, op, rs, rest, l1, l2, hl, hprog, hsh, hth⟩ := cstepWith_cases h
  have htm : t ∈ c.threads := by rw [hl]; simp
  obtain ⟨htp, htpend, htd⟩ := hv.2 t htm
  have hop : OpOK f op := htp (op, rs) (by rw [hprog]; exact List.mem_cons_self)
  have hm := micro_val legacy cfg tl size c.shared op rs t.pend hv.1 hop htpend
  refine ⟨by rw [hsh]; exact hm.1, ?_⟩
  have hothers : ∀ x, x ∈ l1 ∨ x ∈ l2 → ThreadOK f x := by
    intro x hx; apply hv.2; rw [hl]
    rcases hx with hx | hx
    · exact List.mem_append_left _ hx
    · exact List.mem_append_right _ (List.mem_cons_of_mem _ hx)
  rcases hth with ⟨p, hr, hts⟩ | ⟨op', o, hr, hts⟩
  · intro x hx
    rw [hts] at hx
    rcases List.mem_append.mp hx with hx | hx
    · exact hothers x (Or.inl hx)
    · rcases List.mem_cons.mp hx with hx | hx
      · subst hx
        refine ⟨htp, ?_, htd⟩
        intro p' hp'
        simp only [Option.some.injEq] at hp'
        subst hp'
        have := hm.2; rw [hr] at this; exact this
      · exact hothers x (Or.inr hx)
  · intro x hx
    rw [hts] at hx
    rcases List.mem_append.mp hx with hx | hx
    · exact hothers x (Or.inl hx)
    · rcases List.mem_cons.mp hx with hx | hx
      · subst hx
        refine ⟨?_, ?_, ?_⟩
        · intro y hy; exact htp y (by rw [hprog]; exact List.mem_cons_of_mem _ hy)
        · intro p' hp'; cases hp'
        · intro r hr'
          rcases List.mem_append.mp hr' with h1 | h1
          · exact htd r h1
          · simp only [List.mem_singleton] at h1
            subst h1
            have := hm.2; rw [hr] at this; exact this
      · exact hothers x (Or.inr hx)

theorem valInv_start {f : K → V} (s : State K V) (progs : List (List (Op K V × List Nat)))
    (hs : ValOK f s.store) (hp : ∀ prog, prog ∈ progs → ∀ x, x ∈ prog → OpOK f x.1) :
    ValInv f (CState.start s progs) := by
  refine ⟨hs, ?_⟩
  intro t ht
  simp only [CState.start, List.mem_map] at ht
  obtain ⟨prog, hprog, rfl⟩ := ht
  refine ⟨hp prog hprog, ?_, ?_⟩
  · intro p h; simp [Thread.start] at h
  · intro r h; simp [Thread.start] at h

/-! ## §4 Async engine -/

theorem isAsync_of {cfg : Cfg} (hf : cfg.flavour = .async) : isAsync cfg = true := by
  simp [isAsync, hf]

theorem isAsync_false_of {cfg : Cfg} (hf : cfg.flavour ≠ .async) : isAsync cfg = false := by
  unfold isAsync; cases h : cfg.flavour <;> simp_all

/-- removing a list of keys from both structures (the async conditional-invalidation section) -/
theorem InvMQ.purge {m : Store K V} {q : List K} (h : InvMQ m q) (ks : List K) :
    InvMQ (ks.foldl (fun m k => eraseKey k m) m) (ks.foldl (fun q k => q.erase k) q) := by
  induction ks generalizing m q with
  | nil => exact h
  | cons k ks ih => exact ih (h.remove_erase k)

/-- **Async, one micro-step keeps the sequential invariant**: the queue is a duplicate-free enumeration
    of the stored keys after EVERY critical section of every operation. -/
theorem micro_async_inv (cfg : Cfg) (tl : Tlru S) (size : V → Nat) (s : State K V)
    (op : Op K V) (rs : List Nat) (pend : Option (Pend K V)) (hf : cfg.flavour = .async) (h : Inv s) :
    Inv (micro false cfg tl size s op rs pend).1 := by
  have ha := isAsync_of hf
  cases pend with
  | none =>
    simp only [micro]
    cases op with
    | get k =>
      simp only [first, ha, Bool.false_and, if_true]
      cases hl : lookup k s.store with
      | none => exact h
      | some e =>
        simp only
        split
        · exact h
        · have hm1 : InvMQ (if cfg.policy.bumps = true then bumpHits k s.store else s.store) s.queue := by
            split
            · exact InvMQ.bumpHits h k
            · exact h
          split <;> exact hm1
    | insert k v => simp only [first, ha, if_true]; exact insert_inv cfg tl _ s k v h
    | insertMem k v => simp only [first, ha, if_true]; exact insertMem_inv cfg tl size rs s k v h
    | clear => simp only [first, Bool.false_eq_true, if_false]; exact clear_inv s
    | invalidateWith p => simp only [first, ha, if_true]; exact h
    | tick ms => exact h
  | some p =>
    simp only [micro, ha, if_true]
    cases p with
    | expire k => exact InvMQ.removeBoth h cfg k
    | refresh k v =>
      simp only [contAsync, Inv]
      split
      · rename_i hk; exact InvMQ.retainPush h ((hasKey_iff k _).mp hk)
      · exact h
    | purge p ks => exact InvMQ.purge h ks
    | legacyClearQueue => exact h
    | legacyDrop k => exact h
    | legacyRetain k => exact h
    | move k v => exact h
    | bump k v => exact h
    | track k v r => exact h
    | trackMem k v rs => exact h

theorem length_foldl_eraseKey_le (ks : List K) (m : Store K V) :
    (ks.foldl (fun m k => eraseKey k m) m).length ≤ m.length := (foldl_eraseKey_sublist ks m).length_le

/-- **Async, one micro-step keeps the entry bound** (`limit = n ≥ 1`). -/
theorem micro_async_bound (cfg : Cfg) (tl : Tlru S) (size : V → Nat) (s : State K V)
    (op : Op K V) (rs : List Nat) (pend : Option (Pend K V)) (hf : cfg.flavour = .async)
    (n : Nat) (hl : cfg.limit = some n) (hn : 1 ≤ n) (h : Inv s) (hb : s.store.length ≤ n) :
    (micro false cfg tl size s op rs pend).1.store.length ≤ n := by
  have ha := isAsync_of hf
  cases pend with
  | none =>
    simp only [micro]
    cases op with
    | get k =>
      simp only [first, ha, Bool.false_and, if_true]
      cases hl : lookup k s.store with
      | none => exact hb
      | some e =>
        simp only
        split
        · exact hb
        · have hm1 : (if cfg.policy.bumps = true then bumpHits k s.store else s.store).length ≤ n := by
            split
            · simp only [bumpHits, length_modify]; exact hb
            · exact hb
          split <;> exact hm1
    | insert k v =>
      simp only [first, ha, if_true]
      rw [C04.insert_exact cfg tl _ s k v n hl hn h hb]; exact Nat.min_le_left _ _
    | insertMem k v =>
      simp only [first, ha, if_true]; exact C04.insertMem_bound cfg tl size rs s k v n hl hn h hb
    | clear => simp [first, Cachelito.clear]
    | invalidateWith p => simp only [first, ha, if_true]; exact hb
    | tick ms => exact hb
  | some p =>
    simp only [micro, ha, if_true]
    cases p with
    | expire k => exact Nat.le_trans (C04.removeBoth_length_le cfg k _ _) hb
    | refresh k v => exact hb
    | purge p ks => exact Nat.le_trans (length_foldl_eraseKey_le ks _) hb
    | legacyClearQueue => exact hb
    | legacyDrop k => exact hb
    | legacyRetain k => exact hb
    | move k v => exact hb
    | bump k v => exact hb
    | track k v r => exact hb
    | trackMem k v rs => exact hb

theorem totalMem_sublist_le (size : V → Nat) {m m' : Store K V} (h : m'.Sublist m) :
    totalMem size m' ≤ totalMem size m := by
  induction h with
  | slnil => exact Nat.le_refl _
  | cons a _ ih => simp only [totalMem, List.map_cons, List.sum_cons] at ih ⊢; omega
  | cons_cons a _ ih => simp only [totalMem, List.map_cons, List.sum_cons] at ih ⊢; omega

/-- **Async, one micro-step keeps the memory bound** (`max_memory = M`, stores via `insert_with_memory`). -/
theorem micro_async_mem (cfg : Cfg) (tl : Tlru S) (size : V → Nat) (s : State K V)
    (op : Op K V) (rs : List Nat) (pend : Option (Pend K V)) (hf : cfg.flavour = .async)
    (M : Nat) (hM : cfg.maxMem = some M) (hop : op.viaMem = true) (h : Inv s) (hb : totalMem size s.store ≤ M) :
    totalMem size (micro false cfg tl size s op rs pend).1.store ≤ M := by
  have ha := isAsync_of hf
  cases pend with
  | none =>
    simp only [micro]
    cases op with
    | get k =>
      simp only [first, ha, Bool.false_and, if_true]
      cases hl : lookup k s.store with
      | none => exact hb
      | some e =>
        simp only
        split
        · exact hb
        · have hm1 : totalMem size (if cfg.policy.bumps = true then bumpHits k s.store else s.store) ≤ M := by
            split
            · rw [totalMem_bumpHits]; exact hb
            · exact hb
          split <;> exact hm1
    | insert k v => simp [Op.viaMem] at hop
    | insertMem k v =>
      simp only [first, ha, if_true]; exact C05.insertMem_bound cfg tl size rs s k v M hM h hb
    | clear => simp [first, Cachelito.clear, totalMem]
    | invalidateWith p => simp only [first, ha, if_true]; exact hb
    | tick ms => exact hb
  | some p =>
    simp only [micro, ha, if_true]
    cases p with
    | expire k => exact Nat.le_trans (totalMem_removeBoth_le size cfg k _ _) hb
    | refresh k v => exact hb
    | purge p ks => exact Nat.le_trans (totalMem_sublist_le size (foldl_eraseKey_sublist ks _)) hb
    | legacyClearQueue => exact hb
    | legacyDrop k => exact hb
    | legacyRetain k => exact hb
    | move k v => exact hb
    | bump k v => exact hb
    | track k v r => exact hb
    | trackMem k v rs => exact hb

/-- every operation still to be run by any thread satisfies `P` -/
def ProgAll (P : Op K V → Prop) (c : CState K V) : Prop := ∀ t, t ∈ c.threads → ∀ x, x ∈ t.prog → P x.1

theorem cstepWith_progAll {legacy : Bool} {cfg : Cfg} {tl : Tlru S} {size : V → Nat} {P : Op K V → Prop}
    {c c' : CState K V} {i : Nat} (hp : ProgAll P c) (h : cstepWith legacy cfg tl size c i = some c') :
    ProgAll P c' := by
  obtain ⟨t, op, rs, rest, l1, l2, hl, hprog, hsh, hth⟩ := cstepWith_cases h
  have htm : t ∈ c.threads := by rw [hl]; simp
  have hothers : ∀ x, x ∈ l1 ∨ x ∈ l2 → x ∈ c.threads := by
    intro x hx; rw [hl]
    rcases hx with hx | hx
    · exact List.mem_append_left _ hx
    · exact List.mem_append_right _ (List.mem_cons_of_mem _ hx)
  intro x hx
  rcases hth with ⟨p, _, hts⟩ | ⟨op', o, _, hts⟩ <;> rw [hts] at hx
  all_goals
    rcases List.mem_append.mp hx with hx | hx
    · exact hp x (hothers x (Or.inl hx))
    · rcases List.mem_cons.mp hx with hx | hx
      · subst hx
        intro y hy
        first
          | exact hp t htm y hy
          | exact hp t htm y (by rw [hprog]; exact List.mem_cons_of_mem _ hy)
      · exact hp x (hothers x (Or.inr hx))

/-- the operation a stepping thread executes is one of its program -/
theorem cstepWith_shared {legacy : Bool} {cfg : Cfg} {tl : Tlru S} {size : V → Nat} {c c' : CState K V} {i : Nat}
    (h : cstepWith legacy cfg tl size c i = some c') :
    ∃ t op rs, t ∈ c.threads ∧ (op, rs) ∈ t.prog ∧
      c'.shared = (micro legacy cfg tl size c.shared op rs t.pend).1 := by
  obtain ⟨t, op, rs, rest, l1, l2, hl, hprog, hsh, _⟩ := cstepWith_cases h
  exact ⟨t, op, rs, by rw [hl]; simp, by rw [hprog]; exact List.mem_cons_self, hsh⟩

theorem progAll_start (P : Op K V → Prop) (s : State K V) (progs : List (List (Op K V × List Nat)))
    (hp : ∀ prog, prog ∈ progs → ∀ x, x ∈ prog → P x.1) : ProgAll P (CState.start s progs) := by
  intro t ht
  simp only [CState.start, List.mem_map] at ht
  obtain ⟨prog, hprog, rfl⟩ := ht
  exact hp prog hprog

/-! ## §5 Sync engine: the invariant with in-flight stores -/

/-- `P` = the keys of the stores in flight (written to the store, queue section not yet run).
    Store keys distinct, queue duplicate-free, and every stored key that is missing from the queue is
    the key of a store in flight.  Orphan queue keys (queued, not stored) are allowed. -/
structure SyncInv (m : Store K V) (q : List K) (P : List K) : Prop where
  keysNodup : (keys m).Nodup
  queueNodup : q.Nodup
  tracked : ∀ x, x ∈ keys m → x ∉ q → x ∈ P

theorem SyncInv.congr {m : Store K V} {q P P' : List K} (h : SyncInv m q P) (hp : ∀ x, x ∈ P → x ∈ P') :
    SyncInv m q P' := ⟨h.keysNodup, h.queueNodup, fun x hx hq => hp x (h.tracked x hx hq)⟩

theorem SyncInv.shr {m m' : Store K V} {q q' P : List K} (h : SyncInv m q P) (hs : Shr m q m' q') :
    SyncInv m' q' P :=
  ⟨hs.keys_nodup h.keysNodup, hs.queue_nodup h.queueNodup,
   fun x hx hq => h.tracked x (hs.keys_sub x hx) (fun hxq => hq (hs.keep x hx hxq))⟩

theorem SyncInv.of_inv {m : Store K V} {q : List K} (h : InvMQ m q) (P : List K) : SyncInv m q P :=
  ⟨h.1, h.2.1, fun x hx hq => absurd ((h.2.2 x).mpr hx) hq⟩

/-- the store write of a sync store: the key joins the in-flight keys -/
theorem SyncInv.put {m : Store K V} {q P : List K} (h : SyncInv m q P) (k : K) (e : Entry V) :
    SyncInv (Cachelito.put k e m) q (k :: P) := by
  refine ⟨nodup_keys_put h.keysNodup k e, h.queueNodup, ?_⟩
  intro x hx hq
  rw [keys_put] at hx
  rcases List.mem_append.mp hx with hx | hx
  · exact List.mem_cons_of_mem _ (h.tracked x (List.mem_filter.mp hx).1 hq)
  · simp only [List.mem_singleton] at hx; rw [hx]; exact List.mem_cons_self

/-- the queue push of a sync store: the key leaves the in-flight keys -/
theorem SyncInv.erasePush {m : Store K V} {q P : List K} {k : K} (h : SyncInv m q (k :: P)) :
    SyncInv m (Cachelito.erasePush k q) P := by
  refine ⟨h.keysNodup, nodup_erase_append h.queueNodup k, ?_⟩
  intro x hx hq
  rw [mem_erasePush] at hq
  have hxk : x ≠ k := fun hh => hq (Or.inr hh)
  have := h.tracked x hx (fun hh => hq (Or.inl hh))
  rcases List.mem_cons.mp this with h1 | h1
  · exact absurd h1 hxk
  · exact h1

theorem SyncInv.moveToEnd {m : Store K V} {q P : List K} (h : SyncInv m q P) (k : K) :
    SyncInv m (Cachelito.moveToEnd k q) P :=
  ⟨h.keysNodup, nodup_moveToEnd h.queueNodup, fun x hx hq => h.tracked x hx (fun hh => hq (mem_moveToEnd.mpr hh))⟩

theorem SyncInv.bumpHits {m : Store K V} {q P : List K} (h : SyncInv m q P) (k : K) :
    SyncInv (Cachelito.bumpHits k m) q P := by
  refine ⟨by rw [keys_bumpHits]; exact h.keysNodup, h.queueNodup, ?_⟩
  intro x hx; rw [keys_bumpHits] at hx; exact h.tracked x hx

theorem SyncInv.nil (P : List K) : SyncInv ([] : Store K V) [] P :=
  ⟨List.nodup_nil, List.nodup_nil, fun x hx => by cases hx⟩

theorem mem_foldl_erase_of_not_mem {ks q : List K} {x : K} (hx : x ∈ q) (hn : x ∉ ks) :
    x ∈ ks.foldl (fun q k => q.erase k) q := by
  induction ks generalizing q with
  | nil => exact hx
  | cons k ks ih =>
    simp only [List.mem_cons, not_or] at hn
    exact ih ((List.mem_erase_of_ne hn.1).mpr hx) hn.2

/-- the (atomic) sync conditional invalidation is a shrinking step -/
theorem invalidateWith_shr (p : K → Bool) (s : State K V) :
    Shr s.store s.queue (Cachelito.invalidateWith p s).store (Cachelito.invalidateWith p s).queue := by
  unfold Cachelito.invalidateWith
  refine ⟨List.filter_sublist, foldl_erase_sublist _ _, ?_⟩
  intro x hx hq
  simp only at hx ⊢
  rw [keys_filter_key (fun k => !p k)] at hx
  apply mem_foldl_erase_of_not_mem hq
  intro hh
  have h1 := (List.mem_filter.mp hx).2
  have h2 := (List.mem_filter.mp hh).2
  simp [h2] at h1

/-- in-flight key left by a micro-step -/
def resKeys : Res K V → List K
  | .more p => ownKeys (some p)
  | .fin _ _ => []

/-- **Sync, one micro-step keeps the in-flight invariant.**  `others` = in-flight keys of the other threads. -/
theorem micro_sync_inv (cfg : Cfg) (tl : Tlru S) (size : V → Nat) (s : State K V)
    (op : Op K V) (rs : List Nat) (pend : Option (Pend K V)) (hf : cfg.flavour ≠ .async) (others : List K)
    (h : SyncInv s.store s.queue (ownKeys pend ++ others)) :
    SyncInv (micro false cfg tl size s op rs pend).1.store (micro false cfg tl size s op rs pend).1.queue
      (resKeys (micro false cfg tl size s op rs pend).2 ++ others) := by
  have ha := isAsync_false_of hf
  cases pend with
  | none =>
    simp only [ownKeys, List.nil_append] at h
    simp only [micro]
    cases op with
    | get k =>
      simp only [first, ha, Bool.and_false, Bool.false_eq_true, if_false]
      cases hl : lookup k s.store with
      | none => exact h
      | some e =>
        simp only
        split
        · exact h
        · split
          · exact h
          · split <;> exact h
    | insert k v => simp only [first, ha, Bool.false_eq_true, if_false]; exact h.put k _
    | insertMem k v => simp only [first, ha, Bool.false_eq_true, if_false]; exact h.put k _
    | clear => simp only [first, Bool.false_eq_true, if_false]; exact SyncInv.nil _
    | invalidateWith p =>
      simp only [first, ha, Bool.false_eq_true, if_false]; exact h.shr (invalidateWith_shr p s)
    | tick ms => exact h
  | some p =>
    simp only [micro, ha, Bool.false_eq_true, if_false]
    cases p with
    | expire k => exact h.shr (removeBoth_shr cfg k s.store s.queue)
    | move k v =>
      simp only [contSync]
      split
      · exact h.moveToEnd k
      · exact h.moveToEnd k
    | bump k v => exact h.bumpHits k
    | track k v r => exact (SyncInv.erasePush h).shr (limitStep_shr cfg tl s.now r s.store _)
    | trackMem k v rs => exact (SyncInv.erasePush h).shr (trackMemStep_shr cfg tl size rs s k)
    | legacyClearQueue => exact h
    | refresh k v => exact h
    | purge p ks => exact h
    | legacyDrop k => exact h
    | legacyRetain k => exact h

/-! ### The entry bound with stores in flight -/

/-- policies whose over-limit step always removes a queue slot (FIFO / LRU pop the front, Random removes
    a position); LFU / ARC / TLRU remove nothing when no queued key is stored -/
def PopsSlot (cfg : Cfg) : Prop := cfg.policy = .fifo ∨ cfg.policy = .lru ∨ cfg.policy = .random

/-- the two halves of the sync entry bound, `P` = in-flight keys:
    * every policy but Random: at most `n + |P|` entries (each store in flight may hold one extra entry);
    * FIFO / LRU / Random: the queue never has more than `n` slots between two critical sections. -/
structure SyncBound (cfg : Cfg) (n : Nat) (m : Store K V) (q : List K) (P : List K) : Prop where
  entries : cfg.policy ≠ .random → m.length ≤ n + P.length
  slots : PopsSlot cfg → q.length ≤ n

theorem popStored_queue_lt (m : Store K V) {q : List K} (hq : q ≠ []) : (popStored m q).2.1.length < q.length := by
  induction q with
  | nil => exact absurd rfl hq
  | cons a q ih =>
    simp only [popStored]
    split
    · simp
    · cases q with
      | nil => simp [popStored]
      | cons b q => have := ih (by simp); simp only [List.length_cons] at this ⊢; omega

theorem evictRandom_queue_lt (r : Nat) (m : Store K V) {q : List K} (hq : q ≠ []) :
    (evictRandom r m q).2.1.length < q.length := by
  have hpos : 0 < q.length := List.length_pos_iff.mpr hq
  have hlt : r % q.length < q.length := Nat.mod_lt _ hpos
  unfold evictRandom
  rw [List.getElem?_eq_getElem hlt]
  simp only [List.length_eraseIdx_of_lt hlt]
  omega

theorem overLimit_sync {cfg : Cfg} (hf : cfg.flavour ≠ .async) (n : Nat) (m : Store K V) (q : List K) :
    overLimit cfg n m q = decide (q.length > n) := by
  unfold overLimit; cases h : cfg.flavour <;> simp_all

/-- FIFO / LRU / Random: a queue of at most `n + 1` slots has at most `n` after the entry-limit step -/
theorem limitStep_slots {cfg : Cfg} (hf : cfg.flavour ≠ .async) (tl : Tlru S) (now r n : Nat)
    (hl : cfg.limit = some n) (hp : PopsSlot cfg) (m : Store K V) (q : List K) (hq : q.length ≤ n + 1) :
    (limitStep cfg tl now r m q).2.length ≤ n := by
  unfold limitStep
  rw [hl]
  simp only [overLimit_sync hf]
  by_cases ho : q.length > n
  · simp only [ho, decide_true, if_true]
    have hne : q ≠ [] := by intro hh; rw [hh] at ho; simp at ho
    unfold evictLimit
    rcases hp with hp | hp | hp <;> rw [hp] <;> simp only
    · have := popStored_queue_lt m hne; omega
    · have := popStored_queue_lt m hne; omega
    · have := evictRandom_queue_lt r m hne; omega
  · simp only [ho, decide_false, if_false, Bool.false_eq_true]; omega

theorem popStored_strict {m : Store K V} (hn : (keys m).Nodup) {q : List K} (hex : ∃ x, x ∈ q ∧ x ∈ keys m) :
    (popStored m q).1.length + 1 = m.length := by
  induction q with
  | nil => obtain ⟨x, hx, _⟩ := hex; cases hx
  | cons a q ih =>
    simp only [popStored]
    by_cases ha : hasKey a m = true
    · simp only [ha, if_true]
      exact length_eraseKey_of_mem hn ((hasKey_iff a m).mp ha)
    · simp only [ha, if_false, Bool.false_eq_true]
      apply ih
      obtain ⟨x, hx, hxm⟩ := hex
      rcases List.mem_cons.mp hx with h | h
      · subst h; exact absurd ((hasKey_iff x m).mpr hxm) ha
      · exact ⟨x, h, hxm⟩

theorem removeBoth_store (cfg : Cfg) (k : K) (m : Store K V) (q : List K) : (removeBoth cfg k m q).1 = eraseKey k m := by
  unfold removeBoth; cases cfg.flavour <;> rfl

theorem evictScored_strict {cfg : Cfg} (tl : Tlru S) (now : Nat) {m : Store K V} (hn : (keys m).Nodup) {q : List K}
    (hp : cfg.policy = .lfu ∨ cfg.policy = .arc ∨ cfg.policy = .tlru) (hex : ∃ x, x ∈ q ∧ x ∈ keys m) :
    (evictScored cfg tl now m q).1.length + 1 = m.length := by
  unfold evictScored
  cases hv : victim cfg tl now m q with
  | none =>
    obtain ⟨x, hx, hxm⟩ := hex
    exact absurd hxm (victim_none hp hv x hx)
  | some k =>
    simp only [removeBoth_store]
    exact length_eraseKey_of_mem hn (victim_mem hv).2

/-- every policy but Random: the over-limit step removes a stored entry whenever some queued key is stored -/
theorem evictLimit_strict {cfg : Cfg} (tl : Tlru S) (now r : Nat) {m : Store K V} (hn : (keys m).Nodup) {q : List K}
    (hp : cfg.policy ≠ .random) (hex : ∃ x, x ∈ q ∧ x ∈ keys m) :
    (evictLimit cfg tl now r m q).1.length + 1 = m.length := by
  unfold evictLimit
  cases hpol : cfg.policy <;> simp only
  · exact popStored_strict hn hex
  · exact popStored_strict hn hex
  · exact evictScored_strict tl now hn (Or.inl hpol) hex
  · exact evictScored_strict tl now hn (Or.inr (Or.inl hpol)) hex
  · exact absurd hpol hp
  · exact evictScored_strict tl now hn (Or.inr (Or.inr hpol)) hex

/-- counting: the stored keys split into the queued ones and the untracked ones -/
theorem keys_split_length (m : Store K V) (q : List K) :
    m.length = ((keys m).filter (fun x => decide (x ∈ q))).length + ((keys m).filter (fun x => decide (x ∉ q))).length := by
  rw [← length_keys, List.length_eq_countP_add_countP (fun x => decide (x ∈ q)),
    List.countP_eq_length_filter, List.countP_eq_length_filter]
  simp

/-- **The capacity argument.**  In the sync engine, under every policy but Random: if all untracked
    stored keys belong to the `|P|` stores in flight and the store holds at most `n + |P| + 1` entries,
    then after the entry-limit step it holds at most `n + |P|` entries — when the count is tight, more
    than `n` stored keys are queued, so the queue is over the limit AND contains a stored key, which the
    step finds and removes (it skips orphans / scans stored keys only). -/
theorem limit_tight {cfg : Cfg} (hf : cfg.flavour ≠ .async) (tl : Tlru S) (now r n : Nat)
    (hl : cfg.limit = some n) (hp : cfg.policy ≠ .random) {m : Store K V} {q P : List K}
    (h : SyncInv m q P) (hb : m.length ≤ n + P.length + 1) :
    (limitStep cfg tl now r m q).1.length ≤ n + P.length := by
  by_cases hle : m.length ≤ n + P.length
  · exact Nat.le_trans (limitStep_shr cfg tl now r m q).length_le hle
  · have hsplit := keys_split_length m q
    have hU : ((keys m).filter (fun x => decide (x ∉ q))).length ≤ P.length := by
      apply List.Nodup.length_le_of_subset (List.Nodup.sublist List.filter_sublist h.keysNodup)
      intro x hx
      have := List.mem_filter.mp hx
      exact h.tracked x this.1 (by simpa using this.2)
    have hR : ((keys m).filter (fun x => decide (x ∈ q))).length ≤ q.length := by
      apply List.Nodup.length_le_of_subset (List.Nodup.sublist List.filter_sublist h.keysNodup)
      intro x hx
      have := List.mem_filter.mp hx
      simpa using this.2
    have hex : ∃ x, x ∈ q ∧ x ∈ keys m := by
      have hpos : 0 < ((keys m).filter (fun x => decide (x ∈ q))).length := by omega
      obtain ⟨x, hx⟩ := List.exists_mem_of_length_pos hpos
      have := List.mem_filter.mp hx
      exact ⟨x, by simpa using this.2, this.1⟩
    unfold limitStep
    rw [hl]
    simp only [overLimit_sync hf]
    have ho : q.length > n := by omega
    simp only [ho, decide_true, if_true]
    have := evictLimit_strict tl now r h.keysNodup hp hex
    omega

theorem length_put_le (k : K) (e : Entry V) (m : Store K V) : (Cachelito.put k e m).length ≤ m.length + 1 := by
  simp only [Cachelito.put, List.length_append, List.length_singleton]
  have := length_eraseKey_le k m; omega

theorem length_moveToEnd (k : K) (q : List K) : (Cachelito.moveToEnd k q).length = q.length := by
  unfold Cachelito.moveToEnd
  split
  · rename_i h
    rw [List.length_append, List.length_erase_of_mem h]
    have := List.length_pos_of_mem h
    simp; omega
  · rfl

theorem length_erasePush_le (k : K) (q : List K) : (Cachelito.erasePush k q).length ≤ q.length + 1 := by
  unfold Cachelito.erasePush
  rw [List.length_append]
  have := (List.erase_sublist (a := k) (l := q)).length_le
  simp; omega

theorem SyncBound.shr {cfg : Cfg} {n : Nat} {m m' : Store K V} {q q' P : List K} (h : SyncBound cfg n m q P)
    (hs : Shr m q m' q') : SyncBound cfg n m' q' P :=
  ⟨fun hp => Nat.le_trans hs.length_le (h.entries hp), fun hp => Nat.le_trans hs.queue_length_le (h.slots hp)⟩

theorem entrySize_pos_mem {size : V → Nat} {k : K} {m : Store K V} {M : Nat} (h : entrySize size k m > M) :
    k ∈ keys m := by
  unfold entrySize at h
  cases hl : lookup k m with
  | none => rw [hl] at h; simp at h
  | some e =>
    apply Classical.byContradiction; intro hn
    rw [(lookup_eq_none_iff _ _).mpr hn] at hl; cases hl

/-- the queue section of the sync `insert_with_memory` and the bound -/
theorem trackMemStep_bound {cfg : Cfg} (hf : cfg.flavour ≠ .async) (tl : Tlru S) (size : V → Nat) (rs : List Nat)
    (s : State K V) (k : K) (n : Nat) (hl : cfg.limit = some n) {P : List K}
    (h : SyncInv s.store s.queue (k :: P)) (hb : SyncBound cfg n s.store s.queue (k :: P)) :
    SyncBound cfg n (trackMemStep cfg tl size rs s k).store (trackMemStep cfg tl size rs s k).queue P := by
  have h0 : SyncInv s.store (erasePush k s.queue) P := SyncInv.erasePush h
  have hq0 : PopsSlot cfg → (erasePush k s.queue).length ≤ n + 1 := fun hp =>
    Nat.le_trans (length_erasePush_le k s.queue) (Nat.succ_le_succ (hb.slots hp))
  have hm0 : cfg.policy ≠ .random → s.store.length ≤ n + P.length + 1 := fun hp => by
    have := hb.entries hp; simp only [List.length_cons] at this; omega
  unfold trackMemStep
  cases cfg.maxMem with
  | none =>
    exact ⟨fun hp => limit_tight hf tl s.now _ n hl hp h0 (hm0 hp),
           fun hp => limitStep_slots hf tl s.now _ n hl hp _ _ (hq0 hp)⟩
  | some maxM =>
    simp only
    split
    · rename_i hov
      refine ⟨fun hp => ?_, fun hp => ?_⟩
      · have := length_eraseKey_of_mem h.keysNodup (entrySize_pos_mem hov)
        have := hm0 hp
        simp only; omega
      · rw [dropLast_erasePush]
        exact Nat.le_trans (List.erase_sublist (a := k) (l := s.queue)).length_le (hb.slots hp)
    · have h1 := memLoop_shr cfg tl size s.now maxM 0 ((erasePush k s.queue).length + 1) rs s.store (erasePush k s.queue)
      generalize memLoop cfg tl size s.now maxM 0 ((erasePush k s.queue).length + 1) rs s.store (erasePush k s.queue) = r1 at h1
      obtain ⟨m1, q1, rs1⟩ := r1
      simp only at h1 ⊢
      exact ⟨fun hp => limit_tight hf tl s.now _ n hl hp (h0.shr h1) (Nat.le_trans h1.length_le (hm0 hp)),
             fun hp => limitStep_slots hf tl s.now _ n hl hp _ _ (Nat.le_trans h1.queue_length_le (hq0 hp))⟩

/-- **Sync, one micro-step keeps the entry bound with stores in flight.** -/
theorem micro_sync_bound (cfg : Cfg) (tl : Tlru S) (size : V → Nat) (s : State K V)
    (op : Op K V) (rs : List Nat) (pend : Option (Pend K V)) (hf : cfg.flavour ≠ .async) (others : List K)
    (n : Nat) (hl : cfg.limit = some n)
    (h : SyncInv s.store s.queue (ownKeys pend ++ others))
    (hb : SyncBound cfg n s.store s.queue (ownKeys pend ++ others)) :
    SyncBound cfg n (micro false cfg tl size s op rs pend).1.store (micro false cfg tl size s op rs pend).1.queue
      (resKeys (micro false cfg tl size s op rs pend).2 ++ others) := by
  have ha := isAsync_false_of hf
  have hput : ∀ (k : K) (e : Entry V), SyncBound cfg n s.store s.queue others →
      SyncBound cfg n (Cachelito.put k e s.store) s.queue (k :: others) := by
    intro k e hb'
    refine ⟨fun hp => ?_, hb'.slots⟩
    have := hb'.entries hp
    have := length_put_le k e s.store
    simp only [List.length_cons]; omega
  cases pend with
  | none =>
    simp only [ownKeys, List.nil_append] at h hb
    simp only [micro]
    cases op with
    | get k =>
      simp only [first, ha, Bool.and_false, Bool.false_eq_true, if_false]
      cases hl : lookup k s.store with
      | none => exact hb
      | some e =>
        simp only
        split
        · exact hb
        · split
          · exact hb
          · split <;> exact hb
    | insert k v => simp only [first, ha, Bool.false_eq_true, if_false]; exact hput k _ hb
    | insertMem k v => simp only [first, ha, Bool.false_eq_true, if_false]; exact hput k _ hb
    | clear =>
      simp only [first, Bool.false_eq_true, if_false]
      exact ⟨fun _ => by simp [Cachelito.clear], fun _ => by simp [Cachelito.clear]⟩
    | invalidateWith p =>
      simp only [first, ha, Bool.false_eq_true, if_false]; exact hb.shr (invalidateWith_shr p s)
    | tick ms => exact hb
  | some p =>
    simp only [micro, ha, Bool.false_eq_true, if_false]
    cases p with
    | expire k => exact hb.shr (removeBoth_shr cfg k s.store s.queue)
    | move k v =>
      have hmv : SyncBound cfg n s.store (moveToEnd k s.queue) others :=
        ⟨hb.entries, fun hp => by rw [length_moveToEnd]; exact hb.slots hp⟩
      simp only [contSync]
      split
      · exact hmv
      · exact hmv
    | bump k v =>
      exact ⟨fun hp => by simp only [contSync, bumpHits, length_modify]; exact hb.entries hp, hb.slots⟩
    | track k v r =>
      have h0 : SyncInv s.store (erasePush k s.queue) others := SyncInv.erasePush h
      show SyncBound cfg n (limitStep cfg tl s.now r s.store (erasePush k s.queue)).1
        (limitStep cfg tl s.now r s.store (erasePush k s.queue)).2 others
      refine ⟨fun hp => ?_, fun hp => ?_⟩
      · have := hb.entries hp
        simp only [ownKeys, Pend.key?, List.cons_append, List.nil_append, List.length_cons] at this
        exact limit_tight hf tl s.now r n hl hp h0 (by omega)
      · exact limitStep_slots hf tl s.now r n hl hp _ _
          (Nat.le_trans (length_erasePush_le k s.queue) (Nat.succ_le_succ (hb.slots hp)))
    | trackMem k v rs => exact trackMemStep_bound hf tl size rs s k n hl h hb
    | legacyClearQueue => exact hb
    | refresh k v => exact hb
    | purge p ks => exact hb
    | legacyDrop k => exact hb
    | legacyRetain k => exact hb

/-! ### Lifting to the system -/

theorem pendKeys_append (l1 l2 : List (Thread K V)) : pendKeys (l1 ++ l2) = pendKeys l1 ++ pendKeys l2 := by
  simp [pendKeys]

theorem pendKeys_cons (t : Thread K V) (l : List (Thread K V)) : pendKeys (t :: l) = ownKeys t.pend ++ pendKeys l := by
  simp [pendKeys]

theorem mem_pendKeys_mid {l1 l2 : List (Thread K V)} {t : Thread K V} {x : K} :
    x ∈ pendKeys (l1 ++ t :: l2) ↔ x ∈ ownKeys t.pend ++ (pendKeys l1 ++ pendKeys l2) := by
  rw [pendKeys_append, pendKeys_cons]
  simp only [List.mem_append]
  constructor
  · rintro (h | h | h)
    · exact Or.inr (Or.inl h)
    · exact Or.inl h
    · exact Or.inr (Or.inr h)
  · rintro (h | h | h)
    · exact Or.inr (Or.inl h)
    · exact Or.inl h
    · exact Or.inr (Or.inr h)

theorem length_pendKeys_mid (l1 l2 : List (Thread K V)) (t : Thread K V) :
    (pendKeys (l1 ++ t :: l2)).length = (ownKeys t.pend ++ (pendKeys l1 ++ pendKeys l2)).length := by
  rw [pendKeys_append, pendKeys_cons]
  simp only [List.length_append]; omega

theorem SyncBound.congr {cfg : Cfg} {n : Nat} {m : Store K V} {q P P' : List K} (h : SyncBound cfg n m q P)
    (hlen : P.length = P'.length) : SyncBound cfg n m q P' :=
  ⟨fun hp => hlen ▸ h.entries hp, h.slots⟩

/-- the sync invariant of the system: in-flight invariant (and, with a limit, the bound) w.r.t. the
    keys of the threads that are between the store write and the queue section of a store -/
def SyncSys (c : CState K V) : Prop := SyncInv c.shared.store c.shared.queue (pendKeys c.threads)

def SyncSysBound (cfg : Cfg) (n : Nat) (c : CState K V) : Prop :=
  SyncBound cfg n c.shared.store c.shared.queue (pendKeys c.threads)

theorem cstep_sync {cfg : Cfg} {tl : Tlru S} {size : V → Nat} (hf : cfg.flavour ≠ .async)
    (c : CState K V) (i : Nat) (c' : CState K V) (hs : SyncSys c) (h : cstep cfg tl size c i = some c') :
    SyncSys c' ∧ ∀ n, cfg.limit = some n → SyncSysBound cfg n c → SyncSysBound cfg n c' := by
  obtain ⟨t, op, rs, rest, l1, l2, hl, hprog, hsh, hth⟩ := cstepWith_cases h
  unfold SyncSys SyncSysBound at *
  rw [hl] at hs
  have hs0 : SyncInv c.shared.store c.shared.queue (ownKeys t.pend ++ (pendKeys l1 ++ pendKeys l2)) :=
    hs.congr (fun x hx => mem_pendKeys_mid.mp hx)
  have hm := micro_sync_inv cfg tl size c.shared op rs t.pend hf _ hs0
  have hkeys : ∃ t', c'.threads = l1 ++ t' :: l2 ∧
      ownKeys t'.pend = resKeys (micro false cfg tl size c.shared op rs t.pend).2 := by
    rcases hth with ⟨p, hr, hts⟩ | ⟨op', o, hr, hts⟩
    · exact ⟨_, hts, by rw [hr]; rfl⟩
    · exact ⟨_, hts, by rw [hr]; rfl⟩
  obtain ⟨t', hts, hown⟩ := hkeys
  rw [hsh, hts]
  refine ⟨hm.congr (fun x hx => mem_pendKeys_mid.mpr (by rw [hown]; exact hx)), ?_⟩
  intro n hlim hb
  rw [hl] at hb
  have hb0 := hb.congr (length_pendKeys_mid l1 l2 t)
  have := micro_sync_bound cfg tl size c.shared op rs t.pend hf _ n hlim hs0 hb0
  exact this.congr (by rw [length_pendKeys_mid, hown])

theorem pendKeys_of_quiescent {c : CState K V} (hq : Quiescent c) : pendKeys c.threads = [] := by
  unfold pendKeys
  rw [List.flatMap_eq_nil_iff]
  intro t ht
  rw [hq t ht]; rfl

/-- a thread that is in the middle of an operation has that operation at the head of its program -/
def WF (c : CState K V) : Prop := ∀ t, t ∈ c.threads → t.prog = [] → t.pend = none

theorem cstepWith_wf {legacy : Bool} {cfg : Cfg} {tl : Tlru S} {size : V → Nat} (c : CState K V) (i : Nat)
    (c' : CState K V) (hw : WF c) (h : cstepWith legacy cfg tl size c i = some c') : WF c' := by
  obtain ⟨t, op, rs, rest, l1, l2, hl, hprog, hsh, hth⟩ := cstepWith_cases h
  have hothers : ∀ x, x ∈ l1 ∨ x ∈ l2 → x ∈ c.threads := by
    intro x hx; rw [hl]
    rcases hx with hx | hx
    · exact List.mem_append_left _ hx
    · exact List.mem_append_right _ (List.mem_cons_of_mem _ hx)
  intro x hx
  rcases hth with ⟨p, _, hts⟩ | ⟨op', o, _, hts⟩ <;> rw [hts] at hx
  all_goals
    rcases List.mem_append.mp hx with hx | hx
    · exact hw x (hothers x (Or.inl hx))
    · rcases List.mem_cons.mp hx with hx | hx
      · subst hx
        intro hnil
        first
          | rfl
          | (have hnil' : t.prog = [] := hnil
             rw [hprog] at hnil'; cases hnil')
      · exact hw x (hothers x (Or.inr hx))

theorem wf_start (s : State K V) (progs : List (List (Op K V × List Nat))) : WF (CState.start s progs) := by
  intro t ht _
  simp only [CState.start, List.mem_map] at ht
  obtain ⟨prog, _, rfl⟩ := ht
  rfl

theorem quiescent_of_allDone {c : CState K V} (hw : WF c) (hd : AllDone c) : Quiescent c :=
  fun t ht => hw t ht (hd t ht)

theorem pendKeys_start (s : State K V) (progs : List (List (Op K V × List Nat))) :
    pendKeys (CState.start s progs).threads = [] := by
  apply pendKeys_of_quiescent
  intro t ht
  simp only [CState.start, List.mem_map] at ht
  obtain ⟨prog, _, rfl⟩ := ht
  rfl

/-! ## §6 Sequential use from a state with orphan queue keys -/

/-- the consistency a quiescent sync cache is left in: store keys distinct, queue duplicate-free, every
    stored key queued (so it can be evicted, expired, invalidated); queue keys that are not stored
    ("orphans") are allowed.  Weaker than `Inv`. -/
def WeakInv (s : State K V) : Prop := SyncInv s.store s.queue []

/-- entry bound of a quiescent sync cache with `limit = n` -/
def WeakBound (cfg : Cfg) (n : Nat) (s : State K V) : Prop := SyncBound cfg n s.store s.queue []

theorem WeakInv.of_inv {s : State K V} (h : Inv s) : WeakInv s := SyncInv.of_inv h []

theorem hitUpdate_sync {cfg : Cfg} (hf : cfg.flavour ≠ .async) (k : K) (m : Store K V) (q : List K) :
    hitUpdate cfg k m q = (if cfg.policy.bumps then bumpHits k m else m, if cfg.policy.refreshes then moveToEnd k q else q) := by
  unfold hitUpdate; cases h : cfg.flavour <;> simp_all

theorem get_weak {cfg : Cfg} (hf : cfg.flavour ≠ .async) (s : State K V) (k : K) {P : List K}
    (h : SyncInv s.store s.queue P) :
    SyncInv (Cachelito.get cfg s k).1.store (Cachelito.get cfg s k).1.queue P := by
  unfold Cachelito.get
  cases lookup k s.store with
  | none => exact h
  | some e =>
    simp only
    split
    · exact h.shr (removeBoth_shr cfg k s.store s.queue)
    · rw [hitUpdate_sync hf]
      simp only
      have h1 : SyncInv (if cfg.policy.bumps = true then bumpHits k s.store else s.store) s.queue P := by
        split
        · exact h.bumpHits k
        · exact h
      generalize (if cfg.policy.bumps = true then bumpHits k s.store else s.store) = m1 at h1
      split
      · exact h1.moveToEnd k
      · exact h1

theorem get_weak_bound {cfg : Cfg} (hf : cfg.flavour ≠ .async) (s : State K V) (k : K) {P : List K} (n : Nat)
    (hb : SyncBound cfg n s.store s.queue P) :
    SyncBound cfg n (Cachelito.get cfg s k).1.store (Cachelito.get cfg s k).1.queue P := by
  unfold Cachelito.get
  cases lookup k s.store with
  | none => exact hb
  | some e =>
    simp only
    split
    · exact hb.shr (removeBoth_shr cfg k s.store s.queue)
    · rw [hitUpdate_sync hf]
      simp only
      refine ⟨fun hp => ?_, fun hp => ?_⟩
      · have := hb.entries hp
        split
        · simp only [bumpHits, length_modify]; exact this
        · exact this
      · have := hb.slots hp
        split
        · rw [length_moveToEnd]; exact this
        · exact this

theorem insert_sync {cfg : Cfg} (hf : cfg.flavour ≠ .async) (tl : Tlru S) (r : Nat) (s : State K V) (k : K) (v : V) :
    Cachelito.insert cfg tl r s k v =
      { s with store := (limitStep cfg tl s.now r (Cachelito.put k ⟨v, stamp cfg s.now, 0⟩ s.store) (erasePush k s.queue)).1,
               queue := (limitStep cfg tl s.now r (Cachelito.put k ⟨v, stamp cfg s.now, 0⟩ s.store) (erasePush k s.queue)).2 } := by
  unfold Cachelito.insert; cases h : cfg.flavour <;> simp_all

theorem insert_weak {cfg : Cfg} (hf : cfg.flavour ≠ .async) (tl : Tlru S) (r : Nat) (s : State K V) (k : K) (v : V)
    (h : WeakInv s) : WeakInv (Cachelito.insert cfg tl r s k v) := by
  rw [insert_sync hf]
  exact (SyncInv.erasePush (h.put k _)).shr (limitStep_shr cfg tl s.now r _ _)

theorem insert_weak_bound {cfg : Cfg} (hf : cfg.flavour ≠ .async) (tl : Tlru S) (r : Nat) (s : State K V) (k : K) (v : V)
    (n : Nat) (hl : cfg.limit = some n) (h : WeakInv s) (hb : WeakBound cfg n s) :
    WeakBound cfg n (Cachelito.insert cfg tl r s k v) := by
  rw [insert_sync hf]
  have h0 := SyncInv.erasePush (h.put k (⟨v, stamp cfg s.now, 0⟩ : Entry V))
  refine ⟨fun hp => ?_, fun hp => ?_⟩
  · have := hb.entries hp
    have hle := length_put_le k (⟨v, stamp cfg s.now, 0⟩ : Entry V) s.store
    exact limit_tight hf tl s.now r n hl hp h0 (by simp only [List.length_nil] at this ⊢; omega)
  · exact limitStep_slots hf tl s.now r n hl hp _ _
      (Nat.le_trans (length_erasePush_le k s.queue) (Nat.succ_le_succ (hb.slots hp)))

theorem insertMem_sync {cfg : Cfg} (hf : cfg.flavour ≠ .async) (tl : Tlru S) (size : V → Nat) (rs : List Nat)
    (s : State K V) (k : K) (v : V) :
    Cachelito.insertMem cfg tl size rs s k v =
      (let m0 := Cachelito.put k ⟨v, stamp cfg s.now, 0⟩ s.store
       let q0 := erasePush k s.queue
       match cfg.maxMem with
       | some maxM =>
         if size v > maxM then { s with store := eraseKey k m0, queue := q0.dropLast }
         else
           let r1 := memLoop cfg tl size s.now maxM 0 (q0.length + 1) rs m0 q0
           let r2 := limitStep cfg tl s.now (r1.2.2.headD 0) r1.1 r1.2.1
           { s with store := r2.1, queue := r2.2 }
       | none =>
         let r2 := limitStep cfg tl s.now (rs.headD 0) m0 q0
         { s with store := r2.1, queue := r2.2 }) := by
  unfold Cachelito.insertMem
  cases h : cfg.flavour
  · rfl
  · rfl
  · exact absurd h hf

theorem insertMem_weak_both {cfg : Cfg} (hf : cfg.flavour ≠ .async) (tl : Tlru S) (size : V → Nat) (rs : List Nat)
    (s : State K V) (k : K) (v : V) (h : WeakInv s) :
    WeakInv (Cachelito.insertMem cfg tl size rs s k v) ∧
    ∀ n, cfg.limit = some n → WeakBound cfg n s → WeakBound cfg n (Cachelito.insertMem cfg tl size rs s k v) := by
  rw [insertMem_sync hf]
  have h0 := SyncInv.erasePush (h.put k (⟨v, stamp cfg s.now, 0⟩ : Entry V))
  have hle := length_put_le k (⟨v, stamp cfg s.now, 0⟩ : Entry V) s.store
  have hqle := length_erasePush_le k s.queue
  simp only
  cases cfg.maxMem with
  | none =>
    simp only
    refine ⟨h0.shr (limitStep_shr cfg tl s.now _ _ _), fun n hl hb => ⟨fun hp => ?_, fun hp => ?_⟩⟩
    · have := hb.entries hp
      exact limit_tight hf tl s.now _ n hl hp h0 (by simp only [List.length_nil] at this ⊢; omega)
    · exact limitStep_slots hf tl s.now _ n hl hp _ _ (Nat.le_trans hqle (Nat.succ_le_succ (hb.slots hp)))
  | some maxM =>
    simp only
    split
    · rw [dropLast_erasePush, eraseKey_put]
      have hshr : Shr s.store s.queue (eraseKey k s.store) (s.queue.erase k) :=
        Shr.eraseKey_of k List.erase_sublist (fun x hxk _ hxq => (List.mem_erase_of_ne hxk).mpr hxq)
      exact ⟨SyncInv.shr h hshr, fun n hl hb => SyncBound.shr hb hshr⟩
    · have h1 := memLoop_shr cfg tl size s.now maxM 0 ((erasePush k s.queue).length + 1) rs
        (Cachelito.put k ⟨v, stamp cfg s.now, 0⟩ s.store) (erasePush k s.queue)
      generalize memLoop cfg tl size s.now maxM 0 ((erasePush k s.queue).length + 1) rs
        (Cachelito.put k ⟨v, stamp cfg s.now, 0⟩ s.store) (erasePush k s.queue) = r1 at h1
      obtain ⟨m1, q1, rs1⟩ := r1
      simp only at h1 ⊢
      refine ⟨(h0.shr h1).shr (limitStep_shr cfg tl s.now _ _ _), fun n hl hb => ⟨fun hp => ?_, fun hp => ?_⟩⟩
      · have := hb.entries hp
        have := h1.length_le
        exact limit_tight hf tl s.now _ n hl hp (h0.shr h1) (by simp only [List.length_nil] at *; omega)
      · have := h1.queue_length_le
        have := hb.slots hp
        exact limitStep_slots hf tl s.now _ n hl hp _ _ (by omega)

/-- **Sequential step from a quiescent sync state**: every engine operation keeps the weak consistency
    (orphans allowed), under every policy. -/
theorem step_weak {cfg : Cfg} (hf : cfg.flavour ≠ .async) (tl : Tlru S) (size : V → Nat) (rs : List Nat)
    (s : State K V) (op : Op K V) (h : WeakInv s) : WeakInv (step cfg tl size rs s op).1 := by
  cases op with
  | get k => exact get_weak hf s k h
  | insert k v => exact insert_weak hf tl _ s k v h
  | insertMem k v => exact (insertMem_weak_both hf tl size rs s k v h).1
  | clear => exact SyncInv.nil _
  | invalidateWith p => exact SyncInv.shr h (invalidateWith_shr p s)
  | tick ms => exact h

/-- … and the entry bound. -/
theorem step_weak_bound {cfg : Cfg} (hf : cfg.flavour ≠ .async) (tl : Tlru S) (size : V → Nat) (rs : List Nat)
    (s : State K V) (op : Op K V) (n : Nat) (hl : cfg.limit = some n) (h : WeakInv s) (hb : WeakBound cfg n s) :
    WeakBound cfg n (step cfg tl size rs s op).1 := by
  cases op with
  | get k => exact get_weak_bound hf s k n hb
  | insert k v => exact insert_weak_bound hf tl _ s k v n hl h hb
  | insertMem k v => exact (insertMem_weak_both hf tl size rs s k v h).2 n hl hb
  | clear => exact ⟨fun _ => by simp [step, Cachelito.clear], fun _ => by simp [step, Cachelito.clear]⟩
  | invalidateWith p => exact SyncBound.shr hb (invalidateWith_shr p s)
  | tick ms => exact hb

/-- what the in-flight invariant and the two-part bound give under EVERY policy (Random included):
    at most `n` entries plus one per store in flight -/
theorem sync_entries_le {cfg : Cfg} {n : Nat} {m : Store K V} {q P : List K} (h : SyncInv m q P)
    (hb : SyncBound cfg n m q P) : m.length ≤ n + P.length := by
  by_cases hp : cfg.policy = .random
  · have hq := hb.slots (Or.inr (Or.inr hp))
    have hsplit := keys_split_length m q
    have hU : ((keys m).filter (fun x => decide (x ∉ q))).length ≤ P.length := by
      apply List.Nodup.length_le_of_subset (List.Nodup.sublist List.filter_sublist h.keysNodup)
      intro x hx
      have := List.mem_filter.mp hx
      exact h.tracked x this.1 (by simpa using this.2)
    have hR : ((keys m).filter (fun x => decide (x ∈ q))).length ≤ q.length := by
      apply List.Nodup.length_le_of_subset (List.Nodup.sublist List.filter_sublist h.keysNodup)
      intro x hx
      have := List.mem_filter.mp hx
      simpa using this.2
    omega
  · exact hb.entries hp

/-- at quiescence: at most `n` entries -/
theorem weak_length_le {cfg : Cfg} {n : Nat} {s : State K V} (h : WeakInv s) (hb : WeakBound cfg n s) :
    s.store.length ≤ n := by
  have := sync_entries_le h hb; simpa using this

/-- values along a sequential step -/
theorem step_val {f : K → V} (cfg : Cfg) (tl : Tlru S) (size : V → Nat) (rs : List Nat) (s : State K V) (op : Op K V)
    (hs : ValOK f s.store) (hop : OpOK f op) :
    ValOK f (step cfg tl size rs s op).1.store ∧ RecOK f op (step cfg tl size rs s op).2 := by
  cases op with
  | get k =>
    simp only [step]
    unfold Cachelito.get
    cases hl : lookup k s.store with
    | none => exact ⟨hs, by intro k' v _ ho; cases ho⟩
    | some e =>
      have hev : e.val = f k := hs k e (lookup_mem hl)
      simp only
      split
      · exact ⟨hs.removeBoth cfg k s.queue, by intro k' v _ ho; cases ho⟩
      · refine ⟨?_, ?_⟩
        · unfold hitUpdate
          have hm1 : ValOK f (if cfg.policy.bumps = true then bumpHits k s.store else s.store) := by
            split
            · exact hs.bumpHits k
            · exact hs
          cases cfg.flavour <;> exact hm1
        · intro k' v hk ho; cases hk; cases ho; exact hev
  | insert k v =>
    simp only [OpOK] at hop; subst hop
    exact ⟨hs.insert cfg tl _ s k, by intro k' v hk; cases hk⟩
  | insertMem k v =>
    simp only [OpOK] at hop; subst hop
    exact ⟨hs.insertMem cfg tl size rs s k, by intro k' v hk; cases hk⟩
  | clear => exact ⟨ValOK.nil f, by intro k' v hk; cases hk⟩
  | invalidateWith p => exact ⟨hs.invalidateWith p s, by intro k' v hk; cases hk⟩
  | tick ms => exact ⟨hs, by intro k' v hk; cases hk⟩

/-! ## §7 Sync engine: the memory bound with stores in flight -/

/-- outcome of one eviction attempt in ANY state: it succeeded and the queue got shorter, or it failed,
    changed no entry, and no queued key is stored -/
def EvCases (m : Store K V) (q : List K) (r : Store K V × List K × Bool) : Prop :=
  (r.2.2 = true ∧ r.2.1.length < q.length) ∨ (r.2.2 = false ∧ r.1 = m ∧ ∀ x, x ∈ q → x ∉ keys m)

theorem popStored_cases (m : Store K V) (q : List K) : EvCases m q (popStored m q) := by
  induction q with
  | nil => right; simp [popStored]
  | cons a q ih =>
    simp only [popStored]
    by_cases ha : hasKey a m = true
    · simp only [ha, if_true]; left; simp
    · simp only [ha, if_false, Bool.false_eq_true]
      rcases ih with ⟨h1, h2⟩ | ⟨h1, h2, h3⟩
      · left; exact ⟨h1, by simp only [List.length_cons]; omega⟩
      · right; refine ⟨h1, h2, ?_⟩
        intro x hx
        rcases List.mem_cons.mp hx with h | h
        · subst h; intro hh; exact ha ((hasKey_iff x m).mpr hh)
        · exact h3 x h

theorem popOne_cases (m : Store K V) (q : List K) : EvCases m q (popOne m q) := by
  cases q with
  | nil => right; simp [popOne]
  | cons a q => left; simp [popOne]

theorem evictRandom_cases (r : Nat) (m : Store K V) (q : List K) : EvCases m q (evictRandom r m q) := by
  cases q with
  | nil => right; simp [evictRandom]
  | cons a q =>
    left
    have hlt : r % (a :: q).length < (a :: q).length := Nat.mod_lt _ (by simp)
    unfold evictRandom
    rw [List.getElem?_eq_getElem hlt]
    simp only [List.length_eraseIdx_of_lt hlt]
    exact ⟨trivial, by simp⟩

theorem evictScored_cases {cfg : Cfg} (hf : cfg.flavour ≠ .async) (tl : Tlru S) (now : Nat) (m : Store K V) (q : List K)
    (hp : cfg.policy = .lfu ∨ cfg.policy = .arc ∨ cfg.policy = .tlru) :
    EvCases m q (evictScored cfg tl now m q) := by
  unfold evictScored
  cases hv : victim cfg tl now m q with
  | none => right; exact ⟨rfl, rfl, victim_none hp hv⟩
  | some k =>
    left
    refine ⟨rfl, ?_⟩
    have hk := (victim_mem hv).1
    have hq : (removeBoth cfg k m q).2 = q.erase k := by
      unfold removeBoth; cases h : cfg.flavour <;> simp_all
    simp only [hq, List.length_erase_of_mem hk]
    have := List.length_pos_of_mem hk
    omega

theorem evictMem_cases {cfg : Cfg} (hf : cfg.flavour ≠ .async) (tl : Tlru S) (now r : Nat) (m : Store K V) (q : List K) :
    EvCases m q (evictMem cfg tl now r m q) := by
  unfold evictMem
  cases hp : cfg.policy <;> simp only
  · cases cfg.flavour <;> simp only
    · exact popStored_cases m q
    · exact popOne_cases m q
    · exact popOne_cases m q
  · cases cfg.flavour <;> simp only
    · exact popStored_cases m q
    · exact popOne_cases m q
    · exact popOne_cases m q
  · exact evictScored_cases hf tl now m q (Or.inl hp)
  · exact evictScored_cases hf tl now m q (Or.inr (Or.inl hp))
  · exact evictRandom_cases r m q
  · exact evictScored_cases hf tl now m q (Or.inr (Or.inr hp))

/-- **Exit of the memory loop with orphans and in-flight stores around**: with enough fuel the loop stops
    because the footprint fits, or because no queued key is stored any more — then every entry left
    belongs to a store in flight. -/
theorem memLoop_exit {cfg : Cfg} (hf : cfg.flavour ≠ .async) (tl : Tlru S) (size : V → Nat) (now maxM extra : Nat)
    (fuel : Nat) (rs : List Nat) {m : Store K V} {q P : List K} (h : SyncInv m q P) (hfuel : q.length < fuel) :
    totalMem size (memLoop cfg tl size now maxM extra fuel rs m q).1 + extra ≤ maxM ∨
    ∀ x, x ∈ keys (memLoop cfg tl size now maxM extra fuel rs m q).1 → x ∈ P := by
  induction fuel generalizing rs m q with
  | zero => omega
  | succ fuel ih =>
    simp only [memLoop]
    split
    · left; assumption
    · have hs := evictMem_shr cfg tl now (rs.headD 0) m q
      have hc := evictMem_cases hf tl now (rs.headD 0) m q
      generalize evictMem cfg tl now (rs.headD 0) m q = r at hs hc
      obtain ⟨m', q', ev⟩ := r
      simp only
      rcases hc with ⟨h1, h2⟩ | ⟨h1, h2, h3⟩
      · simp only at h1 h2
        subst h1
        simp only [if_true]
        exact ih rs.tail (h.shr hs) (by omega)
      · simp only at h1 h2 h3
        subst h1
        simp only [Bool.false_eq_true, if_false]
        right
        intro x hx
        rw [h2] at hx
        exact h.tracked x hx (fun hq => h3 x hq hx)

theorem sum_map_erase (g : K → Nat) {a : K} {l : List K} (h : a ∈ l) :
    (l.map g).sum = g a + ((l.erase a).map g).sum := by
  induction l with
  | nil => cases h
  | cons b l ih =>
    by_cases hb : b = a
    · subst hb; simp
    · have hmem : a ∈ l := by
        rcases List.mem_cons.mp h with h | h
        · exact absurd h.symm hb
        · exact h
      have hbeq : (b == a) = false := by simp [hb]
      rw [List.erase_cons, hbeq]
      simp only [List.map_cons, List.sum_cons, Bool.false_eq_true, if_false]
      rw [ih hmem]; omega

theorem sum_map_le_of_nodup_subset (g : K → Nat) {l l' : List K} (hn : l.Nodup) (hs : ∀ x, x ∈ l → x ∈ l') :
    (l.map g).sum ≤ (l'.map g).sum := by
  induction l generalizing l' with
  | nil => simp
  | cons a l ih =>
    have ha : a ∈ l' := hs a List.mem_cons_self
    have hn' := List.nodup_cons.mp hn
    have hsub : ∀ x, x ∈ l → x ∈ l'.erase a := by
      intro x hx
      have hxa : x ≠ a := fun hh => hn'.1 (hh ▸ hx)
      exact (List.mem_erase_of_ne hxa).mpr (hs x (List.mem_cons_of_mem _ hx))
    have := ih hn'.2 hsub
    rw [sum_map_erase g ha]
    simp only [List.map_cons, List.sum_cons]; omega

theorem totalMem_eq_of_valOK {f : K → V} (size : V → Nat) {m : Store K V} (h : ValOK f m) :
    totalMem size m = ((keys m).map (fun x => size (f x))).sum := by
  induction m with
  | nil => rfl
  | cons a m ih =>
    obtain ⟨k, e⟩ := a
    have hk : e.val = f k := h k e List.mem_cons_self
    have hm : ValOK f m := fun k' e' he => h k' e' (List.mem_cons_of_mem _ he)
    simp only [totalMem_cons, keys_cons, List.map_cons, List.sum_cons, ih hm, hk]

/-- memory invariant with stores in flight: the footprint exceeds `M` by at most the sizes of the values
    whose queue section (with its memory loop) has not run yet -/
def MemInv (size : V → Nat) (f : K → V) (M : Nat) (m : Store K V) (P : List K) : Prop :=
  totalMem size m ≤ M + (P.map (fun x => size (f x))).sum

theorem trackMemStep_mem {cfg : Cfg} (hf : cfg.flavour ≠ .async) (tl : Tlru S) (size : V → Nat) (rs : List Nat)
    (s : State K V) (k : K) (f : K → V) (M : Nat) (hM : cfg.maxMem = some M) {P : List K}
    (h : SyncInv s.store s.queue (k :: P)) (hv : ValOK f s.store) (hb : MemInv size f M s.store (k :: P)) :
    MemInv size f M (trackMemStep cfg tl size rs s k).store P := by
  have h0 : SyncInv s.store (erasePush k s.queue) P := SyncInv.erasePush h
  unfold MemInv at hb ⊢
  simp only [List.map_cons, List.sum_cons] at hb
  unfold trackMemStep
  rw [hM]
  simp only
  split
  · rename_i hov
    unfold entrySize at hov
    cases hl : lookup k s.store with
    | none => rw [hl] at hov; simp at hov
    | some e =>
      have hev : e.val = f k := hv k e (lookup_mem hl)
      have := totalMem_eraseKey_of_lookup size h.keysNodup hl
      rw [hev] at this
      simp only; omega
  · have h1 := memLoop_shr cfg tl size s.now M 0 ((erasePush k s.queue).length + 1) rs s.store (erasePush k s.queue)
    have hex := memLoop_exit hf tl size s.now M 0 ((erasePush k s.queue).length + 1) rs h0 (Nat.lt_succ_self _)
    generalize memLoop cfg tl size s.now M 0 ((erasePush k s.queue).length + 1) rs s.store (erasePush k s.queue) = r1 at h1 hex
    obtain ⟨m1, q1, rs1⟩ := r1
    simp only at h1 hex ⊢
    have h2 := limitStep_shr cfg tl s.now (rs1.headD 0) m1 q1
    have hle := totalMem_sublist_le size h2.store
    rcases hex with hex | hex
    · omega
    · have hv2 : ValOK f (limitStep cfg tl s.now (rs1.headD 0) m1 q1).1 := hv.sublist (h2.store.trans h1.store)
      rw [totalMem_eq_of_valOK size hv2]
      have hn2 : (keys (limitStep cfg tl s.now (rs1.headD 0) m1 q1).1).Nodup := ((h0.shr h1).shr h2).keysNodup
      have := sum_map_le_of_nodup_subset (fun x => size (f x)) hn2 (fun x hx => hex x (h2.keys_sub x hx))
      omega

/-- **Sync, one micro-step keeps the memory invariant with stores in flight** (all stores go through
    `insert_with_memory`, every value is `f` of its key). -/
theorem micro_sync_mem (cfg : Cfg) (tl : Tlru S) (size : V → Nat) (s : State K V)
    (op : Op K V) (rs : List Nat) (pend : Option (Pend K V)) (hf : cfg.flavour ≠ .async) (others : List K)
    (f : K → V) (M : Nat) (hM : cfg.maxMem = some M) (hv : ValOK f s.store) (hop : OpOK f op)
    (hvia : op.viaMem = true) (hnt : ∀ k v r, pend ≠ some (.track k v r))
    (h : SyncInv s.store s.queue (ownKeys pend ++ others))
    (hb : MemInv size f M s.store (ownKeys pend ++ others)) :
    MemInv size f M (micro false cfg tl size s op rs pend).1.store
      (resKeys (micro false cfg tl size s op rs pend).2 ++ others) := by
  have ha := isAsync_false_of hf
  cases pend with
  | none =>
    simp only [ownKeys, List.nil_append] at h hb
    simp only [micro]
    cases op with
    | get k =>
      simp only [first, ha, Bool.and_false, Bool.false_eq_true, if_false]
      cases hl : lookup k s.store with
      | none => exact hb
      | some e =>
        simp only
        split
        · exact hb
        · split
          · exact hb
          · split <;> exact hb
    | insert k v => simp [Op.viaMem] at hvia
    | insertMem k v =>
      simp only [OpOK] at hop; subst hop
      simp only [first, ha, Bool.false_eq_true, if_false]
      show MemInv size f M (Cachelito.put k _ s.store) (k :: others)
      unfold MemInv at hb ⊢
      rw [totalMem_put]
      have := totalMem_eraseKey_le size k s.store
      simp only [List.map_cons, List.sum_cons]; omega
    | clear =>
      simp only [first, Bool.false_eq_true, if_false]
      unfold MemInv; simp [Cachelito.clear, totalMem]
    | invalidateWith p =>
      simp only [first, ha, Bool.false_eq_true, if_false]
      exact Nat.le_trans (totalMem_invalidateWith_le size p s) hb
    | tick ms => exact hb
  | some p =>
    simp only [micro, ha, Bool.false_eq_true, if_false]
    cases p with
    | expire k => exact Nat.le_trans (totalMem_removeBoth_le size cfg k _ _) hb
    | move k v =>
      simp only [contSync]
      split
      · exact hb
      · exact hb
    | bump k v =>
      show MemInv size f M (bumpHits k s.store) others
      unfold MemInv; rw [totalMem_bumpHits]; exact hb
    | track k v r => exact absurd rfl (hnt k v r)
    | trackMem k v rs => exact trackMemStep_mem hf tl size rs s k f M hM h hv hb
    | legacyClearQueue => exact hb
    | refresh k v => exact hb
    | purge p ks => exact hb
    | legacyDrop k => exact hb
    | legacyRetain k => exact hb

/-- a micro-step of an operation other than the plain `insert` never leaves a plain store in flight -/
theorem micro_not_track (legacy : Bool) (cfg : Cfg) (tl : Tlru S) (size : V → Nat) (s : State K V)
    (op : Op K V) (rs : List Nat) (pend : Option (Pend K V)) (hvia : op.viaMem = true)
    (hnt : ∀ k v r, pend ≠ some (.track k v r)) :
    ∀ k v r, (micro legacy cfg tl size s op rs pend).2 ≠ .more (.track k v r) := by
  intro k0 v0 r0
  cases pend with
  | none =>
    simp only [micro]
    cases op with
    | get k =>
      simp only [first]
      cases lookup k s.store with
      | none => simp
      | some e =>
        simp only
        split
        · split <;> simp
        · split
          · split <;> simp
          · split
            · simp
            · split <;> simp
    | insert k v => simp [Op.viaMem] at hvia
    | insertMem k v => simp only [first]; split <;> simp
    | clear => simp only [first]; split <;> simp
    | invalidateWith p => simp only [first]; split <;> simp
    | tick ms => simp [first]
  | some p =>
    simp only [micro]
    split
    · cases p <;> simp only [contAsync, noop, expireStep] <;> first | (split <;> simp) | simp
    · cases p <;> simp only [contSync, noop, expireStep] <;> first | (split <;> simp) | simp

/-- the system-level memory invariant and its side conditions -/
def MemSys (size : V → Nat) (f : K → V) (M : Nat) (c : CState K V) : Prop :=
  MemInv size f M c.shared.store (pendKeys c.threads)

/-- every store goes through `insert_with_memory` (as the generated code does when `max_memory` is set) -/
def NoPlain (c : CState K V) : Prop :=
  ∀ t, t ∈ c.threads → (∀ x, x ∈ t.prog → x.1.viaMem = true) ∧ ∀ k v r, t.pend ≠ some (.track k v r)

theorem MemInv.congr {size : V → Nat} {f : K → V} {M : Nat} {m : Store K V} {P P' : List K}
    (h : MemInv size f M m P)
    (hsum : (P.map (fun x => size (f x))).sum = (P'.map (fun x => size (f x))).sum) : MemInv size f M m P' := by
  unfold MemInv at h ⊢; omega

theorem sum_pendKeys_mid (g : K → Nat) (l1 l2 : List (Thread K V)) (t : Thread K V) :
    ((pendKeys (l1 ++ t :: l2)).map g).sum = ((ownKeys t.pend ++ (pendKeys l1 ++ pendKeys l2)).map g).sum := by
  rw [pendKeys_append, pendKeys_cons]
  simp only [List.map_append, List.sum_append]; omega

theorem cstep_noPlain {cfg : Cfg} {tl : Tlru S} {size : V → Nat} (c : CState K V) (i : Nat) (c' : CState K V)
    (hn : NoPlain c) (h : cstep cfg tl size c i = some c') : NoPlain c' := by
  obtain ⟨t, op, rs, rest, l1, l2, hl, hprog, hsh, hth⟩ := cstepWith_cases h
  have htm : t ∈ c.threads := by rw [hl]; simp
  have hothers : ∀ x, x ∈ l1 ∨ x ∈ l2 → x ∈ c.threads := by
    intro x hx; rw [hl]
    rcases hx with hx | hx
    · exact List.mem_append_left _ hx
    · exact List.mem_append_right _ (List.mem_cons_of_mem _ hx)
  have hvia : op.viaMem = true := (hn t htm).1 (op, rs) (by rw [hprog]; exact List.mem_cons_self)
  have hnt := micro_not_track false cfg tl size c.shared op rs t.pend hvia (hn t htm).2
  intro x hx
  rcases hth with ⟨p, hr, hts⟩ | ⟨op', o, hr, hts⟩ <;> rw [hts] at hx
  · rcases List.mem_append.mp hx with hx | hx
    · exact hn x (hothers x (Or.inl hx))
    · rcases List.mem_cons.mp hx with hx | hx
      · subst hx
        refine ⟨(hn t htm).1, ?_⟩
        intro k v r hh
        simp only [Option.some.injEq] at hh
        exact hnt k v r (by rw [hr, hh])
      · exact hn x (hothers x (Or.inr hx))
  · rcases List.mem_append.mp hx with hx | hx
    · exact hn x (hothers x (Or.inl hx))
    · rcases List.mem_cons.mp hx with hx | hx
      · subst hx
        refine ⟨fun y hy => (hn t htm).1 y (by rw [hprog]; exact List.mem_cons_of_mem _ hy), ?_⟩
        intro k v r hh; cases hh
      · exact hn x (hothers x (Or.inr hx))

theorem cstep_sync_mem {cfg : Cfg} {tl : Tlru S} {size : V → Nat} (hf : cfg.flavour ≠ .async)
    (f : K → V) (M : Nat) (hM : cfg.maxMem = some M)
    (c : CState K V) (i : Nat) (c' : CState K V) (hs : SyncSys c) (hv : ValInv f c) (hn : NoPlain c)
    (hb : MemSys size f M c) (h : cstep cfg tl size c i = some c') : MemSys size f M c' := by
  obtain ⟨t, op, rs, rest, l1, l2, hl, hprog, hsh, hth⟩ := cstepWith_cases h
  have htm : t ∈ c.threads := by rw [hl]; simp
  unfold SyncSys MemSys at *
  rw [hl] at hs hb
  have hs0 : SyncInv c.shared.store c.shared.queue (ownKeys t.pend ++ (pendKeys l1 ++ pendKeys l2)) :=
    hs.congr (fun x hx => mem_pendKeys_mid.mp hx)
  have hb0 := hb.congr (sum_pendKeys_mid (fun x => size (f x)) l1 l2 t)
  have hop : OpOK f op := (hv.2 t htm).1 (op, rs) (by rw [hprog]; exact List.mem_cons_self)
  have hvia : op.viaMem = true := (hn t htm).1 (op, rs) (by rw [hprog]; exact List.mem_cons_self)
  have hm := micro_sync_mem cfg tl size c.shared op rs t.pend hf _ f M hM hv.1 hop hvia (hn t htm).2 hs0 hb0
  have hkeys : ∃ t', c'.threads = l1 ++ t' :: l2 ∧
      ownKeys t'.pend = resKeys (micro false cfg tl size c.shared op rs t.pend).2 := by
    rcases hth with ⟨p, hr, hts⟩ | ⟨op', o, hr, hts⟩
    · exact ⟨_, hts, by rw [hr]; rfl⟩
    · exact ⟨_, hts, by rw [hr]; rfl⟩
  obtain ⟨t', hts, hown⟩ := hkeys
  rw [hsh, hts]
  exact hm.congr (by rw [sum_pendKeys_mid, hown])

/-- sequential memory-aware use from a quiescent sync state (orphans allowed) keeps the memory bound -/
theorem step_weak_mem {cfg : Cfg} (hf : cfg.flavour ≠ .async) (tl : Tlru S) (size : V → Nat) (rs : List Nat)
    (s : State K V) (op : Op K V) (M : Nat) (hM : cfg.maxMem = some M) (hvia : op.viaMem = true)
    (h : WeakInv s) (hb : totalMem size s.store ≤ M) : totalMem size (step cfg tl size rs s op).1.store ≤ M := by
  cases op with
  | get k => exact Nat.le_trans (totalMem_get_le size cfg s k) hb
  | insert k v => simp [Op.viaMem] at hvia
  | insertMem k v =>
    simp only [step]
    rw [insertMem_sync hf]
    have h0 := SyncInv.erasePush (h.put k (⟨v, stamp cfg s.now, 0⟩ : Entry V))
    simp only [hM]
    split
    · rw [eraseKey_put]
      exact Nat.le_trans (totalMem_eraseKey_le size k s.store) hb
    · have hex := memLoop_exit hf tl size s.now M 0 ((erasePush k s.queue).length + 1) rs h0 (Nat.lt_succ_self _)
      generalize memLoop cfg tl size s.now M 0 ((erasePush k s.queue).length + 1) rs
        (Cachelito.put k ⟨v, stamp cfg s.now, 0⟩ s.store) (erasePush k s.queue) = r1 at hex
      obtain ⟨m1, q1, rs1⟩ := r1
      simp only at hex ⊢
      have hle := totalMem_sublist_le size (limitStep_shr cfg tl s.now (rs1.headD 0) m1 q1).store
      rcases hex with hex | hex
      · omega
      · have : m1 = [] := by
          cases m1 with
          | nil => rfl
          | cons a m1 => exact absurd (hex a.1 (by simp)) (by simp)
        subst this
        simp only [totalMem_nil] at hle
        omega
  | clear => simp [step, Cachelito.clear, totalMem]
  | invalidateWith p => exact Nat.le_trans (totalMem_invalidateWith_le size p s) hb
  | tick ms => exact hb

/-! ## §8 Whole histories and whole schedules -/

theorem run_weak {cfg : Cfg} (hf : cfg.flavour ≠ .async) (tl : Tlru S) (size : V → Nat)
    (ops : List (Op K V × List Nat)) (s : State K V) (h : WeakInv s) :
    WeakInv (run cfg tl size s ops).1 ∧
    ∀ n, cfg.limit = some n → WeakBound cfg n s → WeakBound cfg n (run cfg tl size s ops).1 := by
  induction ops generalizing s with
  | nil => exact ⟨h, fun _ _ hb => hb⟩
  | cons a ops ih =>
    obtain ⟨op, rs⟩ := a
    simp only [run]
    have h1 := step_weak hf tl size rs s op h
    refine ⟨(ih _ h1).1, fun n hl hb => (ih _ h1).2 n hl (step_weak_bound hf tl size rs s op n hl h hb)⟩

theorem run_weak_mem {cfg : Cfg} (hf : cfg.flavour ≠ .async) (tl : Tlru S) (size : V → Nat) (M : Nat)
    (hM : cfg.maxMem = some M) (ops : List (Op K V × List Nat)) (hops : AllViaMem ops) (s : State K V)
    (h : WeakInv s) (hb : totalMem size s.store ≤ M) : totalMem size (run cfg tl size s ops).1.store ≤ M := by
  induction ops generalizing s with
  | nil => exact hb
  | cons a ops ih =>
    have hhead := hops.head
    have htail := hops.tail
    obtain ⟨op, rs⟩ := a
    simp only [run]
    exact ih htail _ (step_weak hf tl size rs s op h) (step_weak_mem hf tl size rs s op M hM hhead h hb)

/-- values along a whole sequential history: the store stays `(k, f k)` and every lookup that returns
    a value returns `f` of its key -/
theorem run_val {f : K → V} (cfg : Cfg) (tl : Tlru S) (size : V → Nat) (ops : List (Op K V × List Nat))
    (s : State K V) (hs : ValOK f s.store) (hops : ∀ x, x ∈ ops → OpOK f x.1) :
    ValOK f (run cfg tl size s ops).1.store ∧
    ∀ a o, (a, o) ∈ ops.zip (run cfg tl size s ops).2 → RecOK f a.1 o := by
  induction ops generalizing s with
  | nil => exact ⟨hs, by intro a o h; simp [run] at h⟩
  | cons a ops ih =>
    obtain ⟨op, rs⟩ := a
    simp only [run]
    have h1 := step_val cfg tl size rs s op hs (hops (op, rs) List.mem_cons_self)
    have h2 := ih _ h1.1 (fun x hx => hops x (List.mem_cons_of_mem _ hx))
    refine ⟨h2.1, ?_⟩
    intro a o hao
    simp only [List.zip_cons_cons, List.mem_cons, Prod.mk.injEq] at hao
    rcases hao with ⟨ha, ho⟩ | hao
    · rw [ha, ho]; exact h1.2
    · exact h2.2 a o hao

theorem run_bound_from (cfg : Cfg) (tl : Tlru S) (size : V → Nat) (n : Nat) (hl : cfg.limit = some n) (hn : 1 ≤ n)
    (ops : List (Op K V × List Nat)) (s : State K V) (hi : Inv s) (hb : s.store.length ≤ n) :
    (run cfg tl size s ops).1.store.length ≤ n := by
  induction ops generalizing s with
  | nil => exact hb
  | cons a ops ih =>
    obtain ⟨op, rs⟩ := a
    simp only [run]
    exact ih _ (step_inv cfg tl size rs s op hi) (C04.step_bound cfg tl size rs s op n hl hn hi hb)

/-- the full operation list of a thread: what it has finished followed by what it still has to run -/
def fullOps (t : Thread K V) : List (Op K V) := t.done.map (·.1) ++ t.prog.map (·.1)

/-- the operation an operation-in-progress belongs to -/
def Pend.opOf : Pend K V → Op K V
  | .expire k => .get k
  | .refresh k _ => .get k
  | .move k _ => .get k
  | .bump k _ => .get k
  | .track k v _ => .insert k v
  | .trackMem k v _ => .insertMem k v
  | .purge p _ => .invalidateWith p
  | .legacyClearQueue => .clear
  | .legacyDrop k => .get k
  | .legacyRetain k => .get k

/-- continuations the engine (and code version) at hand can create -/
def Pend.okFor (legacy : Bool) (cfg : Cfg) : Pend K V → Prop
  | .expire _ => True
  | .refresh _ _ => isAsync cfg = true
  | .purge _ _ => isAsync cfg = true
  | .move _ _ => isAsync cfg = false
  | .bump _ _ => isAsync cfg = false
  | .track _ _ _ => isAsync cfg = false
  | .trackMem _ _ _ => isAsync cfg = false
  | .legacyClearQueue => legacy = true
  | .legacyDrop _ => legacy = true ∧ isAsync cfg = true
  | .legacyRetain _ => legacy = true ∧ isAsync cfg = true

/-- the local state of a thread fits the operation at the head of its program -/
def PendFits (legacy : Bool) (cfg : Cfg) (op : Op K V) : Option (Pend K V) → Prop
  | none => True
  | some p => p.okFor legacy cfg ∧ p.opOf = op

def ResFits (legacy : Bool) (cfg : Cfg) (op : Op K V) : Res K V → Prop
  | .more p => p.okFor legacy cfg ∧ p.opOf = op
  | .fin op' _ => op' = op

/-- a micro-step works on the operation at the head of the program and reports that operation -/
theorem micro_fits (legacy : Bool) (cfg : Cfg) (tl : Tlru S) (size : V → Nat) (s : State K V)
    (op : Op K V) (rs : List Nat) (pend : Option (Pend K V)) (hp : PendFits legacy cfg op pend) :
    ResFits legacy cfg op (micro legacy cfg tl size s op rs pend).2 := by
  cases pend with
  | none =>
    simp only [micro]
    cases op with
    | get k =>
      simp only [first]
      cases lookup k s.store with
      | none => exact rfl
      | some e =>
        simp only
        split
        · by_cases hl : (legacy && isAsync cfg) = true
          · simp only [hl, if_true]
            simp only [Bool.and_eq_true] at hl
            exact ⟨hl, rfl⟩
          · simp only [hl, if_false, Bool.false_eq_true]; exact ⟨trivial, rfl⟩
        · split
          · rename_i ha
            split
            · exact ⟨ha, rfl⟩
            · exact rfl
          · rename_i ha
            have ha' : isAsync cfg = false := by simpa using ha
            split
            · exact ⟨ha', rfl⟩
            · split
              · exact ⟨ha', rfl⟩
              · exact rfl
    | insert k v =>
      simp only [first]
      split
      · exact rfl
      · rename_i ha; exact ⟨(by simpa using ha : isAsync cfg = false), rfl⟩
    | insertMem k v =>
      simp only [first]
      split
      · exact rfl
      · rename_i ha; exact ⟨(by simpa using ha : isAsync cfg = false), rfl⟩
    | clear =>
      simp only [first]
      split
      · rename_i hl; exact ⟨hl, rfl⟩
      · exact rfl
    | invalidateWith p =>
      simp only [first]
      split
      · rename_i ha; exact ⟨ha, rfl⟩
      · exact rfl
    | tick ms => exact rfl
  | some p =>
    obtain ⟨hok, hop⟩ := hp
    subst hop
    simp only [micro]
    split
    · rename_i ha
      cases p with
      | expire k => exact rfl
      | refresh k v => exact rfl
      | purge p ks => exact rfl
      | legacyClearQueue =>
        have hl : legacy = true := hok
        simp only [contAsync, hl, if_true]; exact rfl
      | legacyDrop k =>
        have hl : legacy = true := hok.1
        simp only [contAsync, hl, if_true]; exact ⟨⟨rfl, ha⟩, rfl⟩
      | legacyRetain k =>
        have hl : legacy = true := hok.1
        simp only [contAsync, hl, if_true]; exact rfl
      | move k v => have : isAsync cfg = false := hok; simp [this] at ha
      | bump k v => have : isAsync cfg = false := hok; simp [this] at ha
      | track k v r => have : isAsync cfg = false := hok; simp [this] at ha
      | trackMem k v rs => have : isAsync cfg = false := hok; simp [this] at ha
    · rename_i ha
      have ha' : isAsync cfg = false := by simpa using ha
      cases p with
      | expire k => exact rfl
      | move k v =>
        simp only [contSync]
        split
        · exact ⟨ha', rfl⟩
        · exact rfl
      | bump k v => exact rfl
      | track k v r => exact rfl
      | trackMem k v rs => exact rfl
      | legacyClearQueue =>
        have hl : legacy = true := hok
        simp only [contSync, hl, if_true]; exact rfl
      | refresh k v => have : isAsync cfg = true := hok; simp [this] at ha'
      | purge p ks => have : isAsync cfg = true := hok; simp [this] at ha'
      | legacyDrop k => have : isAsync cfg = true := hok.2; simp [this] at ha'
      | legacyRetain k => have : isAsync cfg = true := hok.2; simp [this] at ha'

/-- thread-level well-formedness: an operation in progress is the one at the head of the program -/
def ThreadFits (legacy : Bool) (cfg : Cfg) (t : Thread K V) : Prop :=
  match t.prog with
  | [] => t.pend = none
  | (op, _) :: _ => PendFits legacy cfg op t.pend

def Fits (legacy : Bool) (cfg : Cfg) (c : CState K V) : Prop := ∀ t, t ∈ c.threads → ThreadFits legacy cfg t

/-- **Faithful bookkeeping**: a step keeps every thread's full operation list (finished ++ remaining)
    unchanged — the record a finished operation leaves is the record of the program's own operation —
    and keeps the local states fitting. -/
theorem cstepWith_fits {legacy : Bool} {cfg : Cfg} {tl : Tlru S} {size : V → Nat} (c : CState K V) (i : Nat)
    (c' : CState K V) (hfit : Fits legacy cfg c) (h : cstepWith legacy cfg tl size c i = some c') :
    Fits legacy cfg c' ∧ c'.threads.map fullOps = c.threads.map fullOps := by
  obtain ⟨t, op, rs, rest, l1, l2, hl, hprog, hsh, hth⟩ := cstepWith_cases h
  have htm : t ∈ c.threads := by rw [hl]; simp
  have hothers : ∀ x, x ∈ l1 ∨ x ∈ l2 → x ∈ c.threads := by
    intro x hx; rw [hl]
    rcases hx with hx | hx
    · exact List.mem_append_left _ hx
    · exact List.mem_append_right _ (List.mem_cons_of_mem _ hx)
  have htf : PendFits legacy cfg op t.pend := by
    have := hfit t htm
    unfold ThreadFits at this
    rw [hprog] at this
    exact this
  have hm := micro_fits legacy cfg tl size c.shared op rs t.pend htf
  rcases hth with ⟨p, hr, hts⟩ | ⟨op', o, hr, hts⟩
  · rw [hr] at hm
    refine ⟨?_, ?_⟩
    · intro x hx
      rw [hts] at hx
      rcases List.mem_append.mp hx with hx | hx
      · exact hfit x (hothers x (Or.inl hx))
      · rcases List.mem_cons.mp hx with hx | hx
        · subst hx
          unfold ThreadFits
          simp only [hprog]
          exact hm
        · exact hfit x (hothers x (Or.inr hx))
    · rw [hts, hl]
      simp only [List.map_append, List.map_cons, fullOps]
  · rw [hr] at hm
    have hop' : op' = op := hm
    refine ⟨?_, ?_⟩
    · intro x hx
      rw [hts] at hx
      rcases List.mem_append.mp hx with hx | hx
      · exact hfit x (hothers x (Or.inl hx))
      · rcases List.mem_cons.mp hx with hx | hx
        · subst hx
          unfold ThreadFits
          cases rest with
          | nil => rfl
          | cons a rest => exact trivial
        · exact hfit x (hothers x (Or.inr hx))
    · rw [hts, hl]
      simp only [List.map_append, List.map_cons, fullOps, hprog, hop', List.map_nil, List.append_assoc,
        List.cons_append, List.nil_append]

theorem fits_start (legacy : Bool) (cfg : Cfg) (s : State K V) (progs : List (List (Op K V × List Nat))) :
    Fits legacy cfg (CState.start s progs) := by
  intro t ht
  simp only [CState.start, List.mem_map] at ht
  obtain ⟨prog, _, rfl⟩ := ht
  unfold ThreadFits Thread.start
  cases prog with
  | nil => rfl
  | cons a prog => exact trivial

theorem fullOps_start (s : State K V) (progs : List (List (Op K V × List Nat))) :
    (CState.start s progs).threads.map fullOps = progs.map (fun p => p.map (·.1)) := by
  simp only [CState.start, List.map_map]
  apply List.map_congr_left
  intro p _
  simp [fullOps, Thread.start]

theorem allDone_of_allDoneB {c : CState K V} (h : allDoneB c = true) : AllDone c := by
  intro t ht
  have := (List.all_eq_true.mp h) t ht
  exact List.isEmpty_iff.mp this

theorem quiescent_of_quiescentB {c : CState K V} (h : quiescentB c = true) : Quiescent c := by
  intro t ht
  have := (List.all_eq_true.mp h) t ht
  exact Option.isNone_iff_eq_none.mp this

/-- a consistent state within the limit satisfies both halves of the sync bound -/
theorem WeakBound.of_inv {cfg : Cfg} {n : Nat} {s : State K V} (h : Inv s) (hb : s.store.length ≤ n) :
    WeakBound cfg n s :=
  ⟨fun _ => by simpa using hb, fun _ => by rw [InvMQ.length_eq h]; exact hb⟩

theorem weakInv_init : WeakInv (State.init : State K V) := WeakInv.of_inv inv_init

theorem weakBound_init (cfg : Cfg) (n : Nat) : WeakBound cfg n (State.init : State K V) :=
  WeakBound.of_inv inv_init (by simp [State.init])

/-! ## §9 One thread = the sequential model -/

/-- the micro-steps of one operation, run back to back, reach `(s', o)` -/
def StepsTo (cfg : Cfg) (tl : Tlru S) (size : V → Nat) (s : State K V) (op : Op K V) (rs : List Nat)
    (s' : State K V) (o : Out V) : Prop :=
  micro false cfg tl size s op rs none = (s', .fin op o) ∨
  (∃ s1 p1, micro false cfg tl size s op rs none = (s1, .more p1) ∧
      micro false cfg tl size s1 op rs (some p1) = (s', .fin op o)) ∨
  (∃ s1 p1 s2 p2, micro false cfg tl size s op rs none = (s1, .more p1) ∧
      micro false cfg tl size s1 op rs (some p1) = (s2, .more p2) ∧
      micro false cfg tl size s2 op rs (some p2) = (s', .fin op o))

theorem micro_chain_get (cfg : Cfg) (tl : Tlru S) (size : V → Nat) (s : State K V) (k : K) (rs : List Nat) :
    StepsTo cfg tl size s (.get k) rs (step cfg tl size rs s (.get k)).1 (step cfg tl size rs s (.get k)).2 := by
  simp only [step]
  unfold Cachelito.get
  cases hl : lookup k s.store with
  | none => left; simp [micro, first, hl]
  | some e =>
    simp only
    by_cases hexp : expired cfg s.now e = true
    · simp only [hexp, if_true]
      right; left
      refine ⟨s, .expire k, by simp [micro, first, hl, hexp], ?_⟩
      simp only [micro]
      split <;> rfl
    · simp only [hexp, if_false, Bool.false_eq_true]
      cases hf : cfg.flavour
      case async =>
        have ha : isAsync cfg = true := isAsync_of hf
        unfold hitUpdate
        simp only [hf]
        by_cases hR : ((cfg.limit.isSome || cfg.maxMem.isSome) && cfg.policy.refreshes) = true
        · right; left
          refine ⟨_, .refresh k e.val, by simp [micro, first, hl, hexp, ha, hR]; rfl, ?_⟩
          simp [micro, ha, contAsync, hR]
        · left
          simp [micro, first, hl, hexp, ha, hR]
      all_goals
        have ha : isAsync cfg = false := isAsync_false_of (by rw [hf]; simp)
        unfold hitUpdate
        simp only [hf]
        by_cases hr : cfg.policy.refreshes = true
        · by_cases hb : cfg.policy.bumps = true
          · right; right
            refine ⟨_, .move k e.val, _, .bump k e.val, by simp [micro, first, hl, hexp, ha, hr]; rfl, by simp [micro, ha, contSync, hb]; rfl, ?_⟩
            simp [micro, ha, contSync, hb, hr]
          · right; left
            refine ⟨_, .move k e.val, by simp [micro, first, hl, hexp, ha, hr]; rfl, ?_⟩
            simp [micro, ha, contSync, hb, hr]
        · by_cases hb : cfg.policy.bumps = true
          · right; left
            refine ⟨_, .bump k e.val, by simp [micro, first, hl, hexp, ha, hr, hb]; rfl, ?_⟩
            simp [micro, ha, contSync, hb, hr]
          · left
            simp [micro, first, hl, hexp, ha, hr, hb]

theorem foldl_eraseKey_eq_filter (ks : List K) (m : Store K V) :
    ks.foldl (fun m k => eraseKey k m) m = m.filter (fun e => !ks.contains e.1) := by
  induction ks generalizing m with
  | nil => simp only [List.foldl_nil]; exact (List.filter_eq_self.mpr (by intro a _; simp)).symm
  | cons k ks ih =>
    simp only [List.foldl_cons]
    rw [ih, eraseKey, List.filter_filter]
    apply List.filter_congr
    intro e _
    by_cases hx : e.1 = k <;> simp [hx, List.contains_cons, eq_comm]

theorem purge_store_eq (p : K → Bool) (m : Store K V) :
    ((keys m).filter p).foldl (fun m k => eraseKey k m) m = m.filter (fun e => !p e.1) := by
  rw [foldl_eraseKey_eq_filter]
  apply List.filter_congr
  intro e he
  have hk : e.1 ∈ keys m := by simp only [keys, List.mem_map]; exact ⟨e, he, rfl⟩
  by_cases hp : p e.1 = true
  · simp [hp, hk]
  · simp [hp]

theorem micro_chain (cfg : Cfg) (tl : Tlru S) (size : V → Nat) (s : State K V) (op : Op K V) (rs : List Nat) :
    StepsTo cfg tl size s op rs (step cfg tl size rs s op).1 (step cfg tl size rs s op).2 := by
  cases op with
  | get k => exact micro_chain_get cfg tl size s k rs
  | insert k v =>
    by_cases ha : isAsync cfg = true
    · left; simp [micro, first, ha, step]
    · have hf : cfg.flavour ≠ .async := by intro hf; exact ha (isAsync_of hf)
      right; left
      refine ⟨_, .track k v (rs.headD 0), by simp [micro, first, ha]; rfl, ?_⟩
      simp only [micro, ha, Bool.false_eq_true, if_false, contSync, step, insert_sync hf]
  | insertMem k v =>
    by_cases ha : isAsync cfg = true
    · left; simp [micro, first, ha, step]
    · have hf : cfg.flavour ≠ .async := by intro hf; exact ha (isAsync_of hf)
      right; left
      refine ⟨_, .trackMem k v rs, by simp [micro, first, ha]; rfl, ?_⟩
      simp only [micro, ha, Bool.false_eq_true, if_false, contSync, step, insertMem_sync hf]
      have hsz : entrySize size k (Cachelito.put k ⟨v, stamp cfg s.now, 0⟩ s.store) = size v := by
        simp [entrySize, lookup_put_self]
      unfold trackMemStep
      simp only [hsz]
      cases cfg.maxMem <;> rfl
  | clear => left; simp [micro, first, step]
  | invalidateWith p =>
    by_cases ha : isAsync cfg = true
    · right; left
      refine ⟨s, .purge p ((keys s.store).filter p), by simp [micro, first, ha], ?_⟩
      simp only [micro, ha, if_true, contAsync, step, Cachelito.invalidateWith, purge_store_eq]
    · left; simp [micro, first, ha, step]
  | tick ms => left; simp [micro, first, step]


theorem crun_single_more (cfg : Cfg) (tl : Tlru S) (size : V → Nat) {s s1 : State K V} {op : Op K V} {rs : List Nat}
    {pend : Option (Pend K V)} {p : Pend K V} (rest : List (Op K V × List Nat)) (d : List (Op K V × Out V)) (n : Nat)
    (h : micro false cfg tl size s op rs pend = (s1, .more p)) :
    crun cfg tl size (List.replicate (n + 1) 0) ⟨s, [⟨(op, rs) :: rest, pend, d⟩]⟩ =
      crun cfg tl size (List.replicate n 0) ⟨s1, [⟨(op, rs) :: rest, some p, d⟩]⟩ := by
  simp [crun, crunWith, List.replicate_succ, cstepWith, tstep, h]

theorem crun_single_fin (cfg : Cfg) (tl : Tlru S) (size : V → Nat) {s s1 : State K V} {op op' : Op K V} {rs : List Nat}
    {pend : Option (Pend K V)} {o : Out V} (rest : List (Op K V × List Nat)) (d : List (Op K V × Out V)) (n : Nat)
    (h : micro false cfg tl size s op rs pend = (s1, .fin op' o)) :
    crun cfg tl size (List.replicate (n + 1) 0) ⟨s, [⟨(op, rs) :: rest, pend, d⟩]⟩ =
      crun cfg tl size (List.replicate n 0) ⟨s1, [⟨rest, none, d ++ [(op', o)]⟩]⟩ := by
  simp [crun, crunWith, List.replicate_succ, cstepWith, tstep, h]

theorem crun_single_done (cfg : Cfg) (tl : Tlru S) (size : V → Nat) (s : State K V) (pend : Option (Pend K V))
    (d : List (Op K V × Out V)) (n : Nat) :
    crun cfg tl size (List.replicate n 0) ⟨s, [⟨[], pend, d⟩]⟩ = ⟨s, [⟨[], pend, d⟩]⟩ := by
  induction n with
  | zero => rfl
  | succ n ih =>
    have : crun cfg tl size (List.replicate (n + 1) 0) ⟨s, [⟨[], pend, d⟩]⟩ =
        crun cfg tl size (List.replicate n 0) ⟨s, [⟨[], pend, d⟩]⟩ := by
      simp [crun, crunWith, List.replicate_succ, cstepWith, tstep]
    rw [this, ih]

/-- **One thread = the sequential model.**  A system with a single thread that runs its whole program
    (any schedule naming it at least `3 · length` times) ends in exactly the state `Cachelito.run` computes,
    having reported exactly the outputs `Cachelito.run` computes — for both engines, every policy. -/
theorem single_thread_is_run (cfg : Cfg) (tl : Tlru S) (size : V → Nat) (prog : List (Op K V × List Nat))
    (s : State K V) (d : List (Op K V × Out V)) (N : Nat) (hN : 3 * prog.length ≤ N) :
    crun cfg tl size (List.replicate N 0) ⟨s, [⟨prog, none, d⟩]⟩ =
      ⟨(run cfg tl size s prog).1, [⟨[], none, d ++ (prog.map (·.1)).zip (run cfg tl size s prog).2⟩]⟩ := by
  induction prog generalizing s d N with
  | nil => simp [run, crun_single_done]
  | cons a rest ih =>
    obtain ⟨op, rs⟩ := a
    simp only [List.length_cons] at hN
    have hfin : ∀ n, 3 * rest.length ≤ n →
        crun cfg tl size (List.replicate n 0)
          ⟨(step cfg tl size rs s op).1, [⟨rest, none, d ++ [(op, (step cfg tl size rs s op).2)]⟩]⟩ =
        ⟨(run cfg tl size s ((op, rs) :: rest)).1,
          [⟨[], none, d ++ (((op, rs) :: rest).map (·.1)).zip (run cfg tl size s ((op, rs) :: rest)).2⟩]⟩ := by
      intro n hn
      rw [ih _ _ n hn]
      simp [run]
    rcases micro_chain cfg tl size s op rs with h1 | ⟨s1, p1, h1, h2⟩ | ⟨s1, p1, s2, p2, h1, h2, h3⟩
    · obtain ⟨n, rfl⟩ : ∃ n, N = n + 1 := ⟨N - 1, by omega⟩
      rw [crun_single_fin cfg tl size rest d n h1]
      exact hfin n (by omega)
    · obtain ⟨n, rfl⟩ : ∃ n, N = n + 1 + 1 := ⟨N - 2, by omega⟩
      rw [crun_single_more cfg tl size rest d (n + 1) h1, crun_single_fin cfg tl size rest d n h2]
      exact hfin n (by omega)
    · obtain ⟨n, rfl⟩ : ∃ n, N = n + 1 + 1 + 1 := ⟨N - 3, by omega⟩
      rw [crun_single_more cfg tl size rest d (n + 1 + 1) h1, crun_single_more cfg tl size rest d (n + 1) h2,
        crun_single_fin cfg tl size rest d n h3]
      exact hfin n (by omega)


end Cachelito.ConcData
