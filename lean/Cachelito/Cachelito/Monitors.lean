/-
  Cachelito.Monitors — the engine-level properties stated DIRECTLY as executable predicates over
  observations of the implementation (pre-state, operation, result, post-state, plus ghost history of
  the episode).  They never look at the model: a monitor that turns false is a concrete violation
  of the property on the real code and the episode prefix is the replay.

  Each monitor returns a list of failure messages (empty = holds on this observation).
-/
import Cachelito.Driver

namespace Cachelito.Monitors
open Cachelito Cachelito.Driver

/-- ghost history of one episode -/
structure Ghost where
  step : Nat := 0
  lastStore : List (String × String) := []      -- key ↦ id of the value of the latest store
  storeStamp : List (String × Nat) := []        -- key ↦ step of the latest store
  useStamp : List (String × Nat) := []          -- key ↦ step of the latest store or successful lookup
  hitsSince : List (String × Nat) := []         -- key ↦ successful lookups since the latest store
  gets : Nat := 0
  hits0 : Nat := 0                               -- counters at episode start
  miss0 : Nat := 0
  started : Bool := false
  /-- some pre-state of this episode had an ORPHAN queue slot (injected by the harness: a state only concurrent use
      produces).  A later store of such a key may legitimately leave two slots in the async engine, so monitors that
      read the policy order off the history alone are only applied to untainted episodes once the bookkeeping is off. -/
  tainted : Bool := false
  /-- the queue as the previous observation left it (`none` before the first one): an orphan that is in a pre-state
      but was not in the previous post-state was put there by the harness, not by an operation -/
  lastQueue : Option (List String) := none

def alookup {β : Type} (k : String) : List (String × β) → Option β
  | [] => none
  | (k', v) :: r => if k' = k then some v else alookup k r

def aput {β : Type} (k : String) (v : β) (l : List (String × β)) : List (String × β) :=
  (k, v) :: l.filter (fun p => p.1 ≠ k)

structure Obs where
  cfg : Cfg
  fw : Option Float
  pre : St
  op : Op String Val
  out : ImplOut
  post : St

def nodupB : List String → Bool
  | [] => true
  | x :: xs => !xs.contains x && nodupB xs

def invB (s : St) : Bool :=
  nodupB (keys s.store) && nodupB s.queue &&
  s.queue.all (fun k => hasKey k s.store) && (keys s.store).all (fun k => s.queue.contains k)

def hasOrphan (s : St) : Bool := s.queue.any (fun k => !hasKey k s.store)

/-- an orphan slot in this pre-state that no operation left there (the harness injected it) -/
def injectedNow (g : Ghost) (o : Obs) : Bool :=
  match g.lastQueue with
  | none => hasOrphan o.pre
  | some q => o.pre.queue.any (fun k => !hasKey k o.pre.store && !q.contains k)

def ageMs (o : Obs) (s : St) (e : Entry Val) : Nat := ageOf o.cfg s.now e.birth

def storedKey : Op String Val → Option (String × Val)
  | .insert k v => some (k, v)
  | .insertMem k v => some (k, v)
  | _ => none

/-- keys of `a` not in `b` -/
def diffKeys (a b : List String) : List String := a.filter (fun k => !b.contains k)

def isExpiredObs (o : Obs) (e : Entry Val) : Bool :=
  match o.cfg.ttl with
  | none => false
  | some t => decide (ageMs o o.pre e ≥ 1000 * t)

/-! C01 (engine level): a lookup returns the value of the latest store under that key; every stored
    entry carries the value of the latest store under its key. -/
def monC01 (g : Ghost) (o : Obs) : List String :=
  let a := match o.op, o.out with
    | .get k, .val (some v) =>
      if alookup k g.lastStore = some v.id then [] else [s!"get {k} returned {v.id}, latest store was {alookup k g.lastStore}"]
    | _, _ => []
  let g' := match storedKey o.op with
    | some (k, v) => aput k v.id g.lastStore
    | none => g.lastStore
  let b := o.post.store.filterMap (fun (k, e) =>
    if alookup k g' = some e.val.id then none else some s!"entry {k} holds {e.val.id}, latest store was {alookup k g'}")
  a ++ b

/-! C04: never more than `limit` entries; store and queue track the same keys; exactly one victim per
    overflow and none without (plain `insert`, i.e. no memory pressure). -/
def monC04 (_g : Ghost) (o : Obs) : List String :=
  if !invB o.pre then [] else
  let a := if invB o.post then [] else ["store/queue bookkeeping broken after the operation (duplicate or untracked key)"]
  let b := match o.cfg.limit with
    | some n =>
      if n ≥ 1 && o.pre.store.length ≤ n && o.post.store.length > n then
        [s!"{o.post.store.length} entries held with limit {n}"] else []
    | none => []
  -- a memory-aware store WITHOUT memory pressure (no max_memory, or the survivors plus the new value fit) is exactly a
  -- plain store: one victim on overflow, none otherwise
  let plainStore : Option String := match o.op, o.cfg.maxMem with
    | .insert k _, _ => some k
    | .insertMem k _, none => some k
    | .insertMem k v, some M =>
      if totalMem Val.size (o.pre.store.filter (fun p => p.1 ≠ k)) + v.size ≤ M then some k else none
    | _, _ => none
  let c := match plainStore, o.op with
    | some k, _ =>
      let before := if hasKey k o.pre.store then keys o.pre.store else keys o.pre.store ++ [k]
      let removed := diffKeys before (keys o.post.store)
      let extra := diffKeys (keys o.post.store) before
      let overflow := match o.cfg.limit with
        | some n => decide (before.length > n)
        | none => false
      let expect := if overflow then 1 else 0
      (if removed.length = expect then [] else
        [s!"store of {k} removed {removed} (overflow={overflow})"]) ++
      (if extra.isEmpty then [] else [s!"keys appeared from nowhere: {extra}"])
    | none, .get k =>
      let removed := diffKeys (keys o.pre.store) (keys o.post.store)
      let expiredK := match lookup k o.pre.store with
        | some e => isExpiredObs o e
        | none => false
      if removed = (if expiredK then [k] else []) && (diffKeys (keys o.post.store) (keys o.pre.store)).isEmpty then []
      else [s!"lookup of {k} changed the key set: removed {removed}"]
    | _, _ => []
  a ++ b ++ c

/-! C05: total size ≤ max_memory after a memory-aware store; an oversize value displaces nothing
    else; no eviction while the total already fits; the last eviction was necessary. -/
def monC05 (_g : Ghost) (o : Obs) : List String :=
  match o.op, o.cfg.maxMem with
  | .insertMem k v, some M =>
    let total (s : St) := totalMem Val.size s.store
    -- the BOUND needs less than full bookkeeping: every stored key has a queue slot and the queue is duplicate-free (orphan
    -- slots allowed — the invariant sequential use keeps after concurrent use, C18.sync_then_sequential); a store that
    -- completes with the total above max_memory is a violation there too (the loop must look past orphan slots)
    let weak := (keys o.pre.store).all (fun x => o.pre.queue.contains x) && nodupB o.pre.queue && nodupB (keys o.pre.store)
    let a := if total o.pre ≤ M && total o.post > M then [s!"total {total o.post} exceeds max_memory {M}"] else []
    if !invB o.pre then (if weak then a else []) else
    let others := o.pre.store.filter (fun p => p.1 ≠ k)
    let othersTotal := totalMem Val.size others
    if v.size > M then
      let keptOthers := o.post.store.filter (fun p => p.1 ≠ k)
      a ++ (if hasKey k o.post.store then [s!"oversize value ({v.size} > {M}) was cached"] else []) ++
      (if keys keptOthers = keys others || (diffKeys (keys others) (keys keptOthers)).isEmpty then []
       else [s!"oversize value displaced {diffKeys (keys others) (keys keptOthers)}"])
    else
      let removed := others.filter (fun p => !hasKey p.1 o.post.store)
      let overflow := match o.cfg.limit with
        | some n => decide (others.length + 1 > n)
        | none => false
      let b := if othersTotal + v.size ≤ M && !overflow && !removed.isEmpty then
          [s!"needless eviction of {keys removed}: total {othersTotal}+{v.size} fits {M}"] else []
      -- the last victim was necessary: some removed entry does not fit back in
      let c := if !overflow && !removed.isEmpty && total o.pre ≤ M &&
          removed.all (fun p => total o.post + p.2.val.size ≤ M) && hasKey k o.post.store then
          [s!"evicted more than needed: any of {keys removed} would still fit"] else []
      a ++ b ++ c
  | _, _ => []

/-! C06: an entry of age ≥ ttl is never served and is purged on access; a younger one is served. -/
def monC06core (o : Obs) : List String :=
  match o.op, o.cfg.ttl with
  | .get k, some t =>
    match lookup k o.pre.store with
    | none => []
    | some e =>
      let age := ageMs o o.pre e
      if age ≥ 1000 * t then
        (match o.out with
         | .val none => []
         | _ => [s!"entry {k} of age {age} ms served with ttl {t}"]) ++
        (if hasKey k o.post.store || o.post.queue.contains k then [s!"expired entry {k} not purged"] else [])
      else
        -- async ages are differences of whole seconds: the real age lies within one second of it, and
        -- the property only promises service below T-1 s
        let young := match o.cfg.flavour with
          | .async => decide (age + 2000 ≤ 1000 * t)
          | _ => true
        match o.out with
        | .val (some v) => if v = e.val then [] else [s!"entry {k} served {v.id}, stored {e.val.id}"]
        | _ => if young then [s!"entry {k} of age {age} ms not served with ttl {t}"] else []
  | _, _ => []

/-- an entry's age is the time since it was STORED: no operation other than a store of that key (or a time
    step) may change it — otherwise "age ≥ ttl" would not mean what the property says -/
def monC06birth (o : Obs) : List String :=
  match o.op with
  | .tick _ => []
  | _ =>
    let storedK := (storedKey o.op).map (·.1)
    o.post.store.filterMap (fun (k, e) =>
      if some k = storedK then none else
      match lookup k o.pre.store with
      | none => none
      | some e0 =>
        if ageMs o o.post e = ageMs o o.pre e0 then none
        else some s!"the age of entry {k} changed from {ageMs o o.pre e0} to {ageMs o o.post e} ms without a store of {k}")

/-- a store starts a NEW entry: whatever is held under the stored key afterwards has age (about) zero — also when
    the key was already cached (a refresh must not inherit the birth time of the entry it replaces) -/
def monC06fresh (o : Obs) : List String :=
  match storedKey o.op with
  | none => []
  | some (k, v) =>
    match lookup k o.post.store with
    | none => []
    | some e =>
      let age := ageMs o o.post e
      if e.val ≠ v then [] else
      -- sync ages are read back a few µs..ms after the store; async ages are whole seconds
      if age < 1000 then [] else [s!"entry {k} was just stored but its age is {age} ms (birth time not reset by the store)"]

/-- "an entry younger than T is served unless it was evicted or invalidated": a LOOKUP is neither — it may purge the
    looked-up key when that one has expired, and nothing that is still alive -/
def monC06frame (o : Obs) : List String :=
  match o.op, o.cfg.ttl with
  | .get k, some t =>
    o.pre.store.filterMap (fun (x, e) =>
      if x = k || hasKey x o.post.store then none else
      let age := ageMs o o.pre e
      -- async ages are differences of whole seconds (see `monC06core`)
      let young := match o.cfg.flavour with
        | .async => decide (age + 2000 ≤ 1000 * t)
        | _ => decide (age < 1000 * t)
      if young then some s!"lookup of {k} dropped entry {x} of age {age} ms (ttl {t}): a live entry was neither evicted by a store nor invalidated, yet it is gone"
      else none)
  | _, _ => []

def monC06 (_g : Ghost) (o : Obs) : List String :=
  monC06core o ++ monC06frame o ++ (if o.cfg.ttl.isSome then monC06birth o else []) ++ monC06fresh o

/-! C07: FIFO evicts the oldest store, LRU the least recently used (entry limit or memory pressure). -/
def stampOf (stamps : List (String × Nat)) (k : String) : Nat := (alookup k stamps).getD 0

def monC07 (g : Ghost) (o : Obs) : List String :=
  -- the predicate speaks about the HISTORY only (ghost stamps), not about the implementation's queue: it is applied
  -- whenever the pre-state's bookkeeping is intact, and ALSO when it is not (duplicate slots a defect left behind)
  -- as long as no orphan was ever injected in this episode and every stored key's stamp is known
  let histOnly := !g.tainted && !injectedNow g o && !hasOrphan o.pre && nodupB (keys o.pre.store) &&
    (keys o.pre.store).all (fun x => (alookup x g.storeStamp).isSome)
  if !(invB o.pre || histOnly) then [] else
  let pol := o.cfg.policy
  if pol ≠ .fifo && pol ≠ .lru then [] else
  match storedKey o.op with
  | none => []
  | some (k, v) =>
    let oversize := match o.op, o.cfg.maxMem with
      | .insertMem _ _, some M => decide (v.size > M)
      | _, _ => false
    if oversize then [] else
    let stamps0 := if pol = .fifo then g.storeStamp else g.useStamp
    let stamps := aput k (g.step + 1) stamps0
    let before := if hasKey k o.pre.store then keys o.pre.store else keys o.pre.store ++ [k]
    let removed := diffKeys before (keys o.post.store)
    let kept := before.filter (fun x => !removed.contains x)
    -- every removed key is older (in the policy's sense) than every kept key
    let bad := removed.filter (fun r => kept.any (fun x => stampOf stamps x < stampOf stamps r))
    if bad.isEmpty then [] else
      [s!"{if pol = .fifo then "FIFO" else "LRU"} evicted {bad} although an older entry was kept (stamps {stamps.map (fun p => s!"{p.1}:{p.2}")})"]

/-! C08: LFU evicts a minimum-hits entry; ARC / TLRU a minimum-score entry (documented score:
    hits^w × recency-rank × remaining-lifetime fraction, more recent = higher rank); hit counters are
    exact.  Single-victim stores only (entry limit). -/
def docScore (o : Obs) (hits rank age : Nat) : Float :=
  let f := hits.toFloat
  let fc := match o.fw, o.cfg.policy with
    | some w, .tlru => if hits = 0 then 0.0 else Float.pow f w
    | _, _ => f
  -- the remaining-lifetime fraction belongs to the TLRU score only (ARC = hits × rank)
  let af := match o.cfg.ttl, o.cfg.policy with
    | some t, .tlru => max (1.0 - min (age.toFloat / 1000.0 / t.toFloat) 1.0) 0.0
    | _, _ => 1.0
  fc * rank.toFloat * af

def indexOf? (k : String) : List String → Option Nat
  | [] => none
  | x :: xs => if x = k then some 0 else (indexOf? k xs).map (· + 1)

def monC08 (g : Ghost) (o : Obs) : List String :=
  let pol := o.cfg.policy
  if pol ≠ .lfu && pol ≠ .arc && pol ≠ .tlru then [] else
  if !invB o.pre then [] else
  -- hit counters are exact
  let h := o.pre.store.filterMap (fun (k, e) =>
    let want := (alookup k g.hitsSince).getD 0
    if e.hits = want then none else some s!"hit counter of {k} is {e.hits}, {want} successful lookups since its store")
  let h := if g.started then h else []
  -- single-victim stores: entry-limit eviction of `insert`, and a memory-aware store that removed exactly one
  -- other entry (memory loop or limit step); several victims are left to the correspondence
  let check (k : String) : List String :=
      let isAsync := o.cfg.flavour = .async
      -- candidates at eviction time, in recency order (front = least recent), with hits and age
      -- recency order (front = least recently used).  Async engines: from the GHOST history (latest store or
      -- successful lookup), not from the implementation's own queue — a queue that was silently permuted must
      -- not be trusted as the documented recency rank.  Sync engines: the newcomer competes with score 0.
      let byUse (l : List String) : List String :=
        l.foldl (fun acc x =>
          let rec ins : List String → List String
            | [] => [x]
            | y :: ys => if stampOf g.useStamp x < stampOf g.useStamp y then x :: y :: ys else y :: ins ys
          ins acc) []
      let q0 := if isAsync then
          (if pol = .lfu then o.pre.queue.filter (fun x => x ≠ k) else byUse (o.pre.queue.filter (fun x => x ≠ k)))
        else o.pre.queue.erase k ++ [k]
      let candHits (x : String) : Nat :=
        if x = k && !isAsync then 0 else ((lookup x o.pre.store).map (·.hits)).getD 0
      let candAge (x : String) : Nat :=
        if x = k && !isAsync then 0 else ((lookup x o.pre.store).map (fun e => ageMs o o.pre e)).getD 0
      let before := if hasKey k o.pre.store then keys o.pre.store else keys o.pre.store ++ [k]
      let removed := diffKeys before (keys o.post.store)
      match removed with
      | [r] =>
        let rr := if r = k && isAsync then none else some r   -- async re-store drops the old entry itself
        match rr with
        | none => []
        | some r =>
          if pol = .lfu then
            let bad := q0.filter (fun x => candHits x < candHits r)
            if bad.isEmpty then [] else [s!"LFU evicted {r} ({candHits r} hits) although {bad} have fewer"]
          else
            let sc (x : String) : Float := docScore o (candHits x) ((indexOf? x q0).getD 0 + 1) (candAge x)
            let bad := q0.filter (fun x => sc x < sc r * (1.0 - 1e-9))
            if bad.isEmpty then [] else
              [s!"{if pol = .arc then "ARC" else "TLRU"} evicted {r} (score {sc r}) although {bad.map (fun x => s!"{x}:{sc x}")} score lower"]
      | rs =>
        -- SEVERAL victims in one memory-aware store of the async engine (it evicts BEFORE storing, residents only):
        -- the documented rule applied repeatedly — each victim is the lowest-scored entry among those STILL cached,
        -- ranks counted among those still cached.  Greedy replay on the ghost recency order; given up (no verdict) on
        -- exact or near ties between different keys other than zero scores, where the code's choice is not determined
        -- by the documented score alone.
        if !isAsync || pol = .lfu then [] else
        let rs := rs.filter (fun r => r ≠ k)
        if rs.length < 2 then [] else
        let cand0 := q0.filter (fun x => hasKey x o.pre.store)
        let rec go (fuel : Nat) (cands : List String) (left : List String) : List String :=
          match fuel with
          | 0 => []
          | fuel + 1 =>
            if left.isEmpty then [] else
            let sc (x : String) : Float := docScore o (candHits x) ((indexOf? x cands).getD 0 + 1) (candAge x)
            -- first minimum in recency order (the code's tie-break)
            let best := cands.foldl (fun (b : Option String) x =>
              match b with
              | none => some x
              | some y => if sc x < sc y then some x else some y) none
            match best with
            | none => []
            | some b =>
              let near := cands.any (fun x => x ≠ b && sc x ≠ sc b && sc x < sc b * (1.0 + 1e-9) + 1e-12)
              if near then [] else
              if left.contains b then go fuel (cands.filter (· ≠ b)) (left.filter (· ≠ b))
              else
                let tiedWithVictim := left.any (fun r => sc r == sc b)
                if tiedWithVictim then [] else
                [s!"{if pol = .arc then "ARC" else "TLRU"} memory loop evicted {left} while {b} (score {sc b}) was the lowest-scored entry still cached (scores {cands.map (fun x => s!"{x}:{sc x}")})"]
        go (rs.length + 1) cand0 rs
  let v := match o.op, o.cfg.maxMem with
    | .insert k _, _ => check k
    | .insertMem k val, some M => if val.size > M then [] else check k
    | .insertMem k _, none => check k
    | _, _ => []
  h ++ v

/-! C15 (engine level): every lookup bumps exactly one of the two counters — hits iff it returned a
    value — and nothing else touches them. -/
def monC15 (g : Ghost) (o : Obs) : List String :=
  let dh := o.post.hitStat - o.pre.hitStat
  let dm := o.post.missStat - o.pre.missStat
  let mono := decide (o.post.hitStat ≥ o.pre.hitStat) && decide (o.post.missStat ≥ o.pre.missStat)
  let a := match o.op, o.out with
    | .get _, .val (some _) => if mono && dh = 1 && dm = 0 then [] else [s!"successful lookup counted hits+{dh} misses+{dm}"]
    | .get _, .val none => if mono && dh = 0 && dm = 1 then [] else [s!"failed lookup counted hits+{dh} misses+{dm}"]
    | .get _, _ => []
    | _, _ => if mono && dh = 0 && dm = 0 then [] else [s!"a non-lookup operation changed the counters (hits+{dh} misses+{dm})"]
  let gets' := match o.op with | .get _ => g.gets + 1 | _ => g.gets
  let b := if !g.started then [] else
    if o.post.hitStat + o.post.missStat = g.hits0 + g.miss0 + gets' then [] else
      [s!"hits+misses = {o.post.hitStat + o.post.missStat} after {gets'} lookups (start {g.hits0}+{g.miss0})"]
  a ++ b

/-! C16: no operation panics. -/
def monC16 (_g : Ghost) (o : Obs) : List String :=
  match o.out with
  | .panic m => [s!"operation panicked: {m}"]
  | _ => []

/-- C05, last clause ("entries are evicted IN POLICY ORDER only until the total fits"): on a memory-aware store
    under max_memory, whatever was evicted must be what the policy ranks first — FIFO / LRU by the ghost stamps (C07's
    predicate), LFU / ARC / TLRU by the documented score (C08's predicate, single-victim stores). -/
def monC05order (g : Ghost) (o : Obs) : List String :=
  match o.op, o.cfg.maxMem with
  | .insertMem _ _, some _ =>
    (monC07 g o ++ ((monC08 g o).filter (fun m => (m.splitOn "evicted").length > 1))).map (fun m => "eviction under max_memory not in policy order: " ++ m)
  | _, _ => []

def monC05all (g : Ghost) (o : Obs) : List String := monC05 g o ++ monC05order g o

def allMonitors : List (String × (Ghost → Obs → List String)) :=
  [("C01", monC01), ("C04", monC04), ("C05", monC05all), ("C06", monC06), ("C07", monC07),
   ("C08", monC08), ("C15", monC15), ("C16", monC16)]

/-- ghost update after an observation -/
def Ghost.advance (g : Ghost) (o : Obs) : Ghost :=
  let g := if g.started then g else { g with started := true, hits0 := o.pre.hitStat, miss0 := o.pre.missStat }
  let g := if injectedNow g o then { g with tainted := true } else g
  let g := { g with lastQueue := some o.post.queue }
  let n := g.step + 1
  match o.op, o.out with
  | .get k, .val (some _) =>
    { g with step := n, gets := g.gets + 1, useStamp := aput k n g.useStamp,
             hitsSince := aput k ((alookup k g.hitsSince).getD 0 + 1) g.hitsSince }
  | .get _, _ => { g with step := n, gets := g.gets + 1 }
  | .insert k v, _ | .insertMem k v, _ =>
    { g with step := n, lastStore := aput k v.id g.lastStore, storeStamp := aput k n g.storeStamp,
             useStamp := aput k n g.useStamp, hitsSince := aput k 0 g.hitsSince }
  | _, _ => { g with step := n }

end Cachelito.Monitors
