/-
  C14 — Thread scope isolates threads; global scope shares across them (sequential part).

  A cache instance is `⟨fn, some t⟩` for thread `t` of a thread-scope function and `⟨fn, none⟩` for a
  global-scope or async function (`cacheIdOf`).  All statements hold for every list of cached functions,
  every configuration (flavour, policy, limit, TTL, memory bound, predicates), every score algebra,
  size function and stream of random draws, and every history — including registry invalidations and
  statistics operations, which never reach a thread-scope instance.

  Vocabulary (`Lemmas/Calls.lean`): `isLocalOp fn t op` — `op` is a call of `fn` by thread `t`, or a clock
  tick; `proj fn t ops` — the sub-history of those operations; `projOuts fn t ops outs` — their outputs.

  Not proved here (Rust's guarantee, modelled by the index `thread`): `thread_local!` gives one instance
  per OS thread.
-/
import Cachelito.Lemmas.Calls

set_option linter.unusedSectionVars false
set_option linter.unusedSimpArgs false
set_option linter.unusedVariables false

namespace Cachelito.C14
open Cachelito Cachelito.Calls
variable {K V S : Type} [DecidableEq K]

section
variable (fns : List FnSpec) (tls : Nat → Tlru S) (size : V → Nat) (isOk : V → Bool)

/-! ### (1) Thread scope: frame, projection, interleaving independence -/

/-- **Frame of a call.**  A call of function `fn` by thread `th` changes the one instance it lands on and
    leaves EVERY other instance — other threads of the same function, all other functions — exactly as
    it was (store, order queue, clock, counters). -/
theorem call_frame {fn : Nat} {spec : FnSpec} (hspec : fns[fn]? = some spec) (rs : List Nat) (sys : Sys K V)
    (th : Nat) (c : CallIn K V) (id : CacheId) (hid : id ≠ cacheIdOf spec fn th) :
    (sysStep fns tls size isOk rs sys (.call fn th c)).1.getCache id = sys.getCache id := by
  rw [getCache_call fns tls size isOk rs sys th c hspec, if_neg hid]

/-- **Frame of a thread-scope call.**  With `scope = "thread"`, a call by thread `th` changes only
    instance `⟨fn, some th⟩`: the caches of all other threads are untouched, so the value it stores is
    not visible to them, does not count against their limit and evicts nothing of theirs.  It also
    registers nothing. -/
theorem thread_call_frame {fn : Nat} {spec : FnSpec} (hspec : fns[fn]? = some spec) (hts : spec.threadScope = true)
    (rs : List Nat) (sys : Sys K V) (th : Nat) (c : CallIn K V) :
    (∀ id : CacheId, id ≠ ⟨fn, some th⟩ →
      (sysStep fns tls size isOk rs sys (.call fn th c)).1.getCache id = sys.getCache id) ∧
    (sysStep fns tls size isOk rs sys (.call fn th c)).1.called = sys.called := by
  refine ⟨fun id hid => ?_, ?_⟩
  · exact call_frame fns tls size isOk hspec rs sys th c id (by rw [cacheIdOf_thread hts]; exact hid)
  · rw [called_call fns tls size isOk rs sys th c hspec, hts]; rfl

/-- **Nothing but the owner's calls and the clock touches a thread's instance**: any other operation —
    a call by another thread, a call of another function, any registry invalidation, any statistics
    operation — leaves instance `⟨fn, some t⟩` exactly as it was. -/
theorem foreign_ops_frame {fn t : Nat} {spec : FnSpec} (hspec : fns[fn]? = some spec) (hts : spec.threadScope = true)
    (rs : List Nat) (sys : Sys K V) (op : SysOp K V) (hl : isLocalOp fn t op = false) :
    (sysStep fns tls size isOk rs sys op).1.getCache ⟨fn, some t⟩ = sys.getCache ⟨fn, some t⟩ :=
  nonlocal_frame fns tls size isOk hspec hts rs sys op hl

/-- **The sub-history of thread `t` determines its instance.**  After any history, instance
    `⟨fn, some t⟩` is in the state reached by running only thread `t`'s calls to `fn` (and the ticks), and
    those calls produce the same outputs (values and traces) in both runs. -/
theorem thread_instance_determined {fn t : Nat} {spec : FnSpec} (hspec : fns[fn]? = some spec)
    (hts : spec.threadScope = true) (ops : List (SysOp K V × List Nat)) :
    (sysRun fns tls size isOk (Sys.init : Sys K V) ops).1.getCache ⟨fn, some t⟩ =
      (sysRun fns tls size isOk (Sys.init : Sys K V) (proj fn t ops)).1.getCache ⟨fn, some t⟩ ∧
    projOuts fn t ops (sysRun fns tls size isOk (Sys.init : Sys K V) ops).2 =
      (sysRun fns tls size isOk (Sys.init : Sys K V) (proj fn t ops)).2 :=
  thread_proj fns tls size isOk hspec hts ops Sys.init Sys.init rfl

/-- **Interleaving independence.**  Two histories that contain the same calls of thread `t` to `fn` in
    the same order (with the clock ticks at the same places) — however the calls of the other threads,
    the calls of other functions and the invalidations are merged in — leave thread `t`'s instance in the
    same state and give every one of thread `t`'s calls the same output. -/
theorem interleaving_independence {fn t : Nat} {spec : FnSpec} (hspec : fns[fn]? = some spec)
    (hts : spec.threadScope = true) (ops₁ ops₂ : List (SysOp K V × List Nat))
    (hproj : proj fn t ops₁ = proj fn t ops₂) :
    (sysRun fns tls size isOk (Sys.init : Sys K V) ops₁).1.getCache ⟨fn, some t⟩ =
      (sysRun fns tls size isOk (Sys.init : Sys K V) ops₂).1.getCache ⟨fn, some t⟩ ∧
    projOuts fn t ops₁ (sysRun fns tls size isOk (Sys.init : Sys K V) ops₁).2 =
      projOuts fn t ops₂ (sysRun fns tls size isOk (Sys.init : Sys K V) ops₂).2 := by
  obtain ⟨a1, b1⟩ := thread_instance_determined fns tls size isOk hspec hts (t := t) ops₁
  obtain ⟨a2, b2⟩ := thread_instance_determined fns tls size isOk hspec hts (t := t) ops₂
  rw [a1, a2, b1, b2, hproj]
  exact ⟨rfl, rfl⟩

/-- **A value stored by one thread is never served to another.**  If thread `t` itself has not yet called
    the thread-scope function `fn` with key `c.key` — no matter what the other threads stored under that
    key — its call runs the body: the value returned is the body's, the lookup did not return a value. -/
theorem never_served_across_threads {fn t : Nat} {spec : FnSpec} (hspec : fns[fn]? = some spec)
    (hts : spec.threadScope = true) (pre : List (SysOp K V × List Nat)) (c : CallIn K V) (rs : List Nat)
    (hnew : ∀ p ∈ pre, ∀ c', p.1 = SysOp.call fn t c' → c'.key ≠ c.key) :
    ∃ tr, (sysStep fns tls size isOk rs (sysRun fns tls size isOk (Sys.init : Sys K V) pre).1 (.call fn t c)).2 =
        .ret c.bodyVal tr ∧ lookupHit tr = false ∧ bodyRuns tr = 1 := by
  have hnk : c.key ∉ keys ((sysRun fns tls size isOk (Sys.init : Sys K V) pre).1.getCache ⟨fn, some t⟩).store := by
    intro hk
    have := stored_keys_were_called fns tls size isOk _ pre c.key hk
    simp only [keysOn, List.mem_map] at this
    obtain ⟨c', hc', hkey⟩ := this
    obtain ⟨p, hp, e⟩ := mem_callsOn_thread hspec hts hc'
    exact hnew p hp c' e hkey
  have hf : found spec.cfg ((sysRun fns tls size isOk (Sys.init : Sys K V) pre).1.getCache ⟨fn, some t⟩) c.key = false := by
    unfold found; rw [(lookup_eq_none_iff _ _).mpr hnk]
  rw [out_call fns tls size isOk rs _ t c hspec, cacheIdOf_thread hts, callFn_miss spec (tls fn) size isOk rs _ c hf]
  exact ⟨_, by rw [missOut_val], by rw [missOut_lookupHit]; rfl, by rw [missOut_bodyRuns]; rfl⟩

/-! ### (2) Global scope and async: one instance, shared by all threads -/

/-- With the default global scope, and always for async functions, every thread's call lands on the same
    instance `⟨fn, none⟩`. -/
theorem shared_instance {spec : FnSpec} (hts : spec.threadScope = false) (fn a b : Nat) :
    cacheIdOf spec fn a = ⟨fn, none⟩ ∧ cacheIdOf spec fn a = cacheIdOf spec fn b := by
  rw [cacheIdOf_shared hts, cacheIdOf_shared hts]; exact ⟨rfl, rfl⟩

/-- **A stored value is served to every thread (general form: "if the key is still stored").**  In any
    state, if the shared instance of `fn` holds an unexpired entry for the key — whichever thread or task
    stored it — then a call with that key by ANY thread `b` returns the stored value from the cache
    without running the body (provided `invalidate_on`, if configured, does not reject it). -/
theorem stored_value_served_to_any_thread {fn : Nat} {spec : FnSpec} (hspec : fns[fn]? = some spec)
    (hts : spec.threadScope = false) (rs : List Nat) (sys : Sys K V) (b : Nat) (c : CallIn K V) {e : Entry V}
    (hl : lookup c.key (sys.getCache ⟨fn, none⟩).store = some e)
    (hx : expired spec.cfg (sys.getCache ⟨fn, none⟩).now e = false)
    (hs : spec.hasInvalidateOn = true → c.invalidateOn c.key e.val = false) :
    (sysStep fns tls size isOk rs sys (.call fn b c)).2 =
      .ret e.val ((if spec.hasInvalidateOn then [TraceEv.checkCalled c.key e.val false] else []) ++
        [TraceEv.returned e.val true]) := by
  rw [out_call fns tls size isOk rs sys b c hspec, cacheIdOf_shared hts,
    callFn_hit spec (tls fn) size isOk rs _ c hl hx hs]

/-- **A store by thread `a` is a hit for thread `b`** (plain configuration: no limit, TTL, memory bound,
    predicate; no invalidation in the history).  After any history, let thread `a` call `fn` with input `c₀`,
    let anything but an invalidation happen (`mid`), and let thread `b` call `fn` with the same key: `b` is
    served from the cache — trace exactly `[returned v true]` — and if `a`'s call was the first with that
    key, `v` is the value `a`'s call computed. -/
theorem store_by_one_thread_hit_by_another {fn : Nat} {spec : FnSpec} (hspec : fns[fn]? = some spec)
    (hts : spec.threadScope = false) (hp : Plain spec)
    (pre mid : List (SysOp K V × List Nat)) (a b : Nat) (c₀ c : CallIn K V) (rs₀ rs : List Nat)
    (hno : ∀ p ∈ pre ++ (SysOp.call fn a c₀, rs₀) :: mid, isInvalidation p.1 = false) (hkey : c.key = c₀.key) :
    ∃ v, (sysStep fns tls size isOk rs
        (sysRun fns tls size isOk (Sys.init : Sys K V) (pre ++ (SysOp.call fn a c₀, rs₀) :: mid)).1 (.call fn b c)).2 =
          .ret v [TraceEv.returned v true] ∧
      (c₀.key ∉ keysOn fns ⟨fn, none⟩ pre → v = c₀.bodyVal) := by
  have hspec' : fns[(⟨fn, none⟩ : CacheId).fn]? = some spec := hspec
  have h := (plain_run fns tls size isOk hspec' hp _ hno Sys.init [] plainInv_nil).1
  rw [List.nil_append] at h
  obtain ⟨_, _, g3, _⟩ := plain_callFn hp (tls fn) size isOk rs _ c _ h
  have hon : callOn fns ⟨fn, none⟩ (SysOp.call fn a c₀ : SysOp K V) = some c₀ := by
    rw [← cacheIdOf_shared hts fn a]; exact callOn_call_self hspec a c₀
  have hcs : callsOn fns ⟨fn, none⟩ (pre ++ (SysOp.call fn a c₀, rs₀) :: mid) =
      callsOn fns ⟨fn, none⟩ pre ++ c₀ :: callsOn fns ⟨fn, none⟩ mid := by
    simp only [callsOn, List.filterMap_append, List.filterMap_cons, hon]
  have hmem : c.key ∈ (callsOn fns ⟨fn, none⟩ (pre ++ (SysOp.call fn a c₀, rs₀) :: mid)).map (·.key) := by
    rw [hcs, hkey]; simp
  cases hf : firstVal (callsOn fns ⟨fn, none⟩ (pre ++ (SysOp.call fn a c₀, rs₀) :: mid)) c.key with
  | none => exact absurd hmem ((firstVal_none_iff _ _).mp hf)
  | some v =>
    refine ⟨v, ?_, ?_⟩
    · rw [out_call fns tls size isOk rs _ b c hspec, cacheIdOf_shared hts, g3 v hf]
    · intro hfirst
      have hnone : firstVal (callsOn fns ⟨fn, none⟩ pre) c₀.key = none := (firstVal_none_iff _ _).mpr hfirst
      rw [hcs, hkey] at hf
      unfold firstVal at hf hnone
      rw [List.find?_append] at hf
      simp only [Option.map_eq_none_iff] at hnone
      rw [hnone] at hf
      simp [List.find?_cons] at hf
      exact hf.symm

end

/-! ### Non-vacuity

`g0` global LRU without limit, `t1` thread-scope LFU with `limit = 1`, `a2` async FIFO with `limit = 2`
and tags.  Threads 0 and 1.  Thread 1 overflows ITS instance of `t1` twice; thread 0's entry survives. -/

def exTl : Tlru Nat := ⟨fun a b => decide (a < b), fun _ h _ r => h * r⟩
def g0 : FnSpec := ⟨"g0", false, false, ⟨.global, .lru, none, none, none⟩, false, false, false, false, [], [], []⟩
def t1 : FnSpec := ⟨"t1", false, true, ⟨.threadLocal, .lfu, some 1, none, none⟩, false, false, false, false, [], [], []⟩
def a2 : FnSpec := ⟨"a2", true, false, ⟨.async, .fifo, some 2, none, none⟩, false, false, false, false, ["t"], [], []⟩
def exFns : List FnSpec := [g0, t1, a2]
def mk (k v : Nat) : CallIn Nat Nat := ⟨k, v, fun _ _ => true, fun _ _ => false⟩
def exOps : List (SysOp Nat Nat × List Nat) :=
  [(.call 1 0 (mk 1 10), []),          -- thread 0 stores key 1 in its t1 instance
   (.call 1 1 (mk 2 20), []),          -- thread 1 stores key 2 in ITS instance
   (.call 1 1 (mk 3 30), []),          -- thread 1 overflows its own limit: evicts its key 2
   (.call 0 0 (mk 5 50), []),          -- thread 0 stores key 5 in the global cache g0
   (.invalidateByTag "t", []), (.tick 7, []),
   (.call 1 1 (mk 1 11), []),          -- thread 1 calls key 1: NOT served thread 0's value 10
   (.call 1 0 (mk 1 12), []),          -- thread 0 calls key 1 again: served its own 10
   (.call 0 1 (mk 5 51), [])]          -- thread 1 calls g0 with key 5: served thread 0's 50
def exRun := sysRun exFns (fun _ => exTl) (fun _ => 0) (fun _ => true) (Sys.init : Sys Nat Nat) exOps
def summary (o : SysOut Nat Nat) : Nat × Nat × Bool :=
  match o with | .ret v tr => (v, bodyRuns tr, lookupHit tr) | _ => (0, 0, false)

example : t1.threadScope = true ∧ g0.threadScope = false ∧ a2.threadScope = false := by decide
/-- thread 0's instance holds its key 1 although thread 1 stored three keys under `limit = 1` -/
example : keys (exRun.1.getCache ⟨1, some 0⟩).store = [1] ∧ keys (exRun.1.getCache ⟨1, some 1⟩).store = [1] := by
  decide
example : (exRun.1.getCache ⟨1, some 0⟩).store.map (fun p => p.2.val) = [10] ∧
    (exRun.1.getCache ⟨1, some 1⟩).store.map (fun p => p.2.val) = [11] := by decide
/-- outputs: value, body runs, lookup hit -/
example : exRun.2.map summary =
    [(10, 1, false), (20, 1, false), (30, 1, false), (50, 1, false), (0, 0, false), (0, 0, false),
     (11, 1, false), (10, 0, true), (50, 0, true)] := by decide
/-- the projection on thread 0 of `t1` keeps two calls and the tick, and replays to the same outputs -/
example : (proj 1 0 exOps).length = 3 := by decide
example : (projOuts 1 0 exOps exRun.2).map summary = [(10, 1, false), (0, 0, false), (10, 0, true)] := by decide
example : (sysRun exFns (fun _ => exTl) (fun _ => 0) (fun _ => true) (Sys.init : Sys Nat Nat) (proj 1 0 exOps)).2.map summary =
    [(10, 1, false), (0, 0, false), (10, 0, true)] := by decide

end Cachelito.C14
