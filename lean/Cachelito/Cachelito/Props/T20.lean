/-
  T20 — TRANSLATOR TIE, cachelito-core/src/invalidation.rs: the invalidation registry (C12, C13)

  `checklib/rust2lean.py` translates every method of `InvalidationRegistry` — `register`, `register_callback`,
  `register_invalidation_callback`, `invalidate_caches`, `invalidate_by_tag / _event / _dependency`, `invalidate_cache`,
  `get_caches_by_tag / _event`, `get_dependent_caches`, `invalidate_with`, `invalidate_all_with`, `clear` — from /repo's CURRENT
  source into `Generated/PureRegistry.lean` (state: the six tables, `RegistrySt`).  INVOKING a callback is recorded in a log
  the translated function returns next to its own result; a conditional callback is logged together with the predicate it
  is handed.

  Theorems: each translated method IS the corresponding operation of the hand-written registry model `Registry.step`
  (`Cachelito/Registry.lean`), about which `C12r` proves the table theorems and the refinement to `System.lean`:
  same tables afterwards, same returned count / flag / name list, same callbacks invoked in the same order.  Beyond what
  `Registry.step` records: `invalidate_with` hands the chosen cache's callback exactly the caller's predicate, and
  `invalidate_all_with` hands EVERY callback the predicate specialised to THAT cache's own name (C13: which keys go is decided
  per cache, by that cache's name).
-/
import Cachelito.Generated.PureRegistry
import Cachelito.RegistrySt

set_option linter.unusedSimpArgs false
set_option linter.unusedVariables false

namespace Cachelito.T20
open Cachelito Cachelito.RustLite Cachelito.Generated Cachelito.Registry

/-- the tables of the translated code as the model's registry -/
def toReg (st : RegistrySt) : Reg :=
  ⟨st.tag_to_caches, st.event_to_caches, st.dependency_to_caches, st.cache_metadata, st.clear_callbacks,
   st.invalidation_check_callbacks⟩

/-! ## registration -/

theorem addAll_eq_foldl (t : Table) (ks : List String) (name : String) :
    List.foldl (fun t k => Table.add t k name) t ks = t.addAll ks name := rfl

/-- **`register` is the model's `register`**: the name is added under every declared tag / event / dependency, the metadata
    replaces what was stored for the name -/
theorem register_eq (st : RegistrySt) (name : String) (m : Meta) :
    toReg (Generated.Registry.register st name m) = (Registry.step (toReg st) (.register name m)).1 := by
  simp [Generated.Registry.register, toReg, Registry.step, Table.addAll, Meta.dependencies]

theorem register_callback_eq (st : RegistrySt) (name : String) (id : Nat) :
    toReg (Generated.Registry.register_callback st name id) = (Registry.step (toReg st) (.registerCallback name id)).1 := by
  simp [Generated.Registry.register_callback, toReg, Registry.step]

theorem register_invalidation_callback_eq (st : RegistrySt) (name : String) (id : Nat) :
    toReg (Generated.Registry.register_invalidation_callback st name id) = (Registry.step (toReg st) (.registerCond name id)).1 := by
  simp [Generated.Registry.register_invalidation_callback, toReg, Registry.step]

theorem clear_eq (st : RegistrySt) :
    toReg (Generated.Registry.clear st) = (Registry.step (toReg st) .clear).1 := by
  simp [Generated.Registry.clear, toReg, Registry.step, clearAll]

/-! ## group invalidation -/

theorem foldl_congr' {σ α : Type} (F G : σ → α → σ) (h : ∀ x a, F x a = G x a) : ∀ (l : List α) (s : σ),
    l.foldl F s = l.foldl G s
  | [], _ => rfl
  | a :: l, s => by simp only [List.foldl_cons, h]; exact foldl_congr' F G h l _

/-- the loop of `invalidate_caches`: one callback per listed name that owns one, in order, counted -/
theorem invalidate_caches_loop (cbs : List (String × Nat)) : ∀ (names : List String) (acc : List Nat) (n : Nat),
    List.foldl (fun (x : List Nat × Nat) name =>
        match getKey cbs name with
        | some callback => (pushBack x.1 callback, x.2 + 1)
        | none => x) (acc, n) names =
      (acc ++ names.filterMap (fun nm => getKey cbs nm), n + (names.filterMap (fun nm => getKey cbs nm)).length)
  | [], acc, n => by simp
  | nm :: names, acc, n => by
      simp only [List.foldl_cons]
      cases h : getKey cbs nm with
      | none =>
        simp only [h]
        rw [invalidate_caches_loop cbs names acc n]
        simp [List.filterMap_cons, h]
      | some id =>
        simp only [h]
        rw [invalidate_caches_loop cbs names (pushBack acc id) (n + 1)]
        simp [List.filterMap_cons, h, pushBack]
        omega

theorem invalidate_caches_eq (st : RegistrySt) (names : List String) :
    Generated.Registry.invalidate_caches st names =
      ((invokeAll (toReg st) names).length, invokeAll (toReg st) names) := by
  unfold Generated.Registry.invalidate_caches invokeAll
  simp only [toReg]
  rw [foldl_congr' _ (fun (x : List Nat × Nat) name =>
        match getKey st.clear_callbacks name with
        | some callback => (pushBack x.1 callback, x.2 + 1)
        | none => x)]
  · rw [invalidate_caches_loop st.clear_callbacks names [] 0]
    simp
  · intro x name
    obtain ⟨a, b⟩ := x
    cases getKey st.clear_callbacks name <;> rfl

/-- **`invalidate_by_tag` is the model's `byTag`**: returned count and callbacks run -/
theorem invalidate_by_tag_eq (st : RegistrySt) (t : String) :
    (Registry.step (toReg st) (.byTag t)).2 =
      .count (Generated.Registry.invalidate_by_tag st t).1 (Generated.Registry.invalidate_by_tag st t).2 := by
  simp [Generated.Registry.invalidate_by_tag, invalidate_caches_eq, Registry.step, toReg]

theorem invalidate_by_event_eq (st : RegistrySt) (e : String) :
    (Registry.step (toReg st) (.byEvent e)).2 =
      .count (Generated.Registry.invalidate_by_event st e).1 (Generated.Registry.invalidate_by_event st e).2 := by
  simp [Generated.Registry.invalidate_by_event, invalidate_caches_eq, Registry.step, toReg]

theorem invalidate_by_dependency_eq (st : RegistrySt) (d : String) :
    (Registry.step (toReg st) (.byDep d)).2 =
      .count (Generated.Registry.invalidate_by_dependency st d).1 (Generated.Registry.invalidate_by_dependency st d).2 := by
  simp [Generated.Registry.invalidate_by_dependency, invalidate_caches_eq, Registry.step, toReg]

/-- **`invalidate_cache` is the model's `byName`** -/
theorem invalidate_cache_eq (st : RegistrySt) (n : String) :
    (Registry.step (toReg st) (.byName n)).2 =
      .flag (Generated.Registry.invalidate_cache st n).1 (Generated.Registry.invalidate_cache st n).2 := by
  unfold Generated.Registry.invalidate_cache
  simp only [Registry.step, toReg]
  cases getKey st.clear_callbacks n <;> simp [pushBack]

/-! ## listings -/

theorem get_caches_by_tag_eq (st : RegistrySt) (t : String) :
    (Registry.step (toReg st) (.getByTag t)).2 = .names (Generated.Registry.get_caches_by_tag st t) := by
  simp [Generated.Registry.get_caches_by_tag, Registry.step, toReg]

theorem get_caches_by_event_eq (st : RegistrySt) (e : String) :
    (Registry.step (toReg st) (.getByEvent e)).2 = .names (Generated.Registry.get_caches_by_event st e) := by
  simp [Generated.Registry.get_caches_by_event, Registry.step, toReg]

theorem get_dependent_caches_eq (st : RegistrySt) (d : String) :
    (Registry.step (toReg st) (.getDependents d)).2 = .names (Generated.Registry.get_dependent_caches st d) := by
  simp [Generated.Registry.get_dependent_caches, Registry.step, toReg]

/-! ## conditional invalidation -/

/-- **`invalidate_with` is the model's `withPred`**, and the callback of the named cache — the only one that runs — is handed
    exactly the caller's predicate -/
theorem invalidate_with_eq (st : RegistrySt) (n : String) (p : String → Bool) :
    (Registry.step (toReg st) (.withPred n)).2 =
      .flag (Generated.Registry.invalidate_with st n p).1 ((Generated.Registry.invalidate_with st n p).2.map (·.1)) ∧
    ∀ x, x ∈ (Generated.Registry.invalidate_with st n p).2 → x.2 = p := by
  unfold Generated.Registry.invalidate_with
  simp only [Registry.step, toReg]
  cases getKey st.invalidation_check_callbacks n <;> simp [pushBack]

theorem invalidate_all_with_loop (p : String → String → Bool) : ∀ (cbs : List (String × Nat))
    (acc : List (Nat × (String → Bool))) (n : Nat),
    List.foldl (fun (x : List (Nat × (String → Bool)) × Nat) (e : String × Nat) =>
        (pushBack x.1 (e.2, fun key => p e.1 key), x.2 + 1)) (acc, n) cbs =
      (acc ++ cbs.map (fun e => (e.2, fun key => p e.1 key)), n + cbs.length)
  | [], acc, n => by simp
  | e :: cbs, acc, n => by
      simp only [List.foldl_cons]
      rw [invalidate_all_with_loop p cbs]
      simp [pushBack]
      omega

/-- **`invalidate_all_with` is the model's `allWith`**: every registered conditional callback runs once, in table order, the
    count is their number — and each is handed the predicate specialised to ITS OWN cache name -/
theorem invalidate_all_with_eq (st : RegistrySt) (p : String → String → Bool) :
    Generated.Registry.invalidate_all_with st p =
      (st.invalidation_check_callbacks.length,
       st.invalidation_check_callbacks.map (fun e => (e.2, fun key => p e.1 key))) := by
  unfold Generated.Registry.invalidate_all_with
  dsimp only
  rw [foldl_congr' _ (fun (x : List (Nat × (String → Bool)) × Nat) (e : String × Nat) =>
        (pushBack x.1 (e.2, fun key => p e.1 key), x.2 + 1))]
  · rw [invalidate_all_with_loop p st.invalidation_check_callbacks [] 0]
    simp
  · intro x e
    obtain ⟨a, b⟩ := x
    obtain ⟨c, d⟩ := e
    rfl

theorem invalidate_all_with_model (st : RegistrySt) (p : String → String → Bool) :
    (Registry.step (toReg st) .allWith).2 =
      .count (Generated.Registry.invalidate_all_with st p).1 ((Generated.Registry.invalidate_all_with st p).2.map (·.1)) := by
  rw [invalidate_all_with_eq]
  simp [Registry.step, toReg, Function.comp_def]

/-! ## requests never change the tables (they take `&self` and only read guards): the translated functions return no state -/

/-- non-vacuity: the translated functions on a concrete history — two caches share a tag, one has no clear callback -/
example :
    let st0 : RegistrySt := {}
    let st1 := Generated.Registry.register st0 "users" ⟨["t"], [], []⟩
    let st2 := Generated.Registry.register_callback st1 "users" 7
    let st3 := Generated.Registry.register st2 "orders" ⟨["t"], ["e"], []⟩
    let st4 := Generated.Registry.register_invalidation_callback st3 "orders" 9
    Generated.Registry.invalidate_by_tag st4 "t" = (1, [7]) ∧
    Generated.Registry.get_caches_by_tag st4 "t" = ["users", "orders"] ∧
    (Generated.Registry.invalidate_all_with st4 (fun c k => c == "orders" && k == "1")).1 = 1 ∧
    ((Generated.Registry.invalidate_all_with st4 (fun c k => c == "orders" && k == "1")).2.map (fun x => (x.1, x.2 "1", x.2 "2"))) =
      [(9, true, false)] := by
  decide

end Cachelito.T20
