/-
  T06 — TRANSLATOR TIE, async_global_cache.rs: the three victim scans of the async engine (C08; the rank orientation
  `idx + 1` that the repaired defect F2 had reversed, the power weight, whole-second ages)

  The functions named here are regenerated from /repo's CURRENT source on every check by `checklib/rust2lean.py`
  (`Generated/PureAsync.lean`); the theorems are re-proved against whatever was generated (see `Props/T01.lean`).
  `self` is the record `RustLite.AsyncCache` (the DashMap as a store, the configuration); the `f64` code is translated
  over an ARBITRARY structure of float operations.  Hypotheses: the modelling assumptions of DESIGN.md §9.
-/
import Cachelito.Generated.PureAsync
import Cachelito.Lemmas.Source

set_option linter.unusedSimpArgs false
set_option linter.unusedVariables false

namespace Cachelito.T06
open Cachelito Cachelito.RustLite Cachelito.Generated Cachelito.SourceLemmas
open Cachelito.Generated.Async

variable {K V F : Type} [DecidableEq K]

/-- the model configuration an `AsyncGlobalCache` stands for -/
def cfgOf (c : AsyncCache K V F) : Cfg := ⟨.async, c.policy, c.limit, c.max_memory, c.ttl⟩

/-- **LFU (async)**: the source's scan is the model's LFU victim -/
theorem find_min_frequency_key_eq (c : AsyncCache K V F) (tl : Tlru F) (now : Nat) (hp : c.policy = .lfu)
    (q : List K) (hmax : ∀ k e, lookup k c.cache = some e → e.hits < u64Max) :
    find_min_frequency_key c q = victim (cfgOf c) tl now c.cache q := by
  have hscan : find_min_frequency_key c q =
      (scan (fun a b => decide (a < b)) (u64Max, none) (cands (fun e _ _ => e.hits) c.cache q)).2 := by
    unfold find_min_frequency_key cands
    dsimp only
    rw [foldl_congr' (g := fun (st : Nat × Option K) (k : K) =>
            match lookup k c.cache with
            | some e => if (decide (e.hits < st.1)) = true then (e.hits, some k) else st
            | none => st)]
    · exact congrArg Prod.snd
        (fold_keys_eq_scan (fun a b => decide (a < b)) (fun e : Entry V => e.hits) c.cache q.length q 0 (u64Max, none))
    · intro st k
      cases lookup k c.cache <;> simp
  rw [hscan, victim]
  simp only [cfgOf, hp]
  apply scan_max
  intro x hx
  obtain ⟨e, j, he, hs⟩ := mem_candsFrom _ c.cache q.length q 0 x hx
  simp [hs, hmax x.1 e he]

/-- **ARC (async)**: the source's scan, score `frequency as f64 * (idx + 1) as f64`, is the model's ARC victim with rank
    `idx + 1` (more recently used = higher rank) -/
theorem find_arc_eviction_key_eq (A : F64 F) (c : AsyncCache K V F) (tl : Tlru F) (now : Nat) (hp : c.policy = .arc)
    (q : List K)
    (hmax : ∀ a b, A.lt (A.mul (A.ofNat a) (A.ofNat b)) A.maxVal = true)
    (hord : ∀ a b c d, A.lt (A.mul (A.ofNat a) (A.ofNat b)) (A.mul (A.ofNat c) (A.ofNat d)) = decide (a * b < c * d)) :
    find_arc_eviction_key A c q = victim (cfgOf c) tl now c.cache q := by
  have hscan : find_arc_eviction_key A c q =
      (scan A.lt (A.maxVal, none) (cands (fun e i _ => A.mul (A.ofNat e.hits) (A.ofNat (i + 1))) c.cache q)).2 := by
    unfold find_arc_eviction_key cands
    dsimp only
    rw [foldl_congr' (g := fun (st : F × Option K) (p : Nat × K) =>
            match lookup p.2 c.cache with
            | some e => if A.lt (A.mul (A.ofNat e.hits) (A.ofNat (p.1 + 1))) st.1
                then (A.mul (A.ofNat e.hits) (A.ofNat (p.1 + 1)), some p.2) else st
            | none => st)]
    · exact congrArg Prod.snd
        (fold_eq_scan A.lt (fun (e : Entry V) i _ => A.mul (A.ofNat e.hits) (A.ofNat (i + 1))) c.cache q.length q 0 (A.maxVal, none))
    · intro st p
      cases lookup p.2 c.cache <;> simp
  rw [hscan, victim]
  simp only [cfgOf, hp]
  rw [scan_max]
  · have h1 := candsFrom_map (K := K) (fun p : Nat × Nat => A.mul (A.ofNat p.1) (A.ofNat p.2))
      (fun (e : Entry V) i (_ : Nat) => (e.hits, i + 1)) c.cache q.length q 0
    have h2 := candsFrom_map (K := K) (fun p : Nat × Nat => p.1 * p.2)
      (fun (e : Entry V) i (_ : Nat) => (e.hits, i + 1)) c.cache q.length q 0
    simp only [cands, rank]
    rw [h1, h2]
    rw [firstMin_map (fun (a b : Nat × Nat) => decide (a.1 * a.2 < b.1 * b.2)) A.lt _ (fun a b => hord a.1 a.2 b.1 b.2),
        firstMin_map (fun (a b : Nat × Nat) => decide (a.1 * a.2 < b.1 * b.2)) (fun a b => decide (a < b)) _ (fun a b => rfl)]
  · intro x hx
    obtain ⟨e, j, _, hs⟩ := mem_candsFrom _ c.cache q.length q 0 x hx
    simp [hs, hmax]

/-- the TLRU score as the CURRENT source computes it in the async engine: `frequency^weight × (idx + 1) × age factor`
    with the age in WHOLE seconds (`elapsedMs` is a multiple of 1000 there) and `0` for an entry never hit -/
def srcTlruAsync (A : F64 F) (fw : Option F) : Tlru F where
  lt := A.lt
  score cfg hits elapsedMs rank :=
    A.mul (A.mul (match fw with
        | some w => if A.gt (A.ofNat hits) A.zero then A.powf (A.ofNat hits) w else A.zero
        | none => A.ofNat hits) (A.ofNat rank))
      (match cfg.ttl with
       | some t => A.max (A.sub A.one (A.min (A.div (A.ofNat (elapsedMs / 1000)) (A.ofNat t)) A.one)) A.zero
       | none => A.one)

/-- **TLRU (async)**: the source's scan is the model's TLRU victim for the scorer `srcTlruAsync` -/
theorem find_tlru_eviction_key_eq (A : F64 F) (c : AsyncCache K V F) (now : Nat) (hp : c.policy = .tlru) (q : List K)
    (hmax : ∀ hits el rk, A.lt ((srcTlruAsync A c.frequency_weight).score (cfgOf c) hits el rk) A.maxVal = true) :
    find_tlru_eviction_key A ⟨fun _ => 0, now⟩ c q = victim (cfgOf c) (srcTlruAsync A c.frequency_weight) now c.cache q := by
  unfold find_tlru_eviction_key
  dsimp only
  rw [foldl_congr' (g := fun (st : F × Option K) (p : Nat × K) =>
          match lookup p.2 c.cache with
          | some e =>
            if A.lt ((srcTlruAsync A c.frequency_weight).score (cfgOf c) e.hits ((now / 1000 - e.birth / 1000) * 1000) (p.1 + 1)) st.1
              then ((srcTlruAsync A c.frequency_weight).score (cfgOf c) e.hits ((now / 1000 - e.birth / 1000) * 1000) (p.1 + 1), some p.2)
              else st
          | none => st)]
  · rw [victim]
    simp only [cfgOf, hp]
    have h := fold_eq_scan A.lt (fun (e : Entry V) i (_ : Nat) =>
        (srcTlruAsync A c.frequency_weight).score (cfgOf c) e.hits ((now / 1000 - e.birth / 1000) * 1000) (i + 1))
      c.cache q.length q 0 (A.maxVal, none)
    refine Eq.trans (congrArg Prod.snd h) ?_
    rw [scan_max]
    · simp [cands, rank, elapsedMs, srcTlruAsync, cfgOf]
    · intro x hx
      obtain ⟨e, j, _, hs⟩ := mem_candsFrom _ c.cache q.length q 0 x hx
      simp [hs, hmax]
  · intro st p
    cases hl : lookup p.2 c.cache <;> cases hfw : c.frequency_weight <;> cases httl : c.ttl <;>
      simp [srcTlruAsync, cfgOf, httl, hfw, asSecs, tsSecs, ssub] <;> split <;> simp_all

end Cachelito.T06
