/-
  Cachelito.RustLite — the MEANING of the Rust library calls that occur in the pure helper code translated by
  `checklib/rust2lean.py` (`Generated/PureMem.lean`, `Generated/PureUtils.lean`).

  This file is hand-written and trusted: it says what `usize` subtraction, `saturating_sub`, `VecDeque::remove`,
  `HashMap::remove`, `Iterator::position`, `AtomicU64::fetch_add` … mean.  Everything else in the generated files
  comes from the source text.  Core Lean only.

  * `usize` / `u64` are `Nat`; Rust's unchecked `a - b` is `usub` (fails on underflow: a panic with overflow checks,
    a wrap without — either way not the number the code means) in the memory estimator and the truncating `a - b`
    in `utils.rs` (where the only subtractions are `total_len - idx` under `idx < total_len`).
  * `VecDeque<String>` is a `List K` (front = head), `HashMap<K, CacheEntry<V>>` is the association list
    `Store K V` of `Basic.lean`.
  * `f64` is ANY type `F` with a structure `F64 F` of the operations the code uses: the translated code never looks
    inside a float, so the theorems hold for every such structure (the driver instantiates Lean's `Float`).
-/
import Cachelito.Core

namespace Cachelito.RustLite

/-! ### usize arithmetic -/

/-- Rust's unchecked `a - b` on `usize`: defined only when it does not underflow -/
def usub (a b : Nat) : Option Nat := if b ≤ a then some (a - b) else none

/-- `a.saturating_sub(b)` -/
def ssub (a b : Nat) : Nat := a - b

def u64Max : Nat := 2 ^ 64 - 1
def usizeMax : Nat := 2 ^ 64 - 1

/-- `x.saturating_add(y)` on `u64` -/
def saturatingAddU64 (x y : Nat) : Nat := if x + y ≤ u64Max then x + y else u64Max

/-! ### what the memory estimator sees of a sub-value: its `estimate_memory()` and its `size_of_val` -/

structure Sub where
  est : Nat
  szv : Nat
  deriving Repr, DecidableEq

/-- `iter.map(f)` where `f` may fail -/
def mapM {α β : Type} (f : α → Option β) : List α → Option (List β)
  | [] => some []
  | x :: xs => do let y ← f x; let ys ← mapM f xs; pure (y :: ys)

/-- `iter.sum()` -/
def sum : List Nat → Nat
  | [] => 0
  | x :: xs => x + sum xs

/-- `opt.map_or(default, f)` where `f` may fail -/
def mapOrM {α β : Type} (o : Option α) (d : β) (f : α → Option β) : Option β :=
  match o with
  | none => some d
  | some x => f x

/-! ### VecDeque / HashMap / iterators -/

variable {K V : Type} [DecidableEq K]

/-- `iter.position(p)` -/
def position {α : Type} (p : α → Bool) : List α → Option Nat
  | [] => none
  | x :: xs => if p x then some 0 else (position p xs).map (· + 1)

/-- `iter.enumerate()` -/
def enumerateFrom {α : Type} : Nat → List α → List (Nat × α)
  | _, [] => []
  | i, x :: xs => (i, x) :: enumerateFrom (i + 1) xs

def enumerate {α : Type} (l : List α) : List (Nat × α) := enumerateFrom 0 l

/-- `deque.push_back(x)` -/
def pushBack {α : Type} (l : List α) (x : α) : List α := l ++ [x]

/-- `VecDeque::remove(index)`: the removed element (if the index is in range) and the deque afterwards -/
def dequeRemove {α : Type} (l : List α) (i : Nat) : Option α × List α := (l[i]?, l.eraseIdx i)

/-- `HashMap::remove(key)`: the removed entry (if any) and the map afterwards -/
def mapRemove (m : Store K V) (k : K) : Option (Entry V) × Store K V := (lookup k m, eraseKey k m)

/-- `map.values()` -/
def values (m : Store K V) : List (Entry V) := m.map (·.2)

/-- `deque.pop_front()` -/
def popFront {α : Type} (l : List α) : Option α × List α := (l.head?, l.tail)

/-- `deque.pop_back()` -/
def popBack {α : Type} (l : List α) : Option α × List α := (l.getLast?, l.dropLast)

/-- the stream of raw random draws: the next one (0 when exhausted, as the model's `headD 0`) and the rest -/
def nextRand (rs : List Nat) : Nat × List Nat := (rs.headD 0, rs.tail)
def headRand (rs : List Nat) : Nat := rs.headD 0

/-- `Result::is_ok` (Rust's `Result<T, E>` is `Except E T`) -/
def isOk {E T : Type} : Except E T → Bool
  | .ok _ => true
  | .error _ => false

/-- `loop { body }` with a fuel bound: `body st = (break?, st')` -/
def loopFuel {σ : Type} : Nat → σ → (σ → Bool × σ) → σ
  | 0, st, _ => st
  | n + 1, st, body =>
    let r := body st
    if r.1 then r.2 else loopFuel n r.2 body

/-- `HashMap::clear` / `VecDeque::clear` -/
def clearAll {α : Type} (_l : List α) : List α := []

/-- `deque.retain(p)` -/
def retain {α : Type} (l : List α) (p : α → Bool) : List α := l.filter p

/-- `HashMap::insert(key, entry)` (replaces) -/
def mapInsert (m : Store K V) (k : K) (e : Entry V) : Store K V := put k e m

/-- writing through the `&mut` entry that `HashMap::get_mut(key)` returned -/
def mapSet (m : Store K V) (k : K) (e : Entry V) : Store K V := modify k (fun _ => e) m

/-- the entry tuple `(value, unix seconds, frequency)` of the async cache; the model keeps births in ms -/
def asyncEntry (v : V) (ts : Nat) (freq : Nat) : Entry V := ⟨v, ts * 1000, freq⟩

/-- `fastrand::usize(..n)`: `r` is the raw draw -/
def randBelow (r n : Nat) : Nat := r % n

/-- `while let Some(x) = deque.pop_front() { body }` where `body` may `break`: `body x st = (stop?, st')` -/
def whilePop {α σ : Type} : List α → σ → (α → σ → Bool × σ) → List α × σ
  | [], st, _ => ([], st)
  | x :: xs, st, body =>
    let r := body x st
    if r.1 then (xs, r.2) else whilePop xs r.2 body

/-! ### f64 as an abstract structure -/

structure F64 (F : Type) where
  ofNat : Nat → F
  /-- `Duration::as_secs_f64` of an elapsed time given in ms -/
  ofDuration : Nat → F
  maxVal : F
  zero : F
  one : F
  add : F → F → F
  sub : F → F → F
  mul : F → F → F
  div : F → F → F
  min : F → F → F
  max : F → F → F
  powf : F → F → F
  lt : F → F → Bool
  le : F → F → Bool
  gt : F → F → Bool
  ge : F → F → Bool

/-- Lean's `Float` (= C `double`, the same libm as Rust's `f64` on this machine, DESIGN.md §3) -/
def F64.float : F64 Float where
  ofNat := Nat.toFloat
  ofDuration ms := ms.toFloat / 1000.0
  maxVal := 1.7976931348623157e308
  zero := 0.0
  one := 1.0
  add := (· + ·)
  sub := (· - ·)
  mul := (· * ·)
  div := (· / ·)
  powf := Float.pow
  min := fun a b => if a.isNaN then b else if b.isNaN then a else if a < b then a else b
  max := fun a b => if a.isNaN then b else if b.isNaN then a else if a > b then a else b
  lt := fun a b => a < b
  le := fun a b => a ≤ b
  gt := fun a b => a > b
  ge := fun a b => a ≥ b

/-- `CacheStats { hits: AtomicU64, misses: AtomicU64 }` -/
structure StatsCell where
  hits : Nat
  misses : Nat
  deriving Repr, DecidableEq

/-! ### time -/

/-- the clock as the sync engines see it: `inserted_at.elapsed()` of an entry, in ms -/
structure Clock where
  elapsed : Nat → Nat          -- birth stamp ↦ elapsed ms   (`Instant::elapsed`, sync engines)
  now : Nat := 0               -- `SystemTime::now()` since the epoch, ms   (async engine)

/-- the stored unix-seconds timestamp of an async entry (the model keeps births in ms: whole seconds × 1000) -/
def tsSecs {V : Type} (e : Entry V) : Nat := e.birth / 1000

/-- `CacheEntry::new(value)`: born now (`Instant::now()`), frequency 0 -/
def newEntry {V : Type} (clock : Clock) (v : V) : Entry V := ⟨v, clock.now, 0⟩

/-- `GlobalCache`: the map behind its `RwLock`, the order queue behind its mutex, and the configuration -/
structure GlobalCache (K V F : Type) where
  map : Store K V
  order : List K
  limit : Option Nat
  max_memory : Option Nat
  policy : Policy
  ttl : Option Nat
  frequency_weight : Option F
  stats : StatsCell := ⟨0, 0⟩

/-- `ThreadLocalCache`: the two `thread_local!` `RefCell`s of the calling thread and the configuration -/
structure ThreadCache (K V F : Type) where
  cache : Store K V
  order : List K
  limit : Option Nat
  max_memory : Option Nat
  policy : Policy
  ttl : Option Nat
  frequency_weight : Option F
  stats : StatsCell := ⟨0, 0⟩

/-- `AsyncGlobalCache`: the DashMap, the order queue behind its mutex, and the configuration -/
structure AsyncCache (K V F : Type) where
  cache : Store K V
  order : List K
  limit : Option Nat
  max_memory : Option Nat
  policy : Policy
  ttl : Option Nat
  frequency_weight : Option F
  stats : StatsCell := ⟨0, 0⟩

/-- `Duration::as_secs()` of a duration in ms -/
def asSecs (ms : Nat) : Nat := ms / 1000

/-! ### atomics (one method call = one atomic step; `Ordering` is not modelled) -/

def fetchAdd (cell : Nat) (d : Nat) (_ord : Unit) : Nat × Nat := (cell, cell + d)
def atomicStore (_cell : Nat) (v : Nat) (_ord : Unit) : Nat := v
def atomicLoad (cell : Nat) (_ord : Unit := ()) : Nat := cell

/-! ### strings -/

/-- `str::to_lowercase` (ASCII part; the policy names are ASCII) -/
def toLowercase (s : String) : String := s.toLower

end Cachelito.RustLite
