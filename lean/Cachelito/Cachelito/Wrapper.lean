/-
  Cachelito.Wrapper — the code `#[cache]` / `#[cache_async]` generate around an engine:
  key → lookup → (invalidate_on check) → body → (cache_if / Result filter) → store → return.

  `cachelito-macros/src/lib.rs:44-91,100-138,141-289`, `cachelito-async-macros/src/lib.rs:22-77,297-335`.
  The function body and the two user predicates are ORACLES supplied per call (so impure scripts and
  predicates whose verdict changes between calls are expressible); the trace records which of them
  were actually consulted.
-/
import Cachelito.Core

namespace Cachelito

/-- what the macro derives from the attribute list and the signature -/
structure FnSpec where
  name : String                 -- `name = "…"` or the function identifier (registry / stats name)
  isAsync : Bool                -- `#[cache_async]`
  threadScope : Bool            -- `scope = "thread"` (sync only)
  cfg : Cfg                     -- flavour must agree with `isAsync` / `threadScope`
  useMem : Bool                 -- memory-aware store selected (textual test on the max_memory tokens)
  isResult : Bool               -- return type spelled `Result<` / `std::result::Result<`
  hasCacheIf : Bool
  hasInvalidateOn : Bool
  tags : List String
  events : List String
  deps : List String
  deriving Repr

/-- one call: the key its arguments render to, and the oracles for this call -/
structure CallIn (K V : Type) where
  key : K
  bodyVal : V                   -- what the body returns IF it runs
  cacheIf : K → V → Bool        -- what `cache_if` answers IF consulted
  invalidateOn : K → V → Bool   -- what `invalidate_on` answers IF consulted (true = stale)

inductive TraceEv (K V : Type)
  | checkCalled (k : K) (cached : V) (stale : Bool)   -- invalidate_on consulted on a hit
  | bodyRun
  | predCalled (k : K) (v : V) (accept : Bool)        -- cache_if consulted
  | stored (k : K) (v : V)
  | returned (v : V) (fromCache : Bool)
  deriving Repr

variable {K V S : Type} [DecidableEq K]

/-- does the wrapper hand the fresh result to the engine?
    Sync: `cache_if` guards the call of `insert*` / `insert_result*`, and `insert_result*` stores only `Ok`.
    Async: `cache_if` alone when present (an `Err` it accepts IS stored), else `is_ok()` for Result types. -/
def shouldStore (spec : FnSpec) (isOk : V → Bool) (accept : Bool) (v : V) : Bool :=
  if spec.isAsync then
    if spec.hasCacheIf then accept else (if spec.isResult then isOk v else true)
  else
    (if spec.hasCacheIf then accept else true) && (if spec.isResult then isOk v else true)

/-- the generated function, on the state of its own cache -/
def callFn (spec : FnSpec) (tl : Tlru S) (size : V → Nat) (isOk : V → Bool) (rs : List Nat)
    (s : State K V) (c : CallIn K V) : State K V × V × List (TraceEv K V) :=
  let (s1, o) := get spec.cfg s c.key
  let miss (pre : List (TraceEv K V)) : State K V × V × List (TraceEv K V) :=
    let r := c.bodyVal
    let accept := c.cacheIf c.key r
    let t1 := pre ++ [TraceEv.bodyRun] ++ (if spec.hasCacheIf then [TraceEv.predCalled c.key r accept] else [])
    if shouldStore spec isOk accept r then
      let s2 := if spec.useMem then insertMem spec.cfg tl size rs s1 c.key r
                else insert spec.cfg tl (rs.headD 0) s1 c.key r
      (s2, r, t1 ++ [TraceEv.stored c.key r, TraceEv.returned r false])
    else (s1, r, t1 ++ [TraceEv.returned r false])
  match o with
  | some cached =>
    if spec.hasInvalidateOn then
      let stale := c.invalidateOn c.key cached
      if stale then miss [TraceEv.checkCalled c.key cached true]
      else (s1, cached, [TraceEv.checkCalled c.key cached false, TraceEv.returned cached true])
    else (s1, cached, [TraceEv.returned cached true])
  | none => miss []

end Cachelito
