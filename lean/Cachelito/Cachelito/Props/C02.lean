/-
  C02 — Distinct argument tuples never share a cache entry.

  Model: `Cachelito/Keys.lean` (`render` = Rust's `{:?}`, `keyOf` = the parts joined by `|`, which is
  what both macro key builders generate).  A cache entry is addressed by its key and nothing else
  (`Core.lean`: every lookup and store goes through the key), so two calls can be served from the
  same entry only if their keys are equal; the theorems below show that equal keys force equal
  receivers and equal argument tuples.

  Quantification: every signature (optional receiver type, any number of argument types) over the
  whole grammar `Ty` — integers, bool, char, String/&str, floats, unit, tuples, Option, Vec/slices,
  arbitrarily nested, and `derive(Debug)` structs / tuple structs / enums over arbitrary identifiers;
  every Unicode escape predicate `fm.esc` (so the result does not depend on Rust's Unicode tables).

  Assumption (explicit hypothesis `FloatOK fm.float`): the float printer, which is not modelled, is
  injective and prints a non-empty string over `0-9 . e E + - i n f N a`.  It is satisfiable
  (`floatOK_example`).  For `f64`/`f32` it holds when all NaNs are identified.  Outside the property:
  user-written `CacheableKey` impls.
-/
import Cachelito.Lemmas.Keys

set_option linter.unusedVariables false

namespace Cachelito.C02
open Cachelito.Keys

/-- **C02.**  For every signature, two calls whose keys are equal have the same receiver and the
    same argument tuple.  Contrapositive: calls that differ in the receiver or in any argument
    position have different keys, hence never share a cache entry. -/
theorem key_injective {F : Type} (fm : Fmt F) (hf : FloatOK fm.float) (sig : Sig)
    (ra rb : Option (Val F)) (a b : List (Val F))
    (ha : sig.wt ra a = true) (hb : sig.wt rb b = true)
    (h : keyOf fm ra a = keyOf fm rb b) : ra = rb ∧ a = b := by
  have := joinWith_render_injective fm hf sig.tys (keyVals ra a) (keyVals rb b)
    (sig.wt_keyVals ra a ha) (sig.wt_keyVals rb b hb) h
  exact sig.keyVals_injective ra rb a b ha hb this

/-- Calls that differ (in the receiver or anywhere in the argument tuple) get different keys. -/
theorem distinct_calls_distinct_keys {F : Type} (fm : Fmt F) (hf : FloatOK fm.float) (sig : Sig)
    (ra rb : Option (Val F)) (a b : List (Val F))
    (ha : sig.wt ra a = true) (hb : sig.wt rb b = true)
    (hne : ra ≠ rb ∨ a ≠ b) : keyOf fm ra a ≠ keyOf fm rb b := by
  intro h
  obtain ⟨h1, h2⟩ := key_injective fm hf sig ra rb a b ha hb h
  rcases hne with hne | hne
  · exact hne h1
  · exact hne h2

/-- Positional form: a difference in a single argument position `i` is enough. -/
theorem differ_at_position {F : Type} (fm : Fmt F) (hf : FloatOK fm.float) (sig : Sig)
    (ra rb : Option (Val F)) (a b : List (Val F))
    (ha : sig.wt ra a = true) (hb : sig.wt rb b = true)
    (i : Nat) (hne : a[i]? ≠ b[i]?) : keyOf fm ra a ≠ keyOf fm rb b := by
  apply distinct_calls_distinct_keys fm hf sig ra rb a b ha hb
  right
  intro h; subst h; exact hne rfl

/-- **C02 without the injectivity assumption.**  If the float printer is only known to print
    non-empty strings over the float alphabet (true of Rust's printer on every bit pattern,
    including all NaNs), equal keys still force equal receivers and argument tuples *up to the
    text of their float leaves*: everything except floats is equal, and floats in corresponding
    positions print alike.  (`Val.mapF fm.float` replaces every float leaf by its printed text.)
    So the only calls that can share an entry although their tuples differ are calls whose
    differing floats have the same `{:?}` text — for `f64`/`f32`: NaNs of different payload/sign. -/
theorem key_injective_up_to_float_text {F : Type} (fm : Fmt F)
    (hne : ∀ x, fm.float x ≠ []) (hal : ∀ x, ∀ c ∈ fm.float x, isFloatChar c = true) (sig : Sig)
    (ra rb : Option (Val F)) (a b : List (Val F))
    (ha : sig.wt ra a = true) (hb : sig.wt rb b = true)
    (h : keyOf fm ra a = keyOf fm rb b) :
    ra.map (Val.mapF fm.float) = rb.map (Val.mapF fm.float) ∧
    a.map (Val.mapF fm.float) = b.map (Val.mapF fm.float) := by
  let tx : F → FloatText := fun x => ⟨fm.float x, hne x, hal x⟩
  let gm : Fmt FloatText := ⟨fm.esc, fun x => x.val⟩
  have ka := keyOf_mapF tx fm gm rfl (fun _ => rfl) ra a
  have kb := keyOf_mapF tx fm gm rfl (fun _ => rfl) rb b
  have wa : sig.wt (ra.map (Val.mapF tx)) (a.map (Val.mapF tx)) = true := by rw [Sig.wt_mapF]; exact ha
  have wb : sig.wt (rb.map (Val.mapF tx)) (b.map (Val.mapF tx)) = true := by rw [Sig.wt_mapF]; exact hb
  obtain ⟨h1, h2⟩ := key_injective gm floatOK_text sig _ _ _ _ wa wb (by rw [ka, kb, h])
  have hc : ∀ v : Val F, Val.mapF (fun x : FloatText => x.val) (Val.mapF tx v) = Val.mapF fm.float v :=
    fun v => mapF_comp tx _ v
  constructor
  · have := congrArg (Option.map (Val.mapF (fun x : FloatText => x.val))) h1
    simpa [Option.map_map, Function.comp_def, hc] using this
  · have := congrArg (List.map (Val.mapF (fun x : FloatText => x.val))) h2
    simpa [List.map_map, Function.comp_def, hc] using this

/-- A single value is determined by its `Debug` rendering (within its type). -/
theorem render_injective {F : Type} (fm : Fmt F) (hf : FloatOK fm.float) (t : Ty) (v w : Val F)
    (hv : wt t v = true) (hw : wt t w = true) (h : render fm v = render fm w) : v = w := by
  obtain ⟨g, hg⟩ := hf.exists_reader
  have h1 := parse_render fm hf g hg t v hv [] rfl
  have h2 := parse_render fm hf g hg t w hw [] rfl
  simp only [List.append_nil] at h1 h2
  rw [h, h2] at h1
  simpa using h1.symm

/-- **Argument boundaries are unambiguous.**  If a rendered value of type `t` followed by the
    separator and arbitrary text equals another rendered value of type `t` followed by the
    separator and arbitrary text, the two values and the two continuations agree: no content of a
    value (separators, quotes, backslashes, escapes inside strings) can move the boundary. -/
theorem boundary_unambiguous {F : Type} (fm : Fmt F) (hf : FloatOK fm.float) (t : Ty) (v w : Val F)
    (hv : wt t v = true) (hw : wt t w = true) (x y : Text)
    (h : render fm v ++ '|' :: x = render fm w ++ '|' :: y) : v = w ∧ x = y := by
  obtain ⟨g, hg⟩ := hf.exists_reader
  have h1 := parse_render fm hf g hg t v hv ('|' :: x) rfl
  have h2 := parse_render fm hf g hg t w hw ('|' :: y) rfl
  rw [h, h2] at h1
  simp only [Option.some.injEq, Prod.mk.injEq, List.cons.injEq, true_and] at h1
  exact ⟨h1.1.symm, h1.2.symm⟩

/-! ### Non-vacuity -/

/-- the float assumptions are satisfiable (here: `F := Nat` printed in decimal) -/
theorem floatOK_example : FloatOK renderNat := floatOK_renderNat

/-- formatter of the examples: ASCII control characters and everything above `~` escaped -/
def exFmt : Fmt Nat := ⟨fun c => c.toNat < 32 || 127 ≤ c.toNat, renderNat⟩

def exId (s : String) (h : isIdent s.toList = true := by decide) : Ident := ⟨s.toList, h⟩

/-- `f("a|b", "c")` and `f("a", "b|c")`: the separator inside a string does not merge the keys -/
example :
    keyOf exFmt none [.str "a|b".toList, .str "c".toList]
      ≠ keyOf exFmt none [.str "a".toList, .str "b|c".toList] := by decide

example :
    keyOf exFmt none [.str "a|b".toList, .str "c".toList] = "\"a|b\"|\"c\"".toList ∧
    keyOf exFmt none [.str "a".toList, .str "b|c".toList] = "\"a\"|\"b|c\"".toList := by decide

/-- moving a quote or a backslash across the boundary -/
example :
    keyOf exFmt none [.str "a\"".toList, .str "b".toList]
      ≠ keyOf exFmt none [.str "a".toList, .str "\"b".toList] ∧
    keyOf exFmt none [.str "a\\".toList, .str "|".toList]
      ≠ keyOf exFmt none [.str "a".toList, .str "\\|".toList] ∧
    keyOf exFmt none [.str "a\"|\"b".toList] ≠ keyOf exFmt none [.str "a".toList, .str "b".toList] := by
  decide

/-- `f(1, 23)` and `f(12, 3)` are both calls of `fn f(u32, u32)`, differ, and get different keys … -/
example :
    (Sig.mk none [.uint, .uint]).wt (F := Nat) none [.nat 1, .nat 23] = true ∧
    (Sig.mk none [.uint, .uint]).wt (F := Nat) none [.nat 12, .nat 3] = true ∧
    keyOf exFmt none [.nat 1, .nat 23] = "1|23".toList ∧
    keyOf exFmt none [.nat 12, .nat 3] = "12|3".toList ∧
    keyOf exFmt none [.nat 1, .nat 23] ≠ keyOf exFmt none [.nat 12, .nat 3] := by decide

/-- … but WITHOUT the separator (the mutant) they collide: the theorem is about the `|`. -/
example : keyOfNoSep exFmt none [.nat 1, .nat 23] = keyOfNoSep exFmt none [.nat 12, .nat 3] := by
  decide

/-- a method: the receiver is part of the key -/
example :
    let point := Ty.adt [.named (exId "Point") [(exId "x", .sint), (exId "y", .sint)]]
    let sig : Sig := ⟨some point, [.option .str, .vec (.tuple [.uint])]⟩
    let p1 : Val Nat := .namedV (exId "Point") [(exId "x", .int 1), (exId "y", .int (-2))]
    let p2 : Val Nat := .namedV (exId "Point") [(exId "x", .int 1), (exId "y", .int 2)]
    let args : List (Val Nat) := [.some (.str "k".toList), .vec [.tuple [.nat 7]]]
    sig.wt (some p1) args = true ∧ sig.wt (some p2) args = true ∧
    keyOf exFmt (some p1) args = "Point { x: 1, y: -2 }|Some(\"k\")|[(7,)]".toList ∧
    keyOf exFmt (some p1) args ≠ keyOf exFmt (some p2) args := by decide

/-- escapes: control characters, the two quotes, and a `\u{…}` escape -/
example :
    render exFmt (.str ['a', '\n', '"', '\'', '\\', '\x7f', Char.ofNat 0x301]) =
      "\"a\\n\\\"'\\\\\\u{7f}\\u{301}\"".toList ∧
    render exFmt (.char '\'') = "'\\''".toList ∧ render exFmt (.char '"') = "'\"'".toList := by
  decide

/-- enum variants of all three shapes -/
example :
    let e := Ty.adt [.unit (exId "A"), .tuple (exId "B") [.uint, .char], .named (exId "C") [(exId "x", .bool)]]
    wt (F := Nat) e (.unitV (exId "A")) = true ∧
    wt (F := Nat) e (.tupleV (exId "B") [.nat 1, .char 'z']) = true ∧
    wt (F := Nat) e (.namedV (exId "C") [(exId "x", .bool true)]) = true ∧
    wt (F := Nat) e (.tupleV (exId "A") []) = false ∧
    render exFmt (.tupleV (exId "B") [.nat 1, .char 'z']) = "B(1, 'z')".toList ∧
    render exFmt (.namedV (exId "C") [(exId "x", .bool true)]) = "C { x: true }".toList := by decide

/-- the injectivity assumption is needed: a printer that prints two float values alike (as Rust
    prints every NaN as `NaN`) gives two different tuples one key; `key_injective_up_to_float_text`
    still applies to it -/
example :
    let fm : Fmt Bool := ⟨fun _ => false, fun _ => ['N', 'a', 'N']⟩
    keyOf fm none [.float true, .nat 1] = keyOf fm none [.float false, .nat 1] ∧
    keyOf fm none [.float true, .nat 1] = "NaN|1".toList := by decide

end Cachelito.C02
