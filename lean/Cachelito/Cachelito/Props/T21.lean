/-
  T21 — TRANSLATOR TIE, cachelito-macro-utils/src/lib.rs: how the cache key is ASSEMBLED (C01, C02, C03, C14, C19)

  `generate_key_expr_with_cacheable_key` (`#[cache]`) and `generate_key_expr` (`#[cache_async]`) are EVALUATED by
  `checklib/rust2lean.py` on /repo's CURRENT source for methods and free functions with 0..4 arguments and the resulting key
  expression is translated (`Generated/PureKeys.lean`, 20 definitions); the rendering of one part (`to_cache_key()` /
  `format!("{:?}", x)`) is taken as given — it is C02's subject, tied by the `keys` stream.

  Theorems: every generated key expression is the model's key — ALL parts, the receiver first, then the arguments in
  order, joined by `|`; the empty string when there are none (`Keys.keyOf`, the function C02's injectivity theorem is
  about).  A key builder that drops the receiver for some arity, reorders parts, changes the separator or abbreviates the
  joined string no longer satisfies these equalities.
-/
import Cachelito.Generated.PureKeys
import Cachelito.Keys
import Cachelito.Props.C02

set_option linter.unusedSimpArgs false
set_option linter.unusedVariables false

namespace Cachelito.T21
open Cachelito Cachelito.RustLite Cachelito.Generated Cachelito.Generated.KeyExpr Cachelito.Keys

/-- the model's key over already rendered parts -/
def keyOfParts (receiver : Option Text) (args : List Text) : Text := joinWith ['|'] (receiver.toList ++ args)

/-- `keyOf` is `keyOfParts` of the renderings -/
theorem keyOf_eq_keyOfParts {F : Type} (fm : Fmt F) (receiver : Option (Val F)) (args : List (Val F)) :
    keyOf fm receiver args = keyOfParts (receiver.map (render fm)) (args.map (render fm)) := by
  unfold keyOf keyOfParts keyVals
  cases receiver <;> simp

theorem keySync_0_0_eq (s : Text) : keySync_0_0 s  = keyOfParts none [] := by
  simp [keySync_0_0, keyOfParts, pushBack, joinWith, joinTail]

theorem keySync_0_1_eq (s a0 : Text) : keySync_0_1 s a0 = keyOfParts none [a0] := by
  simp [keySync_0_1, keyOfParts, pushBack, joinWith, joinTail]

theorem keySync_0_2_eq (s a0 a1 : Text) : keySync_0_2 s a0 a1 = keyOfParts none [a0, a1] := by
  simp [keySync_0_2, keyOfParts, pushBack, joinWith, joinTail]

theorem keySync_0_3_eq (s a0 a1 a2 : Text) : keySync_0_3 s a0 a1 a2 = keyOfParts none [a0, a1, a2] := by
  simp [keySync_0_3, keyOfParts, pushBack, joinWith, joinTail]

theorem keySync_0_4_eq (s a0 a1 a2 a3 : Text) : keySync_0_4 s a0 a1 a2 a3 = keyOfParts none [a0, a1, a2, a3] := by
  simp [keySync_0_4, keyOfParts, pushBack, joinWith, joinTail]

theorem keySync_1_0_eq (s : Text) : keySync_1_0 s  = keyOfParts (some s) [] := by
  simp [keySync_1_0, keyOfParts, pushBack, joinWith, joinTail]

theorem keySync_1_1_eq (s a0 : Text) : keySync_1_1 s a0 = keyOfParts (some s) [a0] := by
  simp [keySync_1_1, keyOfParts, pushBack, joinWith, joinTail]

theorem keySync_1_2_eq (s a0 a1 : Text) : keySync_1_2 s a0 a1 = keyOfParts (some s) [a0, a1] := by
  simp [keySync_1_2, keyOfParts, pushBack, joinWith, joinTail]

theorem keySync_1_3_eq (s a0 a1 a2 : Text) : keySync_1_3 s a0 a1 a2 = keyOfParts (some s) [a0, a1, a2] := by
  simp [keySync_1_3, keyOfParts, pushBack, joinWith, joinTail]

theorem keySync_1_4_eq (s a0 a1 a2 a3 : Text) : keySync_1_4 s a0 a1 a2 a3 = keyOfParts (some s) [a0, a1, a2, a3] := by
  simp [keySync_1_4, keyOfParts, pushBack, joinWith, joinTail]

theorem keyAsync_0_0_eq (s : Text) : keyAsync_0_0 s  = keyOfParts none [] := by
  simp [keyAsync_0_0, keyOfParts, pushBack, joinWith, joinTail]

theorem keyAsync_0_1_eq (s a0 : Text) : keyAsync_0_1 s a0 = keyOfParts none [a0] := by
  simp [keyAsync_0_1, keyOfParts, pushBack, joinWith, joinTail]

theorem keyAsync_0_2_eq (s a0 a1 : Text) : keyAsync_0_2 s a0 a1 = keyOfParts none [a0, a1] := by
  simp [keyAsync_0_2, keyOfParts, pushBack, joinWith, joinTail]

theorem keyAsync_0_3_eq (s a0 a1 a2 : Text) : keyAsync_0_3 s a0 a1 a2 = keyOfParts none [a0, a1, a2] := by
  simp [keyAsync_0_3, keyOfParts, pushBack, joinWith, joinTail]

theorem keyAsync_0_4_eq (s a0 a1 a2 a3 : Text) : keyAsync_0_4 s a0 a1 a2 a3 = keyOfParts none [a0, a1, a2, a3] := by
  simp [keyAsync_0_4, keyOfParts, pushBack, joinWith, joinTail]

theorem keyAsync_1_0_eq (s : Text) : keyAsync_1_0 s  = keyOfParts (some s) [] := by
  simp [keyAsync_1_0, keyOfParts, pushBack, joinWith, joinTail]

theorem keyAsync_1_1_eq (s a0 : Text) : keyAsync_1_1 s a0 = keyOfParts (some s) [a0] := by
  simp [keyAsync_1_1, keyOfParts, pushBack, joinWith, joinTail]

theorem keyAsync_1_2_eq (s a0 a1 : Text) : keyAsync_1_2 s a0 a1 = keyOfParts (some s) [a0, a1] := by
  simp [keyAsync_1_2, keyOfParts, pushBack, joinWith, joinTail]

theorem keyAsync_1_3_eq (s a0 a1 a2 : Text) : keyAsync_1_3 s a0 a1 a2 = keyOfParts (some s) [a0, a1, a2] := by
  simp [keyAsync_1_3, keyOfParts, pushBack, joinWith, joinTail]

theorem keyAsync_1_4_eq (s a0 a1 a2 a3 : Text) : keyAsync_1_4 s a0 a1 a2 a3 = keyOfParts (some s) [a0, a1, a2, a3] := by
  simp [keyAsync_1_4, keyOfParts, pushBack, joinWith, joinTail]


/-! ## C02 on the generated key expressions: distinct argument tuples never share a key -/

/-- a method with two arguments under `#[cache]`: if two calls get the same GENERATED key, receiver and arguments are equal
    (for every signature the values inhabit; `FloatOK`: the float printer is injective on the values that occur) -/
theorem keySync_1_2_injective {F : Type} (fm : Fmt F) (hf : FloatOK fm.float) (sig : Sig)
    (r r' a0 a0' a1 a1' : Val F) (ha : sig.wt (some r) [a0, a1] = true) (hb : sig.wt (some r') [a0', a1'] = true)
    (h : keySync_1_2 (render fm r) (render fm a0) (render fm a1) = keySync_1_2 (render fm r') (render fm a0') (render fm a1')) :
    r = r' ∧ a0 = a0' ∧ a1 = a1' := by
  rw [keySync_1_2_eq, keySync_1_2_eq] at h
  have h' : keyOf fm (some r) [a0, a1] = keyOf fm (some r') [a0', a1'] := by
    rw [keyOf_eq_keyOfParts, keyOf_eq_keyOfParts]; simpa using h
  obtain ⟨h1, h2⟩ := C02.key_injective fm hf sig (some r) (some r') [a0, a1] [a0', a1'] ha hb h'
  simp at h1 h2
  exact ⟨h1, h2.1, h2.2⟩

/-- a method with ONE argument (the arity a "single-argument fast path" would special-case): the receiver is part of the key -/
theorem keySync_1_1_injective {F : Type} (fm : Fmt F) (hf : FloatOK fm.float) (sig : Sig)
    (r r' a0 a0' : Val F) (ha : sig.wt (some r) [a0] = true) (hb : sig.wt (some r') [a0'] = true)
    (h : keySync_1_1 (render fm r) (render fm a0) = keySync_1_1 (render fm r') (render fm a0')) :
    r = r' ∧ a0 = a0' := by
  rw [keySync_1_1_eq, keySync_1_1_eq] at h
  have h' : keyOf fm (some r) [a0] = keyOf fm (some r') [a0'] := by
    rw [keyOf_eq_keyOfParts, keyOf_eq_keyOfParts]; simpa using h
  obtain ⟨h1, h2⟩ := C02.key_injective fm hf sig (some r) (some r') [a0] [a0'] ha hb h'
  simp at h1 h2
  exact ⟨h1, h2⟩

/-- an async free function with three arguments -/
theorem keyAsync_0_3_injective {F : Type} (fm : Fmt F) (hf : FloatOK fm.float) (sig : Sig)
    (a0 a0' a1 a1' a2 a2' : Val F) (ha : sig.wt none [a0, a1, a2] = true) (hb : sig.wt none [a0', a1', a2'] = true)
    (h : keyAsync_0_3 [] (render fm a0) (render fm a1) (render fm a2) = keyAsync_0_3 [] (render fm a0') (render fm a1') (render fm a2')) :
    a0 = a0' ∧ a1 = a1' ∧ a2 = a2' := by
  rw [keyAsync_0_3_eq, keyAsync_0_3_eq] at h
  have h' : keyOf fm none [a0, a1, a2] = keyOf fm none [a0', a1', a2'] := by
    rw [keyOf_eq_keyOfParts, keyOf_eq_keyOfParts]; simpa using h
  obtain ⟨_, h2⟩ := C02.key_injective fm hf sig none none [a0, a1, a2] [a0', a1', a2'] ha hb h'
  simp at h2
  exact h2

/-- non-vacuity / what the separator is for: a method `m(&self, x)` and the same method on another receiver get different
    keys as soon as the receivers render differently -/
example : keySync_1_1 "A".toList "7".toList ≠ keySync_1_1 "B".toList "7".toList := by decide

/-- … and the key of a method with ONE argument contains the receiver (a builder with a single-argument fast path that
    forgets `self` would return just the argument) -/
example : keySync_1_1 "R".toList "7".toList = "R|7".toList ∧ keyAsync_1_1 "R".toList "7".toList = "R|7".toList := by decide

end Cachelito.T21
