/-
  T13 — TRANSLATOR TIE: `insert_result` of the sync engines (C09: an `Err` is never stored, an `Ok` is stored like any
  value) and `GlobalCache::clear` (C12 / C13: the whole cache, map AND queue, is emptied).

  Regenerated from /repo's CURRENT source on every check (`Generated/PureGlobal.lean`, `PureThread.lean`); re-proved
  against whatever was generated.  The cached value type is `Result<T, E>` = `Except E T`.
-/
import Cachelito.Props.T08
import Cachelito.Props.T11

set_option linter.unusedSimpArgs false
set_option linter.unusedVariables false
set_option linter.unusedSectionVars false

namespace Cachelito.T13
open Cachelito Cachelito.RustLite Cachelito.Generated

variable {K V F E T : Type} [DecidableEq K]

/-- **`Err` is never stored** by the sync global engine: `insert_result` with an `Err` leaves the cache as it is — map,
    queue, everything — for every configuration and content -/
theorem global_insert_result_err (A : F64 F) (clock : Clock) (r : Nat) (c : GlobalCache K (Except E T) F) (k : K) (e : E) :
    Global.insert_result A clock r c k (.error e) = c := by
  simp [Global.insert_result]

/-- an `Ok` is stored exactly as `insert` stores it -/
theorem global_insert_result_ok (A : F64 F) (clock : Clock) (r : Nat) (c : GlobalCache K (Except E T) F) (k : K) (v : T) :
    Global.insert_result A clock r c k (.ok v) = Global.insert A clock r c k (.ok v) := by
  simp [Global.insert_result]

/-- the same for the thread-local engine -/
theorem thread_insert_result_err (A : F64 F) (clock : Clock) (r : Nat) (c : ThreadCache K (Except E T) F) (k : K) (e : E) :
    Thread.insert_result A clock r c k (.error e) = c := by
  simp [Thread.insert_result]

theorem thread_insert_result_ok (A : F64 F) (clock : Clock) (r : Nat) (c : ThreadCache K (Except E T) F) (k : K) (v : T) :
    Thread.insert_result A clock r c k (.ok v) = Thread.insert A clock r c k (.ok v) := by
  simp [Thread.insert_result]

/-- `GlobalCache::clear` empties map and queue (the model's `clear`) and nothing else -/
theorem global_clear_eq (c : GlobalCache K V F) (now hs ms : Nat) :
    Global.clear c =
      { c with map := (Cachelito.clear (⟨c.map, c.order, now, hs, ms⟩ : State K V)).store,
               order := (Cachelito.clear (⟨c.map, c.order, now, hs, ms⟩ : State K V)).queue } := by
  simp [Global.clear, Cachelito.clear, clearAll]

end Cachelito.T13
