/-
  C16 — No cache operation panics, for any configuration and history.

  The model's operations are total Lean functions; what can panic in the Rust code is a short list of
  primitive operations, each with a side condition.  This file proves every side condition in every
  reachable state (or for every branch outcome, for the `RefCell` discipline):

    (a) `fastrand::usize(..len)` needs `len > 0`; `VecDeque::remove(pos)` must return `Some`:
        the Random arm's index is in range whenever the queue is non-empty, and a non-empty queue always
        yields a victim.
    (b) `total_len - idx` (`usize` subtraction in the ARC/TLRU scans) needs `idx ≤ total_len`.
    (c) `RefCell` borrows of the thread-local cache never conflict (and the pre-fix code DID conflict).
    (d) the estimator's unchecked subtractions: `Cachelito.C05a.builtin_never_underflows`.
    (e) every eviction loop terminates: `Cachelito.C05.memLoop_fuel_independent`.
  Not modelled (DESIGN.md §9): allocation failure, `usize` overflow of memory sums, panics in user code.
-/
import Cachelito.Lemmas.Inv
import Cachelito.Borrow

set_option linter.unusedSectionVars false
set_option linter.unusedVariables false
set_option linter.unusedSimpArgs false

namespace Cachelito.C16
open Cachelito Cachelito.Borrow
variable {K V S : Type} [DecidableEq K]

/-- (a) The random draw is a valid index: `pos = r % len < len` whenever the queue is non-empty, so
    `fastrand::usize(..len)` has a non-empty range and `order.remove(pos)` returns `Some`. -/
theorem random_index_in_range (r : Nat) (q : List K) (h : q ≠ []) :
    r % q.length < q.length ∧ ∃ k, q[r % q.length]? = some k := by
  have hl : 0 < q.length := List.length_pos_iff.mpr h
  have hlt := Nat.mod_lt r hl
  exact ⟨hlt, q[r % q.length], by simp [hlt]⟩

/-- (a) With a non-empty queue the Random arm always evicts (it never falls through the `if let`). -/
theorem random_evicts_of_nonempty (r : Nat) (m : Store K V) (q : List K) (h : q ≠ []) :
    (evictRandom r m q).2.2 = true := by
  obtain ⟨_, k, hk⟩ := random_index_in_range r q h
  simp [evictRandom, hk]

/-- (a) On the empty queue the Random arm is guarded (`!order.is_empty()`): nothing is drawn or removed. -/
theorem random_guarded_on_empty (r : Nat) (m : Store K V) : evictRandom r m ([] : List K) = (m, [], false) := by
  simp [evictRandom]

/-- (b) Every position handed to the ARC/TLRU score is below the queue length, so `total_len - idx` and
    `(idx + 1)` never under- or overflow: stated on the scan itself — scanning a queue suffix of length
    `n` starting at position `i` with `i + n = len` only produces ranks `len - idx` with `idx < len`. -/
theorem scan_positions_in_range (score : Entry V → Nat → Nat → Nat × Nat) (m : Store K V)
    (hs : ∀ e i len, score e i len = (i, len)) (len : Nat) :
    ∀ (q : List K) (i : Nat), i + q.length = len →
      ∀ c ∈ candsFrom score m len i q, c.2.1 < c.2.2 ∧ c.2.2 = len := by
  intro q
  induction q with
  | nil => intro i _ c hc; simp [candsFrom] at hc
  | cons k q ih =>
    intro i hi c hc
    simp only [candsFrom] at hc
    simp only [List.length_cons] at hi
    cases hl : lookup k m with
    | none => rw [hl] at hc; exact ih (i + 1) (by omega) c hc
    | some e =>
      rw [hl] at hc
      rcases List.mem_cons.mp hc with h | h
      · subst h; rw [hs]; exact ⟨by show i < len; omega, rfl⟩
      · exact ih (i + 1) (by omega) c h

/-- (c) **Thread-local lookups never hit a `RefCell` conflict**, for every policy and branch outcome. -/
theorem get_borrows_ok (p : Policy) (expired hit : Bool) : traceOk (getTrace p expired hit) = true := by
  cases p <;> cases expired <;> cases hit <;> decide

/-- (c) **Thread-local stores never hit a `RefCell` conflict** (entry-limit eviction under every policy,
    whether or not a victim is found). -/
theorem insert_borrows_ok (p : Policy) (overLimit found : Bool) :
    traceOk (insertTrace false p overLimit found) = true := by
  cases p <;> cases overLimit <;> cases found <;> decide

/-- append two traces -/
theorem brun_append (b : BSt) (xs ys : List BEv) (b' : BSt) (h : brun b xs = some b') :
    brun b (xs ++ ys) = brun b' ys := by
  induction xs generalizing b with
  | nil => simp [brun] at h; subst h; rfl
  | cons x xs ihx =>
    simp only [brun, List.cons_append] at h ⊢
    cases hb : bstep b x with
    | none => simp [hb] at h
    | some b1 => simp only [hb] at h ⊢; exact ihx b1 h

/-- borrow state while the caller holds the order queue mutably -/
def qHeld : BSt := { queue := { excl := true } }

/-- the memory loop keeps the borrow state it started with (queue held mutably), for any number of
    evicting iterations -/
theorem memLoop_borrows_ok (p : Policy) (n : Nat) : brun qHeld (memLoopTrace false p n) = some qHeld := by
  induction n with
  | zero => cases p <;> decide
  | succ n ih =>
    have h1 : brun qHeld (shrR .store ++ evictTrace false p true) = some qHeld := by cases p <;> decide
    simp only [memLoopTrace]
    rw [brun_append _ _ _ _ h1]; exact ih

/-- (c) **Thread-local memory-aware stores never hit a `RefCell` conflict**: oversize path, any number of
    memory-loop evictions, then the entry-limit step — for every policy and branch outcome. -/
theorem insertMem_borrows_ok (p : Policy) (hasMem oversize : Bool) (n : Nat) (overLimit found : Bool) :
    traceOk (insertMemTrace false p hasMem oversize n overLimit found) = true := by
  unfold traceOk insertMemTrace
  have pro : brun {} (mutR .store ++ [BEv.mut .queue]) = some qHeld := by decide
  have step1 : ∀ body, brun {} (mutR .store ++ mutR .queue body) = brun qHeld (body ++ [BEv.endMut .queue]) := by
    intro body
    have : mutR .store ++ mutR .queue body = (mutR .store ++ [BEv.mut .queue]) ++ (body ++ [BEv.endMut .queue]) := by
      simp [mutR, region]
    rw [this, brun_append _ _ _ _ pro]
  rw [step1]
  have fin : ∀ body, brun qHeld body = some qHeld → brun qHeld (body ++ [BEv.endMut .queue]) = some {} := by
    intro body hb; rw [brun_append _ _ _ _ hb]; decide
  have lim : brun qHeld (limitTrace false p overLimit found) = some qHeld := by
    cases p <;> cases overLimit <;> cases found <;> decide
  simp only [decide_eq_true_eq]
  apply fin
  cases hasMem
  · simpa using lim
  · cases oversize
    · simp only [Bool.true_and, Bool.false_eq_true, if_false, if_true, Bool.and_false]
      have h1 : brun qHeld (shrR .store) = some qHeld := by decide
      rw [List.append_assoc, brun_append _ _ _ _ h1, brun_append _ _ _ _ (memLoop_borrows_ok p n)]
      exact lim
    · simp only [Bool.true_and, if_true, Bool.and_true, List.append_nil]
      decide

/-- (c) Regression witness of the repaired defect: BEFORE the fix, a thread-local LFU / ARC / TLRU store
    that overflows re-borrowed the order queue (`BorrowMutError`) — the trace is rejected. -/
theorem legacy_lfu_overflow_panics : traceOk (insertTrace true .lfu true true) = false := by decide
theorem legacy_arc_overflow_panics : traceOk (insertTrace true .arc true true) = false := by decide
theorem legacy_tlru_memory_panics : traceOk (insertMemTrace true .tlru true false 1 false false) = false := by decide

/-- Every model operation returns (the model is total) and keeps the bookkeeping invariant that the
    guards above rely on; in particular a store into a full cache always finds a victim
    (`Evicted.length_of_nonempty`), for all flavours and policies. -/
theorem step_total_and_consistent (cfg : Cfg) (tl : Tlru S) (size : V → Nat) (rs : List Nat)
    (ops : List (Op K V × List Nat)) :
    Inv (run cfg tl size (State.init : State K V) ops).1 :=
  run_inv cfg tl size _ ops inv_init

/-- A non-empty consistent cache always yields a victim under every policy (no policy "finds nothing"
    and silently lets the cache grow, and the Random arm never indexes out of range). -/
theorem eviction_always_finds_victim (cfg : Cfg) (tl : Tlru S) (now r : Nat) (m : Store K V) (q : List K)
    (h : InvMQ m q) (hq : q ≠ []) :
    (evictLimit cfg tl now r m q).2.2 = true ∧ (evictMem cfg tl now r m q).2.2 = true :=
  ⟨(Evicted.length_of_nonempty h (evictLimit_spec h cfg tl now r) hq).2,
   (Evicted.length_of_nonempty h (evictMem_spec h cfg tl now r) hq).2⟩

/-! Non-vacuity: the post-fix overflow traces are accepted, the same branch outcome on the legacy code
    is rejected. -/
example : traceOk (insertTrace false .lfu true true) = true := by decide
example : traceOk (insertMemTrace false .arc true false 2 true true) = true := by decide

end Cachelito.C16
