/-
  Cachelito.Source.Mem — the memory estimator ASSEMBLED FROM THE TRANSLATED SOURCE.

  `Generated/PureMem.lean` holds one Lean function per `impl MemoryEstimator for T` of the current source (regenerated
  by `checklib/rust2lean.py` on every check).  Rust's trait resolution — which impl a value of which type uses — is
  transcribed here by hand: `srcEstimate L s` evaluates, for the shape `s`, the impl of its type on the observations
  of its sub-values (their own `srcEstimate` and `size_of_val`).  `Props/T01.lean` proves it equal to the hand-written
  `MemEst.estimateChecked`, on which all of C05a / C16's estimator theorems rest.
-/
import Cachelito.MemEst
import Cachelito.Generated.PureMem

namespace Cachelito.Source.Mem
open Cachelito Cachelito.MemEst Cachelito.RustLite Cachelito.Generated

mutual
/-- `v.estimate_memory()` as the CURRENT source computes it; `none` = an unchecked subtraction underflows -/
def srcEstimate (L : Layout) : Shape → Option Nat
  | .prim i => Mem.estDefault i
  | .user _ e => some e
  | .str cap => Mem.estString L.str cap
  | .strRef len => Mem.estStrRef L.fatRef len
  | .sliceRef xs => do let subs ← srcSubs L xs; Mem.estSliceRef L.fatRef subs
  | .vec ei cap xs => do let subs ← srcSubs L xs; Mem.estVec L.vec ei cap subs
  | .opt i none => Mem.estOption i none
  | .opt i (some v) => do let e ← srcEstimate L v; Mem.estOption i (some ⟨e, inline L v⟩)
  | .res i true v => do let e ← srcEstimate L v; Mem.estResult i (.ok ⟨e, inline L v⟩)
  | .res i false v => do let e ← srcEstimate L v; Mem.estResult i (.error ⟨e, inline L v⟩)
  | .tup2 i a b => do
      let ea ← srcEstimate L a; let eb ← srcEstimate L b
      Mem.estTuple2 i ⟨ea, inline L a⟩ ⟨eb, inline L b⟩
  | .tup3 i a b c => do
      let ea ← srcEstimate L a; let eb ← srcEstimate L b; let ec ← srcEstimate L c
      Mem.estTuple3 i ⟨ea, inline L a⟩ ⟨eb, inline L b⟩ ⟨ec, inline L c⟩
  | .box v => do let e ← srcEstimate L v; Mem.estBox L.ptr ⟨e, inline L v⟩
  | .arc v => do let e ← srcEstimate L v; Mem.estArc L.ptr ⟨e, inline L v⟩
  | .rc v => do let e ← srcEstimate L v; Mem.estRc L.ptr ⟨e, inline L v⟩
  | .entry i v => do let e ← srcEstimate L v; Mem.estCacheEntry i ⟨e, inline L v⟩
/-- the observations of a list of elements -/
def srcSubs (L : Layout) : List Shape → Option (List Sub)
  | [] => some []
  | x :: xs => do let e ← srcEstimate L x; let r ← srcSubs L xs; pure (⟨e, inline L x⟩ :: r)
end

end Cachelito.Source.Mem
