/-
  Line-protocol driver (compiled as `lean_exe driver`; imports only the Mathlib-free model).
  usage: driver core < lines
  Prints one line per disagreement (`DIFF …`), per false monitor (`MON <id> …`) and per malformed
  line (`BAD …`), then `SUMMARY …`.
-/
import Cachelito.Monitors
import Cachelito.MacroDriver
import Cachelito.MemDriver
import Cachelito.ConcDriver
import Cachelito.CDataDriver
import Cachelito.KeysDriver
import Cachelito.AttrsDriver
import Cachelito.RegDriver
import Cachelito.StatsDriver

open Cachelito Cachelito.Driver Cachelito.Monitors

structure Tally where
  lines : Nat := 0
  ok : Nat := 0
  diffs : Nat := 0
  bad : Nat := 0
  mon : Nat := 0
  tries : Nat := 0
  episode : Nat := 0
  stepInEp : Nat := 0
  ghost : Ghost := {}

def handleCore (line : String) (acc : Tally) : IO Tally := do
  match line.splitOn "|" with
  | ["S", cfgS, preS, opS, outS, postS] =>
    let acc := { acc with lines := acc.lines + 1, stepInEp := acc.stepInEp + 1 }
    match parseCfg cfgS with
    | none => IO.println s!"BAD cfg {line}"; pure { acc with bad := acc.bad + 1 }
    | some (cfg, fw) =>
      match parseState cfg preS, parseOp opS, parseOut outS, parseState cfg postS with
      | some pre, some op, some out, some post =>
        let implPost := renderState cfg post
        let implOut := renderImplOut out
        let r := runStep cfg fw pre op implOut implPost
        let o : Obs := ⟨cfg, fw, pre, op, out, post⟩
        let mut monFails := 0
        for (id, m) in allMonitors do
          for msg in m acc.ghost o do
            IO.println s!"MON {id} episode={acc.episode} step={acc.stepInEp} cfg=[{cfgS}] op=[{opS}] :: {msg}"
            monFails := monFails + 1
        let acc := { acc with ghost := acc.ghost.advance o, mon := acc.mon + monFails, tries := acc.tries + r.tries }
        if r.ok then
          pure { acc with ok := acc.ok + 1 }
        else
          IO.println s!"DIFF episode={acc.episode} step={acc.stepInEp} cfg=[{cfgS}] op=[{opS}] pre=[{preS}] implOut=[{implOut}] modelOut=[{r.modelOut}] implPost=[{implPost}] modelPost=[{r.modelPost}]"
          pure { acc with diffs := acc.diffs + 1 }
      | _, _, _, _ =>
        IO.println s!"BAD parse {line}"
        pure { acc with bad := acc.bad + 1 }
  | "E" :: _ =>
    pure { acc with episode := acc.episode + 1, stepInEp := 0, ghost := {} }
  | _ =>
    if line.startsWith "#" then pure acc
    else
      IO.println s!"BAD shape {line}"
      pure { acc with lines := acc.lines + 1, bad := acc.bad + 1 }

partial def loop (h : IO.FS.Stream) (f : String → Tally → IO Tally) (acc : Tally) : IO Tally := do
  let line ← h.getLine
  if line.isEmpty then return acc
  let line := line.trimAsciiEnd.toString
  if line.isEmpty then loop h f acc
  else
    let acc ← f line acc
    loop h f acc

/-- modes whose handler maps one line to "ok" or to findings joined by " ;; " (DIFF … / MON … / BAD …) -/
partial def simpleMode (stdin : IO.FS.Stream) (h : String → String) : IO UInt32 := do
  let rec go (lines ok diffs mons bad : Nat) : IO (Nat × Nat × Nat × Nat × Nat) := do
    let line ← stdin.getLine
    if line.isEmpty then return (lines, ok, diffs, mons, bad)
    let line := line.trimAsciiEnd.toString
    if line.isEmpty || line.startsWith "#" then go lines ok diffs mons bad
    else
      let r := h line
      if r = "ok" then go (lines + 1) (ok + 1) diffs mons bad
      else
        IO.println r
        if r.startsWith "DIFF" then go (lines + 1) ok (diffs + 1) mons bad
        else if r.startsWith "MON" then go (lines + 1) ok diffs (mons + 1) bad
        else go (lines + 1) ok diffs mons (bad + 1)
  let (lines, ok, diffs, mons, bad) ← go 0 0 0 0 0
  IO.println s!"SUMMARY lines={lines} ok={ok} diffs={diffs} bad={bad} monitor_failures={mons} model_runs={lines}"
  pure (if diffs = 0 && bad = 0 && mons = 0 then 0 else 1)

partial def main (args : List String) : IO UInt32 := do
  let stdin ← IO.getStdin
  match args with
  | ["core"] =>
    let acc ← loop stdin handleCore {}
    IO.println s!"SUMMARY lines={acc.lines} ok={acc.ok} diffs={acc.diffs} bad={acc.bad} monitor_failures={acc.mon} model_runs={acc.tries} episodes={acc.episode}"
    pure (if acc.diffs = 0 && acc.bad = 0 && acc.mon = 0 then 0 else 1)
  | ["macro"] =>
    let rec go (ctx : MacroDriver.Ctx) : IO MacroDriver.Ctx := do
      let line ← stdin.getLine
      if line.isEmpty then return ctx
      let line := line.trimAsciiEnd.toString
      if line.isEmpty then go ctx
      else
        let (ctx', msgs) := MacroDriver.handleLine line ctx
        for m in msgs do IO.println m
        go ctx'
    let ctx ← go {}
    IO.println s!"SUMMARY lines={ctx.lines} ok={ctx.ok} diffs={ctx.diffs} bad={ctx.bad} model_runs={ctx.tries} episodes={ctx.episode}"
    pure (if ctx.diffs = 0 && ctx.bad = 0 then 0 else 1)
  | ["mem"] => simpleMode stdin Cachelito.MemDriver.handleMemLine
  | ["conc"] => simpleMode stdin Cachelito.ConcDriver.handleConcLine
  | ["cdata"] => simpleMode stdin Cachelito.CDataDriver.handleCDataLine
  | ["keys"] => simpleMode stdin Cachelito.KeysDriver.handleKeysLine
  | ["attrs"] => simpleMode stdin Cachelito.AttrsDriver.handleAttrsLine
  | ["reg"] => simpleMode stdin Cachelito.RegDriver.handleRegLine
  | ["stats"] => simpleMode stdin Cachelito.StatsDriver.handleStatsLine
  | _ =>
    IO.eprintln "usage: driver core|macro|mem|conc|cdata|keys|attrs|reg < lines"
    pure 2
