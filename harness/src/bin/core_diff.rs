//! L1 correspondence stream: drives the REAL `GlobalCache`, `ThreadLocalCache` and
//! `AsyncGlobalCache` over harness-owned stores and prints, for every operation, the
//! implementation's pre-state, the operation, its result and the post-state (line protocol of
//! `lean/Cachelito/Cachelito/Driver.lean`).
//!
//!   core_diff gen <seed> <episodes> <min_ops> <max_ops> [flavour=..] [policy=..]   -> episode file on stdout
//!   core_diff enum <flavour> <policy> <limit> <depth>                             -> exhaustive small-scope episodes
//!   core_diff run <episode-file>                                                  -> S lines on stdout
//!
//! Virtual time: before each operation every entry is re-stamped (`inserted_at = now - age`, async
//! `timestamp = now_s - age_s`); afterwards ages are read back.  Sync ages are multiples of 100 ms,
//! so a scheduling jitter below 100 ms cannot move an age across a whole-second boundary.

use cachelito_core::{
    AsyncGlobalCache, CacheEntry, CacheStats, EvictionPolicy, GlobalCache, MemoryEstimator,
    ThreadLocalCache,
};
use dashmap::DashMap;
use once_cell::sync::Lazy;
use parking_lot::{Mutex, RwLock};
use std::cell::RefCell;
use std::collections::{BTreeMap, HashMap, VecDeque};
use std::io::{BufRead, Write};
use std::panic::{catch_unwind, AssertUnwindSafe};
use std::time::{Duration, Instant, SystemTime, UNIX_EPOCH};
use verif_harness::{opt_str, panic_msg, Rng};

/// watchdog: an engine operation that never returns (an eviction loop that stops making progress, a lock taken
/// twice) would hang the harness; the run mode reports it (`HANG …` on stderr, exit code 3) instead
static PROGRESS: std::sync::atomic::AtomicU64 = std::sync::atomic::AtomicU64::new(0);
static EPISODE_NO: std::sync::atomic::AtomicU64 = std::sync::atomic::AtomicU64::new(0);
static CURRENT: Lazy<std::sync::Mutex<String>> = Lazy::new(|| std::sync::Mutex::new(String::new()));

#[derive(Clone, Copy, PartialEq, Debug)]
enum Flavour {
    Global,
    Thread,
    Async,
}

#[derive(Clone, Debug)]
struct Cfg {
    flavour: Flavour,
    policy: String,
    limit: Option<usize>,
    max_mem: Option<usize>,
    ttl: Option<u64>,
    fw: Option<f64>,
}

impl Cfg {
    fn render(&self) -> String {
        let f = match self.flavour {
            Flavour::Global => "global",
            Flavour::Thread => "thread",
            Flavour::Async => "async",
        };
        format!(
            "{} {} {} {} {} {}",
            f,
            self.policy,
            opt_str(&self.limit),
            opt_str(&self.max_mem),
            opt_str(&self.ttl),
            opt_str(&self.fw.map(|w| w.to_bits()))
        )
    }
    fn parse(s: &str) -> Cfg {
        let p: Vec<&str> = s.split(' ').collect();
        assert!(p.len() == 6, "bad cfg {s}");
        let o = |x: &str| if x == "-" { None } else { Some(x.parse::<u64>().unwrap()) };
        Cfg {
            flavour: match p[0] {
                "global" => Flavour::Global,
                "thread" => Flavour::Thread,
                "async" => Flavour::Async,
                _ => panic!("bad flavour"),
            },
            policy: p[1].to_string(),
            limit: o(p[2]).map(|x| x as usize),
            max_mem: o(p[3]).map(|x| x as usize),
            ttl: o(p[4]),
            fw: o(p[5]).map(f64::from_bits),
        }
    }
}

#[derive(Clone, Debug)]
enum Op {
    Get(String),
    Ins(String, u32, usize),
    InsM(String, u32, usize),
    Clear,
    Tick(u64),
}

impl Op {
    fn render_plain(&self) -> String {
        match self {
            Op::Get(k) => format!("get {k}"),
            Op::Ins(k, id, len) => format!("ins {k} {id} {len}"),
            Op::InsM(k, id, len) => format!("insm {k} {id} {len}"),
            Op::Clear => "clear".to_string(),
            Op::Tick(ms) => format!("tick {ms}"),
        }
    }
    fn parse(s: &str) -> Op {
        let p: Vec<&str> = s.split(' ').collect();
        match p[0] {
            "get" => Op::Get(p[1].to_string()),
            "ins" => Op::Ins(p[1].to_string(), p[2].parse().unwrap(), p[3].parse().unwrap()),
            "insm" => Op::InsM(p[1].to_string(), p[2].parse().unwrap(), p[3].parse().unwrap()),
            "clear" => Op::Clear,
            "tick" => Op::Tick(p[1].parse().unwrap()),
            _ => panic!("bad op {s}"),
        }
    }
}

fn mk_value(id: u32, len: usize) -> String {
    let head = format!("v{id}");
    let len = len.max(head.len());
    let mut s = String::with_capacity(len);
    s.push_str(&head);
    while s.len() < len {
        s.push('.');
    }
    s.shrink_to_fit();
    s
}

fn vid(s: &str) -> String {
    s.trim_end_matches('.').to_string()
}

fn render_val(s: &String) -> String {
    format!("{},{}", vid(s), s.estimate_memory())
}

// ---------------------------------------------------------------------------------------------
// harness-owned stores

static G_MAP: Lazy<RwLock<HashMap<String, CacheEntry<String>>>> =
    Lazy::new(|| RwLock::new(HashMap::new()));
static G_ORDER: Lazy<Mutex<VecDeque<String>>> = Lazy::new(|| Mutex::new(VecDeque::new()));
static G_STATS: Lazy<CacheStats> = Lazy::new(CacheStats::new);

thread_local! {
    static T_MAP: RefCell<HashMap<String, CacheEntry<String>>> = RefCell::new(HashMap::new());
    static T_ORDER: RefCell<VecDeque<String>> = RefCell::new(VecDeque::new());
}

fn policy_of(s: &str) -> EvictionPolicy {
    EvictionPolicy::from(s)
}

struct Dump {
    entries: BTreeMap<String, (String, usize, u64, u64)>, // key -> (vid, size, age_ms, hits)
    queue: Vec<String>,
    hits: u64,
    misses: u64,
}

impl Dump {
    fn render(&self) -> String {
        let es: Vec<String> = self
            .entries
            .iter()
            .map(|(k, (v, sz, age, h))| format!("{k}={v},{sz},{age},{h}"))
            .collect();
        format!("{}#{}#{},{}", es.join(";"), self.queue.join(","), self.hits, self.misses)
    }
}

enum Engine<'a> {
    Global(GlobalCache<String>),
    Thread(ThreadLocalCache<String>),
    Async(
        AsyncGlobalCache<'a, String>,
        &'a DashMap<String, (String, u64, u64)>,
        &'a Mutex<VecDeque<String>>,
        &'a CacheStats,
    ),
}

impl<'a> Engine<'a> {
    fn reset(&self) {
        match self {
            Engine::Global(_) => {
                G_MAP.write().clear();
                G_ORDER.lock().clear();
                G_STATS.reset();
            }
            Engine::Thread(_) => {
                T_MAP.with(|m| m.borrow_mut().clear());
                T_ORDER.with(|o| o.borrow_mut().clear());
            }
            Engine::Async(_, m, o, s) => {
                m.clear();
                o.lock().clear();
                s.reset();
            }
        }
    }

    /// re-stamp every entry to its virtual age; returns the reference instant / second used
    fn restamp(&self, ages: &HashMap<String, u64>) -> (Instant, u64) {
        let t0 = Instant::now();
        let now_s = SystemTime::now().duration_since(UNIX_EPOCH).unwrap().as_secs();
        match self {
            Engine::Global(_) => {
                for (k, e) in G_MAP.write().iter_mut() {
                    let age = *ages.get(k).unwrap_or(&0);
                    e.inserted_at = t0.checked_sub(Duration::from_millis(age)).expect("uptime too small");
                }
            }
            Engine::Thread(_) => T_MAP.with(|m| {
                for (k, e) in m.borrow_mut().iter_mut() {
                    let age = *ages.get(k).unwrap_or(&0);
                    e.inserted_at = t0.checked_sub(Duration::from_millis(age)).expect("uptime too small");
                }
            }),
            Engine::Async(_, m, _, _) => {
                for mut e in m.iter_mut() {
                    let age = *ages.get(e.key()).unwrap_or(&0);
                    e.value_mut().1 = now_s - age / 1000;
                }
            }
        }
        (t0, now_s)
    }

    /// read the implementation's state; ages relative to the restamp reference
    fn dump(&self, t0: Instant, now_s: u64) -> Dump {
        let mut entries = BTreeMap::new();
        let age_of = |ins: Instant| -> u64 {
            if ins >= t0 {
                0
            } else {
                let d = t0.duration_since(ins);
                // exact by construction (t0 - age_ms); round to be safe against ns truncation
                ((d.as_micros() + 500) / 1000) as u64
            }
        };
        let (queue, hits, misses);
        match self {
            Engine::Global(c) => {
                for (k, e) in G_MAP.read().iter() {
                    entries.insert(
                        k.clone(),
                        (vid(&e.value), e.value.estimate_memory(), age_of(e.inserted_at), e.frequency),
                    );
                }
                queue = G_ORDER.lock().iter().cloned().collect();
                hits = c.stats().hits();
                misses = c.stats().misses();
            }
            Engine::Thread(c) => {
                T_MAP.with(|m| {
                    for (k, e) in m.borrow().iter() {
                        entries.insert(
                            k.clone(),
                            (vid(&e.value), e.value.estimate_memory(), age_of(e.inserted_at), e.frequency),
                        );
                    }
                });
                queue = T_ORDER.with(|o| o.borrow().iter().cloned().collect());
                hits = c.stats().hits();
                misses = c.stats().misses();
            }
            Engine::Async(_, m, o, s) => {
                for e in m.iter() {
                    let (v, ts, f) = e.value();
                    entries.insert(
                        e.key().clone(),
                        (vid(v), v.estimate_memory(), now_s.saturating_sub(*ts) * 1000, *f),
                    );
                }
                queue = o.lock().iter().cloned().collect();
                hits = s.hits();
                misses = s.misses();
            }
        }
        Dump { entries, queue, hits, misses }
    }

    /// push `key` into the order queue at a pseudo-random position if it is neither stored nor queued
    fn inject_orphan(&self, key: &str, pos_seed: u64) {
        let ins = |q: &mut VecDeque<String>, stored: bool| {
            if !stored && !q.iter().any(|k| k == key) {
                let pos = (pos_seed as usize) % (q.len() + 1);
                q.insert(pos, key.to_string());
            }
        };
        match self {
            Engine::Global(_) => {
                let stored = G_MAP.read().contains_key(key);
                ins(&mut G_ORDER.lock(), stored);
            }
            Engine::Thread(_) => {
                let stored = T_MAP.with(|m| m.borrow().contains_key(key));
                T_ORDER.with(|o| ins(&mut o.borrow_mut(), stored));
            }
            Engine::Async(_, m, o, _) => {
                let stored = m.contains_key(key);
                ins(&mut o.lock(), stored);
            }
        }
    }

    fn apply(&self, op: &Op) -> String {
        match op {
            Op::Get(k) => {
                let r = match self {
                    Engine::Global(c) => c.get(k),
                    Engine::Thread(c) => c.get(k),
                    Engine::Async(c, ..) => c.get(k),
                };
                match r {
                    Some(v) => format!("some {}", render_val(&v)),
                    None => "none".to_string(),
                }
            }
            Op::Ins(k, id, len) => {
                let v = mk_value(*id, *len);
                match self {
                    Engine::Global(c) => c.insert(k, v),
                    Engine::Thread(c) => c.insert(k, v),
                    Engine::Async(c, ..) => c.insert(k, v),
                }
                "unit".to_string()
            }
            Op::InsM(k, id, len) => {
                let v = mk_value(*id, *len);
                match self {
                    Engine::Global(c) => c.insert_with_memory(k, v),
                    Engine::Thread(c) => c.insert_with_memory(k, v),
                    Engine::Async(c, ..) => c.insert_with_memory(k, v),
                }
                "unit".to_string()
            }
            Op::Clear => {
                match self {
                    Engine::Global(c) => c.clear(),
                    _ => panic!("clear is only part of GlobalCache's API"),
                }
                "unit".to_string()
            }
            Op::Tick(_) => unreachable!(),
        }
    }
}

fn render_op(op: &Op) -> String {
    match op {
        Op::Ins(k, id, len) => {
            let v = mk_value(*id, *len);
            format!("ins {k} {}", render_val(&v).replace(',', " "))
        }
        Op::InsM(k, id, len) => {
            let v = mk_value(*id, *len);
            format!("insm {k} {}", render_val(&v).replace(',', " "))
        }
        o => o.render_plain(),
    }
}

fn wait_for_safe_subsecond() {
    loop {
        let d = SystemTime::now().duration_since(UNIX_EPOCH).unwrap();
        if d.subsec_millis() > 940 {
            std::thread::sleep(Duration::from_millis(70));
        } else {
            break;
        }
    }
}

fn run_episode(cfg: &Cfg, fr_seed: u64, ops: &[Op], out: &mut impl Write) {
    // every other episode (by its seed) gets orphan injection
    let orphans = fr_seed % 2 == 1;
    let a_map: DashMap<String, (String, u64, u64)> = DashMap::new();
    let a_order: Mutex<VecDeque<String>> = Mutex::new(VecDeque::new());
    let a_stats = CacheStats::new();
    let pol = policy_of(&cfg.policy);
    let eng = match cfg.flavour {
        Flavour::Global => Engine::Global(GlobalCache::new(
            &G_MAP, &G_ORDER, cfg.limit, cfg.max_mem, pol, cfg.ttl, cfg.fw, &G_STATS,
        )),
        Flavour::Thread => Engine::Thread(ThreadLocalCache::new(
            &T_MAP, &T_ORDER, cfg.limit, cfg.max_mem, pol, cfg.ttl, cfg.fw,
        )),
        Flavour::Async => Engine::Async(
            AsyncGlobalCache::new(&a_map, &a_order, cfg.limit, cfg.max_mem, pol, cfg.ttl, cfg.fw, &a_stats),
            &a_map,
            &a_order,
            &a_stats,
        ),
    };
    eng.reset();
    let cfg_s = cfg.render();
    writeln!(out, "E|{}|{}", cfg_s, fr_seed).unwrap();
    let episode_no = EPISODE_NO.fetch_add(1, std::sync::atomic::Ordering::SeqCst) + 1;
    let mut ages: HashMap<String, u64> = HashMap::new();
    let mut frs = Rng::new(fr_seed);
    for (step_no, op) in ops.iter().enumerate() {
        *CURRENT.lock().unwrap() = format!("episode={} step={} cfg=[{}] op=[{}]", episode_no, step_no + 1, cfg_s, render_op(op));
        PROGRESS.fetch_add(1, std::sync::atomic::Ordering::SeqCst);
        if let Op::Tick(ms) = op {
            let (t0, now_s) = eng.restamp(&ages);
            let pre = eng.dump(t0, now_s).render();
            for (_, a) in ages.iter_mut() {
                *a += ms;
            }
            let (t0, now_s) = eng.restamp(&ages);
            let post = eng.dump(t0, now_s).render();
            writeln!(out, "S|{}|{}|tick {}|unit|{}", cfg_s, pre, ms, post).unwrap();
            continue;
        }
        if cfg.flavour == Flavour::Async {
            wait_for_safe_subsecond();
        }
        fastrand::seed(frs.next());
        // Orphan queue keys (queued but not stored) are legal states of the real caches — concurrent use
        // produces them and the code tolerates them (`popStored` skips them, the scans ignore them).  Sequential
        // histories never create one, so the harness injects some: the per-step comparison starts from the
        // dumped pre-state, so no model operation is needed for the injection itself.
        if orphans && frs.below(12) == 0 {
            let key = format!("k{}", frs.below(6));
            let pos_seed = frs.next();
            eng.inject_orphan(&key, pos_seed);
        }
        let (t0, now_s) = eng.restamp(&ages);
        let pre = eng.dump(t0, now_s).render();
        let res = catch_unwind(AssertUnwindSafe(|| eng.apply(op)));
        let now_s2 = SystemTime::now().duration_since(UNIX_EPOCH).unwrap().as_secs();
        let jitter = t0.elapsed();
        if now_s2 != now_s && cfg.flavour == Flavour::Async || jitter > Duration::from_millis(90) {
            // a whole-second boundary (async) or a long descheduling fell into the operation:
            // ages are no longer trustworthy — drop the rest of this episode
            writeln!(out, "#ABORT episode: clock boundary crossed").unwrap();
            return;
        }
        let outs = match res {
            Ok(s) => s,
            Err(e) => format!("panic {}", panic_msg(e)),
        };
        let post_d = eng.dump(t0, now_s);
        ages.clear();
        for (k, (_, _, age, _)) in post_d.entries.iter() {
            ages.insert(k.clone(), *age);
        }
        writeln!(out, "S|{}|{}|{}|{}|{}", cfg_s, pre, render_op(op), outs, post_d.render()).unwrap();
        if outs.starts_with("panic") {
            // state after a panic is unspecified (RefCell borrows are released by unwinding, but the
            // operation stopped half-way): end the episode
            return;
        }
    }
}

// ---------------------------------------------------------------------------------------------
// generation

const POLICIES: [&str; 6] = ["fifo", "lru", "lfu", "arc", "random", "tlru"];
const FWS: [Option<f64>; 6] = [None, Some(0.1), Some(0.3), Some(1.0), Some(1.5), Some(3.0)];

fn gen_cfg(rng: &mut Rng, idx: usize, only_flavour: Option<Flavour>, only_policy: Option<&str>, crowd: bool) -> Cfg {
    let flavours = [Flavour::Global, Flavour::Thread, Flavour::Async];
    let flavour = only_flavour.unwrap_or(flavours[idx % 3]);
    let policy = only_policy.unwrap_or(POLICIES[(idx / 3) % 6]).to_string();
    if crowd {
        // "crowd" shape: a memory bound that holds five to eight small residents, no (or a loose) entry limit: one large
        // newcomer displaces SEVERAL residents in one store
        let max_mem = Some([200usize, 260, 320][rng.below(3) as usize]);
        let limit = if rng.chance(1, 3) { Some(5 + rng.below(3) as usize) } else { None };
        let ttl = if rng.chance(1, 3) { Some(2 + rng.below(2)) } else { None };
        let fw = if policy == "tlru" { *rng.pick(&FWS) } else { None };
        return Cfg { flavour, policy, limit, max_mem, ttl, fw };
    }
    // 0: limit only, 1: mem only, 2: both, 3: neither
    let shape = match rng.below(10) {
        0..=4 => 0,
        5..=6 => 1,
        7..=8 => 2,
        _ => 3,
    };
    let limit = if shape == 0 || shape == 2 { Some(1 + rng.below(4) as usize) } else { None };
    let max_mem = if shape == 1 || shape == 2 { Some([60usize, 90, 120, 150, 240][rng.below(5) as usize]) } else { None };
    // ttl = 0 is a valid attribute value (every entry is expired at once; the TLRU age factor divides by it): one in eight
    let ttl = if rng.chance(1, 2) { Some(if rng.chance(1, 8) { 0 } else { 1 + rng.below(3) }) } else { None };
    let fw = if policy == "tlru" { *rng.pick(&FWS) } else { None };
    Cfg { flavour, policy, limit, max_mem, ttl, fw }
}

fn gen_ops(rng: &mut Rng, cfg: &Cfg, n: usize, next_id: &mut u32, crowd: bool) -> Vec<Op> {
    let nkeys = if crowd { 8 } else { cfg.limit.map(|l| l + 2).unwrap_or(4) };
    let keys: Vec<String> = (0..nkeys).map(|i| format!("k{i}")).collect();
    let mut ops = Vec::new();
    let mut clock: u64 = 0; // total virtual time, capped so that ages stay below the uptime
    let mut recent: Vec<String> = Vec::new(); // recently stored keys: lookups are biased towards them (hits)
    for _ in 0..n {
        let k = rng.pick(&keys).clone();
        let c = rng.below(100);
        if c < 40 {
            let k = if !recent.is_empty() && rng.chance(3, 4) { rng.pick(&recent).clone() } else { k };
            // bursts of lookups of one key: unequal hit counters, so that the scored policies (LFU / ARC / TLRU) rank
            // residents differently from their recency order (several victims of one store must each be the minimum)
            if rng.chance(1, 4) {
                for _ in 0..(1 + rng.below(5)) {
                    ops.push(Op::Get(k.clone()));
                }
            }
            ops.push(Op::Get(k));
        } else if c < 82 {
            *next_id += 1;
            let mem_path = match cfg.max_mem {
                Some(_) => !rng.chance(1, 10),
                None => rng.chance(1, 10),
            };
            let len = match cfg.max_mem {
                Some(m) if crowd => {
                    // mostly small values; every fifth store a large one (a third to all of the bound)
                    match rng.below(5) {
                        0 => m / 3 + rng.below((m as u64 * 2 / 3).saturating_sub(24).max(1)) as usize,
                        _ => 4 + rng.below(8) as usize,
                    }
                }
                Some(m) => {
                    // sizes around the bound: small, medium, exact fit, oversize
                    match rng.below(10) {
                        0 => m.saturating_sub(24),          // exactly max_memory
                        1 => m.saturating_sub(24) + 1,      // one byte too large
                        2 => m,                             // clearly oversize
                        3 | 4 => 4 + rng.below(8) as usize,  // small: several residents fit, a large newcomer displaces more than one
                        5 => (m / 2).saturating_sub(12),     // about half the bound
                        _ => 4 + rng.below((m as u64).saturating_sub(24).max(8) / 2) as usize,
                    }
                }
                None => 4 + rng.below(20) as usize,
            };
            recent.retain(|x| *x != k);
            recent.push(k.clone());
            if recent.len() > 3 {
                recent.remove(0);
            }
            if mem_path {
                ops.push(Op::InsM(k, *next_id, len));
            } else {
                ops.push(Op::Ins(k, *next_id, len));
            }
        } else if c < 97 {
            if clock > 40_000 {
                continue;
            }
            let ms = if cfg.flavour == Flavour::Async {
                1000 * (1 + rng.below(3))
            } else {
                match cfg.ttl {
                    Some(t) if t > 0 && rng.chance(1, 2) => {
                        // around the boundary: T-0.1s, T, T+0.1s, T-1s, T+1s
                        let b = t * 1000;
                        *rng.pick(&[b - 100, b, b + 100, b - 1000 + 100, b + 1000, 900, 100])
                    }
                    _ => *rng.pick(&[100, 400, 500, 900, 1000, 1100, 2000]),
                }
            };
            if ms > 0 {
                clock += ms;
                ops.push(Op::Tick(ms));
            }
        } else if cfg.flavour == Flavour::Global {
            ops.push(Op::Clear);
        }
    }
    ops
}

fn write_episode(out: &mut impl Write, cfg: &Cfg, fr_seed: u64, ops: &[Op]) {
    writeln!(out, "E {} {}", cfg.render().replace(' ', ","), fr_seed).unwrap();
    for op in ops {
        writeln!(out, "{}", op.render_plain()).unwrap();
    }
}

fn enumerate(flavour: Flavour, policy: &str, limit: usize, depth: usize, out: &mut impl Write) {
    // alphabet: get k for 3 keys, ins k (fresh id) for 3 keys, tick 1000 (with ttl = 1)
    let cfg = Cfg { flavour, policy: policy.to_string(), limit: Some(limit), max_mem: None, ttl: Some(2), fw: None };
    let keys = ["k0", "k1", "k2"];
    let mut alphabet: Vec<Op> = Vec::new();
    for k in keys {
        alphabet.push(Op::Get(k.to_string()));
        alphabet.push(Op::Ins(k.to_string(), 0, 6));
    }
    alphabet.push(Op::Tick(1000));
    let n = alphabet.len();
    let total = n.pow(depth as u32);
    for code in 0..total {
        let mut c = code;
        let mut ops = Vec::new();
        let mut id = 0;
        for _ in 0..depth {
            let mut op = alphabet[c % n].clone();
            c /= n;
            if let Op::Ins(_, ref mut i, _) = op {
                id += 1;
                *i = id;
            }
            ops.push(op);
        }
        // canonical: must start with an insert (a history starting with get/tick on an empty cache is a
        // suffix-extension of a shorter one)
        if !matches!(ops[0], Op::Ins(..)) {
            continue;
        }
        write_episode(out, &cfg, code as u64, &ops);
    }
}

fn main() {
    let args: Vec<String> = std::env::args().collect();
    let stdout = std::io::stdout();
    let mut out = std::io::BufWriter::new(stdout.lock());
    match args.get(1).map(|s| s.as_str()) {
        Some("gen") => {
            let seed: u64 = args[2].parse().unwrap();
            let episodes: usize = args[3].parse().unwrap();
            let min_ops: usize = args[4].parse().unwrap();
            let max_ops: usize = args[5].parse().unwrap();
            let mut only_flavour = None;
            let mut only_policy: Option<String> = None;
            let crowd = args[6..].iter().any(|a| a == "shape=crowd");
            for a in &args[6..] {
                if let Some(f) = a.strip_prefix("flavour=") {
                    only_flavour = Some(match f {
                        "global" => Flavour::Global,
                        "thread" => Flavour::Thread,
                        "async" => Flavour::Async,
                        _ => panic!("bad flavour"),
                    });
                }
                if let Some(p) = a.strip_prefix("policy=") {
                    only_policy = Some(p.to_string());
                }
            }
            let mut rng = Rng::new(seed);
            let mut next_id = 0u32;
            for i in 0..episodes {
                let cfg = gen_cfg(&mut rng, i, only_flavour, only_policy.as_deref(), crowd);
                let n = min_ops + rng.below((max_ops - min_ops + 1) as u64) as usize;
                let ops = gen_ops(&mut rng, &cfg, n, &mut next_id, crowd);
                let fr_seed = rng.next();
                write_episode(&mut out, &cfg, fr_seed, &ops);
            }
        }
        Some("enum") => {
            let flavour = match args[2].as_str() {
                "global" => Flavour::Global,
                "thread" => Flavour::Thread,
                "async" => Flavour::Async,
                _ => panic!("bad flavour"),
            };
            enumerate(flavour, &args[3], args[4].parse().unwrap(), args[5].parse().unwrap(), &mut out);
        }
        Some("run") => {
            std::panic::set_hook(Box::new(|_| {}));
            std::thread::spawn(|| {
                let mut last = PROGRESS.load(std::sync::atomic::Ordering::SeqCst);
                let mut since = Instant::now();
                loop {
                    std::thread::sleep(Duration::from_millis(250));
                    let now = PROGRESS.load(std::sync::atomic::Ordering::SeqCst);
                    if now != last {
                        last = now;
                        since = Instant::now();
                    } else if last > 0 && since.elapsed() > Duration::from_secs(10) {
                        eprintln!("HANG {}", CURRENT.lock().unwrap());
                        std::process::exit(3);
                    }
                }
            });
            let f = std::fs::File::open(&args[2]).expect("episode file");
            let mut cur: Option<(Cfg, u64)> = None;
            let mut ops: Vec<Op> = Vec::new();
            let mut flush = |cur: &Option<(Cfg, u64)>, ops: &Vec<Op>, out: &mut std::io::BufWriter<std::io::StdoutLock>| {
                if let Some((cfg, s)) = cur {
                    run_episode(cfg, *s, ops, out);
                }
            };
            for line in std::io::BufReader::new(f).lines() {
                let line = line.unwrap();
                let line = line.trim();
                if line.is_empty() || line.starts_with('#') {
                    continue;
                }
                if let Some(rest) = line.strip_prefix("E ") {
                    flush(&cur, &ops, &mut out);
                    ops.clear();
                    let p: Vec<&str> = rest.split(' ').collect();
                    cur = Some((Cfg::parse(&p[0].replace(',', " ")), p[1].parse().unwrap()));
                } else {
                    ops.push(Op::parse(line));
                }
            }
            flush(&cur, &ops, &mut out);
        }
        _ => {
            eprintln!("usage: core_diff gen|enum|run …");
            std::process::exit(2);
        }
    }
}
