/-
  Cachelito.ConcDataFine — the interleaving model of `Cachelito.ConcData` with the queue section of the
  sync `insert_with_memory` split into its real store-lock sections (core Lean only).

  `ConcData.contSync` executes the whole queue-mutex section of the sync `insert_with_memory`
  (`trackMemStep`) as ONE atomic micro-step.  In the real code (`global_cache.rs`, `insert_with_memory`)
  that section holds the queue mutex `O` throughout but takes the store lock `M` several times:

      [O acquired] erasePush k ;
      [M.r : size of the entry now stored under k]                                   (yield point 1017)
      oversize  ⇒ [M.w : remove k] ; pop_back ; return                               (1018)
      loop { [M.r : Σ sizes]                                                         (1019)
             fits ⇒ break
             [M.w : evict one entry by policy, store + queue]                        (1020–1024)
             nothing evicted ⇒ break }
      entry-limit step ([M.w] nested, `handle_entry_limit_eviction`)                 (1010–1014)
      [O released]

  BETWEEN two of these `M` sections other threads can run their store-only sections (`[M.w: put k' v']` =
  first micro-step of another sync `insert` / `insert_with_memory`, `[M.w: bumpHits]`, `[M.r]` lookups,
  lock-free `tick`s).  They cannot touch the queue, and they cannot start any section that needs `O`.

  This file removes the approximation.  A thread has the local states of `ConcData.Pend` (`FPend.base`)
  plus four new ones that are all INSIDE the `O` section:

      base (trackMem k v rs) ──enter──▶ oversize k v ──▶ done
                                   └──▶ loopRead k v rs ⇄ loopEvict k v rs ──▶ limit k v r ──▶ done

  * `enter`  = `[O acquire ; erasePush k ; M.r: entry size]`.  The queue-only prefix `erasePush k` is merged
    into the first `M` section: nobody else can observe the queue while `O` is held and the store-only
    sections of other threads commute with a queue-only action, so the prefix takes effect at the first
    nested `M` acquisition.
  * `oversize` = `[M.w: remove k] ; pop_back` (the `pop_back` is queue-only, merged likewise).
  * `loopRead` = `[M.r: Σ sizes]` and the comparison;  `loopEvict` = one `evictMem` (`[M.w]`; for Random the
    queue-only `o.remove(pos)` precedes it and is merged).  ONE loop iteration of `Cachelito.memLoop` = one
    `loopRead` + one `loopEvict`; the loop has no fuel here (the real loop has none; a micro-step is not
    recursive) — `fine_single_thread_eq` (Lemmas) shows that a thread running alone computes exactly
    `ConcData.trackMemStep`, i.e. `memLoop` with the fuel `|queue| + 1`.
  * `limit` = the entry-limit step.
  * with `max_memory = None` there is a single nested `M` section (the limit step): the coarse micro-step
    `contSync (.trackMem …)` is exact and is used unchanged.

  Every other operation, and the whole async engine, delegate to `ConcData.first` / `contSync` /
  `contAsync` unchanged (fixed code only, `legacy = false`).

  The queue mutex is modelled EXPLICITLY: `needsO` says which micro-steps run inside (or acquire) `O`
  (every continuation except `bump`; of the first steps: async insert / insertMem / clear, sync clear /
  conditional invalidation); `holdsO` says which local states are inside an `O` section that spans
  several micro-steps (the four new ones).  `cstepFine` refuses (returns `none`, the schedule entry is
  skipped by `crunFine`) a micro-step that needs `O` while ANOTHER thread holds it.  A thread that
  already holds `O` "needs" it trivially; that nobody else can hold it then is the theorem
  `holder_unique` (Lemmas).  The clock is read in the micro-step that uses it (TLRU ages), as in `ConcData`.
-/
import Cachelito.ConcData

namespace Cachelito.ConcDataFine
open Cachelito Cachelito.ConcData

variable {K V S : Type} [DecidableEq K]

/-- local state of a thread between two critical sections: a state of the coarse model, or one of the
    four states inside the queue section of the sync `insert_with_memory` -/
inductive FPend (K V : Type)
  /-- a local state of `ConcData` -/
  | base (p : Pend K V)
  /-- `O` held; the entry stored under `k` was larger than `max_memory`; next: `[M.w: remove k] ; pop_back` -/
  | oversize (k : K) (v : V)
  /-- `O` held; next: `[M.r: Σ sizes]`, compare with `max_memory` -/
  | loopRead (k : K) (v : V) (rs : List Nat)
  /-- `O` held; the last sum did not fit; next: `[M.w: evict one entry by policy]` -/
  | loopEvict (k : K) (v : V) (rs : List Nat)
  /-- `O` held; the memory loop is over; next: the entry-limit step with draw `r`, then release `O` -/
  | limit (k : K) (v : V) (r : Nat)

/-- result of one micro-step of the fine model -/
inductive FRes (K V : Type)
  | more (p : FPend K V)
  | fin (op : Op K V) (o : Out V)

def liftRes : Res K V → FRes K V
  | .more p => .more (.base p)
  | .fin op o => .fin op o

def liftStep (x : State K V × Res K V) : State K V × FRes K V := (x.1, liftRes x.2)

/-- the local state left by a micro-step -/
def resPend : FRes K V → Option (FPend K V)
  | .more p => some p
  | .fin _ _ => none

/-- the coarse local state a fine local state carries -/
def coarseOf : Option (FPend K V) → Option (Pend K V)
  | some (.base p) => some p
  | _ => none

/-- `some (k, v, rs, maxM)` when the next micro-step is the ENTRY of the split queue section: sync engine,
    `insert_with_memory` in flight, `max_memory = Some(maxM)` -/
def fineEntry (cfg : Cfg) : Pend K V → Option (K × V × List Nat × Nat)
  | .trackMem k v rs =>
    if isAsync cfg then none
    else
      match cfg.maxMem with
      | some maxM => some (k, v, rs, maxM)
      | none => none
  | _ => none

/-- `[O acquire ; erasePush k ; M.r: map.get(k).map(size).unwrap_or(0)]`, compare with `max_memory` -/
def enterStep (size : V → Nat) (maxM : Nat) (s : State K V) (k : K) (v : V) (rs : List Nat) :
    State K V × FRes K V :=
  let s1 := { s with queue := erasePush k s.queue }
  if entrySize size k s.store > maxM then (s1, .more (.oversize k v)) else (s1, .more (.loopRead k v rs))

/-- `[M.w: map.remove(k)] ; o.pop_back() ; return` (releases `O`) -/
def oversizeStep (s : State K V) (k : K) (v : V) : State K V × FRes K V :=
  ({ s with store := eraseKey k s.store, queue := s.queue.dropLast }, .fin (.insertMem k v) .unit)

/-- `[M.r: Σ sizes]` ; `if current_mem <= max_mem { break }` -/
def loopReadStep (cfg : Cfg) (size : V → Nat) (s : State K V) (k : K) (v : V) (rs : List Nat) :
    State K V × FRes K V :=
  match cfg.maxMem with
  | none => (s, .more (.limit k v (rs.headD 0)))          -- not reachable: the loop exists only with a bound
  | some maxM =>
    if totalMem size s.store ≤ maxM then (s, .more (.limit k v (rs.headD 0)))
    else (s, .more (.loopEvict k v rs))

/-- `[M.w: evict one entry by policy]` ; `if !evicted { break }` — one `Cachelito.evictMem`, consuming one draw -/
def loopEvictStep (cfg : Cfg) (tl : Tlru S) (s : State K V) (k : K) (v : V) (rs : List Nat) :
    State K V × FRes K V :=
  let res := evictMem cfg tl s.now (rs.headD 0) s.store s.queue
  let s1 := { s with store := res.1, queue := res.2.1 }
  if res.2.2 then (s1, .more (.loopRead k v rs.tail)) else (s1, .more (.limit k v (rs.tail.headD 0)))

/-- `handle_entry_limit_eviction(&mut o)` ; `O` released -/
def limitStepF (cfg : Cfg) (tl : Tlru S) (s : State K V) (k : K) (v : V) (r : Nat) : State K V × FRes K V :=
  let res := limitStep cfg tl s.now r s.store s.queue
  ({ s with store := res.1, queue := res.2 }, .fin (.insertMem k v) .unit)

/-- one micro-step of the fine model -/
def microF (cfg : Cfg) (tl : Tlru S) (size : V → Nat) (s : State K V) (op : Op K V) (rs : List Nat) :
    Option (FPend K V) → State K V × FRes K V
  | none => liftStep (micro false cfg tl size s op rs none)
  | some (.base p) =>
    match fineEntry cfg p with
    | some (k, v, rs', maxM) => enterStep size maxM s k v rs'
    | none => liftStep (micro false cfg tl size s op rs (some p))
  | some (.oversize k v) => oversizeStep s k v
  | some (.loopRead k v rs') => loopReadStep cfg size s k v rs'
  | some (.loopEvict k v rs') => loopEvictStep cfg tl s k v rs'
  | some (.limit k v r) => limitStepF cfg tl s k v r

/-- the local state is inside a queue-mutex section that spans several micro-steps -/
def holdsO : Option (FPend K V) → Bool
  | some (.oversize _ _) => true
  | some (.loopRead _ _ _) => true
  | some (.loopEvict _ _ _) => true
  | some (.limit _ _ _) => true
  | _ => false

/-- the next micro-step (operation `op`, local state given) runs inside the queue mutex `O`.
    Continuations: all but `bump` (`[M.w]` only).  First micro-steps: async `insert` / `insert_with_memory`
    (whole body in `O`), `clear` (both engines), the sync conditional invalidation; the others are
    store-only (`[M.r]` / shard lookup, sync `[M.w: put]`, async key collection) or lock-free (`tick`). -/
def needsO (cfg : Cfg) (op : Op K V) : Option (FPend K V) → Bool
  | none =>
    match op with
    | .get _ => false
    | .insert _ _ => isAsync cfg
    | .insertMem _ _ => isAsync cfg
    | .clear => true
    | .invalidateWith _ => !isAsync cfg
    | .tick _ => false
  | some (.base (.bump _ _)) => false
  | some _ => true

/-- A thread of the fine model. -/
structure FThread (K V : Type) where
  prog : List (Op K V × List Nat)
  pend : Option (FPend K V)
  done : List (Op K V × Out V)

/-- state of the fine interleaving model -/
structure FState (K V : Type) where
  shared : State K V
  threads : List (FThread K V)

def FThread.start (prog : List (Op K V × List Nat)) : FThread K V := ⟨prog, none, []⟩

def FState.start (s : State K V) (progs : List (List (Op K V × List Nat))) : FState K V :=
  ⟨s, progs.map FThread.start⟩

def FState.init (progs : List (List (Op K V × List Nat))) : FState K V := FState.start State.init progs

/-- a thread / state of the coarse model seen as one of the fine model -/
def embedT (t : Thread K V) : FThread K V := ⟨t.prog, t.pend.map FPend.base, t.done⟩
def embed (c : CState K V) : FState K V := ⟨c.shared, c.threads.map embedT⟩

/-- no thread other than `i` is inside a multi-step queue-mutex section -/
def othersFree (ts : List (FThread K V)) (i : Nat) : Bool := (ts.eraseIdx i).all (fun t => !holdsO t.pend)

/-- The next micro-step of thread `i`; `none` when there is no such thread, it has finished, or it is
    BLOCKED: its next micro-step needs the queue mutex and another thread holds it. -/
def cstepFine (cfg : Cfg) (tl : Tlru S) (size : V → Nat) (c : FState K V) (i : ThreadId) : Option (FState K V) :=
  match c.threads[i]? with
  | none => none
  | some t =>
    match t.prog with
    | [] => none
    | (op, rs) :: rest =>
      if needsO cfg op t.pend && !othersFree c.threads i then none
      else
        match microF cfg tl size c.shared op rs t.pend with
        | (s', .more p) => some ⟨s', c.threads.set i { t with pend := some p }⟩
        | (s', .fin op' o) => some ⟨s', c.threads.set i { prog := rest, pend := none, done := t.done ++ [(op', o)] }⟩

/-- run a schedule; entries naming a finished, non-existent or blocked thread are skipped -/
def crunFine (cfg : Cfg) (tl : Tlru S) (size : V → Nat) : List ThreadId → FState K V → FState K V
  | [], c => c
  | i :: sch, c =>
    match cstepFine cfg tl size c i with
    | none => crunFine cfg tl size sch c
    | some c' => crunFine cfg tl size sch c'

/-- strict replay of a recorded schedule: `none` as soon as an entry names a thread that cannot step.
    Recording rule on top of `ConcData`'s: inside the queue section of the sync `insert_with_memory` emit the
    thread id at EVERY nested store-lock acquisition (yield points 1017–1024) and at the limit step. -/
def creplayFine (cfg : Cfg) (tl : Tlru S) (size : V → Nat) : List ThreadId → FState K V → Option (FState K V)
  | [], c => some c
  | i :: sch, c =>
    match cstepFine cfg tl size c i with
    | none => none
    | some c' => creplayFine cfg tl size sch c'

/-- no thread is in the middle of an operation -/
def QuiescentF (c : FState K V) : Prop := ∀ t, t ∈ c.threads → t.pend = none

/-- every thread has run its whole program -/
def AllDoneF (c : FState K V) : Prop := ∀ t, t ∈ c.threads → t.prog = []

def quiescentFB (c : FState K V) : Bool := c.threads.all (fun t => t.pend.isNone)
def allDoneFB (c : FState K V) : Bool := c.threads.all (fun t => t.prog.isEmpty)

/-- keys collected from the local states of all threads -/
def keysBy (g : Option (FPend K V) → List K) (ts : List (FThread K V)) : List K := ts.flatMap (fun t => g t.pend)

/-- own in-flight key: written to the store, NOT yet pushed to the queue (the thread is between the store
    write and the acquisition of `O`) -/
def fkeys (p : Option (FPend K V)) : List K := ownKeys (coarseOf p)

/-- key of a thread inside the split queue section (its key has been pushed; `O` is held) -/
def hkeys : Option (FPend K V) → List K
  | some (.oversize k _) => [k]
  | some (.loopRead k _ _) => [k]
  | some (.loopEvict k _ _) => [k]
  | some (.limit k _ _) => [k]
  | _ => []

/-- keys written to the store whose queue section has not STARTED yet -/
def pendKeysF (ts : List (FThread K V)) : List K := keysBy fkeys ts

/-- keys of the threads that are inside the split queue section (at most one, `holder_unique`) -/
def holdKeys (ts : List (FThread K V)) : List K := keysBy hkeys ts

end Cachelito.ConcDataFine
