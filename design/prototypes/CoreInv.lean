namespace P
variable {K V : Type} [DecidableEq K]

structure Entry (V : Type) where
  val : V
  birth : Nat
  hits : Nat

abbrev Map (K V : Type) := List (K × Entry V)

def mlookup (m : Map K V) (k : K) : Option (Entry V) := (m.find? (·.1 == k)).map (·.2)
def merase (m : Map K V) (k : K) : Map K V := m.filter (·.1 != k)
def mput (m : Map K V) (k : K) (e : Entry V) : Map K V := (k, e) :: merase m k
def mkeys (m : Map K V) : List K := m.map (·.1)

structure St (K V : Type) where
  map : Map K V
  order : List K

def Inv (s : St K V) : Prop :=
  (mkeys s.map).Nodup ∧ s.order.Nodup ∧ ∀ k, k ∈ s.order ↔ k ∈ mkeys s.map

/-- FIFO/LRU eviction: pop from the front until a key present in the map is found. -/
def evictFront (m : Map K V) : List K → Map K V × List K
  | [] => (m, [])
  | k :: ks => if (mlookup m k).isSome then (merase m k, ks) else evictFront m ks

def insertFifo (limit : Option Nat) (s : St K V) (k : K) (v : V) (now : Nat) : St K V :=
  let m1 := mput s.map k ⟨v, now, 0⟩
  let o1 := s.order.filter (· != k) ++ [k]
  match limit with
  | some n => if o1.length > n then let (m2, o2) := evictFront m1 o1; ⟨m2, o2⟩ else ⟨m1, o1⟩
  | none => ⟨m1, o1⟩

@[simp] theorem mkeys_merase (m : Map K V) (k : K) : mkeys (merase m k) = (mkeys m).filter (· != k) := by
  induction m with
  | nil => rfl
  | cons a m ih =>
    simp only [merase, mkeys, List.filter_cons, List.map_cons] at *
    by_cases h : a.1 = k <;> simp [h, ih]

theorem mem_mkeys_iff_lookup (m : Map K V) (k : K) : k ∈ mkeys m ↔ (mlookup m k).isSome := by
  induction m with
  | nil => simp [mkeys, mlookup]
  | cons a m ih =>
    simp only [mkeys, mlookup, List.map_cons, List.mem_cons, List.find?_cons] at *
    by_cases h : a.1 = k
    · simp [h]
    · have : (a.1 == k) = false := by simp [h]
      simp [this, ih, Ne.symm h]

theorem inv_put_push (s : St K V) (k : K) (e : Entry V) (h : Inv s) :
    Inv ⟨mput s.map k e, s.order.filter (· != k) ++ [k]⟩ := by
  obtain ⟨h1, h2, h3⟩ := h
  refine ⟨?_, ?_, ?_⟩
  · simp only [mput, mkeys, List.map_cons]
    have := mkeys_merase s.map k
    simp only [mkeys] at this
    rw [this]
    refine List.nodup_cons.mpr ⟨by simp, List.Pairwise.filter _ h1⟩
  · rw [List.nodup_append]
    refine ⟨List.Pairwise.filter _ h2, by simp, ?_⟩
    intro a ha b hb
    simp at ha hb
    intro hab; subst hb; exact ha.2 hab
  · intro x
    simp only [mput, mkeys, List.map_cons, List.mem_append, List.mem_filter, List.mem_cons, List.mem_singleton]
    have := mkeys_merase s.map k
    simp only [mkeys] at this
    rw [this]
    simp only [List.mem_filter]
    have := h3 x
    simp only [mkeys] at this
    by_cases hx : x = k <;> simp [hx, this]

end P
