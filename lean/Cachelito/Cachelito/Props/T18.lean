/-
  T18 — TRANSLATOR TIE, cachelito-async-macros/src/lib.rs: the wrapper `#[cache_async]` generates (C01, C03, C09, C10, C11, C19, C20)

  `checklib/rust2lean.py` EVALUATES the `let` statements of the proc-macro function `cache_async` that build the wrapper
  (`invalidation_check`, `insert_call` via `generate_insert_call`, `cache_insert`, `cache_logic` via
  `generate_cache_logic_block`) for each of the 16 configurations (max_memory present x Result return type x invalidate_on
  present x cache_if present), checks that `AsyncGlobalCache::new` receives every attribute value in the parameter of the
  same name, replaces `(async #block).await` — the only await — by the body's value, and translates the resulting Rust block
  (`Generated/PureWrapAsync.lean`, 16 definitions, regenerated from /repo's CURRENT source on every check).

  Part (a): in EVERY configuration the generated async wrapper is the generic wrapper `T17.wrapGen` over the translated async
  engine, with the ASYNC store rule: `cache_if` alone decides when present (an `Err` it accepts IS stored); without it a
  Result function stores only an `Ok`; a plain function always stores.  Part (b): the model's `callFn` for `isAsync` IS that
  generic wrapper over the model's engine.  Part (c): the generic wrapper over the TRANSLATED async engine (T07 / T10 / T16)
  returns what `callFn` returns and leaves the cache in the state `callFn` leaves — with and without `max_memory`.
  Part (d): the two phases a suspended call consists of (C20): `lookup` and `store` compose to the wrapper.
-/
import Cachelito.Generated.PureWrapAsync
import Cachelito.Props.T17
import Cachelito.Props.T16
import Cachelito.Props.T10
import Cachelito.Props.T07

set_option linter.unusedSimpArgs false
set_option linter.unusedVariables false
set_option linter.unusedSectionVars false

namespace Cachelito.T18
open Cachelito Cachelito.RustLite Cachelito.Generated Cachelito.Generated.WrapAsync Cachelito.T17

variable {K V F E T C : Type} [DecidableEq K]

/-- the async wrapper's default for a `Result` function without `cache_if`: only an `Ok` reaches the store -/
def okOnly (store : C → K → Except E T → C) : C → K → Except E T → C :=
  fun c k v => if isOk v then store c k v else c

/-! ## (a) every configuration is `wrapGen` over the async engine -/

theorem wrapAsync_0000_eq (A : F64 F) (clock : Clock) (size : V → Nat) (fuel : Nat) (rs : List Nat) (io ci : K → V → Bool)
    (c : AsyncCache K V F) (key : K) (body : V) :
    wrapAsync_0000 A clock size fuel rs io ci c key body =
      wrapGen ⟨fun c k => Async.get clock c k, fun c k v => Async.insert A clock (headRand rs) c k v⟩ false false io ci c key body := by
  unfold wrapAsync_0000 wrapGen
  cases h : (Async.get clock c key).1 <;> simp [h]

theorem wrapAsync_0001_eq (A : F64 F) (clock : Clock) (size : V → Nat) (fuel : Nat) (rs : List Nat) (io ci : K → V → Bool)
    (c : AsyncCache K V F) (key : K) (body : V) :
    wrapAsync_0001 A clock size fuel rs io ci c key body =
      wrapGen ⟨fun c k => Async.get clock c k, fun c k v => Async.insert A clock (headRand rs) c k v⟩ false true io ci c key body := by
  unfold wrapAsync_0001 wrapGen
  cases h : (Async.get clock c key).1 <;> simp [h]

theorem wrapAsync_0010_eq (A : F64 F) (clock : Clock) (size : V → Nat) (fuel : Nat) (rs : List Nat) (io ci : K → V → Bool)
    (c : AsyncCache K V F) (key : K) (body : V) :
    wrapAsync_0010 A clock size fuel rs io ci c key body =
      wrapGen ⟨fun c k => Async.get clock c k, fun c k v => Async.insert A clock (headRand rs) c k v⟩ true false io ci c key body := by
  unfold wrapAsync_0010 wrapGen
  cases h : (Async.get clock c key).1 <;> simp [h]

theorem wrapAsync_0011_eq (A : F64 F) (clock : Clock) (size : V → Nat) (fuel : Nat) (rs : List Nat) (io ci : K → V → Bool)
    (c : AsyncCache K V F) (key : K) (body : V) :
    wrapAsync_0011 A clock size fuel rs io ci c key body =
      wrapGen ⟨fun c k => Async.get clock c k, fun c k v => Async.insert A clock (headRand rs) c k v⟩ true true io ci c key body := by
  unfold wrapAsync_0011 wrapGen
  cases h : (Async.get clock c key).1 <;> simp [h]

theorem wrapAsync_0100_eq (A : F64 F) (clock : Clock) (size : (Except E T) → Nat) (fuel : Nat) (rs : List Nat) (io ci : K → (Except E T) → Bool)
    (c : AsyncCache K (Except E T) F) (key : K) (body : (Except E T)) :
    wrapAsync_0100 A clock size fuel rs io ci c key body =
      wrapGen ⟨fun c k => Async.get clock c k, okOnly (fun c k v => Async.insert A clock (headRand rs) c k v)⟩ false false io ci c key body := by
  unfold wrapAsync_0100 wrapGen okOnly
  cases h : (Async.get clock c key).1 <;> simp [h]

theorem wrapAsync_0101_eq (A : F64 F) (clock : Clock) (size : (Except E T) → Nat) (fuel : Nat) (rs : List Nat) (io ci : K → (Except E T) → Bool)
    (c : AsyncCache K (Except E T) F) (key : K) (body : (Except E T)) :
    wrapAsync_0101 A clock size fuel rs io ci c key body =
      wrapGen ⟨fun c k => Async.get clock c k, fun c k v => Async.insert A clock (headRand rs) c k v⟩ false true io ci c key body := by
  unfold wrapAsync_0101 wrapGen
  cases h : (Async.get clock c key).1 <;> simp [h]

theorem wrapAsync_0110_eq (A : F64 F) (clock : Clock) (size : (Except E T) → Nat) (fuel : Nat) (rs : List Nat) (io ci : K → (Except E T) → Bool)
    (c : AsyncCache K (Except E T) F) (key : K) (body : (Except E T)) :
    wrapAsync_0110 A clock size fuel rs io ci c key body =
      wrapGen ⟨fun c k => Async.get clock c k, okOnly (fun c k v => Async.insert A clock (headRand rs) c k v)⟩ true false io ci c key body := by
  unfold wrapAsync_0110 wrapGen okOnly
  cases h : (Async.get clock c key).1 <;> simp [h]

theorem wrapAsync_0111_eq (A : F64 F) (clock : Clock) (size : (Except E T) → Nat) (fuel : Nat) (rs : List Nat) (io ci : K → (Except E T) → Bool)
    (c : AsyncCache K (Except E T) F) (key : K) (body : (Except E T)) :
    wrapAsync_0111 A clock size fuel rs io ci c key body =
      wrapGen ⟨fun c k => Async.get clock c k, fun c k v => Async.insert A clock (headRand rs) c k v⟩ true true io ci c key body := by
  unfold wrapAsync_0111 wrapGen
  cases h : (Async.get clock c key).1 <;> simp [h]

theorem wrapAsync_1000_eq (A : F64 F) (clock : Clock) (size : V → Nat) (fuel : Nat) (rs : List Nat) (io ci : K → V → Bool)
    (c : AsyncCache K V F) (key : K) (body : V) :
    wrapAsync_1000 A clock size fuel rs io ci c key body =
      wrapGen ⟨fun c k => Async.get clock c k, fun c k v => Async.insert_with_memory A clock size fuel rs c k v⟩ false false io ci c key body := by
  unfold wrapAsync_1000 wrapGen
  cases h : (Async.get clock c key).1 <;> simp [h]

theorem wrapAsync_1001_eq (A : F64 F) (clock : Clock) (size : V → Nat) (fuel : Nat) (rs : List Nat) (io ci : K → V → Bool)
    (c : AsyncCache K V F) (key : K) (body : V) :
    wrapAsync_1001 A clock size fuel rs io ci c key body =
      wrapGen ⟨fun c k => Async.get clock c k, fun c k v => Async.insert_with_memory A clock size fuel rs c k v⟩ false true io ci c key body := by
  unfold wrapAsync_1001 wrapGen
  cases h : (Async.get clock c key).1 <;> simp [h]

theorem wrapAsync_1010_eq (A : F64 F) (clock : Clock) (size : V → Nat) (fuel : Nat) (rs : List Nat) (io ci : K → V → Bool)
    (c : AsyncCache K V F) (key : K) (body : V) :
    wrapAsync_1010 A clock size fuel rs io ci c key body =
      wrapGen ⟨fun c k => Async.get clock c k, fun c k v => Async.insert_with_memory A clock size fuel rs c k v⟩ true false io ci c key body := by
  unfold wrapAsync_1010 wrapGen
  cases h : (Async.get clock c key).1 <;> simp [h]

theorem wrapAsync_1011_eq (A : F64 F) (clock : Clock) (size : V → Nat) (fuel : Nat) (rs : List Nat) (io ci : K → V → Bool)
    (c : AsyncCache K V F) (key : K) (body : V) :
    wrapAsync_1011 A clock size fuel rs io ci c key body =
      wrapGen ⟨fun c k => Async.get clock c k, fun c k v => Async.insert_with_memory A clock size fuel rs c k v⟩ true true io ci c key body := by
  unfold wrapAsync_1011 wrapGen
  cases h : (Async.get clock c key).1 <;> simp [h]

theorem wrapAsync_1100_eq (A : F64 F) (clock : Clock) (size : (Except E T) → Nat) (fuel : Nat) (rs : List Nat) (io ci : K → (Except E T) → Bool)
    (c : AsyncCache K (Except E T) F) (key : K) (body : (Except E T)) :
    wrapAsync_1100 A clock size fuel rs io ci c key body =
      wrapGen ⟨fun c k => Async.get clock c k, okOnly (fun c k v => Async.insert_with_memory A clock size fuel rs c k v)⟩ false false io ci c key body := by
  unfold wrapAsync_1100 wrapGen okOnly
  cases h : (Async.get clock c key).1 <;> simp [h]

theorem wrapAsync_1101_eq (A : F64 F) (clock : Clock) (size : (Except E T) → Nat) (fuel : Nat) (rs : List Nat) (io ci : K → (Except E T) → Bool)
    (c : AsyncCache K (Except E T) F) (key : K) (body : (Except E T)) :
    wrapAsync_1101 A clock size fuel rs io ci c key body =
      wrapGen ⟨fun c k => Async.get clock c k, fun c k v => Async.insert_with_memory A clock size fuel rs c k v⟩ false true io ci c key body := by
  unfold wrapAsync_1101 wrapGen
  cases h : (Async.get clock c key).1 <;> simp [h]

theorem wrapAsync_1110_eq (A : F64 F) (clock : Clock) (size : (Except E T) → Nat) (fuel : Nat) (rs : List Nat) (io ci : K → (Except E T) → Bool)
    (c : AsyncCache K (Except E T) F) (key : K) (body : (Except E T)) :
    wrapAsync_1110 A clock size fuel rs io ci c key body =
      wrapGen ⟨fun c k => Async.get clock c k, okOnly (fun c k v => Async.insert_with_memory A clock size fuel rs c k v)⟩ true false io ci c key body := by
  unfold wrapAsync_1110 wrapGen okOnly
  cases h : (Async.get clock c key).1 <;> simp [h]

theorem wrapAsync_1111_eq (A : F64 F) (clock : Clock) (size : (Except E T) → Nat) (fuel : Nat) (rs : List Nat) (io ci : K → (Except E T) → Bool)
    (c : AsyncCache K (Except E T) F) (key : K) (body : (Except E T)) :
    wrapAsync_1111 A clock size fuel rs io ci c key body =
      wrapGen ⟨fun c k => Async.get clock c k, fun c k v => Async.insert_with_memory A clock size fuel rs c k v⟩ true true io ci c key body := by
  unfold wrapAsync_1111 wrapGen
  cases h : (Async.get clock c key).1 <;> simp [h]

/-! ## (b) down to the model: `callFn` for `#[cache_async]` -/

/-- the model's engine operations for an ASYNC function specification -/
def modelOpsA (spec : FnSpec) (tl : Tlru F) (size : V → Nat) (isOk : V → Bool) (rs : List Nat) :
    EngineOps (State K V) K V where
  get s k := ((Cachelito.get spec.cfg s k).2, (Cachelito.get spec.cfg s k).1)
  store s k v :=
    if (if spec.hasCacheIf then true else (if spec.isResult then isOk v else true)) then
      (if spec.useMem then insertMem spec.cfg tl size rs s k v else insert spec.cfg tl (rs.headD 0) s k v)
    else s

/-- **the model's `callFn` (async functions) is the generic wrapper over the model's engine** -/
theorem callFn_eq_wrapGen_async (spec : FnSpec) (hs : spec.isAsync = true) (tl : Tlru F) (size : V → Nat) (isOk : V → Bool)
    (rs : List Nat) (s : State K V) (c : CallIn K V) :
    ((callFn spec tl size isOk rs s c).2.1, (callFn spec tl size isOk rs s c).1) =
      wrapGen (modelOpsA spec tl size isOk rs) spec.hasInvalidateOn spec.hasCacheIf c.invalidateOn c.cacheIf s c.key c.bodyVal := by
  unfold callFn wrapGen modelOpsA shouldStore
  simp only [hs]
  cases hg : (Cachelito.get spec.cfg s c.key).2 <;> cases hinv : spec.hasInvalidateOn <;> cases hci : spec.hasCacheIf <;>
    cases hres : spec.isResult <;> cases hci2 : c.cacheIf c.key c.bodyVal <;> cases hok : isOk c.bodyVal <;>
    simp [hg, hinv, hci, hres, hci2, hok] <;>
    (first | done | (split <;> simp_all))

/-! ## (c) the generated async wrapper IS `callFn` -/

/-- a lookup raises no hit counter by more than one (every flavour) -/
theorem get_hits_le' (cfg : Cfg) (s : State K V) (k : K) (p : K × Entry V)
    (h : p ∈ (Cachelito.get cfg s k).1.store) : ∃ p0, p0 ∈ s.store ∧ p.2.hits ≤ p0.2.hits + 1 := by
  unfold Cachelito.get at h
  cases hl : lookup k s.store with
  | none => simp [hl] at h; exact ⟨p, h, by omega⟩
  | some e =>
    simp only [hl] at h
    by_cases hx : expired cfg s.now e = true
    · simp only [hx, if_true] at h
      have hsub : p ∈ s.store := by
        cases hfl : cfg.flavour <;> simp [removeBoth, hfl, eraseKey] at h <;> exact h.1
      exact ⟨p, hsub, by omega⟩
    · simp only [hx] at h
      have h' : p ∈ (if cfg.policy.bumps then bumpHits k s.store else s.store) := by
        cases hfl : cfg.flavour <;> simp [hitUpdate, hfl] at h <;> exact h
      by_cases hb : cfg.policy.bumps = true
      · simp [hb] at h'; exact mem_bumpHits k _ p h'
      · simp [hb] at h'; exact ⟨p, h', by omega⟩

/-- what relates an `AsyncGlobalCache` to a model state -/
def RelA (cfg : Cfg) (fw : Option F) (now : Nat) (c : AsyncCache K V F) (s : State K V) : Prop :=
  T06.cfgOf c = cfg ∧ c.frequency_weight = fw ∧ c.cache = s.store ∧ c.order = s.queue ∧ s.now = now ∧
  c.stats.hits = s.hitStat ∧ c.stats.misses = s.missStat

/-- the async `get` simulates the model's `get` -/
theorem async_get_sim (cfg : Cfg) (fw : Option F) (now : Nat) (k : K) (c : AsyncCache K V F) (s : State K V)
    (hr : RelA cfg fw now c s) (hh : ∀ p, p ∈ c.cache → p.2.hits + 1 < u64Max) :
    (Async.get ⟨fun _ => 0, now⟩ c k).1 = (Cachelito.get cfg s k).2 ∧
    RelA cfg fw now (Async.get ⟨fun _ => 0, now⟩ c k).2 (Cachelito.get cfg s k).1 ∧
    ∀ p, p ∈ (Async.get ⟨fun _ => 0, now⟩ c k).2.cache → p.2.hits < u64Max := by
  obtain ⟨h1, h2, h3, h4, h5, h6, h7⟩ := hr
  have hs : s = ⟨c.cache, c.order, now, c.stats.hits, c.stats.misses⟩ := by
    cases s; simp_all
  have hg := T10.get_eq c now k (fun p hp => by have := hh p hp; omega)
  rw [h1, ← hs] at hg
  rw [hg]
  refine ⟨rfl, ⟨by simpa [T06.cfgOf] using h1, h2, rfl, rfl, ?_, rfl, rfl⟩, ?_⟩
  · unfold Cachelito.get
    cases lookup k s.store <;> simp [h5]
    split <;> simp [h5]
  · intro p hp
    obtain ⟨p0, hp0, hle⟩ := get_hits_le' cfg s k p hp
    have := hh p0 (by rw [h3]; exact hp0)
    omega

/-- the assumptions on the float structure (DESIGN.md §9) for an async configuration -/
structure FloatOKA (A : F64 F) (cfg : Cfg) (fw : Option F) : Prop where
  arcBelowMax : ∀ a b, A.lt (A.mul (A.ofNat a) (A.ofNat b)) A.maxVal = true
  arcOrder : ∀ a b c d, A.lt (A.mul (A.ofNat a) (A.ofNat b)) (A.mul (A.ofNat c) (A.ofNat d)) = decide (a * b < c * d)
  tlruBelowMax : ∀ hits el rk, A.lt ((T06.srcTlruAsync A fw).score cfg hits el rk) A.maxVal = true

/-- the async plain `insert` simulates the model's `insert` -/
theorem async_insert_sim (A : F64 F) (cfg : Cfg) (fw : Option F) (now r : Nat) (k : K) (v : V)
    (c : AsyncCache K V F) (s : State K V) (hr : RelA cfg fw now c s) (hh : ∀ p, p ∈ c.cache → p.2.hits < u64Max)
    (fok : FloatOKA A cfg fw) :
    RelA cfg fw now (Async.insert A ⟨fun _ => 0, now⟩ r c k v) (Cachelito.insert cfg (T06.srcTlruAsync A fw) r s k v) := by
  obtain ⟨h1, h2, h3, h4, h5, h6, h7⟩ := hr
  have hs : s = ⟨c.cache, c.order, now, c.stats.hits, c.stats.misses⟩ := by
    cases s; simp_all
  have ok : T07.ScoresOK A c := ⟨hh, fok.arcBelowMax, fok.arcOrder, by rw [h1, h2]; exact fok.tlruBelowMax⟩
  have hi := T07.insert_eq A c now r c.stats.hits c.stats.misses k v ok
  rw [h1, h2, ← hs] at hi
  rw [hi]
  obtain ⟨f1, f2, f3⟩ := insert_frame cfg (T06.srcTlruAsync A fw) r s k v
  exact ⟨by simpa [T06.cfgOf] using h1, rfl, rfl, rfl, by rw [f1, h5], by rw [f2]; exact h6, by rw [f3]; exact h7⟩

theorem insertMem_frame (cfg : Cfg) (tl : Tlru F) (size : V → Nat) (rs : List Nat) (s : State K V) (k : K) (v : V) :
    (Cachelito.insertMem cfg tl size rs s k v).now = s.now ∧ (Cachelito.insertMem cfg tl size rs s k v).hitStat = s.hitStat ∧
    (Cachelito.insertMem cfg tl size rs s k v).missStat = s.missStat := by
  unfold Cachelito.insertMem
  cases cfg.flavour <;> cases cfg.maxMem <;> simp <;> split <;> simp

/-- the fuel the model's memory loop uses (one more than the queue length after the key's old slot was dropped) -/
def memFuel (c : AsyncCache K V F) (k : K) : Nat :=
  (if hasKey k c.cache then c.order.filter (fun x => x ≠ k) else c.order).length + 1

/-- the loop of the reference function touches only store and queue -/
theorem refLoop_frame (c : AsyncCache K V F) (cfg : Cfg) (tl : Tlru F) (size : V → Nat) (now maxM extra fuel : Nat)
    (st : T16.LoopSt K V F)
    (h : st.1.limit = c.limit ∧ st.1.max_memory = c.max_memory ∧ st.1.policy = c.policy ∧ st.1.ttl = c.ttl ∧
      st.1.frequency_weight = c.frequency_weight ∧ st.1.stats = c.stats) :
    (loopFuel fuel st (T16.memBody cfg tl size now maxM extra)).1.limit = c.limit ∧
    (loopFuel fuel st (T16.memBody cfg tl size now maxM extra)).1.max_memory = c.max_memory ∧
    (loopFuel fuel st (T16.memBody cfg tl size now maxM extra)).1.policy = c.policy ∧
    (loopFuel fuel st (T16.memBody cfg tl size now maxM extra)).1.ttl = c.ttl ∧
    (loopFuel fuel st (T16.memBody cfg tl size now maxM extra)).1.frequency_weight = c.frequency_weight ∧
    (loopFuel fuel st (T16.memBody cfg tl size now maxM extra)).1.stats = c.stats :=
  T14.loopFuel_inv (fun st : T16.LoopSt K V F => st.1.limit = c.limit ∧ st.1.max_memory = c.max_memory ∧ st.1.policy = c.policy ∧
      st.1.ttl = c.ttl ∧ st.1.frequency_weight = c.frequency_weight ∧ st.1.stats = c.stats)
    (fun s hs => by
      unfold T16.memBody
      split
      · exact hs
      · exact hs) fuel st h

/-- `insert_with_memory` of the async engine leaves configuration and counters alone -/
theorem refInsertMem_frame (A : F64 F) (size : V → Nat) (fuel : Nat) (rs : List Nat) (c : AsyncCache K V F) (now : Nat)
    (k : K) (v : V) :
    (T16.refInsertMem A size fuel rs c now k v).limit = c.limit ∧ (T16.refInsertMem A size fuel rs c now k v).max_memory = c.max_memory ∧
    (T16.refInsertMem A size fuel rs c now k v).policy = c.policy ∧ (T16.refInsertMem A size fuel rs c now k v).ttl = c.ttl ∧
    (T16.refInsertMem A size fuel rs c now k v).frequency_weight = c.frequency_weight ∧
    (T16.refInsertMem A size fuel rs c now k v).stats = c.stats := by
  obtain ⟨cache, order, limit, mm, policy, ttl, fw, st⟩ := c
  unfold T16.refInsertMem
  cases mm with
  | none => simp
  | some maxM =>
    simp only []
    by_cases hov : size v > maxM
    · simp [hov]
    · simp only [hov, if_false]
      exact refLoop_frame (c := ⟨cache, order, limit, some maxM, policy, ttl, fw, st⟩) _ _ size now maxM (size v) fuel
        _ ⟨rfl, rfl, rfl, rfl, rfl, rfl⟩

/-- the async `insert_with_memory` simulates the model's `insertMem` (with the model's fuel) -/
theorem async_insertMem_sim (A : F64 F) (cfg : Cfg) (fw : Option F) (now : Nat) (rs : List Nat) (size : V → Nat) (k : K) (v : V)
    (c : AsyncCache K V F) (s : State K V) (hr : RelA cfg fw now c s) (hh : ∀ p, p ∈ c.cache → p.2.hits < u64Max)
    (fok : FloatOKA A cfg fw) :
    RelA cfg fw now (Async.insert_with_memory A ⟨fun _ => 0, now⟩ size (memFuel c k) rs c k v)
      (Cachelito.insertMem cfg (T06.srcTlruAsync A fw) size rs s k v) := by
  obtain ⟨h1, h2, h3, h4, h5, h6, h7⟩ := hr
  have hs : s = ⟨c.cache, c.order, now, c.stats.hits, c.stats.misses⟩ := by
    cases s; simp_all
  have ok : T07.ScoresOK A c := ⟨hh, fok.arcBelowMax, fok.arcOrder, by rw [h1, h2]; exact fok.tlruBelowMax⟩
  obtain ⟨m1, m2⟩ := T16.insert_with_memory_model A c size now c.stats.hits c.stats.misses rs k v ok
  rw [h1, h2, ← hs] at m1 m2
  have hfr := refInsertMem_frame A size (memFuel c k) rs c now k v
  rw [← T16.insert_with_memory_eq A c size now (memFuel c k) rs k v ok] at hfr
  obtain ⟨g1, g2, g3, g4, g5, g6⟩ := hfr
  obtain ⟨f1, f2, f3⟩ := insertMem_frame cfg (T06.srcTlruAsync A fw) size rs s k v
  unfold memFuel at *
  refine ⟨?_, by rw [g5]; exact h2, m1, m2, by rw [f1, h5], by rw [f2, g6]; exact h6, by rw [f3, g6]; exact h7⟩
  simp only [T06.cfgOf] at h1 ⊢
  rw [g1, g2, g3, g4]; exact h1

/-- the general step: whatever store variant the configuration selects, if it simulates the model's store rule
    (`modelOpsA`) on the state the lookup leaves, the generic wrapper over the translated async engine is `callFn` -/
theorem async_wrapper_is_callFn_of_store (A : F64 F) (spec : FnSpec) (hs : spec.isAsync = true) (fw : Option F) (now : Nat)
    (rs : List Nat) (io cif : K → V → Bool) (size : V → Nat) (isOk : V → Bool)
    (store : AsyncCache K V F → K → V → AsyncCache K V F)
    (c0 : AsyncCache K V F) (s : State K V) (key : K) (body : V)
    (hr : RelA spec.cfg fw now c0 s) (hh : ∀ p, p ∈ c0.cache → p.2.hits + 1 < u64Max)
    (hstore : ∀ c s', RelA spec.cfg fw now c s' → (∀ p, p ∈ c.cache → p.2.hits < u64Max) →
        c = (Async.get ⟨fun _ => 0, now⟩ c0 key).2 →
        RelA spec.cfg fw now (store c key body) ((modelOpsA spec (T06.srcTlruAsync A fw) size isOk rs).store s' key body)) :
    (wrapGen ⟨fun c k => Async.get ⟨fun _ => 0, now⟩ c k, store⟩ spec.hasInvalidateOn spec.hasCacheIf io cif c0 key body).1 =
      (callFn spec (T06.srcTlruAsync A fw) size isOk rs s ⟨key, body, cif, io⟩).2.1 ∧
    RelA spec.cfg fw now
      (wrapGen ⟨fun c k => Async.get ⟨fun _ => 0, now⟩ c k, store⟩ spec.hasInvalidateOn spec.hasCacheIf io cif c0 key body).2
      (callFn spec (T06.srcTlruAsync A fw) size isOk rs s ⟨key, body, cif, io⟩).1 := by
  have hm := callFn_eq_wrapGen_async (K := K) spec hs (T06.srcTlruAsync A fw) size isOk rs s ⟨key, body, cif, io⟩
  have hsim := wrapGen_sim
    (fun c s => (RelA spec.cfg fw now c s ∧ ∀ p, p ∈ c.cache → p.2.hits + 1 < u64Max) ∧ c = c0)
    (fun c s => (RelA spec.cfg fw now c s ∧ ∀ p, p ∈ c.cache → p.2.hits < u64Max) ∧ c = (Async.get ⟨fun _ => 0, now⟩ c0 key).2)
    (fun c s => RelA spec.cfg fw now c s)
    ⟨fun c k => Async.get ⟨fun _ => 0, now⟩ c k, store⟩
    (modelOpsA spec (T06.srcTlruAsync A fw) size isOk rs)
    spec.hasInvalidateOn spec.hasCacheIf io cif key body
    (fun c s h => by
      obtain ⟨g1, g2, g3⟩ := async_get_sim spec.cfg fw now key c s h.1.1 h.1.2
      exact ⟨g1, ⟨g2, g3⟩, by rw [h.2]⟩)
    (fun c s h => hstore c s h.1.1 h.1.2 h.2)
    (fun c s h => h.1.1) c0 s ⟨⟨hr, hh⟩, rfl⟩
  simp only [] at hm
  rw [← hm] at hsim
  exact hsim

/-! ### the eight store variants (max_memory x Result x cache_if), `invalidate_on` a parameter -/

/-- `#[cache_async]` on a plain function, without `cache_if`: the generic wrapper over the TRANSLATED async engine returns what the model's `callFn` returns and leaves the cache in the state `callFn` leaves -/
theorem async_plain_wrapper_is_callFn (A : F64 F) (cfg : Cfg) (fw : Option F) (now : Nat) (rs : List Nat)
    (inv : Bool) (io cif : K → V → Bool) (size : V → Nat) (isOk : V → Bool)
    (c0 : AsyncCache K (V) F) (s : State K (V)) (key : K) (body : V)
    (hr : RelA cfg fw now c0 s) (hh : ∀ p, p ∈ c0.cache → p.2.hits + 1 < u64Max) (fok : FloatOKA A cfg fw) :
    (wrapGen ⟨fun c k => Async.get ⟨fun _ => 0, now⟩ c k, fun c k v => Async.insert A ⟨fun _ => 0, now⟩ (headRand rs) c k v⟩ inv false io cif c0 key body).1 =
      (callFn ⟨"f", true, false, cfg, false, false, false, inv, [], [], []⟩ (T06.srcTlruAsync A fw) size isOk rs s ⟨key, body, cif, io⟩).2.1 ∧
    RelA cfg fw now
      (wrapGen ⟨fun c k => Async.get ⟨fun _ => 0, now⟩ c k, fun c k v => Async.insert A ⟨fun _ => 0, now⟩ (headRand rs) c k v⟩ inv false io cif c0 key body).2
      (callFn ⟨"f", true, false, cfg, false, false, false, inv, [], [], []⟩ (T06.srcTlruAsync A fw) size isOk rs s ⟨key, body, cif, io⟩).1 :=
  async_wrapper_is_callFn_of_store A ⟨"f", true, false, cfg, false, false, false, inv, [], [], []⟩ rfl fw now rs io cif size isOk _ c0 s key body hr hh
    (fun c s' h1 h2 h3 => by
      simp only [modelOpsA, headRand, if_true, Bool.false_eq_true, if_false]
      exact (async_insert_sim A cfg fw now _ key body c s' h1 h2 fok))

/-- `#[cache_async]` on a plain function, with `cache_if`: the generic wrapper over the TRANSLATED async engine returns what the model's `callFn` returns and leaves the cache in the state `callFn` leaves -/
theorem async_plain_cacheif_wrapper_is_callFn (A : F64 F) (cfg : Cfg) (fw : Option F) (now : Nat) (rs : List Nat)
    (inv : Bool) (io cif : K → V → Bool) (size : V → Nat) (isOk : V → Bool)
    (c0 : AsyncCache K (V) F) (s : State K (V)) (key : K) (body : V)
    (hr : RelA cfg fw now c0 s) (hh : ∀ p, p ∈ c0.cache → p.2.hits + 1 < u64Max) (fok : FloatOKA A cfg fw) :
    (wrapGen ⟨fun c k => Async.get ⟨fun _ => 0, now⟩ c k, fun c k v => Async.insert A ⟨fun _ => 0, now⟩ (headRand rs) c k v⟩ inv true io cif c0 key body).1 =
      (callFn ⟨"f", true, false, cfg, false, false, true, inv, [], [], []⟩ (T06.srcTlruAsync A fw) size isOk rs s ⟨key, body, cif, io⟩).2.1 ∧
    RelA cfg fw now
      (wrapGen ⟨fun c k => Async.get ⟨fun _ => 0, now⟩ c k, fun c k v => Async.insert A ⟨fun _ => 0, now⟩ (headRand rs) c k v⟩ inv true io cif c0 key body).2
      (callFn ⟨"f", true, false, cfg, false, false, true, inv, [], [], []⟩ (T06.srcTlruAsync A fw) size isOk rs s ⟨key, body, cif, io⟩).1 :=
  async_wrapper_is_callFn_of_store A ⟨"f", true, false, cfg, false, false, true, inv, [], [], []⟩ rfl fw now rs io cif size isOk _ c0 s key body hr hh
    (fun c s' h1 h2 h3 => by
      simp only [modelOpsA, headRand, if_true, Bool.false_eq_true, if_false]
      exact (async_insert_sim A cfg fw now _ key body c s' h1 h2 fok))

/-- `#[cache_async]` on a `Result` function, without `cache_if`: the generic wrapper over the TRANSLATED async engine returns what the model's `callFn` returns and leaves the cache in the state `callFn` leaves; an `Err` is never stored (C09) -/
theorem async_result_wrapper_is_callFn (A : F64 F) (cfg : Cfg) (fw : Option F) (now : Nat) (rs : List Nat)
    (inv : Bool) (io cif : K → Except E T → Bool) (size : Except E T → Nat)
    (c0 : AsyncCache K (Except E T) F) (s : State K (Except E T)) (key : K) (body : Except E T)
    (hr : RelA cfg fw now c0 s) (hh : ∀ p, p ∈ c0.cache → p.2.hits + 1 < u64Max) (fok : FloatOKA A cfg fw) :
    (wrapGen ⟨fun c k => Async.get ⟨fun _ => 0, now⟩ c k, okOnly (fun c k v => Async.insert A ⟨fun _ => 0, now⟩ (headRand rs) c k v)⟩ inv false io cif c0 key body).1 =
      (callFn ⟨"f", true, false, cfg, false, true, false, inv, [], [], []⟩ (T06.srcTlruAsync A fw) size RustLite.isOk rs s ⟨key, body, cif, io⟩).2.1 ∧
    RelA cfg fw now
      (wrapGen ⟨fun c k => Async.get ⟨fun _ => 0, now⟩ c k, okOnly (fun c k v => Async.insert A ⟨fun _ => 0, now⟩ (headRand rs) c k v)⟩ inv false io cif c0 key body).2
      (callFn ⟨"f", true, false, cfg, false, true, false, inv, [], [], []⟩ (T06.srcTlruAsync A fw) size RustLite.isOk rs s ⟨key, body, cif, io⟩).1 :=
  async_wrapper_is_callFn_of_store A ⟨"f", true, false, cfg, false, true, false, inv, [], [], []⟩ rfl fw now rs io cif size RustLite.isOk _ c0 s key body hr hh
    (fun c s' h1 h2 h3 => by
      simp only [modelOpsA, okOnly, headRand]
      cases body with
      | error e => simp [RustLite.isOk]; exact h1
      | ok x =>
        simp only [RustLite.isOk, if_true, Bool.false_eq_true, if_false]
        exact (async_insert_sim A cfg fw now _ key (.ok x) c s' h1 h2 fok))

/-- `#[cache_async]` on a `Result` function, with `cache_if`: the generic wrapper over the TRANSLATED async engine returns what the model's `callFn` returns and leaves the cache in the state `callFn` leaves; `cache_if` alone decides — an accepted `Err` IS stored (observation recorded in DESIGN.md) -/
theorem async_result_cacheif_wrapper_is_callFn (A : F64 F) (cfg : Cfg) (fw : Option F) (now : Nat) (rs : List Nat)
    (inv : Bool) (io cif : K → Except E T → Bool) (size : Except E T → Nat)
    (c0 : AsyncCache K (Except E T) F) (s : State K (Except E T)) (key : K) (body : Except E T)
    (hr : RelA cfg fw now c0 s) (hh : ∀ p, p ∈ c0.cache → p.2.hits + 1 < u64Max) (fok : FloatOKA A cfg fw) :
    (wrapGen ⟨fun c k => Async.get ⟨fun _ => 0, now⟩ c k, fun c k v => Async.insert A ⟨fun _ => 0, now⟩ (headRand rs) c k v⟩ inv true io cif c0 key body).1 =
      (callFn ⟨"f", true, false, cfg, false, true, true, inv, [], [], []⟩ (T06.srcTlruAsync A fw) size RustLite.isOk rs s ⟨key, body, cif, io⟩).2.1 ∧
    RelA cfg fw now
      (wrapGen ⟨fun c k => Async.get ⟨fun _ => 0, now⟩ c k, fun c k v => Async.insert A ⟨fun _ => 0, now⟩ (headRand rs) c k v⟩ inv true io cif c0 key body).2
      (callFn ⟨"f", true, false, cfg, false, true, true, inv, [], [], []⟩ (T06.srcTlruAsync A fw) size RustLite.isOk rs s ⟨key, body, cif, io⟩).1 :=
  async_wrapper_is_callFn_of_store A ⟨"f", true, false, cfg, false, true, true, inv, [], [], []⟩ rfl fw now rs io cif size RustLite.isOk _ c0 s key body hr hh
    (fun c s' h1 h2 h3 => by
      simp only [modelOpsA, headRand, if_true, Bool.false_eq_true, if_false]
      exact (async_insert_sim A cfg fw now _ key body c s' h1 h2 fok))

/-- `#[cache_async(max_memory = …)]` on a plain function, without `cache_if`: the generic wrapper over the TRANSLATED async engine returns what the model's `callFn` returns and leaves the cache in the state `callFn` leaves (memory loop with the model's fuel) -/
theorem async_mem_plain_wrapper_is_callFn (A : F64 F) (cfg : Cfg) (fw : Option F) (now : Nat) (rs : List Nat)
    (inv : Bool) (io cif : K → V → Bool) (size : V → Nat) (isOk : V → Bool)
    (c0 : AsyncCache K (V) F) (s : State K (V)) (key : K) (body : V)
    (hr : RelA cfg fw now c0 s) (hh : ∀ p, p ∈ c0.cache → p.2.hits + 1 < u64Max) (fok : FloatOKA A cfg fw) :
    (wrapGen ⟨fun c k => Async.get ⟨fun _ => 0, now⟩ c k, fun c k v => Async.insert_with_memory A ⟨fun _ => 0, now⟩ size (memFuel (Async.get ⟨fun _ => 0, now⟩ c0 key).2 key) rs c k v⟩ inv false io cif c0 key body).1 =
      (callFn ⟨"f", true, false, cfg, true, false, false, inv, [], [], []⟩ (T06.srcTlruAsync A fw) size isOk rs s ⟨key, body, cif, io⟩).2.1 ∧
    RelA cfg fw now
      (wrapGen ⟨fun c k => Async.get ⟨fun _ => 0, now⟩ c k, fun c k v => Async.insert_with_memory A ⟨fun _ => 0, now⟩ size (memFuel (Async.get ⟨fun _ => 0, now⟩ c0 key).2 key) rs c k v⟩ inv false io cif c0 key body).2
      (callFn ⟨"f", true, false, cfg, true, false, false, inv, [], [], []⟩ (T06.srcTlruAsync A fw) size isOk rs s ⟨key, body, cif, io⟩).1 :=
  async_wrapper_is_callFn_of_store A ⟨"f", true, false, cfg, true, false, false, inv, [], [], []⟩ rfl fw now rs io cif size isOk _ c0 s key body hr hh
    (fun c s' h1 h2 h3 => by
      simp only [modelOpsA, headRand, if_true, Bool.false_eq_true, if_false]
      exact (by have := async_insertMem_sim A cfg fw now rs size key body c s' h1 h2 fok; rw [h3] at this ⊢; exact this))

/-- `#[cache_async(max_memory = …)]` on a plain function, with `cache_if`: the generic wrapper over the TRANSLATED async engine returns what the model's `callFn` returns and leaves the cache in the state `callFn` leaves (memory loop with the model's fuel) -/
theorem async_mem_plain_cacheif_wrapper_is_callFn (A : F64 F) (cfg : Cfg) (fw : Option F) (now : Nat) (rs : List Nat)
    (inv : Bool) (io cif : K → V → Bool) (size : V → Nat) (isOk : V → Bool)
    (c0 : AsyncCache K (V) F) (s : State K (V)) (key : K) (body : V)
    (hr : RelA cfg fw now c0 s) (hh : ∀ p, p ∈ c0.cache → p.2.hits + 1 < u64Max) (fok : FloatOKA A cfg fw) :
    (wrapGen ⟨fun c k => Async.get ⟨fun _ => 0, now⟩ c k, fun c k v => Async.insert_with_memory A ⟨fun _ => 0, now⟩ size (memFuel (Async.get ⟨fun _ => 0, now⟩ c0 key).2 key) rs c k v⟩ inv true io cif c0 key body).1 =
      (callFn ⟨"f", true, false, cfg, true, false, true, inv, [], [], []⟩ (T06.srcTlruAsync A fw) size isOk rs s ⟨key, body, cif, io⟩).2.1 ∧
    RelA cfg fw now
      (wrapGen ⟨fun c k => Async.get ⟨fun _ => 0, now⟩ c k, fun c k v => Async.insert_with_memory A ⟨fun _ => 0, now⟩ size (memFuel (Async.get ⟨fun _ => 0, now⟩ c0 key).2 key) rs c k v⟩ inv true io cif c0 key body).2
      (callFn ⟨"f", true, false, cfg, true, false, true, inv, [], [], []⟩ (T06.srcTlruAsync A fw) size isOk rs s ⟨key, body, cif, io⟩).1 :=
  async_wrapper_is_callFn_of_store A ⟨"f", true, false, cfg, true, false, true, inv, [], [], []⟩ rfl fw now rs io cif size isOk _ c0 s key body hr hh
    (fun c s' h1 h2 h3 => by
      simp only [modelOpsA, headRand, if_true, Bool.false_eq_true, if_false]
      exact (by have := async_insertMem_sim A cfg fw now rs size key body c s' h1 h2 fok; rw [h3] at this ⊢; exact this))

/-- `#[cache_async(max_memory = …)]` on a `Result` function, without `cache_if`: the generic wrapper over the TRANSLATED async engine returns what the model's `callFn` returns and leaves the cache in the state `callFn` leaves; an `Err` is never stored (C09) (memory loop with the model's fuel) -/
theorem async_mem_result_wrapper_is_callFn (A : F64 F) (cfg : Cfg) (fw : Option F) (now : Nat) (rs : List Nat)
    (inv : Bool) (io cif : K → Except E T → Bool) (size : Except E T → Nat)
    (c0 : AsyncCache K (Except E T) F) (s : State K (Except E T)) (key : K) (body : Except E T)
    (hr : RelA cfg fw now c0 s) (hh : ∀ p, p ∈ c0.cache → p.2.hits + 1 < u64Max) (fok : FloatOKA A cfg fw) :
    (wrapGen ⟨fun c k => Async.get ⟨fun _ => 0, now⟩ c k, okOnly (fun c k v => Async.insert_with_memory A ⟨fun _ => 0, now⟩ size (memFuel (Async.get ⟨fun _ => 0, now⟩ c0 key).2 key) rs c k v)⟩ inv false io cif c0 key body).1 =
      (callFn ⟨"f", true, false, cfg, true, true, false, inv, [], [], []⟩ (T06.srcTlruAsync A fw) size RustLite.isOk rs s ⟨key, body, cif, io⟩).2.1 ∧
    RelA cfg fw now
      (wrapGen ⟨fun c k => Async.get ⟨fun _ => 0, now⟩ c k, okOnly (fun c k v => Async.insert_with_memory A ⟨fun _ => 0, now⟩ size (memFuel (Async.get ⟨fun _ => 0, now⟩ c0 key).2 key) rs c k v)⟩ inv false io cif c0 key body).2
      (callFn ⟨"f", true, false, cfg, true, true, false, inv, [], [], []⟩ (T06.srcTlruAsync A fw) size RustLite.isOk rs s ⟨key, body, cif, io⟩).1 :=
  async_wrapper_is_callFn_of_store A ⟨"f", true, false, cfg, true, true, false, inv, [], [], []⟩ rfl fw now rs io cif size RustLite.isOk _ c0 s key body hr hh
    (fun c s' h1 h2 h3 => by
      simp only [modelOpsA, okOnly, headRand]
      cases body with
      | error e => simp [RustLite.isOk]; exact h1
      | ok x =>
        simp only [RustLite.isOk, if_true, Bool.false_eq_true, if_false]
        exact (by have := async_insertMem_sim A cfg fw now rs size key (.ok x) c s' h1 h2 fok; rw [h3] at this ⊢; exact this))

/-- `#[cache_async(max_memory = …)]` on a `Result` function, with `cache_if`: the generic wrapper over the TRANSLATED async engine returns what the model's `callFn` returns and leaves the cache in the state `callFn` leaves; `cache_if` alone decides — an accepted `Err` IS stored (observation recorded in DESIGN.md) (memory loop with the model's fuel) -/
theorem async_mem_result_cacheif_wrapper_is_callFn (A : F64 F) (cfg : Cfg) (fw : Option F) (now : Nat) (rs : List Nat)
    (inv : Bool) (io cif : K → Except E T → Bool) (size : Except E T → Nat)
    (c0 : AsyncCache K (Except E T) F) (s : State K (Except E T)) (key : K) (body : Except E T)
    (hr : RelA cfg fw now c0 s) (hh : ∀ p, p ∈ c0.cache → p.2.hits + 1 < u64Max) (fok : FloatOKA A cfg fw) :
    (wrapGen ⟨fun c k => Async.get ⟨fun _ => 0, now⟩ c k, fun c k v => Async.insert_with_memory A ⟨fun _ => 0, now⟩ size (memFuel (Async.get ⟨fun _ => 0, now⟩ c0 key).2 key) rs c k v⟩ inv true io cif c0 key body).1 =
      (callFn ⟨"f", true, false, cfg, true, true, true, inv, [], [], []⟩ (T06.srcTlruAsync A fw) size RustLite.isOk rs s ⟨key, body, cif, io⟩).2.1 ∧
    RelA cfg fw now
      (wrapGen ⟨fun c k => Async.get ⟨fun _ => 0, now⟩ c k, fun c k v => Async.insert_with_memory A ⟨fun _ => 0, now⟩ size (memFuel (Async.get ⟨fun _ => 0, now⟩ c0 key).2 key) rs c k v⟩ inv true io cif c0 key body).2
      (callFn ⟨"f", true, false, cfg, true, true, true, inv, [], [], []⟩ (T06.srcTlruAsync A fw) size RustLite.isOk rs s ⟨key, body, cif, io⟩).1 :=
  async_wrapper_is_callFn_of_store A ⟨"f", true, false, cfg, true, true, true, inv, [], [], []⟩ rfl fw now rs io cif size RustLite.isOk _ c0 s key body hr hh
    (fun c s' h1 h2 h3 => by
      simp only [modelOpsA, headRand, if_true, Bool.false_eq_true, if_false]
      exact (by have := async_insertMem_sim A cfg fw now rs size key body c s' h1 h2 fok; rw [h3] at this ⊢; exact this))


/-! ### headline: each of the 16 GENERATED async wrappers is the model's `callFn` for its configuration -/

theorem wrapAsync_0000_is_callFn (A : F64 F) (cfg : Cfg) (fw : Option F) (now : Nat) (rs : List Nat) (fuel : Nat)
    (io cif : K → V → Bool) (size : V → Nat) (isOk : V → Bool)
    (c0 : AsyncCache K (V) F) (s : State K (V)) (key : K) (body : V)
    (hr : RelA cfg fw now c0 s) (hh : ∀ p, p ∈ c0.cache → p.2.hits + 1 < u64Max) (fok : FloatOKA A cfg fw) :
    (wrapAsync_0000 A ⟨fun _ => 0, now⟩ size fuel rs io cif c0 key body).1 =
      (callFn ⟨"f", true, false, cfg, false, false, false, false, [], [], []⟩ (T06.srcTlruAsync A fw) size isOk rs s ⟨key, body, cif, io⟩).2.1 ∧
    RelA cfg fw now (wrapAsync_0000 A ⟨fun _ => 0, now⟩ size fuel rs io cif c0 key body).2
      (callFn ⟨"f", true, false, cfg, false, false, false, false, [], [], []⟩ (T06.srcTlruAsync A fw) size isOk rs s ⟨key, body, cif, io⟩).1 := by
  rw [wrapAsync_0000_eq]
  exact async_plain_wrapper_is_callFn A cfg fw now rs false io cif size isOk c0 s key body hr hh fok

theorem wrapAsync_0001_is_callFn (A : F64 F) (cfg : Cfg) (fw : Option F) (now : Nat) (rs : List Nat) (fuel : Nat)
    (io cif : K → V → Bool) (size : V → Nat) (isOk : V → Bool)
    (c0 : AsyncCache K (V) F) (s : State K (V)) (key : K) (body : V)
    (hr : RelA cfg fw now c0 s) (hh : ∀ p, p ∈ c0.cache → p.2.hits + 1 < u64Max) (fok : FloatOKA A cfg fw) :
    (wrapAsync_0001 A ⟨fun _ => 0, now⟩ size fuel rs io cif c0 key body).1 =
      (callFn ⟨"f", true, false, cfg, false, false, true, false, [], [], []⟩ (T06.srcTlruAsync A fw) size isOk rs s ⟨key, body, cif, io⟩).2.1 ∧
    RelA cfg fw now (wrapAsync_0001 A ⟨fun _ => 0, now⟩ size fuel rs io cif c0 key body).2
      (callFn ⟨"f", true, false, cfg, false, false, true, false, [], [], []⟩ (T06.srcTlruAsync A fw) size isOk rs s ⟨key, body, cif, io⟩).1 := by
  rw [wrapAsync_0001_eq]
  exact async_plain_cacheif_wrapper_is_callFn A cfg fw now rs false io cif size isOk c0 s key body hr hh fok

theorem wrapAsync_0010_is_callFn (A : F64 F) (cfg : Cfg) (fw : Option F) (now : Nat) (rs : List Nat) (fuel : Nat)
    (io cif : K → V → Bool) (size : V → Nat) (isOk : V → Bool)
    (c0 : AsyncCache K (V) F) (s : State K (V)) (key : K) (body : V)
    (hr : RelA cfg fw now c0 s) (hh : ∀ p, p ∈ c0.cache → p.2.hits + 1 < u64Max) (fok : FloatOKA A cfg fw) :
    (wrapAsync_0010 A ⟨fun _ => 0, now⟩ size fuel rs io cif c0 key body).1 =
      (callFn ⟨"f", true, false, cfg, false, false, false, true, [], [], []⟩ (T06.srcTlruAsync A fw) size isOk rs s ⟨key, body, cif, io⟩).2.1 ∧
    RelA cfg fw now (wrapAsync_0010 A ⟨fun _ => 0, now⟩ size fuel rs io cif c0 key body).2
      (callFn ⟨"f", true, false, cfg, false, false, false, true, [], [], []⟩ (T06.srcTlruAsync A fw) size isOk rs s ⟨key, body, cif, io⟩).1 := by
  rw [wrapAsync_0010_eq]
  exact async_plain_wrapper_is_callFn A cfg fw now rs true io cif size isOk c0 s key body hr hh fok

theorem wrapAsync_0011_is_callFn (A : F64 F) (cfg : Cfg) (fw : Option F) (now : Nat) (rs : List Nat) (fuel : Nat)
    (io cif : K → V → Bool) (size : V → Nat) (isOk : V → Bool)
    (c0 : AsyncCache K (V) F) (s : State K (V)) (key : K) (body : V)
    (hr : RelA cfg fw now c0 s) (hh : ∀ p, p ∈ c0.cache → p.2.hits + 1 < u64Max) (fok : FloatOKA A cfg fw) :
    (wrapAsync_0011 A ⟨fun _ => 0, now⟩ size fuel rs io cif c0 key body).1 =
      (callFn ⟨"f", true, false, cfg, false, false, true, true, [], [], []⟩ (T06.srcTlruAsync A fw) size isOk rs s ⟨key, body, cif, io⟩).2.1 ∧
    RelA cfg fw now (wrapAsync_0011 A ⟨fun _ => 0, now⟩ size fuel rs io cif c0 key body).2
      (callFn ⟨"f", true, false, cfg, false, false, true, true, [], [], []⟩ (T06.srcTlruAsync A fw) size isOk rs s ⟨key, body, cif, io⟩).1 := by
  rw [wrapAsync_0011_eq]
  exact async_plain_cacheif_wrapper_is_callFn A cfg fw now rs true io cif size isOk c0 s key body hr hh fok

theorem wrapAsync_0100_is_callFn (A : F64 F) (cfg : Cfg) (fw : Option F) (now : Nat) (rs : List Nat) (fuel : Nat)
    (io cif : K → Except E T → Bool) (size : Except E T → Nat)
    (c0 : AsyncCache K (Except E T) F) (s : State K (Except E T)) (key : K) (body : Except E T)
    (hr : RelA cfg fw now c0 s) (hh : ∀ p, p ∈ c0.cache → p.2.hits + 1 < u64Max) (fok : FloatOKA A cfg fw) :
    (wrapAsync_0100 A ⟨fun _ => 0, now⟩ size fuel rs io cif c0 key body).1 =
      (callFn ⟨"f", true, false, cfg, false, true, false, false, [], [], []⟩ (T06.srcTlruAsync A fw) size RustLite.isOk rs s ⟨key, body, cif, io⟩).2.1 ∧
    RelA cfg fw now (wrapAsync_0100 A ⟨fun _ => 0, now⟩ size fuel rs io cif c0 key body).2
      (callFn ⟨"f", true, false, cfg, false, true, false, false, [], [], []⟩ (T06.srcTlruAsync A fw) size RustLite.isOk rs s ⟨key, body, cif, io⟩).1 := by
  rw [wrapAsync_0100_eq]
  exact async_result_wrapper_is_callFn A cfg fw now rs false io cif size c0 s key body hr hh fok

theorem wrapAsync_0101_is_callFn (A : F64 F) (cfg : Cfg) (fw : Option F) (now : Nat) (rs : List Nat) (fuel : Nat)
    (io cif : K → Except E T → Bool) (size : Except E T → Nat)
    (c0 : AsyncCache K (Except E T) F) (s : State K (Except E T)) (key : K) (body : Except E T)
    (hr : RelA cfg fw now c0 s) (hh : ∀ p, p ∈ c0.cache → p.2.hits + 1 < u64Max) (fok : FloatOKA A cfg fw) :
    (wrapAsync_0101 A ⟨fun _ => 0, now⟩ size fuel rs io cif c0 key body).1 =
      (callFn ⟨"f", true, false, cfg, false, true, true, false, [], [], []⟩ (T06.srcTlruAsync A fw) size RustLite.isOk rs s ⟨key, body, cif, io⟩).2.1 ∧
    RelA cfg fw now (wrapAsync_0101 A ⟨fun _ => 0, now⟩ size fuel rs io cif c0 key body).2
      (callFn ⟨"f", true, false, cfg, false, true, true, false, [], [], []⟩ (T06.srcTlruAsync A fw) size RustLite.isOk rs s ⟨key, body, cif, io⟩).1 := by
  rw [wrapAsync_0101_eq]
  exact async_result_cacheif_wrapper_is_callFn A cfg fw now rs false io cif size c0 s key body hr hh fok

theorem wrapAsync_0110_is_callFn (A : F64 F) (cfg : Cfg) (fw : Option F) (now : Nat) (rs : List Nat) (fuel : Nat)
    (io cif : K → Except E T → Bool) (size : Except E T → Nat)
    (c0 : AsyncCache K (Except E T) F) (s : State K (Except E T)) (key : K) (body : Except E T)
    (hr : RelA cfg fw now c0 s) (hh : ∀ p, p ∈ c0.cache → p.2.hits + 1 < u64Max) (fok : FloatOKA A cfg fw) :
    (wrapAsync_0110 A ⟨fun _ => 0, now⟩ size fuel rs io cif c0 key body).1 =
      (callFn ⟨"f", true, false, cfg, false, true, false, true, [], [], []⟩ (T06.srcTlruAsync A fw) size RustLite.isOk rs s ⟨key, body, cif, io⟩).2.1 ∧
    RelA cfg fw now (wrapAsync_0110 A ⟨fun _ => 0, now⟩ size fuel rs io cif c0 key body).2
      (callFn ⟨"f", true, false, cfg, false, true, false, true, [], [], []⟩ (T06.srcTlruAsync A fw) size RustLite.isOk rs s ⟨key, body, cif, io⟩).1 := by
  rw [wrapAsync_0110_eq]
  exact async_result_wrapper_is_callFn A cfg fw now rs true io cif size c0 s key body hr hh fok

theorem wrapAsync_0111_is_callFn (A : F64 F) (cfg : Cfg) (fw : Option F) (now : Nat) (rs : List Nat) (fuel : Nat)
    (io cif : K → Except E T → Bool) (size : Except E T → Nat)
    (c0 : AsyncCache K (Except E T) F) (s : State K (Except E T)) (key : K) (body : Except E T)
    (hr : RelA cfg fw now c0 s) (hh : ∀ p, p ∈ c0.cache → p.2.hits + 1 < u64Max) (fok : FloatOKA A cfg fw) :
    (wrapAsync_0111 A ⟨fun _ => 0, now⟩ size fuel rs io cif c0 key body).1 =
      (callFn ⟨"f", true, false, cfg, false, true, true, true, [], [], []⟩ (T06.srcTlruAsync A fw) size RustLite.isOk rs s ⟨key, body, cif, io⟩).2.1 ∧
    RelA cfg fw now (wrapAsync_0111 A ⟨fun _ => 0, now⟩ size fuel rs io cif c0 key body).2
      (callFn ⟨"f", true, false, cfg, false, true, true, true, [], [], []⟩ (T06.srcTlruAsync A fw) size RustLite.isOk rs s ⟨key, body, cif, io⟩).1 := by
  rw [wrapAsync_0111_eq]
  exact async_result_cacheif_wrapper_is_callFn A cfg fw now rs true io cif size c0 s key body hr hh fok

theorem wrapAsync_1000_is_callFn (A : F64 F) (cfg : Cfg) (fw : Option F) (now : Nat) (rs : List Nat)
    (io cif : K → V → Bool) (size : V → Nat) (isOk : V → Bool)
    (c0 : AsyncCache K (V) F) (s : State K (V)) (key : K) (body : V)
    (hr : RelA cfg fw now c0 s) (hh : ∀ p, p ∈ c0.cache → p.2.hits + 1 < u64Max) (fok : FloatOKA A cfg fw) :
    (wrapAsync_1000 A ⟨fun _ => 0, now⟩ size (memFuel (Async.get ⟨fun _ => 0, now⟩ c0 key).2 key) rs io cif c0 key body).1 =
      (callFn ⟨"f", true, false, cfg, true, false, false, false, [], [], []⟩ (T06.srcTlruAsync A fw) size isOk rs s ⟨key, body, cif, io⟩).2.1 ∧
    RelA cfg fw now (wrapAsync_1000 A ⟨fun _ => 0, now⟩ size (memFuel (Async.get ⟨fun _ => 0, now⟩ c0 key).2 key) rs io cif c0 key body).2
      (callFn ⟨"f", true, false, cfg, true, false, false, false, [], [], []⟩ (T06.srcTlruAsync A fw) size isOk rs s ⟨key, body, cif, io⟩).1 := by
  rw [wrapAsync_1000_eq]
  exact async_mem_plain_wrapper_is_callFn A cfg fw now rs false io cif size isOk c0 s key body hr hh fok

theorem wrapAsync_1001_is_callFn (A : F64 F) (cfg : Cfg) (fw : Option F) (now : Nat) (rs : List Nat)
    (io cif : K → V → Bool) (size : V → Nat) (isOk : V → Bool)
    (c0 : AsyncCache K (V) F) (s : State K (V)) (key : K) (body : V)
    (hr : RelA cfg fw now c0 s) (hh : ∀ p, p ∈ c0.cache → p.2.hits + 1 < u64Max) (fok : FloatOKA A cfg fw) :
    (wrapAsync_1001 A ⟨fun _ => 0, now⟩ size (memFuel (Async.get ⟨fun _ => 0, now⟩ c0 key).2 key) rs io cif c0 key body).1 =
      (callFn ⟨"f", true, false, cfg, true, false, true, false, [], [], []⟩ (T06.srcTlruAsync A fw) size isOk rs s ⟨key, body, cif, io⟩).2.1 ∧
    RelA cfg fw now (wrapAsync_1001 A ⟨fun _ => 0, now⟩ size (memFuel (Async.get ⟨fun _ => 0, now⟩ c0 key).2 key) rs io cif c0 key body).2
      (callFn ⟨"f", true, false, cfg, true, false, true, false, [], [], []⟩ (T06.srcTlruAsync A fw) size isOk rs s ⟨key, body, cif, io⟩).1 := by
  rw [wrapAsync_1001_eq]
  exact async_mem_plain_cacheif_wrapper_is_callFn A cfg fw now rs false io cif size isOk c0 s key body hr hh fok

theorem wrapAsync_1010_is_callFn (A : F64 F) (cfg : Cfg) (fw : Option F) (now : Nat) (rs : List Nat)
    (io cif : K → V → Bool) (size : V → Nat) (isOk : V → Bool)
    (c0 : AsyncCache K (V) F) (s : State K (V)) (key : K) (body : V)
    (hr : RelA cfg fw now c0 s) (hh : ∀ p, p ∈ c0.cache → p.2.hits + 1 < u64Max) (fok : FloatOKA A cfg fw) :
    (wrapAsync_1010 A ⟨fun _ => 0, now⟩ size (memFuel (Async.get ⟨fun _ => 0, now⟩ c0 key).2 key) rs io cif c0 key body).1 =
      (callFn ⟨"f", true, false, cfg, true, false, false, true, [], [], []⟩ (T06.srcTlruAsync A fw) size isOk rs s ⟨key, body, cif, io⟩).2.1 ∧
    RelA cfg fw now (wrapAsync_1010 A ⟨fun _ => 0, now⟩ size (memFuel (Async.get ⟨fun _ => 0, now⟩ c0 key).2 key) rs io cif c0 key body).2
      (callFn ⟨"f", true, false, cfg, true, false, false, true, [], [], []⟩ (T06.srcTlruAsync A fw) size isOk rs s ⟨key, body, cif, io⟩).1 := by
  rw [wrapAsync_1010_eq]
  exact async_mem_plain_wrapper_is_callFn A cfg fw now rs true io cif size isOk c0 s key body hr hh fok

theorem wrapAsync_1011_is_callFn (A : F64 F) (cfg : Cfg) (fw : Option F) (now : Nat) (rs : List Nat)
    (io cif : K → V → Bool) (size : V → Nat) (isOk : V → Bool)
    (c0 : AsyncCache K (V) F) (s : State K (V)) (key : K) (body : V)
    (hr : RelA cfg fw now c0 s) (hh : ∀ p, p ∈ c0.cache → p.2.hits + 1 < u64Max) (fok : FloatOKA A cfg fw) :
    (wrapAsync_1011 A ⟨fun _ => 0, now⟩ size (memFuel (Async.get ⟨fun _ => 0, now⟩ c0 key).2 key) rs io cif c0 key body).1 =
      (callFn ⟨"f", true, false, cfg, true, false, true, true, [], [], []⟩ (T06.srcTlruAsync A fw) size isOk rs s ⟨key, body, cif, io⟩).2.1 ∧
    RelA cfg fw now (wrapAsync_1011 A ⟨fun _ => 0, now⟩ size (memFuel (Async.get ⟨fun _ => 0, now⟩ c0 key).2 key) rs io cif c0 key body).2
      (callFn ⟨"f", true, false, cfg, true, false, true, true, [], [], []⟩ (T06.srcTlruAsync A fw) size isOk rs s ⟨key, body, cif, io⟩).1 := by
  rw [wrapAsync_1011_eq]
  exact async_mem_plain_cacheif_wrapper_is_callFn A cfg fw now rs true io cif size isOk c0 s key body hr hh fok

theorem wrapAsync_1100_is_callFn (A : F64 F) (cfg : Cfg) (fw : Option F) (now : Nat) (rs : List Nat)
    (io cif : K → Except E T → Bool) (size : Except E T → Nat)
    (c0 : AsyncCache K (Except E T) F) (s : State K (Except E T)) (key : K) (body : Except E T)
    (hr : RelA cfg fw now c0 s) (hh : ∀ p, p ∈ c0.cache → p.2.hits + 1 < u64Max) (fok : FloatOKA A cfg fw) :
    (wrapAsync_1100 A ⟨fun _ => 0, now⟩ size (memFuel (Async.get ⟨fun _ => 0, now⟩ c0 key).2 key) rs io cif c0 key body).1 =
      (callFn ⟨"f", true, false, cfg, true, true, false, false, [], [], []⟩ (T06.srcTlruAsync A fw) size RustLite.isOk rs s ⟨key, body, cif, io⟩).2.1 ∧
    RelA cfg fw now (wrapAsync_1100 A ⟨fun _ => 0, now⟩ size (memFuel (Async.get ⟨fun _ => 0, now⟩ c0 key).2 key) rs io cif c0 key body).2
      (callFn ⟨"f", true, false, cfg, true, true, false, false, [], [], []⟩ (T06.srcTlruAsync A fw) size RustLite.isOk rs s ⟨key, body, cif, io⟩).1 := by
  rw [wrapAsync_1100_eq]
  exact async_mem_result_wrapper_is_callFn A cfg fw now rs false io cif size c0 s key body hr hh fok

theorem wrapAsync_1101_is_callFn (A : F64 F) (cfg : Cfg) (fw : Option F) (now : Nat) (rs : List Nat)
    (io cif : K → Except E T → Bool) (size : Except E T → Nat)
    (c0 : AsyncCache K (Except E T) F) (s : State K (Except E T)) (key : K) (body : Except E T)
    (hr : RelA cfg fw now c0 s) (hh : ∀ p, p ∈ c0.cache → p.2.hits + 1 < u64Max) (fok : FloatOKA A cfg fw) :
    (wrapAsync_1101 A ⟨fun _ => 0, now⟩ size (memFuel (Async.get ⟨fun _ => 0, now⟩ c0 key).2 key) rs io cif c0 key body).1 =
      (callFn ⟨"f", true, false, cfg, true, true, true, false, [], [], []⟩ (T06.srcTlruAsync A fw) size RustLite.isOk rs s ⟨key, body, cif, io⟩).2.1 ∧
    RelA cfg fw now (wrapAsync_1101 A ⟨fun _ => 0, now⟩ size (memFuel (Async.get ⟨fun _ => 0, now⟩ c0 key).2 key) rs io cif c0 key body).2
      (callFn ⟨"f", true, false, cfg, true, true, true, false, [], [], []⟩ (T06.srcTlruAsync A fw) size RustLite.isOk rs s ⟨key, body, cif, io⟩).1 := by
  rw [wrapAsync_1101_eq]
  exact async_mem_result_cacheif_wrapper_is_callFn A cfg fw now rs false io cif size c0 s key body hr hh fok

theorem wrapAsync_1110_is_callFn (A : F64 F) (cfg : Cfg) (fw : Option F) (now : Nat) (rs : List Nat)
    (io cif : K → Except E T → Bool) (size : Except E T → Nat)
    (c0 : AsyncCache K (Except E T) F) (s : State K (Except E T)) (key : K) (body : Except E T)
    (hr : RelA cfg fw now c0 s) (hh : ∀ p, p ∈ c0.cache → p.2.hits + 1 < u64Max) (fok : FloatOKA A cfg fw) :
    (wrapAsync_1110 A ⟨fun _ => 0, now⟩ size (memFuel (Async.get ⟨fun _ => 0, now⟩ c0 key).2 key) rs io cif c0 key body).1 =
      (callFn ⟨"f", true, false, cfg, true, true, false, true, [], [], []⟩ (T06.srcTlruAsync A fw) size RustLite.isOk rs s ⟨key, body, cif, io⟩).2.1 ∧
    RelA cfg fw now (wrapAsync_1110 A ⟨fun _ => 0, now⟩ size (memFuel (Async.get ⟨fun _ => 0, now⟩ c0 key).2 key) rs io cif c0 key body).2
      (callFn ⟨"f", true, false, cfg, true, true, false, true, [], [], []⟩ (T06.srcTlruAsync A fw) size RustLite.isOk rs s ⟨key, body, cif, io⟩).1 := by
  rw [wrapAsync_1110_eq]
  exact async_mem_result_wrapper_is_callFn A cfg fw now rs true io cif size c0 s key body hr hh fok

theorem wrapAsync_1111_is_callFn (A : F64 F) (cfg : Cfg) (fw : Option F) (now : Nat) (rs : List Nat)
    (io cif : K → Except E T → Bool) (size : Except E T → Nat)
    (c0 : AsyncCache K (Except E T) F) (s : State K (Except E T)) (key : K) (body : Except E T)
    (hr : RelA cfg fw now c0 s) (hh : ∀ p, p ∈ c0.cache → p.2.hits + 1 < u64Max) (fok : FloatOKA A cfg fw) :
    (wrapAsync_1111 A ⟨fun _ => 0, now⟩ size (memFuel (Async.get ⟨fun _ => 0, now⟩ c0 key).2 key) rs io cif c0 key body).1 =
      (callFn ⟨"f", true, false, cfg, true, true, true, true, [], [], []⟩ (T06.srcTlruAsync A fw) size RustLite.isOk rs s ⟨key, body, cif, io⟩).2.1 ∧
    RelA cfg fw now (wrapAsync_1111 A ⟨fun _ => 0, now⟩ size (memFuel (Async.get ⟨fun _ => 0, now⟩ c0 key).2 key) rs io cif c0 key body).2
      (callFn ⟨"f", true, false, cfg, true, true, true, true, [], [], []⟩ (T06.srcTlruAsync A fw) size RustLite.isOk rs s ⟨key, body, cif, io⟩).1 := by
  rw [wrapAsync_1111_eq]
  exact async_mem_result_cacheif_wrapper_is_callFn A cfg fw now rs true io cif size c0 s key body hr hh fok

/-! ### non-vacuity: the hypotheses are satisfiable, and the generated wrappers run -/

private def exC0 : AsyncCache String (Except String Nat) (Option Nat) := ⟨[], [], some 2, none, .lru, none, none, ⟨0, 0⟩⟩
private def exNever : String → Except String Nat → Bool := fun _ _ => false
private def exR1 := wrapAsync_0110 T02.natTop ⟨fun _ => 0, 5000⟩ (fun _ => 0) 0 [] exNever exNever exC0 "k" (.error "boom")
private def exR2 := wrapAsync_0110 T02.natTop ⟨fun _ => 0, 5000⟩ (fun _ => 0) 0 [] exNever exNever exR1.2 "k" (.ok 7)
private def exR3 := wrapAsync_0110 T02.natTop ⟨fun _ => 0, 5000⟩ (fun _ => 0) 0 [] exNever exNever exR2.2 "k" (.ok 8)

/-- a Result function without `cache_if` (configuration 0110): an `Err` is returned and NOT stored; the `Ok` of the next
    call is stored; the third call is served the stored value (its own body value 8 is not used) -/
example : exR1.2.cache.length = 0 ∧ exR1.2.order = [] ∧ exR2.2.order = ["k"] ∧ exR2.2.cache.map (·.1) = ["k"] ∧
    (match exR3.1 with | .ok n => n | .error _ => 0) = 7 ∧ exR3.2.stats.hits = 1 ∧ exR3.2.stats.misses = 2 := by
  decide

/-- with `cache_if` (configuration 0101) an accepted `Err` IS stored by the async wrapper (the sync wrapper never does, T17) -/
example : (wrapAsync_0101 T02.natTop ⟨fun _ => 0, 5000⟩ (fun _ => 0) 0 [] exNever (fun _ _ => true)
    (⟨[], [], none, none, .fifo, none, none, ⟨0, 0⟩⟩ : AsyncCache String (Except String Nat) (Option Nat)) "k" (.error "boom")).2.order = ["k"] := by
  decide

example : RelA ⟨.async, .lru, some 2, none, none⟩ (none : Option (Option Nat)) 5000
    (⟨[("a", ⟨1, 4000, 0⟩)], ["a"], some 2, none, .lru, none, none, ⟨3, 1⟩⟩ : AsyncCache String Nat (Option Nat))
    ⟨[("a", ⟨1, 4000, 0⟩)], ["a"], 5000, 3, 1⟩ := by
  simp [RelA, T06.cfgOf]

end Cachelito.T18
