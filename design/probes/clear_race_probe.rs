use cachelito::cache;
use std::sync::atomic::{AtomicBool, Ordering::SeqCst};
use std::sync::{Arc, Mutex};
#[cache(limit = 2, tags = ["t"])]
fn g(x: u64) -> u64 { x }
fn keys() -> Vec<String> {
    let v = Mutex::new(vec![]);
    cachelito::invalidate_with("g", |k| { v.lock().unwrap().push(k.to_string()); false });
    let mut v = v.into_inner().unwrap(); v.sort(); v
}
fn main() {
    let mut found = None;
    for round in 0..2000 {
        let stop = Arc::new(AtomicBool::new(false));
        let s1 = stop.clone();
        let base = round * 1000;
        let a = std::thread::spawn(move || { let mut i = 0; while !s1.load(SeqCst) && i < 200 { g(base + i); i += 1; } });
        let b = std::thread::spawn(move || { for _ in 0..50 { cachelito::invalidate_by_tag("t"); } });
        b.join().unwrap(); stop.store(true, SeqCst); a.join().unwrap();
        // quiescent: sequential probe with fresh keys
        for j in 0..4 { g(base + 500 + j); }
        let k = keys();
        if k.len() > 2 { found = Some((round, k)); break; }
    }
    match found { Some((r, k)) => println!("LIMIT VIOLATED at quiescence, round {}: {} keys {:?} (limit 2)", r, k.len(), k), None => println!("not reproduced") }
}
