/-
  Lemmas about association-list stores and queues (core Lean only).
-/
import Cachelito.Basic

set_option linter.unusedSectionVars false
set_option linter.unusedSimpArgs false

namespace Cachelito
variable {K V : Type} [DecidableEq K]

@[simp] theorem keys_nil : keys ([] : Store K V) = [] := rfl
@[simp] theorem keys_cons (p : K × Entry V) (m : Store K V) : keys (p :: m) = p.1 :: keys m := rfl
@[simp] theorem keys_append (a b : Store K V) : keys (a ++ b) = keys a ++ keys b := by
  simp [keys]

@[simp] theorem length_keys (m : Store K V) : (keys m).length = m.length := by simp [keys]

@[simp] theorem eraseKey_nil (k : K) : eraseKey k ([] : Store K V) = [] := rfl

theorem eraseKey_cons (k x : K) (e : Entry V) (m : Store K V) :
    eraseKey k ((x, e) :: m) = if x = k then eraseKey k m else (x, e) :: eraseKey k m := by
  unfold eraseKey
  by_cases h : x = k <;> simp [List.filter_cons, h]

theorem lookup_cons (k x : K) (e : Entry V) (m : Store K V) :
    lookup k ((x, e) :: m) = if x = k then some e else lookup k m := rfl

theorem modify_cons (k x : K) (f : Entry V → Entry V) (e : Entry V) (m : Store K V) :
    modify k f ((x, e) :: m) = if x = k then (x, f e) :: m else (x, e) :: modify k f m := rfl

theorem keys_eraseKey (k : K) (m : Store K V) :
    keys (eraseKey k m) = (keys m).filter (fun x => x ≠ k) := by
  induction m with
  | nil => rfl
  | cons a m ih =>
    by_cases h : a.1 = k <;> simp_all [eraseKey, keys, List.filter_cons]

theorem keys_put (k : K) (e : Entry V) (m : Store K V) :
    keys (put k e m) = (keys m).filter (fun x => x ≠ k) ++ [k] := by
  simp [put, keys_eraseKey]

theorem lookup_eq_none_iff (k : K) (m : Store K V) : lookup k m = none ↔ k ∉ keys m := by
  induction m with
  | nil => simp [lookup]
  | cons a m ih =>
    obtain ⟨k', e⟩ := a
    by_cases h : k' = k
    · simp [lookup, h]
    · simp [lookup, h, ih, Ne.symm h]

theorem hasKey_iff (k : K) (m : Store K V) : hasKey k m = true ↔ k ∈ keys m := by
  unfold hasKey
  cases h : lookup k m with
  | none => simp [(lookup_eq_none_iff k m).mp h]
  | some e =>
    simp only [Option.isSome_some, true_iff]
    apply Classical.byContradiction; intro hn
    rw [(lookup_eq_none_iff k m).mpr hn] at h; cases h

theorem hasKey_false_iff (k : K) (m : Store K V) : hasKey k m = false ↔ k ∉ keys m := by
  rw [← hasKey_iff]; simp

theorem lookup_mem {k : K} {m : Store K V} {e : Entry V} (h : lookup k m = some e) : (k, e) ∈ m := by
  induction m with
  | nil => simp [lookup] at h
  | cons a m ih =>
    obtain ⟨k', e'⟩ := a
    by_cases hk : k' = k
    · simp [lookup, hk] at h; subst hk; subst h; simp
    · simp [lookup, hk] at h; exact List.mem_cons_of_mem _ (ih h)

theorem lookup_isSome_of_mem_keys {k : K} {m : Store K V} (h : k ∈ keys m) : ∃ e, lookup k m = some e := by
  have := (hasKey_iff k m).mpr h
  unfold hasKey at this
  exact Option.isSome_iff_exists.mp this

theorem mem_lookup_of_nodup {k : K} {m : Store K V} {e : Entry V} (hn : (keys m).Nodup)
    (h : (k, e) ∈ m) : lookup k m = some e := by
  induction m with
  | nil => simp at h
  | cons a m ih =>
    obtain ⟨k', e'⟩ := a
    simp only [keys_cons, List.nodup_cons] at hn
    rcases List.mem_cons.mp h with h | h
    · cases h; simp [lookup]
    · have : k ∈ keys m := by simp only [keys, List.mem_map]; exact ⟨(k, e), h, rfl⟩
      have hne : k' ≠ k := fun hh => hn.1 (hh ▸ this)
      simp [lookup, hne, ih hn.2 h]

theorem lookup_eraseKey_self (k : K) (m : Store K V) : lookup k (eraseKey k m) = none := by
  rw [lookup_eq_none_iff, keys_eraseKey]; simp

theorem lookup_eraseKey_ne {k k' : K} (h : k' ≠ k) (m : Store K V) :
    lookup k' (eraseKey k m) = lookup k' m := by
  induction m with
  | nil => rfl
  | cons a m ih =>
    obtain ⟨x, e⟩ := a
    rw [eraseKey_cons, lookup_cons]
    by_cases hx : x = k
    · have hx' : ¬ x = k' := fun hh => h (hh ▸ hx)
      rw [if_pos hx, if_neg hx']; exact ih
    · rw [if_neg hx, lookup_cons]
      by_cases hx' : x = k'
      · rw [if_pos hx', if_pos hx']
      · rw [if_neg hx', if_neg hx']; exact ih

theorem lookup_append (k : K) (a b : Store K V) :
    lookup k (a ++ b) = (lookup k a).orElse (fun _ => lookup k b) := by
  induction a with
  | nil => simp [lookup]
  | cons p a ih =>
    obtain ⟨x, e⟩ := p
    by_cases hx : x = k <;> simp [lookup, hx, ih]

theorem lookup_put_self (k : K) (e : Entry V) (m : Store K V) : lookup k (put k e m) = some e := by
  simp [put, lookup_append, lookup_eraseKey_self, lookup]

theorem lookup_put_ne {k k' : K} (h : k' ≠ k) (e : Entry V) (m : Store K V) :
    lookup k' (put k e m) = lookup k' m := by
  have h2 : ¬ k = k' := fun hh => h hh.symm
  simp only [put, lookup_append, lookup_eraseKey_ne h, lookup, h2, if_false]
  cases lookup k' m <;> simp

theorem keys_modify (k : K) (f : Entry V → Entry V) (m : Store K V) : keys (modify k f m) = keys m := by
  induction m with
  | nil => rfl
  | cons a m ih =>
    obtain ⟨x, e⟩ := a
    by_cases hx : x = k <;> simp [modify, hx, ih]

@[simp] theorem keys_bumpHits (k : K) (m : Store K V) : keys (bumpHits k m) = keys m := keys_modify _ _ _

@[simp] theorem length_modify (k : K) (f : Entry V → Entry V) (m : Store K V) :
    (modify k f m).length = m.length := by
  rw [← length_keys, keys_modify, length_keys]

theorem lookup_modify_self (k : K) (f : Entry V → Entry V) (m : Store K V) :
    lookup k (modify k f m) = (lookup k m).map f := by
  induction m with
  | nil => rfl
  | cons a m ih =>
    obtain ⟨x, e⟩ := a
    by_cases hx : x = k <;> simp [modify, lookup, hx, ih]

theorem lookup_modify_ne {k k' : K} (h : k' ≠ k) (f : Entry V → Entry V) (m : Store K V) :
    lookup k' (modify k f m) = lookup k' m := by
  induction m with
  | nil => rfl
  | cons a m ih =>
    obtain ⟨x, e⟩ := a
    rw [modify_cons, lookup_cons]
    by_cases hx : x = k
    · have hx' : ¬ x = k' := fun hh => h (hh ▸ hx)
      rw [if_pos hx, lookup_cons, if_neg hx', if_neg hx']
    · rw [if_neg hx, lookup_cons]
      by_cases hx' : x = k'
      · rw [if_pos hx', if_pos hx']
      · rw [if_neg hx', if_neg hx']; exact ih

/-- values are never changed by `modify` when `f` keeps `val` -/
theorem lookup_modify_val (k k' : K) (f : Entry V → Entry V) (hf : ∀ e, (f e).val = e.val) (m : Store K V) :
    (lookup k' (modify k f m)).map (·.val) = (lookup k' m).map (·.val) := by
  by_cases h : k' = k
  · subst h; rw [lookup_modify_self]; cases lookup k' m <;> simp [hf]
  · rw [lookup_modify_ne h]

theorem nodup_keys_eraseKey {m : Store K V} (h : (keys m).Nodup) (k : K) : (keys (eraseKey k m)).Nodup := by
  rw [keys_eraseKey]; exact List.Pairwise.filter _ h

theorem nodup_keys_put {m : Store K V} (h : (keys m).Nodup) (k : K) (e : Entry V) : (keys (put k e m)).Nodup := by
  rw [keys_put, List.nodup_append]
  refine ⟨List.Pairwise.filter _ h, by simp, ?_⟩
  intro a ha b hb
  simp at ha hb
  subst hb; exact ha.2

theorem eraseKey_of_not_mem {m : Store K V} {k : K} (hk : k ∉ keys m) : eraseKey k m = m := by
  induction m with
  | nil => rfl
  | cons a m ih =>
    obtain ⟨x, e⟩ := a
    simp only [keys_cons, List.mem_cons, not_or] at hk
    rw [eraseKey_cons, if_neg (fun hh => hk.1 hh.symm), ih hk.2]

theorem length_eraseKey_of_mem {m : Store K V} (hn : (keys m).Nodup) {k : K} (hk : k ∈ keys m) :
    (eraseKey k m).length + 1 = m.length := by
  induction m with
  | nil => simp at hk
  | cons a m ih =>
    obtain ⟨x, e⟩ := a
    simp only [keys_cons, List.nodup_cons] at hn
    simp only [keys_cons, List.mem_cons] at hk
    rw [eraseKey_cons]
    by_cases h : x = k
    · have hnot : k ∉ keys m := h ▸ hn.1
      rw [if_pos h, eraseKey_of_not_mem hnot]; rfl
    · have hk' : k ∈ keys m := by
        rcases hk with hk | hk
        · exact absurd hk.symm h
        · exact hk
      have := ih hn.2 hk'
      rw [if_neg h]; simp only [List.length_cons]; omega

theorem length_eraseKey_le (k : K) (m : Store K V) : (eraseKey k m).length ≤ m.length :=
  List.length_filter_le _ _

/-! queues -/

theorem mem_moveToEnd {k x : K} {q : List K} : x ∈ moveToEnd k q ↔ x ∈ q := by
  unfold moveToEnd
  split
  · rename_i h
    simp only [List.mem_append, List.mem_singleton]
    constructor
    · rintro (h1 | h1)
      · exact List.mem_of_mem_erase h1
      · exact h1 ▸ h
    · intro hx
      by_cases hxk : x = k
      · right; exact hxk
      · left; exact (List.mem_erase_of_ne hxk).mpr hx
  · rfl

theorem nodup_erase_append {q : List K} (h : q.Nodup) (k : K) : (q.erase k ++ [k]).Nodup := by
  rw [List.nodup_append]
  refine ⟨h.sublist List.erase_sublist, by simp, ?_⟩
  intro a ha b hb
  simp at hb; subst hb
  intro hab; subst hab
  exact (List.Nodup.mem_erase_iff h).mp ha |>.1 rfl

theorem nodup_moveToEnd {k : K} {q : List K} (h : q.Nodup) : (moveToEnd k q).Nodup := by
  unfold moveToEnd
  split
  · exact nodup_erase_append h k
  · exact h

theorem mem_erasePush {k x : K} {q : List K} : x ∈ erasePush k q ↔ x ∈ q ∨ x = k := by
  unfold erasePush
  simp only [List.mem_append, List.mem_singleton]
  constructor
  · rintro (h | h)
    · left; exact List.mem_of_mem_erase h
    · right; exact h
  · rintro (h | h)
    · by_cases hxk : x = k
      · right; exact hxk
      · left; exact (List.mem_erase_of_ne hxk).mpr h
    · right; exact h

theorem erase_eq_filter_of_nodup {q : List K} (h : q.Nodup) (k : K) : q.erase k = q.filter (fun x => x ≠ k) := by
  induction q with
  | nil => rfl
  | cons a q ih =>
    simp only [List.nodup_cons] at h
    by_cases hak : a = k
    · subst hak
      simp only [List.erase_cons_head, List.filter_cons, ne_eq, not_true_eq_false, decide_false]
      symm; apply List.filter_eq_self.mpr
      intro x hx; simp; intro hh; exact h.1 (hh ▸ hx)
    · have : (a == k) = false := by simp [hak]
      simp [List.erase_cons, this, hak, ih h.2]

theorem nodup_retainPush {k : K} {q : List K} (h : q.Nodup) : (retainPush k q).Nodup := by
  unfold retainPush
  rw [List.nodup_append]
  refine ⟨List.Pairwise.filter _ h, by simp, ?_⟩
  intro a ha b hb
  simp at ha hb
  subst hb; exact ha.2

theorem mem_retainPush {k x : K} {q : List K} : x ∈ retainPush k q ↔ x ∈ q ∨ x = k := by
  unfold retainPush
  simp only [List.mem_append, List.mem_filter, List.mem_singleton]
  constructor
  · rintro (h | h)
    · left; exact h.1
    · right; exact h
  · rintro (h | h)
    · by_cases hxk : x = k
      · right; exact hxk
      · left; exact ⟨h, by simp [hxk]⟩
    · right; exact h

/-- two duplicate-free lists with the same members have the same length -/
theorem length_eq_of_nodup_of_mem_iff {a b : List K} (ha : a.Nodup) (hb : b.Nodup)
    (h : ∀ x, x ∈ a ↔ x ∈ b) : a.length = b.length :=
  ((List.perm_ext_iff_of_nodup ha hb).mpr h).length_eq

end Cachelito
