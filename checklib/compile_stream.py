"""C19 (iii): the REAL macros on invalid and valid attribute lists, through rustc: one example file per case in
harness/cf/examples, one `cargo check --examples --keep-going`; every invalid case must fail to compile, every
valid control must compile."""
import os, re, subprocess, shutil
import common

CF = os.path.join(common.HARNESS, "cf")

INVALID = [
    ("unknown_attribute", "cache", 'foo = 1'),
    ("typo_limit", "cache", 'limt = 2'),
    ("typo_tags", "cache_async", 'tag = ["a"]'),
    ("bad_policy", "cache", 'policy = "mru"'),
    ("bad_policy_kind", "cache_async", 'policy = 3'),
    ("bad_scope", "cache", 'scope = "process"'),
    ("async_scope", "cache_async", 'scope = "thread"'),
    ("negative_limit", "cache", 'limit = -1'),
    ("string_limit", "cache_async", 'limit = "3"'),
    ("float_ttl", "cache", 'ttl = 1.5'),
    ("bad_unit", "cache", 'max_memory = "12XB"'),
    ("unit_only", "cache_async", 'max_memory = "MB"'),
    ("fractional_size", "cache", 'max_memory = "1.5MB"'),
    ("bool_size", "cache", 'max_memory = true'),
    ("zero_weight", "cache", 'policy = "tlru", frequency_weight = 0.0'),
    ("negative_weight", "cache_async", 'policy = "tlru", frequency_weight = -1.0'),
    ("repeated_invalid_limit", "cache", 'limit = "x", limit = 2'),
    ("repeated_invalid_ttl", "cache_async", 'ttl = nonsense(), ttl = 5'),
    ("overflowing_size", "cache", 'max_memory = "17179869184GB"'),
    ("tags_not_array", "cache", 'tags = "a"'),
    ("tag_not_string", "cache", 'tags = [1]'),
    ("cache_if_not_path", "cache", 'cache_if = "f"'),
]
VALID = [
    ("v_empty", "cache", ''),
    ("v_full_sync", "cache", 'limit = 2, policy = "tlru", ttl = 3, max_memory = "1kb", frequency_weight = 2, scope = "thread", name = "n1", tags = ["a"], events = ["e"], dependencies = ["d"]'),
    ("v_full_async", "cache_async", 'limit = 1, policy = "arc", ttl = 1, max_memory = 4096, name = "n2", tags = ["a", "b"]'),
    ("v_repeated_valid", "cache", 'limit = 5, limit = 2'),
    ("v_units", "cache_async", 'max_memory = "2GB"'),
]


def source(kind, attrs):
    if kind == "cache":
        return f"use cachelito::cache;\n#[cache({attrs})]\nfn f(x: u32) -> u32 {{ x + 1 }}\nfn main() {{ let _ = f(1); }}\n" if attrs else \
               "use cachelito::cache;\n#[cache]\nfn f(x: u32) -> u32 { x + 1 }\nfn main() { let _ = f(1); }\n"
    return f"use cachelito_async::cache_async;\n#[cache_async({attrs})]\nasync fn f(x: u32) -> u32 {{ x + 1 }}\nfn main() {{ let _ = f(1); }}\n"


def run_compile_stream(prop, stream, tier, seed, workdir, scale=1):
    ex = os.path.join(CF, "examples")
    shutil.rmtree(ex, ignore_errors=True)
    os.makedirs(ex)
    cases = [(n, k, a, False) for n, k, a in INVALID] + [(n, k, a, True) for n, k, a in VALID]
    for n, k, a, _ in cases:
        open(os.path.join(ex, n + ".rs"), "w").write(source(k, a))
    shutil.copy(os.path.join(common.ROOT, "harness", "Cargo.lock"), os.path.join(CF, "Cargo.lock"))
    env = dict(common.ENV, CARGO_TARGET_DIR=os.path.join(common.HARNESS, "target", "cf"))
    p = subprocess.run(["cargo", "check", "--offline", "--examples", "--keep-going", "--message-format", "short"], cwd=CF, env=env,
                       stdout=subprocess.PIPE, stderr=subprocess.STDOUT, text=True, timeout=1800)
    failed = set(re.findall(r'could not compile `verif-cf` \(example "([^"]+)"\)', p.stdout))
    acc = {"steps": len(cases), "events": {"invalid-lists-compiled": len(INVALID), "valid-lists-compiled": len(VALID)}, "configs": set(),
           "by_flavour_policy": {}, "nontrivial": set(), "samples": []}
    verdicts = []
    if "error: no example target" in p.stdout or ("Finished" not in p.stdout and not failed):
        verdicts.append({"kind": "BAD", "id": None, "episode": 0, "step": 0, "text": "cargo check of the compile corpus did not run: " + p.stdout[-400:]})
    for n, k, a, valid in cases:
        acc["nontrivial"].add(hash(n))
        if len(acc["samples"]) < 3 and not valid:
            acc["samples"].append(f"#[{k}({a})] must not compile")
        rp = [f"# compile case {n}", f"#[{k}({a})]"]
        if valid and n in failed:
            verdicts.append({"kind": "MON", "id": "C19", "episode": 0, "step": 0, "raw": rp,
                             "text": f"MON C19 :: the valid attribute list #[{k}({a})] does not compile"})
        if (not valid) and n not in failed:
            verdicts.append({"kind": "MON", "id": "C19", "episode": 0, "step": 0, "raw": rp,
                             "text": f"MON C19 :: the invalid attribute list #[{k}({a})] was accepted by the compiler (case {n}) instead of being rejected at compile time"})
    return {"episodes": len(cases), "corpus_episodes": 0, "acc": acc, "verdicts": verdicts, "model_runs": 0}
